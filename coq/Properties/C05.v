(* C05 -- Core-language programs behave as the reference semantics says.
   Statements only; proofs in RefineProps.v.

   The evaluator model Machine.v (one `step` = one iteration of the loop in
   eval.rs `eval`; tied to the Rust by differential execution, tools/props/C05.py,
   C06.py) REFINES the independent big-step reference semantics Ref.v, for ALL
   programs of the fragment below, all fuels, all continuations / value stacks
   / callers.

   THE FRAGMENT (Refine.frag / in_fragment) is the whole modelled core
   language -- integer and string literals, variables, parentheses, all binary
   operators, list and tuple literals, let, assignment, += / -=, if / else,
   while, for, break, continue, return, function literals (closures), calls of
   closures, named functions, the builtins println / print / string_repr and
   enum constructors, match -- EXCEPT:
     - `break` / `continue` must be in statement position: reached from the
       body of their loop only through the blocks of if / else / match cases and
       parentheses, never inside an operand, condition, right-hand side,
       argument, list item or scrutinee.  (There the interpreter leaves the
       partial results of the enclosing expression on the value stack -- a
       genuine defect of eval_break / eval_continue, reported, not fixed:
       `[while True { [if c { break } else { 2 }, 1] }, 5]` gives [Unit, 1].)
     - integer literals are 64-bit (what the parser produces);
     - expression forms outside the model (EUnsupported) are excluded.
   Programs must carry the parser's value_is_used annotation (Refine.wa,
   mirroring parser.rs set_is_used_block / set_is_used_expr; for parentheses
   the rule of the fix "a parenthesized expression in statement position no
   longer leaves its value on the value stack").  Values in the initial
   environment must be well formed (64-bit integers; closures carrying
   fragment bodies): prog_good / env_good, preserved by evaluation
   (fragment_invariants).

   The theorems are named _partial because of the fragment restrictions above
   and because Ref.v's OutOfFuel / Unsupp answers are not related to anything
   (divergence is not covered).  What is outside is covered by differential
   testing of the real interpreter against the extracted Ref.v. *)
From Coq Require Import ZArith NArith Bool List.
From Garden Require Import Base.Int64 Arith ArithSpec gen.Tables Machine Ref Refine RefineProps.
Import ListNotations.
Open Scope Z_scope.

(* Expression-level simulation, normal completion: if the reference evaluates
   e from s to the value v and state s', then from ANY machine state whose
   current frame is about to evaluate e (continuation t below it, any value
   stack, any callers) with the same scopes and the same output so far, the
   machine reaches -- in finitely many steps, none of which fails -- the state
   in which e has been consumed, v has been pushed iff e's value is used, the
   binding blocks are the scopes of s' and the output is that of s'. *)
Theorem exec_refines_eval_partial : forall p fuel s e v s' brk cnt,
  prog_good p = true -> eval p fuel s e = (Ok v, s') ->
  frag brk cnt e = true -> wa e = true -> env_good (scopes s) = true -> scopes s <> [] ->
  forall st f rest t,
    stack st = f :: rest -> todo f = (SNot, e) :: t -> blocks f = scopes s -> nextb f = [] ->
    out st = printed s -> interrupted st = false -> tick_limit st = None -> stack_limit st = None ->
  exists n st',
    run_steps p n st = Some st' /\
    stack st' = mkFrame t (if eused e then v :: vals f else vals f) (scopes s') [] (uses f) :: rest /\
    out st' = printed s' /\ interrupted st' = false /\ tick_limit st' = None /\ stack_limit st' = None.
Proof. exact RefineProps.exec_refines_eval_partial. Qed.
Print Assumptions exec_refines_eval_partial.

(* ... runtime errors: if the reference raises an error, the machine reaches,
   after finitely many successful steps, a step that fails with a Garden
   exception (EvalError::Exception), having printed the same output. *)
Theorem exec_refines_eval_error_partial : forall p fuel s e k s' brk cnt,
  prog_good p = true -> eval p fuel s e = (Ctl (CErr k), s') ->
  frag brk cnt e = true -> wa e = true -> env_good (scopes s) = true -> scopes s <> [] ->
  forall st f rest t,
    stack st = f :: rest -> todo f = (SNot, e) :: t -> blocks f = scopes s -> nextb f = [] ->
    out st = printed s -> interrupted st = false -> tick_limit st = None -> stack_limit st = None ->
  exists n st1 er st2,
    run_steps p n st = Some st1 /\ step p st1 = Failed er st2 /\ ekind_of er = KException /\ out st2 = printed s'.
Proof. exact RefineProps.exec_refines_eval_error_partial. Qed.
Print Assumptions exec_refines_eval_error_partial.

(* Whole programs (`garden run`): when the reference interpreter ends with a
   value, the machine run from the initial state ends with THE SAME value and
   the same printed output; when it ends with a runtime error, the machine run
   fails with a Garden exception after printing the same output. *)
Theorem machine_refines_ref_partial : forall p fuel exprs r s',
  prog_good p = true ->
  forallb in_fragment exprs = true -> well_annotated_toplevel exprs = true ->
  ref_run p fuel exprs = (r, s') ->
  match r with
  | Ok v => exists n st', run p n (init_state exprs None None) = RDone v st' /\ out st' = printed s'
  | Ctl (CErr _) => exists n er st', run p n (init_state exprs None None) = RFailed er st' /\
                                     ekind_of er = KException /\ out st' = printed s'
  | _ => True
  end.
Proof. exact RefineProps.machine_refines_ref_partial. Qed.
Print Assumptions machine_refines_ref_partial.

(* The side conditions are invariants of the reference semantics on the
   fragment: scope depth is preserved, environments and results stay well
   formed, break / continue escape only where the fragment allows. *)
Theorem fragment_invariants : forall p, prog_good p = true -> forall fuel s e r s' brk cnt,
  eval p fuel s e = (r, s') -> frag brk cnt e = true -> wa e = true -> env_good (scopes s) = true ->
  match r with
  | Ok v => (length (scopes s') = length (scopes s) /\ env_good (scopes s') = true) /\ vgood v = true
  | Ctl (CReturn v) => (length (scopes s') = length (scopes s) /\ env_good (scopes s') = true) /\ vgood v = true
  | Ctl CBreak => (length (scopes s') = length (scopes s) /\ env_good (scopes s') = true) /\ brk = true
  | Ctl CContinue => (length (scopes s') = length (scopes s) /\ env_good (scopes s') = true) /\ cnt = true
  | _ => True
  end.
Proof. exact RefineProps.eval_good. Qed.
Print Assumptions fragment_invariants.

(* ---- well_annotated: examples -------------------------------------------- *)
Definition mt (u : bool) : meta := {| used := u; pstart := 0; pend := 0 |}.

(* `if c { 1  2 } else { 3 }` in a used position: 1 unused, 2 and 3 used *)
Example wa_accepts :
  wa (EIf (mt true) (EVar (mt true) 5%N) [EInt (mt false) 1; EInt (mt true) 2] (Some [EInt (mt true) 3])) = true.
Proof. reflexivity. Qed.
Print Assumptions wa_accepts.

(* the same with the first statement of the block marked used: rejected *)
Example wa_rejects_used_statement :
  wa (EIf (mt true) (EVar (mt true) 5%N) [EInt (mt true) 1; EInt (mt true) 2] (Some [EInt (mt true) 3])) = false.
Proof. reflexivity. Qed.
Print Assumptions wa_rejects_used_statement.

(* an if without else never uses its branch values; loop bodies are unused *)
Example wa_if_without_else :
  wa (EIf (mt true) (EVar (mt true) 5%N) [EInt (mt false) 1] None) = true /\
  wa (EIf (mt true) (EVar (mt true) 5%N) [EInt (mt true) 1] None) = false /\
  wa (EWhile (mt true) (EVar (mt true) 5%N) [EInt (mt false) 1]) = true /\
  wa (EWhile (mt true) (EVar (mt true) 5%N) [EInt (mt true) 1]) = false.
Proof. repeat split; reflexivity. Qed.
Print Assumptions wa_if_without_else.

(* parentheses: the inner flag follows the outer one (the parser before the
   fix produced the second shape for `(7)` in statement position) *)
Example wa_parens :
  wa (EParen (mt false) (EInt (mt false) 7)) = true /\ wa (EParen (mt false) (EInt (mt true) 7)) = false.
Proof. split; reflexivity. Qed.
Print Assumptions wa_parens.

(* break in an operand position is outside the fragment, in statement position inside *)
Example fragment_break_position :
  in_fragment (EWhile (mt true) (EVar (mt true) 5%N)
                 [EIf (mt false) (EVar (mt true) 5%N) [EBreak (mt false)] None]) = true /\
  in_fragment (EWhile (mt true) (EVar (mt true) 5%N)
                 [EList (mt false) [EIf (mt true) (EVar (mt true) 5%N) [EBreak (mt true)] (Some [EInt (mt true) 2]);
                                    EInt (mt true) 1]]) = false.
Proof. split; reflexivity. Qed.
Print Assumptions fragment_break_position.

(* ---- non-vacuity ----------------------------------------------------------- *)
(* let x = 0  let i = 0
   while i < 5 { i += 1  if i == 3 { continue }  if i == 5 { break }  x = x + i }
   let f = fun(y) { return y * 2 }
   for y in [1, 2] { println(string_repr(f(y + x))) }
   match Some(x) { Some(z) => z + 1  None => 0 }
   -- prints 16 and 18, evaluates to 8; both sides computed, they agree. *)
Definition ty_opt : ident := 9%N.
Definition ex_p : prog :=
  {| globals := [(20%N, VBuiltin BiPrintln); (21%N, VBuiltin BiStringRepr);
                 (22%N, VCtor ty_opt 0 [83; 111; 109; 101]%N); (23%N, VEnum ty_opt 1 [78; 111; 110; 101]%N None)];
     funs := [] |}.
Definition v (x : N) : expr := EVar (mt true) x.
Definition i (z : Z) : expr := EInt (mt true) z.
Definition ex_exprs : list expr :=
  [ ELet (mt true) 10%N (i 0);
    ELet (mt true) 11%N (i 0);
    EWhile (mt true) (EBin (mt true) (BInt OLt) (v 11) (i 5))
      [ EUpd (mt false) UAdd 11%N (0, 0)%N (i 1);
        EIf (mt false) (EBin (mt true) BEq (v 11) (i 3)) [EContinue (mt false)] None;
        EIf (mt false) (EBin (mt true) BEq (v 11) (i 5)) [EBreak (mt false)] None;
        EAssign (mt false) 10%N (0, 0)%N (EBin (mt true) (BInt OAdd) (v 10) (v 11)) ];
    ELet (mt true) 12%N (EFun (mt true) [13%N] [EReturn (mt true) (Some (EBin (mt true) (BInt OMul) (v 13) (i 2)))]);
    EFor (mt true) 13%N (EList (mt true) [i 1; i 2])
      [ ECall (mt false) (v 20) [ECall (mt true) (v 21) [ECall (mt true) (v 12) [EBin (mt true) (BInt OAdd) (v 13) (v 10)]]] ];
    EMatch (mt true) (ECall (mt true) (v 22) [v 10])
      [ (22%N, (0, 0)%N, Some 14%N, [EBin (mt true) (BInt OAdd) (v 14) (i 1)]);
        (23%N, (0, 0)%N, None, [i 0]) ] ].

Example refinement_example :
  prog_good ex_p = true /\ forallb in_fragment ex_exprs = true /\ well_annotated_toplevel ex_exprs = true /\
  match ref_run ex_p 50 ex_exprs, run ex_p 1000 (init_state ex_exprs None None) with
  | (Ok rv, s'), RDone mv st =>
      rv = VInt 8 /\ mv = rv /\ out st = printed s' /\ printed s' = [[49; 56; 10]; [49; 54; 10]]%N
  | _, _ => False
  end.
Proof. vm_compute. repeat split. Qed.
Print Assumptions refinement_example.

(* ... and a program that ends in a runtime error on both sides: println("a") then 1 / 0 *)
Definition ex_err : list expr :=
  [ ECall (mt true) (v 20) [EStr (mt true) [97%N]]; EBin (mt true) (BInt ODiv) (i 1) (i 0) ].
Example refinement_error_example :
  forallb in_fragment ex_err = true /\ well_annotated_toplevel ex_err = true /\
  match ref_run ex_p 50 ex_err, run ex_p 1000 (init_state ex_err None None) with
  | (Ctl (CErr k), s'), RFailed er st => k = EArith /\ ekind_of er = KException /\ out st = printed s' /\ printed s' = [[97; 10]]%N
  | _, _ => False
  end.
Proof. vm_compute. repeat split. Qed.
Print Assumptions refinement_error_example.

(* ---- the fragment, construct by construct ---------------------------------- *)
(* match, return (also in operand position), for, closures, and break /
   continue as statements of a block are IN the fragment of the theorems
   above: *)
Example fragment_covers_match_return_for_break :
  in_fragment (EMatch (mt true) (v 5) [ (6%N, (0, 0)%N, Some 7%N, [v 7]); (0%N, (0, 0)%N, None, [i 0]) ]) = true /\
  in_fragment (EFun (mt true) [13%N] [EBin (mt true) (BInt OAdd) (i 1) (EReturn (mt true) (Some (v 13)))]) = true /\
  in_fragment (EFor (mt true) 13%N (v 5)
                 [ EIf (mt false) (v 6) [EContinue (mt false)] (Some [EBreak (mt false)]);
                   EMatch (mt false) (v 5) [ (0%N, (0, 0)%N, None, [EBreak (mt false)]) ] ]) = true.
Proof. repeat split; reflexivity. Qed.
Print Assumptions fragment_covers_match_return_for_break.

(* The side condition "break / continue only as a statement of a block, not
   inside an operand" is NECESSARY: the known finding
   C05:break-continue-in-operand-position on the model.
     let x = [while True { [if True { break } else { 2 }, 1] }, 5]
   is well annotated, outside the fragment, and the machine (like the real
   interpreter) answers [Unit, 1] where the reference semantics answers
   [Unit, 5]: the refinement theorem is FALSE without the side condition. *)
Definition ex_operand_break : list expr :=
  [ EList (mt true)
      [ EWhile (mt true) (v 24)
          [ EList (mt false) [ EIf (mt true) (v 24) [EBreak (mt true)] (Some [i 2]); i 1 ] ];
        i 5 ] ].
Definition ex_p2 : prog := {| globals := (24%N, vtrue) :: globals ex_p; funs := [] |}.

Example break_in_operand_position_refuted :
  prog_good ex_p2 = true /\ well_annotated_toplevel ex_operand_break = true /\
  forallb in_fragment ex_operand_break = false /\
  match ref_run ex_p2 50 ex_operand_break, run ex_p2 1000 (init_state ex_operand_break None None) with
  | (Ok rv, _), RDone mv _ => rv = VList [vunit; VInt 5] /\ mv = VList [vunit; VInt 1] /\ mv <> rv
  | _, _ => False
  end.
Proof. vm_compute. repeat split. discriminate. Qed.
Print Assumptions break_in_operand_position_refuted.
