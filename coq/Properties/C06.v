(* C06 -- Block-local variables never outlive their block.
   Statements only; proofs in MachineInv.v.  The evaluator model (Machine.v)
   is tied to src/eval.rs by differential execution (tools/props/C06.py). *)
From Coq Require Import ZArith NArith Bool List.
From Garden Require Import Base.Int64 Arith gen.Tables Machine MachineInv.
Import ListNotations.
Open Scope nat_scope.

(* One evaluation step keeps, in every stack frame, the equation
     live binding blocks = base + pending block-popping continuations
   whatever the step is: normal block exit, break, continue, return, a call
   (new frame with its own base) or a return to the caller. *)
Theorem depth_invariant : forall p s s' bases,
  inv bases s -> step p s = Next s' ->
  exists bases', inv bases' s' /\
    (bases' = bases \/ (exists b, bases' = b :: bases) \/ bases' = tl bases).
Proof. exact step_preserves_inv. Qed.
Print Assumptions depth_invariant.

(* break / continue / return discard continuation entries and pop exactly the
   blocks those entries owned. *)
Theorem break_restores_scope : forall t bs vs t' bs' vs' lu,
  break_unwind t bs vs = Some (t', bs', vs', lu) -> length bs' + pending t = length bs + pending t'.
Proof. exact break_unwind_balance. Qed.
Print Assumptions break_restores_scope.

Theorem continue_restores_scope : forall t bs t' bs',
  continue_unwind t bs = Some (t', bs') -> length bs' + pending t = length bs + pending t'.
Proof. exact continue_unwind_balance. Qed.
Print Assumptions continue_restores_scope.

Theorem return_restores_scope : forall t bs bs',
  return_unwind t bs = Some bs' -> length bs = length bs' + pending t.
Proof. exact return_unwind_balance. Qed.
Print Assumptions return_restores_scope.

(* For every program, every reachable state (any number of steps, failures and
   resumptions) of a toplevel evaluation: the toplevel frame holds exactly
   1 + pending binding blocks ... *)
Theorem block_exit_restores_scope : forall p exprs tl sl s f,
  reach p (init_state exprs tl sl) s -> bottom (stack s) = Some f ->
  length (blocks f) = 1 + pending (todo f).
Proof. exact toplevel_block_discipline. Qed.
Print Assumptions block_exit_restores_scope.

(* ... so between toplevel statements only the toplevel scope exists: no
   binding made inside a block can still be visible. *)
Theorem local_not_visible_after : forall p exprs tl sl s f,
  reach p (init_state exprs tl sl) s -> bottom (stack s) = Some f ->
  Forall (fun x => fst x = SNot) (todo f) -> length (blocks f) = 1.
Proof. exact toplevel_scope_restored. Qed.
Print Assumptions local_not_visible_after.

(* Non-vacuity: `while True { if True { let z = 5  break } }` then `z`:
   runs to "no such variable" with one binding block left. *)
Definition mt (u : bool) : meta := {| used := u; pstart := 0; pend := 0 |}.
Definition ex_prog : prog := {| globals := [(5%N, vtrue)]; funs := [] |}.
Definition ex_exprs : list expr :=
  [ EWhile (mt true) (EVar (mt true) 5%N)
      [ EIf (mt false) (EVar (mt true) 5%N) [ ELet (mt false) 7%N (EInt (mt true) 5%Z); EBreak (mt false) ] None ];
    EVar (mt true) 7%N ].
Example break_example :
  match run ex_prog 100 (init_state ex_exprs None None) with
  | RFailed e s => ekind_of e = KException /\ map (fun f => length (blocks f)) (stack s) = [1]
  | _ => False
  end.
Proof. vm_compute. split; reflexivity. Qed.
Print Assumptions break_example.
