(* C07 -- Resuming after a runtime error reproduces the same error. *)
From Coq Require Import ZArith NArith Bool List.
From Garden Require Import Base.Int64 Arith gen.Tables Machine MachineInv.
Import ListNotations.
Open Scope nat_scope.

(* A failing step (any built-in, operator, call, pattern match, limit or
   interrupt) leaves the stack of frames -- pending expressions, value stacks,
   binding blocks -- and the output exactly as they were before the step. *)
Theorem error_step_restores : forall p s e s',
  step p s = Failed e s' ->
  stack s' = stack s /\ out s' = out s /\ interrupted s' = false /\
  tick_limit s' = tick_limit s /\ stack_limit s' = stack_limit s /\ ticks s' = (ticks s + 1)%N.
Proof. exact step_failed_restores. Qed.
Print Assumptions error_step_restores.

(* Hence :resume with nothing changed fails again with the same error (same
   kind, same position) on the same values, any number of times.  (Sessions
   run without a tick limit.) *)
Theorem resume_idempotent : forall p n s e s',
  step p s = Failed e s' -> ekind_of e = KException -> tick_limit s = None ->
  exists s'', resume_n p (S n) s' = Some (e, s'') /\ stack s'' = stack s.
Proof. exact resume_idempotent. Qed.
Print Assumptions resume_idempotent.

(* Non-vacuity: println(1) fails; three resumes later same error, same frame. *)
Definition mt (u : bool) (a b : N) : meta := {| used := u; pstart := a; pend := b |}.
Definition ex_prog : prog := {| globals := [(5%N, VBuiltin BiPrintln)]; funs := [] |}.
Definition ex_exprs : list expr := [ ECall (mt true 0 10) (EVar (mt true 0 7) 5%N) [EInt (mt true 8 9) 1%Z] ].
Example resume_example :
  match run ex_prog 100 (init_state ex_exprs None None) with
  | RFailed e s =>
      match resume_n ex_prog 3 s with
      | Some (e', s') => e' = e /\ stack s' = stack s /\ epos_of e = (8%N, 9%N)
      | None => False
      end
  | _ => False
  end.
Proof. vm_compute. repeat split; reflexivity. Qed.
Print Assumptions resume_example.
