(* C08 -- An evaluation interrupted anywhere resumes to the same outcome. *)
From Coq Require Import ZArith NArith Bool List.
From Garden Require Import Base.Int64 Arith gen.Tables Machine MachineInv MachineSession MachineSessionProps MachineSessionLive.
Import ListNotations.
Open Scope nat_scope.

(* An interrupt consumes one loop iteration, puts the popped expression back
   and changes nothing else. *)
Theorem interrupt_transparent : forall p s f rest es e t,
  stack s = f :: rest -> todo f = (es, e) :: t -> interrupted s = true ->
  exists s', step p s = Failed {| ekind_of := KInterrupted; epos_of := epos e |} s' /\
             stack s' = stack s /\ out s' = out s /\ interrupted s' = false /\ ticks s' = (ticks s + 1)%N.
Proof. exact interrupt_is_transparent. Qed.
Print Assumptions interrupt_transparent.

(* For EVERY schedule of interrupts (one boolean per loop iteration: Ctrl-C
   arrives before it; each Interrupted is answered by :resume), the run ends
   with the same value / error / pending state and the same output as an
   uninterrupted run. *)
Theorem interrupted_run_equiv : forall p sched s1 s2,
  same_work s1 s2 -> interrupted s2 = false ->
  exists n, n <= length sched /\ same_result (run_int p sched s1) (run p n s2).
Proof. exact interrupted_run_equiv. Qed.
Print Assumptions interrupted_run_equiv.

(* Liveness half: the interrupted run also gets as far.  If the uninterrupted run
   finishes (value or error) within n loop iterations, then under EVERY schedule
   that has at least n interrupt-free entries (one more if a Ctrl-C was already
   pending) the interrupted-and-resumed run finishes too -- it cannot be starved or
   lose its place -- with the same value / error, stack and output. *)
Theorem interrupted_run_finishes : forall p sched s1 s2 n,
  same_work s1 s2 -> interrupted s2 = false ->
  out_of_fuel (run p n s2) = false ->
  n + b2n (interrupted s1) <= nfalse sched ->
  out_of_fuel (run_int p sched s1) = false /\ same_result (run_int p sched s1) (run p n s2).
Proof. exact interrupted_run_finishes. Qed.
Print Assumptions interrupted_run_finishes.

Definition mt (u : bool) : meta := {| used := u; pstart := 0; pend := 0 |}.
Definition ex_prog : prog := {| globals := [(5%N, VBuiltin BiPrintln)]; funs := [] |}.
Definition ex_exprs : list expr :=
  [ ECall (mt true) (EVar (mt true) 5%N) [EStr (mt true) [104; 105]%N];
    EBin (mt true) (BInt OAdd) (EInt (mt true) 1%Z) (EInt (mt true) 2%Z) ].
Example interrupt_example :
  let s0 := init_state ex_exprs None None in
  match run_int ex_prog [true; false; true; true; false; false; false; true; false; false; false; false; false; false] s0,
        run ex_prog 20 s0 with
  | RDone v s, RDone v' s' => v = VInt 3 /\ v' = VInt 3 /\ out s = out s' /\ out s = [[104; 105; 10]%N]
  | _, _ => False
  end.
Proof. vm_compute. repeat split; reflexivity. Qed.
Print Assumptions interrupt_example.
