(* C09 -- The JSON session answers every request and never dies.
   Only pinned statements; the model is Session.v (over Machine.v), the proofs
   are in SessionProps.v.

   WHAT IS PROVED HERE AND WHAT IS NOT.
   * handle_total, responses_in_order: all states, all requests (they hold by
     construction of the single worker: one `handle` call, one response).
   * handle_session_layer_no_panic: in ANY state with a non-empty stack, with
     the repaired `:skip`, the session commands themselves never panic: if
     `handle` answers SessionPanic then an `eval` call crashed (an `expect` of
     the evaluator), nothing else.
   * handle_no_panic_partial: for ALL states reachable from a fresh session
     through ANY sequence of Run / :resume / :abort / :skip / :replace /
     :forget_local / inspection requests whose expressions are in the
     structured fragment with parser-consistent value_is_used flags
     (`wf_request`: no for/break/continue/return/closure literal/match), no
     response is SessionPanic -- PROVIDED the evaluator keeps the value-stack /
     binding-block discipline `stack_run` for one loop iteration
     (`evaluator_keeps_discipline`, the machine-level part of property C02).
     That hypothesis is NOT proved here (it is tested by differential execution
     and by search only); what IS proved is that every session command -- in
     particular the repaired `:skip`, `:replace` popping a value, `run`
     overwriting the pending expressions of the current frame, `:abort`,
     `:forget_local`, and stopping at a call -- preserves that discipline, which
     is exactly what the unrepaired `:skip` broke. *)
From Coq Require Import ZArith NArith Bool List.
From Garden Require Import Base.Int64 Arith gen.Tables Machine MachineInv MachineSession Session SessionProps.
Import ListNotations.
Open Scope nat_scope.

Theorem handle_total : forall fx fuel p s r, exists s' a, handle fx fuel p s r = (s', a).
Proof. exact handle_total. Qed.
Print Assumptions handle_total.

(* While nothing has panicked: as many responses as requests, and the i-th
   response is the answer to the i-th request in the state the earlier
   requests left. *)
Theorem responses_in_order : forall fx fuel p rs1 s r rs2 s1 l1,
  run_history fx fuel p s rs1 = (s1, l1) -> ~ In SessionPanic l1 ->
  length l1 = length rs1 /\
  exists s2 l2, run_history fx fuel p s (rs1 ++ r :: rs2) = (s2, l1 ++ snd (handle fx fuel p s1 r) :: l2).
Proof. exact responses_in_order_lemma. Qed.
Print Assumptions responses_in_order.

Theorem handle_session_layer_no_panic : forall fuel p s r s',
  stack s <> [] -> handle all_fixes fuel p s r = (s', SessionPanic) ->
  exists stop s1, stack s1 <> [] /\ eval true p fuel stop s1 = RCrashed.
Proof. exact handle_session_layer_no_panic_lemma. Qed.
Print Assumptions handle_session_layer_no_panic.

(* Every session command keeps the discipline and does not panic. *)
Theorem handle_keeps_discipline : forall p, evaluator_keeps_discipline p -> forall fuel s r,
  stack_ok (stack s) -> wf_request r = true ->
  stack_ok (stack (fst (handle all_fixes fuel p s r))) /\ snd (handle all_fixes fuel p s r) <> SessionPanic.
Proof. exact handle_keeps_discipline. Qed.
Print Assumptions handle_keeps_discipline.

Theorem handle_no_panic_partial : forall fuel p, evaluator_keeps_discipline p -> forall s,
  reachable fuel p s -> forall r, wf_request r = true -> snd (handle all_fixes fuel p s r) <> SessionPanic.
Proof. exact handle_no_panic_partial_lemma. Qed.
Print Assumptions handle_no_panic_partial.

(* ---- examples ------------------------------------------------------------- *)
Definition mt (u : bool) (a b : N) : meta := {| used := u; pstart := a; pend := b |}.
Definition ex_prog : prog :=
  {| globals := [(20%N, VFun 20%N []); (21%N, VBuiltin BiPrintln)];
     funs := [(20%N, {| fparams := [30%N];
                        fbody := [ ELet (mt false 11 24) 31%N (EVar (mt true 21 24) 99%N);      (* let hl = nosuch *)
                                   EVar (mt true 25 26) 30%N ] |})] |}.
Definition one_plus_one : request := RRun [EBin (mt true 0 5) (BInt OAdd) (EInt (mt true 0 1) 1) (EInt (mt true 4 5) 1)].
Definition let_x_nosuch (x : ident) : request := RRun [ELet (mt true 0 14) x (EVar (mt true 8 14) 98%N)].

(* `:skip` with nothing pending: the code as it was panics and the canary is
   never answered; the repaired code answers with a message and goes on. *)
Example skip_nothing_pending_before_fix :
  snd (run_history no_fixes 100 ex_prog fresh [RSkip; one_plus_one]) = [SessionPanic].
Proof. vm_compute. reflexivity. Qed.
Print Assumptions skip_nothing_pending_before_fix.

Example skip_nothing_pending_after_fix :
  snd (run_history all_fixes 100 ex_prog fresh [RSkip; one_plus_one]) = [RespCommand; RespValue (VInt 2)].
Proof. vm_compute. reflexivity. Qed.
Print Assumptions skip_nothing_pending_after_fix.

(* `let x = nosuch`, :skip, `let z = nosuch`, :skip: the second let pops an
   empty value stack before the repair; after it both variables are Unit. *)
Example skip_used_value_before_fix :
  snd (run_history {| fx_skip := false; fx_call := true |} 100 ex_prog fresh
         [let_x_nosuch 40%N; RSkip; let_x_nosuch 41%N; RSkip; one_plus_one]) =
  [RespError {| ekind_of := KException; epos_of := (8%N, 14%N) |}; RespValue vunit;
   RespError {| ekind_of := KException; epos_of := (8%N, 14%N) |}; SessionPanic].
Proof. vm_compute. reflexivity. Qed.
Print Assumptions skip_used_value_before_fix.

Example skip_used_value_after_fix :
  snd (run_history all_fixes 100 ex_prog fresh
         [let_x_nosuch 40%N; RSkip; let_x_nosuch 41%N; RSkip; RRun [EVar (mt true 0 1) 41%N]; one_plus_one]) =
  [RespError {| ekind_of := KException; epos_of := (8%N, 14%N) |}; RespValue vunit;
   RespError {| ekind_of := KException; epos_of := (8%N, 14%N) |}; RespValue vunit; RespValue vunit; RespValue (VInt 2)].
Proof. vm_compute. reflexivity. Qed.
Print Assumptions skip_used_value_after_fix.

(* a failure inside a call; :replace drains the callee's value stack; a run
   whose last expression is a call overwrites the pending expressions;
   :resume then returns from a frame without a value -- a panic before fix 7 *)
Definition call_f : request := RRun [ECall (mt true 0 4) (EVar (mt true 0 1) 20%N) [EInt (mt true 2 3) 1]].
Definition ok_f : prog :=
  {| globals := [(20%N, VFun 20%N []); (22%N, VFun 22%N [])];
     funs := [(20%N, {| fparams := [30%N]; fbody := [ EVar (mt true 25 26) 99%N ] |});
              (22%N, {| fparams := [30%N]; fbody := [ EVar (mt true 65 66) 30%N ] |})] |}.
Definition call_g : request := RRun [ECall (mt true 0 4) (EVar (mt true 0 1) 22%N) [EInt (mt true 2 3) 1]].
Definition repl_nosuch : request := RReplace (EVar (mt true 0 6) 98%N).
Example stop_at_call_before_fix :
  last (snd (run_history {| fx_skip := true; fx_call := false |} 200 ok_f fresh
         [call_f; repl_nosuch; repl_nosuch; call_g; RResume; one_plus_one])) RespCommand = SessionPanic.
Proof. vm_compute. reflexivity. Qed.
Print Assumptions stop_at_call_before_fix.

Example stop_at_call_after_fix :
  ~ In SessionPanic (snd (run_history all_fixes 200 ok_f fresh
         [call_f; repl_nosuch; repl_nosuch; call_g; RResume; one_plus_one])) /\
  last (snd (run_history all_fixes 200 ok_f fresh
         [call_f; repl_nosuch; repl_nosuch; call_g; RResume; one_plus_one])) RespCommand = RespValue (VInt 2).
Proof. vm_compute. split; [intuition discriminate|reflexivity]. Qed.
Print Assumptions stop_at_call_after_fix.

(* the requests of these examples satisfy the hypothesis of handle_no_panic_partial *)
Example example_requests_wf :
  forallb wf_request [let_x_nosuch 40%N; RSkip; one_plus_one; call_f; repl_nosuch; call_g; RResume; RAbort; RForgetLocal 30%N] = true
  /\ wf_prog ok_f = true /\ globals_ok ok_f = true.
Proof. vm_compute. auto. Qed.
Print Assumptions example_requests_wf.
