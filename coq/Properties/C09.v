(* C09 -- The JSON session answers every request and never dies.
   Only pinned statements; the model is Session.v (over Machine.v), the proofs
   are in SessionProps.v.

   WHAT IS PROVED HERE AND WHAT IS NOT.
   * handle_total, responses_in_order: all states, all requests (they hold by
     construction of the single worker: one `handle` call, one response).
   * handle_session_layer_no_panic: in ANY state with a non-empty stack, with
     the repaired `:skip`, the session commands themselves never panic: if
     `handle` answers SessionPanic then an `eval` call crashed (an `expect` of
     the evaluator), nothing else.
   * handle_no_panic_partial: for ALL states reachable from a fresh session
     through ANY sequence of Run / :resume / :abort / :skip / :replace /
     :forget_local / inspection requests whose expressions are in the
     structured fragment with parser-consistent value_is_used flags
     (`wf_request`: no for/break/continue/return/closure literal/match), no
     response is SessionPanic, given `evaluator_keeps_discipline p`.
   * machine_no_crash_partial / run_no_crash_partial / evaluator_discipline
     (Discipline.v): that hypothesis is now PROVED for every program whose
     function bodies are in the same fragment (`wf_prog`), whose namespace
     values contain no closure (`globals_ok`) and no Int (`globals_noint`): one
     iteration of the eval loop from a state satisfying the discipline
     `stack_run` never crashes and keeps it (a case analysis over all of
     Machine.exec for int/string literals, variables, binary operators, let,
     assignment, += / -=, if, while, list and tuple literals, calls of named
     functions / built-ins / enum constructors, parentheses).
   * handle_no_panic: hence UNCONDITIONALLY, for such programs and requests, no
     state reachable from a fresh session answers SessionPanic.
   Not covered by these theorems (search only): for, break, continue, return,
   closure literals, match, and everything of garden outside Machine.v. *)
From Coq Require Import ZArith NArith Bool List.
From Garden Require Import Base.Int64 Arith gen.Tables Machine MachineInv MachineSession Session SessionProps Discipline.
Import ListNotations.
Open Scope nat_scope.

Theorem handle_total : forall fx fuel p s r, exists s' a, handle fx fuel p s r = (s', a).
Proof. exact handle_total. Qed.
Print Assumptions handle_total.

(* While nothing has panicked: as many responses as requests, and the i-th
   response is the answer to the i-th request in the state the earlier
   requests left. *)
Theorem responses_in_order : forall fx fuel p rs1 s r rs2 s1 l1,
  run_history fx fuel p s rs1 = (s1, l1) -> ~ In SessionPanic l1 ->
  length l1 = length rs1 /\
  exists s2 l2, run_history fx fuel p s (rs1 ++ r :: rs2) = (s2, l1 ++ snd (handle fx fuel p s1 r) :: l2).
Proof. exact responses_in_order_lemma. Qed.
Print Assumptions responses_in_order.

Theorem handle_session_layer_no_panic : forall fuel p s r s',
  stack s <> [] -> handle all_fixes fuel p s r = (s', SessionPanic) ->
  exists stop s1, stack s1 <> [] /\ eval true p fuel stop s1 = RCrashed.
Proof. exact handle_session_layer_no_panic_lemma. Qed.
Print Assumptions handle_session_layer_no_panic.

(* Every session command keeps the discipline and does not panic. *)
Theorem handle_keeps_discipline : forall p, evaluator_keeps_discipline p -> forall fuel s r,
  stack_ok (stack s) -> wf_request r = true ->
  stack_ok (stack (fst (handle all_fixes fuel p s r))) /\ snd (handle all_fixes fuel p s r) <> SessionPanic.
Proof. exact handle_keeps_discipline. Qed.
Print Assumptions handle_keeps_discipline.

Theorem handle_no_panic_partial : forall fuel p, evaluator_keeps_discipline p -> forall s,
  reachable fuel p s -> forall r, wf_request r = true -> snd (handle all_fixes fuel p s r) <> SessionPanic.
Proof. exact handle_no_panic_partial_lemma. Qed.
Print Assumptions handle_no_panic_partial.

(* The evaluator keeps the discipline: the hypothesis above holds for every
   well-formed program. *)
Theorem evaluator_discipline : forall p,
  wf_prog p = true -> globals_ok p = true -> globals_noint p = true -> evaluator_keeps_discipline p.
Proof. intros p W G N. apply evaluator_keeps_discipline_lemma. repeat split; assumption. Qed.
Print Assumptions evaluator_discipline.

(* Machine level (referenced by C02): from a state that satisfies the
   value-stack / binding-block discipline one iteration of the eval loop never
   hits an `expect` / `unreachable!` ... *)
Theorem machine_no_crash_partial : forall p,
  wf_prog p = true -> globals_ok p = true -> globals_noint p = true ->
  forall s, stack_run (stack s) -> step p s <> Crashed.
Proof. intros p W G N. apply machine_no_crash_lemma. repeat split; assumption. Qed.
Print Assumptions machine_no_crash_partial.

(* ... so a whole program of well-formed toplevel expressions never crashes,
   however long it runs. *)
Theorem run_no_crash_partial : forall p exprs,
  wf_prog p = true -> globals_ok p = true -> globals_noint p = true -> wf_all_used exprs = true ->
  forall n, run p n (init_state exprs None None) <> RCrashed.
Proof. intros p exprs W G N WE. apply run_no_crash_lemma; [repeat split; assumption|exact WE]. Qed.
Print Assumptions run_no_crash_partial.

(* UNCONDITIONAL: no state reachable from a fresh session through well-formed
   requests answers SessionPanic. *)
Theorem handle_no_panic : forall fuel p,
  wf_prog p = true -> globals_ok p = true -> globals_noint p = true ->
  forall s, reachable fuel p s -> forall r, wf_request r = true ->
  snd (handle all_fixes fuel p s r) <> SessionPanic.
Proof.
  intros fuel p W G N. apply handle_no_panic_partial_lemma.
  apply evaluator_keeps_discipline_lemma. repeat split; assumption.
Qed.
Print Assumptions handle_no_panic.

(* ---- examples ------------------------------------------------------------- *)
Definition mt (u : bool) (a b : N) : meta := {| used := u; pstart := a; pend := b |}.
Definition ex_prog : prog :=
  {| globals := [(20%N, VFun 20%N []); (21%N, VBuiltin BiPrintln)];
     funs := [(20%N, {| fparams := [30%N];
                        fbody := [ ELet (mt false 11 24) 31%N (EVar (mt true 21 24) 99%N);      (* let hl = nosuch *)
                                   EVar (mt true 25 26) 30%N ] |})] |}.
Definition one_plus_one : request := RRun [EBin (mt true 0 5) (BInt OAdd) (EInt (mt true 0 1) 1) (EInt (mt true 4 5) 1)].
Definition let_x_nosuch (x : ident) : request := RRun [ELet (mt true 0 14) x (EVar (mt true 8 14) 98%N)].

(* `:skip` with nothing pending: the code as it was panics and the canary is
   never answered; the repaired code answers with a message and goes on. *)
Example skip_nothing_pending_before_fix :
  snd (run_history no_fixes 100 ex_prog fresh [RSkip; one_plus_one]) = [SessionPanic].
Proof. vm_compute. reflexivity. Qed.
Print Assumptions skip_nothing_pending_before_fix.

Example skip_nothing_pending_after_fix :
  snd (run_history all_fixes 100 ex_prog fresh [RSkip; one_plus_one]) = [RespCommand; RespValue (VInt 2)].
Proof. vm_compute. reflexivity. Qed.
Print Assumptions skip_nothing_pending_after_fix.

(* `let x = nosuch`, :skip, `let z = nosuch`, :skip: the second let pops an
   empty value stack before the repair; after it both variables are Unit. *)
Example skip_used_value_before_fix :
  snd (run_history {| fx_skip := false; fx_call := true |} 100 ex_prog fresh
         [let_x_nosuch 40%N; RSkip; let_x_nosuch 41%N; RSkip; one_plus_one]) =
  [RespError {| ekind_of := KException; epos_of := (8%N, 14%N) |}; RespValue vunit;
   RespError {| ekind_of := KException; epos_of := (8%N, 14%N) |}; SessionPanic].
Proof. vm_compute. reflexivity. Qed.
Print Assumptions skip_used_value_before_fix.

Example skip_used_value_after_fix :
  snd (run_history all_fixes 100 ex_prog fresh
         [let_x_nosuch 40%N; RSkip; let_x_nosuch 41%N; RSkip; RRun [EVar (mt true 0 1) 41%N]; one_plus_one]) =
  [RespError {| ekind_of := KException; epos_of := (8%N, 14%N) |}; RespValue vunit;
   RespError {| ekind_of := KException; epos_of := (8%N, 14%N) |}; RespValue vunit; RespValue vunit; RespValue (VInt 2)].
Proof. vm_compute. reflexivity. Qed.
Print Assumptions skip_used_value_after_fix.

(* a failure inside a call; :replace drains the callee's value stack; a run
   whose last expression is a call overwrites the pending expressions;
   :resume then returns from a frame without a value -- a panic before fix 7 *)
Definition call_f : request := RRun [ECall (mt true 0 4) (EVar (mt true 0 1) 20%N) [EInt (mt true 2 3) 1]].
Definition ok_f : prog :=
  {| globals := [(20%N, VFun 20%N []); (22%N, VFun 22%N [])];
     funs := [(20%N, {| fparams := [30%N]; fbody := [ EVar (mt true 25 26) 99%N ] |});
              (22%N, {| fparams := [30%N]; fbody := [ EVar (mt true 65 66) 30%N ] |})] |}.
Definition call_g : request := RRun [ECall (mt true 0 4) (EVar (mt true 0 1) 22%N) [EInt (mt true 2 3) 1]].
Definition repl_nosuch : request := RReplace (EVar (mt true 0 6) 98%N).
Example stop_at_call_before_fix :
  last (snd (run_history {| fx_skip := true; fx_call := false |} 200 ok_f fresh
         [call_f; repl_nosuch; repl_nosuch; call_g; RResume; one_plus_one])) RespCommand = SessionPanic.
Proof. vm_compute. reflexivity. Qed.
Print Assumptions stop_at_call_before_fix.

Example stop_at_call_after_fix :
  ~ In SessionPanic (snd (run_history all_fixes 200 ok_f fresh
         [call_f; repl_nosuch; repl_nosuch; call_g; RResume; one_plus_one])) /\
  last (snd (run_history all_fixes 200 ok_f fresh
         [call_f; repl_nosuch; repl_nosuch; call_g; RResume; one_plus_one])) RespCommand = RespValue (VInt 2).
Proof. vm_compute. split; [intuition discriminate|reflexivity]. Qed.
Print Assumptions stop_at_call_after_fix.

(* the requests of these examples satisfy the hypothesis of handle_no_panic_partial *)
Example example_requests_wf :
  forallb wf_request [let_x_nosuch 40%N; RSkip; one_plus_one; call_f; repl_nosuch; call_g; RResume; RAbort; RForgetLocal 30%N] = true
  /\ wf_prog ok_f = true /\ globals_ok ok_f = true.
Proof. vm_compute. auto. Qed.
Print Assumptions example_requests_wf.


(* the hypotheses of handle_no_panic / run_no_crash_partial are satisfiable (ok_f,
   and the requests above), and they cannot be dropped: a list literal whose
   items are marked unused pops values that were never pushed *)
Example wf_hypotheses_satisfiable :
  wf_prog ok_f = true /\ globals_ok ok_f = true /\ globals_noint ok_f = true /\
  wf_all_used [ECall (mt true 0 4) (EVar (mt true 0 1) 22%N) [EInt (mt true 2 3) 1]] = true /\
  run ok_f 50 (init_state [ECall (mt true 0 4) (EVar (mt true 0 1) 22%N) [EInt (mt true 2 3) 1]] None None)
  = RDone (VInt 1) (mkState [mkFrame [] [vunit] [[]] [] true] 6 [] false None None).
Proof. vm_compute. repeat split; reflexivity. Qed.
Print Assumptions wf_hypotheses_satisfiable.

Example wf_hypothesis_needed :
  wf_all_used [EList (mt true 0 6) [EInt (mt false 1 2) 1; EInt (mt false 4 5) 2]] = false /\
  run ok_f 50 (init_state [EList (mt true 0 6) [EInt (mt false 1 2) 1; EInt (mt false 4 5) 2]] None None) = RCrashed.
Proof. vm_compute. split; reflexivity. Qed.
Print Assumptions wf_hypothesis_needed.
