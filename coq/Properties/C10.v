(* C10 -- `:abort` returns the session to a clean top level. *)
From Coq Require Import ZArith NArith Bool List.
From Garden Require Import Base.Int64 Arith gen.Tables Machine MachineInv MachineSession MachineSessionProps.
Import ListNotations.
Open Scope nat_scope.

(* In ANY state: after :abort one frame is left, with no pending expression,
   no pending bindings, at most the first value and the outermost (toplevel)
   binding block; the output is untouched. *)
Theorem abort_clean : forall s f,
  last_frame (stack s) = Some f ->
  exists f0, stack (abort s) = [f0] /\ todo f0 = [] /\ nextb f0 = [] /\
             vals f0 = truncate_last (vals f) /\ blocks f0 = truncate_last (blocks f) /\
             length (vals f0) <= 1 /\ length (blocks f0) <= 1 /\
             out (abort s) = out s.
Proof. exact abort_clean. Qed.
Print Assumptions abort_clean.

Theorem abort_then_resume : forall p s f v,
  last_frame (stack s) = Some f -> truncate_last (vals f) = [v] -> interrupted s = false ->
  exists s', step p (abort s) = Done v s' /\ out s' = out s.
Proof. exact abort_then_resume. Qed.
Print Assumptions abort_then_resume.

Theorem abort_keeps_toplevel_scope : forall s f b,
  last_frame (stack s) = Some f -> blocks f <> [] ->
  exists f0, stack (abort s) = [f0] /\ blocks f0 = [last (blocks f) b].
Proof. exact abort_keeps_toplevel_scope. Qed.
Print Assumptions abort_keeps_toplevel_scope.

(* Nothing of the aborted evaluation is left: two states with the same
   toplevel scope and first value are indistinguishable after :abort, however
   deep in calls, loops and blocks they were. *)
Theorem abort_forgets_evaluation : forall s1 s2 f1 f2,
  last_frame (stack s1) = Some f1 -> last_frame (stack s2) = Some f2 ->
  truncate_last (vals f1) = truncate_last (vals f2) ->
  truncate_last (blocks f1) = truncate_last (blocks f2) ->
  uses f1 = uses f2 ->
  stack (abort s1) = stack (abort s2).
Proof. exact abort_forgets_evaluation. Qed.
Print Assumptions abort_forgets_evaluation.

Definition mt (u : bool) : meta := {| used := u; pstart := 0; pend := 0 |}.
Definition ex_prog : prog :=
  {| globals := [(5%N, vtrue); (6%N, VFun 6%N [])];
     funs := [(6%N, {| fparams := [8%N]; fbody := [ EWhile (mt true) (EVar (mt true) 5%N) [ELet (mt false) 9%N (EVar (mt true) 99%N)] ] |})] |}.
Definition ex_exprs : list expr :=
  [ ELet (mt true) 7%N (EInt (mt true) 1%Z); ECall (mt true) (EVar (mt true) 6%N) [EInt (mt true) 2%Z]; EInt (mt true) 3%Z ].
Example abort_example :
  match run ex_prog 100 (init_state ex_exprs None None) with
  | RFailed e s =>
      length (stack s) = 2 /\
      match stack (abort s) with
      | [f0] => todo f0 = [] /\ vals f0 = [vunit] /\ blocks f0 = [[(7%N, VInt 1)]]
      | _ => False
      end
  | _ => False
  end.
Proof. vm_compute. repeat split; reflexivity. Qed.
Print Assumptions abort_example.
