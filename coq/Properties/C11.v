(* C11 -- Incremental session input equals running it as one program.
   Only pinned statements; model Session.v, proofs SessionProps.v.

   Definitions (functions, enums) are STATIC in the model: the program `p` is
   fixed for the whole history.  What varies between requests is the evaluator
   state: the toplevel frame's binding block (toplevel variables) and value
   stack.

   WHAT IS PROVED: requests only replace the pending expressions of the current
   frame -- bindings, values, output are what the previous request left
   (`run_keeps_scope`); a toplevel `let` leaves its binding in the toplevel
   block where every later request finds it (`toplevel_lets_persist`).
   WHAT IS NOT PROVED: the general statement "for every error-free history the
   last value of the incremental run equals that of the batch run" (it needs a
   frame rule for the value stack: a batch run leaves the values of the earlier
   toplevel expressions below the ones of the later input, and stops at a
   different expression).  There is NO general `incremental_eq_batch` theorem
   in this file: `incremental_eq_batch_partial_instance` and
   `incremental_eq_batch_partial_all_splits` are machine-checked INSTANCES (one
   history of four inputs with a let, an assignment, calls and expressions, and
   every way of splitting it into requests); the general case is covered by
   differential testing in tools/props/C11.py only. *)
From Coq Require Import ZArith NArith Bool List.
From Garden Require Import Base.Int64 Arith gen.Tables Machine MachineInv MachineSession Session SessionProps.
Import ListNotations.
Open Scope nat_scope.

Theorem run_keeps_scope : forall s exprs s2,
  install s exprs = Some s2 ->
  exists f rest, stack s = f :: rest /\
    stack s2 = set_todo f (map (fun e => (SNot, e)) exprs) :: rest /\
    out s2 = out s /\ ticks s2 = ticks s.
Proof. exact install_keeps_scope. Qed.
Print Assumptions run_keeps_scope.

Theorem toplevel_lets_persist : forall p s f t m x rhs v vs b bs,
  stack s = [f] -> todo f = (SDone, ELet m x rhs) :: t -> vals f = v :: vs -> blocks f = b :: bs ->
  N.eqb x underscore = false ->
  interrupted s = false -> tick_limit s = None -> stack_limit s = None ->
  exists s' f', step p s = Next s' /\ stack s' = [f'] /\ blocks f' = ((x, v) :: b) :: bs /\
    forall exprs s2, install s' exprs = Some s2 ->
      exists f2, stack s2 = [f2] /\ blocks f2 = ((x, v) :: b) :: bs /\ get_var p f2 x = Some v.
Proof. exact toplevel_lets_persist_lemma. Qed.
Print Assumptions toplevel_lets_persist.

(* ---- checked instances ------------------------------------------------------ *)
Definition mt (u : bool) (a b : N) : meta := {| used := u; pstart := a; pend := b |}.
Definition ex_prog : prog :=
  {| globals := [(20%N, VFun 20%N [])];
     funs := [(20%N, {| fparams := [30%N];
                        fbody := [ EBin (mt true 11 16) (BInt OMul) (EVar (mt true 11 12) 30%N) (EInt (mt true 15 16) 2) ] |})] |}.
Definition a : ident := 40%N.
(* let a = 1 *)
Definition in1 : list expr := [ELet (mt true 0 9) a (EInt (mt true 8 9) 1)].
(* a = a + 1 *)
Definition in2 : list expr := [EAssign (mt true 10 19) a (10%N, 11%N) (EBin (mt true 14 19) (BInt OAdd) (EVar (mt true 14 15) a) (EInt (mt true 18 19) 1))].
(* f(a)  a *)
Definition in3 : list expr := [ECall (mt true 20 24) (EVar (mt true 20 21) 20%N) [EVar (mt true 22 23) a]; EVar (mt true 25 26) a].
(* f(a) + 10 *)
Definition in4 : list expr :=
  [EBin (mt true 27 36) (BInt OAdd) (ECall (mt true 27 31) (EVar (mt true 27 28) 20%N) [EVar (mt true 29 30) a]) (EInt (mt true 34 36) 10)].

Definition last_response (l : list response) : response := last l RespNoValue.

Example incremental_eq_batch_partial_instance :
  last_response (snd (run_history all_fixes 300 ex_prog fresh [RRun in1; RRun in2; RRun in3; RRun in4])) =
  last_response (snd (run_history all_fixes 300 ex_prog fresh [RRun (in1 ++ in2 ++ in3 ++ in4)])) /\
  last_response (snd (run_history all_fixes 300 ex_prog fresh [RRun (in1 ++ in2 ++ in3 ++ in4)])) = RespValue (VInt 14).
Proof. vm_compute. split; reflexivity. Qed.
Print Assumptions incremental_eq_batch_partial_instance.

(* every split of the same four inputs into requests gives the same last value *)
Example incremental_eq_batch_partial_all_splits :
  forallb (fun h => match last_response (snd (run_history all_fixes 300 ex_prog fresh h)) with
                    | RespValue (VInt 14) => true | _ => false end)
    [ [RRun in1; RRun (in2 ++ in3 ++ in4)]; [RRun (in1 ++ in2); RRun (in3 ++ in4)]; [RRun (in1 ++ in2 ++ in3); RRun in4];
      [RRun in1; RRun in2; RRun (in3 ++ in4)]; [RRun in1; RRun (in2 ++ in3); RRun in4]; [RRun (in1 ++ in2); RRun in3; RRun in4] ] = true.
Proof. vm_compute. reflexivity. Qed.
Print Assumptions incremental_eq_batch_partial_all_splits.

(* the toplevel variable really is in the toplevel block after the first request *)
Example toplevel_let_persists_instance :
  match stack (fst (run_history all_fixes 300 ex_prog fresh [RRun in1])) with
  | [f] => blocks f = [[(a, VInt 1)]] /\ todo f = []
  | _ => False
  end.
Proof. vm_compute. split; reflexivity. Qed.
Print Assumptions toplevel_let_persists_instance.
