(* C11 -- Incremental session input equals running it as one program.
   Only pinned statements; model Session.v, proofs SessionProps.v.

   Definitions (functions, enums) are STATIC in the model: the program `p` is
   fixed for the whole history.  What varies between requests is the evaluator
   state: the toplevel frame's binding block (toplevel variables) and value
   stack.

   WHAT IS PROVED: requests only replace the pending expressions of the current
   frame -- bindings, values, output are what the previous request left
   (`run_keeps_scope`); a toplevel `let` leaves its binding in the toplevel
   block where every later request finds it (`toplevel_lets_persist`).
   THE GENERAL STATEMENT "for every error-free history the last value of the
   incremental run equals that of the batch run" is `incremental_eq_batch_partial`
   at the end of this file (proofs in RefineSession.v, through the refinement
   of the reference semantics Ref.v; see the comment there for the fragment
   and the exact meaning of error-free).  `incremental_eq_batch_partial_instance`
   and `incremental_eq_batch_partial_all_splits` are machine-checked INSTANCES
   kept from before (one history of four inputs with a let, an assignment,
   calls and expressions, and every way of splitting it into requests). *)
From Coq Require Import ZArith NArith Bool List.
From Garden Require Import Base.Int64 Arith gen.Tables Machine MachineInv MachineSession Session SessionProps.
Import ListNotations.
Open Scope nat_scope.

Theorem run_keeps_scope : forall s exprs s2,
  install s exprs = Some s2 ->
  exists f rest, stack s = f :: rest /\
    stack s2 = set_todo f (map (fun e => (SNot, e)) exprs) :: rest /\
    out s2 = out s /\ ticks s2 = ticks s.
Proof. exact install_keeps_scope. Qed.
Print Assumptions run_keeps_scope.

Theorem toplevel_lets_persist : forall p s f t m x rhs v vs b bs,
  stack s = [f] -> todo f = (SDone, ELet m x rhs) :: t -> vals f = v :: vs -> blocks f = b :: bs ->
  N.eqb x underscore = false ->
  interrupted s = false -> tick_limit s = None -> stack_limit s = None ->
  exists s' f', step p s = Next s' /\ stack s' = [f'] /\ blocks f' = ((x, v) :: b) :: bs /\
    forall exprs s2, install s' exprs = Some s2 ->
      exists f2, stack s2 = [f2] /\ blocks f2 = ((x, v) :: b) :: bs /\ get_var p f2 x = Some v.
Proof. exact toplevel_lets_persist_lemma. Qed.
Print Assumptions toplevel_lets_persist.

(* ---- checked instances ------------------------------------------------------ *)
Definition mt (u : bool) (a b : N) : meta := {| used := u; pstart := a; pend := b |}.
Definition ex_prog : prog :=
  {| globals := [(20%N, VFun 20%N [])];
     funs := [(20%N, {| fparams := [30%N];
                        fbody := [ EBin (mt true 11 16) (BInt OMul) (EVar (mt true 11 12) 30%N) (EInt (mt true 15 16) 2) ] |})] |}.
Definition a : ident := 40%N.
(* let a = 1 *)
Definition in1 : list expr := [ELet (mt true 0 9) a (EInt (mt true 8 9) 1)].
(* a = a + 1 *)
Definition in2 : list expr := [EAssign (mt true 10 19) a (10%N, 11%N) (EBin (mt true 14 19) (BInt OAdd) (EVar (mt true 14 15) a) (EInt (mt true 18 19) 1))].
(* f(a)  a *)
Definition in3 : list expr := [ECall (mt true 20 24) (EVar (mt true 20 21) 20%N) [EVar (mt true 22 23) a]; EVar (mt true 25 26) a].
(* f(a) + 10 *)
Definition in4 : list expr :=
  [EBin (mt true 27 36) (BInt OAdd) (ECall (mt true 27 31) (EVar (mt true 27 28) 20%N) [EVar (mt true 29 30) a]) (EInt (mt true 34 36) 10)].

Definition last_response (l : list response) : response := last l RespNoValue.

Example incremental_eq_batch_partial_instance :
  last_response (snd (run_history all_fixes 300 ex_prog fresh [RRun in1; RRun in2; RRun in3; RRun in4])) =
  last_response (snd (run_history all_fixes 300 ex_prog fresh [RRun (in1 ++ in2 ++ in3 ++ in4)])) /\
  last_response (snd (run_history all_fixes 300 ex_prog fresh [RRun (in1 ++ in2 ++ in3 ++ in4)])) = RespValue (VInt 14).
Proof. vm_compute. split; reflexivity. Qed.
Print Assumptions incremental_eq_batch_partial_instance.

(* every split of the same four inputs into requests gives the same last value *)
Example incremental_eq_batch_partial_all_splits :
  forallb (fun h => match last_response (snd (run_history all_fixes 300 ex_prog fresh h)) with
                    | RespValue (VInt 14) => true | _ => false end)
    [ [RRun in1; RRun (in2 ++ in3 ++ in4)]; [RRun (in1 ++ in2); RRun (in3 ++ in4)]; [RRun (in1 ++ in2 ++ in3); RRun in4];
      [RRun in1; RRun in2; RRun (in3 ++ in4)]; [RRun in1; RRun (in2 ++ in3); RRun in4]; [RRun (in1 ++ in2); RRun in3; RRun in4] ] = true.
Proof. vm_compute. reflexivity. Qed.
Print Assumptions incremental_eq_batch_partial_all_splits.

(* the toplevel variable really is in the toplevel block after the first request *)
Example toplevel_let_persists_instance :
  match stack (fst (run_history all_fixes 300 ex_prog fresh [RRun in1])) with
  | [f] => blocks f = [[(a, VInt 1)]] /\ todo f = []
  | _ => False
  end.
Proof. vm_compute. split; reflexivity. Qed.
Print Assumptions toplevel_let_persists_instance.

(* ---- the GENERAL theorem (proofs in RefineSession.v) -------------------------
   Obtained from the refinement of the reference semantics (C05, RefineProps.v).
   FRAGMENT: run requests whose inputs are non-empty lists of toplevel
   expressions in Refine.in_fragment (the whole modelled core language except
   break / continue outside statement position), annotated as the parser does
   (Refine.well_annotated_toplevel); definitions (`prog`) static and well
   formed (prog_good); all_fixes; no tick / stack limits, no interrupts (the
   fresh session).  ERROR-FREE means: the reference semantics Ref.v evaluates
   the inputs, one after the other from the state the previous one left, to
   values (`ref_incremental ... = Some`), and the session answers every request
   with a value and is left with nothing pending (`session_values ... = Some`:
   RespValue and `idle`), request by request and for the concatenated input.
   The session fuels are arbitrary.  NOT covered: histories with definitions
   between requests, errors, commands other than run, inputs outside the
   fragment (differential testing in tools/props/C11.py). *)
From Garden Require Import Ref Refine RefineProps RefineSession.

(* Ref.v threads its state through a concatenation: running the inputs one
   after the other gives, as last value and final state, what running their
   concatenation gives. *)
Theorem ref_incremental_eq_batch_partial : forall p fuel d reqs s l s',
  ref_incremental p fuel s reqs = Some (l, s') -> reqs <> [] -> Forall (fun r => r <> []) reqs ->
  run_toplevel p fuel s (concat reqs) = (Ok (last l d), s').
Proof. exact RefineSession.ref_incremental_eq_batch. Qed.
Print Assumptions ref_incremental_eq_batch_partial.

(* `session_values` is a run of the session model (Session.run_history) in
   which every response is a value (and every request leaves the session idle) *)
Theorem session_values_is_run_history : forall hfuel p reqs s s2 l,
  session_values hfuel p s reqs = Some (s2, l) ->
  run_history all_fixes hfuel p s (map RRun reqs) = (s2, map RespValue l).
Proof. exact RefineSession.session_values_history. Qed.
Print Assumptions session_values_is_run_history.

(* Incremental = batch: the values the session reports request by request are
   the reference's; the one request with all the inputs reports the last of
   them; both runs print the same output. *)
Theorem incremental_eq_batch_partial : forall p rfuel hfuel hfuel' reqs lref sref s_inc l_inc s_bat l_bat,
  prog_good p = true -> reqs <> [] -> Forall input_ok reqs ->
  ref_incremental p rfuel (mkSt [[]] []) reqs = Some (lref, sref) ->
  session_values hfuel p Session.fresh reqs = Some (s_inc, l_inc) ->
  session_values hfuel' p Session.fresh [concat reqs] = Some (s_bat, l_bat) ->
  l_inc = lref /\ l_bat = [last lref vunit] /\ last l_inc vunit = last l_bat vunit /\ out s_inc = out s_bat.
Proof. exact RefineSession.incremental_eq_batch. Qed.
Print Assumptions incremental_eq_batch_partial.

(* non-vacuity: the four-input history above satisfies every hypothesis *)
Example incremental_eq_batch_hypotheses_hold :
  prog_good ex_prog = true /\ Forall input_ok [in1; in2; in3; in4] /\
  (exists sref, ref_incremental ex_prog 50 (mkSt [[]] []) [in1; in2; in3; in4] = Some ([vunit; vunit; VInt 2; VInt 14], sref)) /\
  (exists s1, session_values 300 ex_prog Session.fresh [in1; in2; in3; in4] = Some (s1, [vunit; vunit; VInt 2; VInt 14])) /\
  (exists s2, session_values 300 ex_prog Session.fresh [concat [in1; in2; in3; in4]] = Some (s2, [VInt 14])).
Proof.
  split; [reflexivity|]. split.
  { repeat constructor; try discriminate. }
  split; [eexists; vm_compute; reflexivity|]. split; eexists; vm_compute; reflexivity.
Qed.
Print Assumptions incremental_eq_batch_hypotheses_hold.
