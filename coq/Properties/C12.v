(* C12 -- Printed values read back as equal values: THE STRING PART.
   Only statements here; proofs are in LexProps.v, the model is Lex.v:
     escape    = values.rs escape_string_literal (how string_repr / the REPL
                 print a string)
     string_re = lex.rs STRING_RE (with fix-2) as a scanner
     unescape  = parser.rs unescape_string (second component: number of
                 invalid escape sequences reported)
   Lists / tuples / dicts / ints / floats: not proved here (search in
   tools/props/C12.py). *)
From Coq Require Import NArith Bool List.
From Garden Require Import Base.Utf Lex LexProps.
Import ListNotations.
Open Scope N_scope.

(* For ALL strings s (any scalar values, including quote, backslash, newline,
   tab) and ALL following text `rest` (no side condition is needed): the STRING
   scanner applied to `escape s ++ rest` consumes exactly `escape s`, and
   unescaping the token gives back s without diagnostics. *)
Theorem string_token_roundtrip : forall s rest : list N,
  string_re true (escape s ++ rest) = Some (escape s) /\ unescape (escape s) = Some (s, 0).
Proof. exact (fun s rest => conj (string_re_escape s rest) (unescape_escape s)). Qed.
Print Assumptions string_token_roundtrip.

(* In any context (`p` before, `rest` after) the lexer iteration that starts at
   the first character of a printed string produces the token `escape s`
   spanning exactly its bytes -- it is not taken for a comment, operator,
   number or symbol. *)
Theorem printed_string_is_one_token : forall p s rest : list N,
  exists ps, lex_step cfg_fixed (p ++ escape s ++ rest) (blen p) = SToken ps (escape s) (blen (escape s))
             /\ spans ps (blen p) (blen (escape s)).
Proof. exact lex_step_escape. Qed.
Print Assumptions printed_string_is_one_token.

(* The whole lexer on a printed string: one token, no comments, no errors. *)
Theorem printed_string_lexes : forall s : list N, exists ps,
  lex (escape s) = LexOk [mktoken ps (escape s) []] [] [] /\ spans ps 0 (blen (escape s)).
Proof. exact lex_escape. Qed.
Print Assumptions printed_string_lexes.

(* Non-vacuity: the string `a\` prints as "a\\"; followed by `, "b"]` the
   scanner stops after the printed string, and `["a\\", "b"]` lexes into
   five tokens. *)
Example string_roundtrip_example :
  string_re true (escape str_a_backslash ++ rest_comma_b) = Some (escape str_a_backslash) /\
  escape str_a_backslash = [34; 97; 92; 92; 34] /\
  unescape [34; 97; 92; 92; 34] = Some (str_a_backslash, 0) /\
  exists ts, lex [91; 34; 97; 92; 92; 34; 44; 32; 34; 98; 34; 93] = LexOk ts [] [] /\
             tok_texts ts = [[91]; [34; 97; 92; 92; 34]; [44]; [34; 98; 34]; [93]].
Proof.
  exact (conj (string_re_escape str_a_backslash rest_comma_b)
        (conj eq_refl (conj (unescape_escape str_a_backslash) list_of_strings_lex))).
Qed.
Print Assumptions string_roundtrip_example.

(* The STRING_RE BEFORE fix-2 is refuted on exactly that input. *)
Theorem unfixed_string_re_refuted :
  string_re false (escape str_a_backslash ++ rest_comma_b) <> Some (escape str_a_backslash).
Proof. exact orig_string_re_refuted. Qed.
Print Assumptions unfixed_string_re_refuted.
