(* C12 -- Printed values read back as equal values: THE STRING PART.
   Only statements here; proofs are in LexProps.v, the model is Lex.v:
     escape    = values.rs escape_string_literal (how string_repr / the REPL
                 print a string)
     string_re = lex.rs STRING_RE (with fix-2) as a scanner
     unescape  = parser.rs unescape_string (second component: number of
                 invalid escape sequences reported)
   and, below, THE LITERAL FRAGMENT (ReadLit.v / ReadLitProps.v): integers,
   strings, True / False / Unit / None, Some / Ok / Err, lists and tuples, nested
   arbitrarily.  Floats, dicts and structs: not proved (search in
   tools/props/C12.py). *)
From Coq Require Import NArith Bool List.
From Coq Require Import ZArith.
From Garden Require Import Base.Utf Lex LexProps ReadLit ReadLitProps.
Import ListNotations.
Open Scope N_scope.

(* For ALL strings s (any scalar values, including quote, backslash, newline,
   tab) and ALL following text `rest` (no side condition is needed): the STRING
   scanner applied to `escape s ++ rest` consumes exactly `escape s`, and
   unescaping the token gives back s without diagnostics. *)
Theorem string_token_roundtrip : forall s rest : list N,
  string_re true (escape s ++ rest) = Some (escape s) /\ unescape (escape s) = Some (s, 0).
Proof. exact (fun s rest => conj (string_re_escape s rest) (unescape_escape s)). Qed.
Print Assumptions string_token_roundtrip.

(* In any context (`p` before, `rest` after) the lexer iteration that starts at
   the first character of a printed string produces the token `escape s`
   spanning exactly its bytes -- it is not taken for a comment, operator,
   number or symbol. *)
Theorem printed_string_is_one_token : forall p s rest : list N,
  exists ps, lex_step cfg_fixed (p ++ escape s ++ rest) (blen p) = SToken ps (escape s) (blen (escape s))
             /\ spans ps (blen p) (blen (escape s)).
Proof. exact lex_step_escape. Qed.
Print Assumptions printed_string_is_one_token.

(* The whole lexer on a printed string: one token, no comments, no errors. *)
Theorem printed_string_lexes : forall s : list N, exists ps,
  lex (escape s) = LexOk [mktoken ps (escape s) []] [] [] /\ spans ps 0 (blen (escape s)).
Proof. exact lex_escape. Qed.
Print Assumptions printed_string_lexes.

(* Non-vacuity: the string `a\` prints as "a\\"; followed by `, "b"]` the
   scanner stops after the printed string, and `["a\\", "b"]` lexes into
   five tokens. *)
Example string_roundtrip_example :
  string_re true (escape str_a_backslash ++ rest_comma_b) = Some (escape str_a_backslash) /\
  escape str_a_backslash = [34; 97; 92; 92; 34] /\
  unescape [34; 97; 92; 92; 34] = Some (str_a_backslash, 0) /\
  exists ts, lex [91; 34; 97; 92; 92; 34; 44; 32; 34; 98; 34; 93] = LexOk ts [] [] /\
             tok_texts ts = [[91]; [34; 97; 92; 92; 34]; [44]; [34; 98; 34]; [93]].
Proof.
  exact (conj (string_re_escape str_a_backslash rest_comma_b)
        (conj eq_refl (conj (unescape_escape str_a_backslash) list_of_strings_lex))).
Qed.
Print Assumptions string_roundtrip_example.

(* The STRING_RE BEFORE fix-2 is refuted on exactly that input. *)
Theorem unfixed_string_re_refuted :
  string_re false (escape str_a_backslash ++ rest_comma_b) <> Some (escape str_a_backslash).
Proof. exact orig_string_re_refuted. Qed.
Print Assumptions unfixed_string_re_refuted.

(* ------------------------------------------------------------------ *)
(* The literal fragment.  `lit` / `show` / `read_literal` are ReadLit.v's own
   small value tree, printer (Value::display for these constructors) and
   reader (the success paths of the parser on this grammar: parse_integer
   with `_` separators and i64 range, unescape_string, tuple / list / call
   parsing); `printable v` says every integer in v is an i64.

   For ALL printable values v of the fragment (any nesting depth, strings over
   all scalar values, integers down to i64::MIN): the printed text lexes without
   errors or comments into tokens that the reader turns back into exactly v,
   consuming all of them.  "_partial": floats, dicts and structs are not in
   the fragment, and the evaluation of the literal (the reader interprets
   True .. Err(x) as the prelude's constructors) is modelled, not the evaluator. *)
Theorem literal_roundtrip_partial : forall v : lit, printable v = true ->
  exists toks, lex (show v) = LexOk toks [] [] /\ read_literal toks = Some (v, []).
Proof. exact literal_roundtrip_lemma. Qed.
Print Assumptions literal_roundtrip_partial.

(* the same, as the function the extracted driver runs *)
Theorem read_source_show_partial : forall v : lit, printable v = true -> read_source (show v) = Some v.
Proof. exact read_source_show. Qed.
Print Assumptions read_source_show_partial.

(* integer tokens: printing an i64 and reading the token gives it back *)
Theorem integer_token_roundtrip : forall z : Z, in_i64 z = true -> parse_i64 (show_int z) = Some z.
Proof. exact parse_show_int. Qed.
Print Assumptions integer_token_roundtrip.

(* Non-vacuity: [Some(-9223372036854775808), (1,), ("a\", True), (), [], Ok(Err(Unit))] *)
Example literal_roundtrip_example :
  printable sample_value = true /\
  read_source (show sample_value) = Some sample_value /\
  show sample_value =
    [91; 83; 111; 109; 101; 40; 45; 57; 50; 50; 51; 51; 55; 50; 48; 51; 54; 56; 53; 52; 55; 55; 53; 56; 48;
     56; 41; 44; 32; 40; 49; 44; 41; 44; 32; 40; 34; 97; 92; 92; 34; 44; 32; 84; 114; 117; 101; 41; 44; 32;
     40; 41; 44; 32; 91; 93; 44; 32; 79; 107; 40; 69; 114; 114; 40; 85; 110; 105; 116; 41; 41; 93].
Proof. exact sample_value_roundtrip. Qed.
Print Assumptions literal_roundtrip_example.

(* 9223372036854775808 is refused (the parser reports it as out of range),
   -9223372036854775808 and 1_000 are read. *)
Example integer_range_example :
  parse_i64 [57; 50; 50; 51; 51; 55; 50; 48; 51; 54; 56; 53; 52; 55; 55; 53; 56; 48; 56] = None /\
  parse_i64 [45; 57; 50; 50; 51; 51; 55; 50; 48; 51; 54; 56; 53; 52; 55; 55; 53; 56; 48; 56] =
    Some (-9223372036854775808)%Z /\
  parse_i64 [49; 95; 48; 48; 48] = Some 1000%Z.
Proof. exact out_of_range_refused. Qed.
Print Assumptions integer_range_example.
