(* C13 -- `==` is structural equality on values.
   Only statements here; the model is Value.v (mirror of `impl PartialEq for Value_`, of the `Rc` pointer
   shortcut and of the literal evaluators in /repo/src), proofs are in ValueEqProps.v.

   veq a b          `a == b` for two values built independently (no shared `Rc`)
   veq_sh same a b  `a == b` when `same x y` tells which sub-values are the same `Rc` object
   vne / vne_sh     `a != b`
   literal a        a is a value of the literal-syntax fragment in which every dict is a map (each key once)
   a ≈ b            structural equality: syntactic equality except that runtime-type annotations are not
                    looked at and dicts are compared as maps (order of the pairs irrelevant); floats are
                    their bit patterns (= their printed forms, for finite floats) *)
From Coq Require Import ZArith NArith Bool List.
From Garden Require Import Value ValueEqProps.
Import ListNotations.

Theorem veq_structural : forall a b, literal a -> literal b -> (veq a b = true <-> a ≈ b).
Proof. exact veq_structural_lemma. Qed.
Print Assumptions veq_structural.

Example veq_structural_example :
  literal ex_m1 /\ literal ex_m2 /\ ex_m1 <> ex_m2 /\ veq ex_m1 ex_m2 = true /\ ex_m1 ≈ ex_m2.
Proof. exact ex_structural_lemma. Qed.
Print Assumptions veq_structural_example.

(* ≈ is an equivalence relation (on all values of the model, literal or not). *)
Theorem struct_eq_equivalence :
  (forall a, a ≈ a) /\ (forall a b, a ≈ b -> b ≈ a) /\ (forall a b c, a ≈ b -> b ≈ c -> a ≈ c).
Proof. exact (conj struct_eq_refl (conj struct_eq_sym struct_eq_trans)). Qed.
Print Assumptions struct_eq_equivalence.

Theorem veq_refl : forall a, literal a -> veq a a = true.
Proof. exact veq_refl_lemma. Qed.
Print Assumptions veq_refl.

Theorem veq_sym : forall a b, literal a -> literal b -> veq a b = veq b a.
Proof. exact veq_sym_lemma. Qed.
Print Assumptions veq_sym.

Theorem veq_trans : forall a b c, literal a -> literal b -> literal c ->
  veq a b = true -> veq b c = true -> veq a c = true.
Proof. exact veq_trans_lemma. Qed.
Print Assumptions veq_trans.

Example veq_trans_example :
  literal ex_m1 /\ literal ex_m2 /\ literal ex_m3 /\ veq ex_m1 ex_m2 = true /\ veq ex_m2 ex_m3 = true /\ veq ex_m1 ex_m3 = true.
Proof. exact ex_trans_lemma. Qed.
Print Assumptions veq_trans_example.

(* `!=` is the negation of `==`, shared or not. *)
Theorem neq_is_negb : forall same a b, vne_sh same a b = negb (veq_sh same a b).
Proof. exact neq_is_negb_lemma. Qed.
Print Assumptions neq_is_negb.

(* The `Rc::ptr_eq` shortcut (at any depth) never changes the answer: values built through shared
   variables compare like values built separately. *)
Theorem veq_independent_of_sharing : forall same a b, same_ok same -> literal a -> literal b ->
  veq_sh same a b = veq a b.
Proof. exact veq_independent_of_sharing_lemma. Qed.
Print Assumptions veq_independent_of_sharing.

Example veq_independent_of_sharing_example : forall same, same_ok same ->
  veq_sh same ex_m1 ex_m2 = true /\ veq_sh same f_zero f_neg_zero = false.
Proof. exact ex_sharing_lemma. Qed.
Print Assumptions veq_independent_of_sharing_example.

(* What ≈ identifies beyond syntactic equality: annotations and dict order. *)
Theorem struct_eq_ignores_list_type : forall t1 t2 xs, VList t1 xs ≈ VList t2 xs.
Proof. exact veq_ignores_list_type. Qed.
Print Assumptions struct_eq_ignores_list_type.

Theorem struct_eq_ignores_enum_type : forall n t1 t2 i p, VEnum n t1 i p ≈ VEnum n t2 i p.
Proof. exact veq_ignores_enum_type. Qed.
Print Assumptions struct_eq_ignores_enum_type.

Theorem struct_eq_dict_order : forall t1 t2 k1 v1 k2 v2 m, k1 <> k2 ->
  VDict t1 ((k1, v1) :: (k2, v2) :: m) ≈ VDict t2 ((k2, v2) :: (k1, v1) :: m).
Proof. exact dict_swap. Qed.
Print Assumptions struct_eq_dict_order.

(* Floats: 0.1 +. 0.2 == 0.1 +. 0.2, != 0.3; 0.0 != -0.0 (they print differently); [1.5] == [1.5]; 1 != 1.0. *)
Example veq_floats_example :
  veq f_01_plus_02 f_01_plus_02 = true /\ veq f_01_plus_02 f_03 = false /\
  veq f_zero f_neg_zero = false /\ veq f_neg_zero f_neg_zero = true /\
  veq (mk_list [f_1_5]) (mk_list [f_1_5]) = true /\ veq (VInt 1) (VFloat 4607182418800017408) = false.
Proof. exact ex_floats_lemma. Qed.
Print Assumptions veq_floats_example.

(* The code as it was (values.rs before fix-1) refutes the property: *)
Theorem orig_float_never_equal : forall bits, orig_veq_sh false no_sharing (VFloat bits) (VFloat bits) = false.
Proof. exact ValueEqProps.orig_float_never_equal. Qed.
Print Assumptions orig_float_never_equal.

Theorem orig_float_equal_when_shared : forall bits, orig_veq_sh false (fun _ _ => true) (VFloat bits) (VFloat bits) = true.
Proof. exact ValueEqProps.orig_float_equal_when_shared. Qed.
Print Assumptions orig_float_equal_when_shared.

Theorem orig_dict_never_equal : forall t m, orig_veq_sh false no_sharing (VDict t m) (VDict t m) = false.
Proof. exact ValueEqProps.orig_dict_never_equal. Qed.
Print Assumptions orig_dict_never_equal.

(* After fix-1 only: `Some(Dict["a" => [], "b" => [1]]) == Some(Dict["b" => [1], "a" => []])` is False because
   the runtime types Option<Dict<List<Int>>> and Option<Dict<List<NoValue>>> differ; after fix-2 it is True. *)
Example fix2_needed_example :
  literal ex_some1 /\ literal ex_some2 /\ ex_some1 ≈ ex_some2 /\
  orig_veq_sh true no_sharing ex_some1 ex_some2 = false /\ veq ex_some1 ex_some2 = true.
Proof. exact ex_fix2_needed_lemma. Qed.
Print Assumptions fix2_needed_example.

(* `Pt{ x: 1, y: 2 }` and `Pt{ y: 2, x: 1 }` are the same value after fix-3, and were unequal before. *)
Example struct_literal_order_example :
  ex_pt1 = ex_pt2 /\ veq ex_pt1 ex_pt2 = true /\ veq ex_pt1_orig ex_pt2_orig = false.
Proof. exact ex_struct_order_lemma. Qed.
Print Assumptions struct_literal_order_example.
