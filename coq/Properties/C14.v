(* C14 -- Subtyping is a preorder with the documented variance.
   Only pinned statements; proofs are in TypesProps.v, the model in Types.v.

   `is_subtype a b : bool` is the executable mirror of `is_subtype` in src/garden_type.rs
   (the relation both the checker and the runtime's `check_type` use).  It is defined as
   the fuelled mirror run with fuel `ty_size a + ty_size b`; `sub_fuel_enough` shows that
   this (and any larger) fuel never runs out, and `sub_characteristic` that the function
   satisfies the one-step unfolding of the Rust `match`, so fuel plays no role below.

   ty_wf Sg t: every user-defined name in t is applied to exactly `Sg name` arguments.
   ty_no_err t: no checker Error inside t. *)
From Coq Require Import List Bool Arith NArith String.
From Garden Require Import Types TypesProps.
Import ListNotations.

Theorem sub_fuel_enough : forall n a b,
  ty_size a + ty_size b <= n -> is_subtype_fuel n a b = Some (is_subtype a b).
Proof. exact sub_fuel_enough_lemma. Qed.
Print Assumptions sub_fuel_enough.

Theorem sub_characteristic : forall a b, is_subtype a b = sub_stepb is_subtype a b.
Proof. exact sub_unfold. Qed.
Print Assumptions sub_characteristic.

(* Reflexive -- on every type, well-formed or not. *)
Theorem sub_refl : forall a, is_subtype a a = true.
Proof. exact sub_refl_lemma. Qed.
Print Assumptions sub_refl.

(* Transitive on well-formed types; Error must not occur in the middle type. *)
Theorem sub_trans : forall (Sg : sig) a b c,
  ty_wf Sg a = true -> ty_wf Sg b = true -> ty_wf Sg c = true -> ty_no_err b = true ->
  is_subtype a b = true -> is_subtype b c = true -> is_subtype a c = true.
Proof. exact sub_trans_lemma. Qed.
Print Assumptions sub_trans.

(* Non-vacuity: a well-formed, error-free chain through both variances,
   Fun<(Any), List<NoValue>>  <:  Fun<(Int), List<Int>>  <:  Fun<(NoValue), Any>,
   none of whose converses holds. *)
Example sub_trans_example :
  let a := TFun 0 [TAny] (t_list no_value) in
  let b := TFun 0 [t_int] (t_list t_int) in
  let c := TFun 0 [no_value] TAny in
  ty_ok prelude_sig a = true /\ ty_ok prelude_sig b = true /\ ty_ok prelude_sig c = true /\
  is_subtype a b = true /\ is_subtype b c = true /\ is_subtype a c = true /\
  is_subtype b a = false /\ is_subtype c b = false.
Proof. vm_compute. repeat split. Qed.
Print Assumptions sub_trans_example.

(* Well-formedness is necessary: `zip` truncates in the UserDefined arm, so
   Foo<Int, String> <: Foo<Int> <: Foo<Int, Bool> but not Foo<Int, String> <: Foo<Int, Bool>. *)
Theorem sub_trans_needs_wf :
  let a := TUser KStruct (nm "Foo") [t_int; t_string] in
  let b := TUser KStruct (nm "Foo") [t_int] in
  let c := TUser KStruct (nm "Foo") [t_int; t_bool] in
  ty_no_err a = true /\ ty_no_err b = true /\ ty_no_err c = true /\
  is_subtype a b = true /\ is_subtype b c = true /\ is_subtype a c = false.
Proof. exact sub_trans_needs_wf_lemma. Qed.
Print Assumptions sub_trans_needs_wf.

(* Error-freedom of the middle type is necessary: Int <: _ <: String. *)
Theorem sub_trans_needs_no_err :
  is_subtype t_int (TErr 0) = true /\ is_subtype (TErr 0) t_string = true /\ is_subtype t_int t_string = false.
Proof. exact sub_trans_needs_no_err_lemma. Qed.
Print Assumptions sub_trans_needs_no_err.

(* Any is the top type ... *)
Theorem any_top : forall a, is_subtype a TAny = true.
Proof. exact any_top_lemma. Qed.
Print Assumptions any_top.

(* ... strictly: nothing error-free other than Any is above Any. *)
Theorem any_top_strict : forall b, ty_no_err b = true -> is_subtype TAny b = true -> b = TAny.
Proof. exact any_top_strict_lemma. Qed.
Print Assumptions any_top_strict.

(* NoValue is the bottom type ... *)
Theorem novalue_bottom : forall b, is_subtype no_value b = true.
Proof. exact novalue_bottom_lemma. Qed.
Print Assumptions novalue_bottom.

(* ... strictly: only (types named) NoValue are below NoValue. *)
Theorem novalue_bottom_strict : forall a,
  ty_no_err a = true -> is_subtype a no_value = true -> is_no_value a = true.
Proof. exact novalue_bottom_strict_lemma. Qed.
Print Assumptions novalue_bottom_strict.

(* Tuples: same length and pointwise (covariant). *)
Theorem tuple_covariant : forall l1 l2,
  is_subtype (TTuple l1) (TTuple l2) = true <-> Forall2 (fun x y => is_subtype x y = true) l1 l2.
Proof. exact tuple_covariant_lemma. Qed.
Print Assumptions tuple_covariant.

(* User-defined types are covariant in their arguments (kind is ignored) ... *)
Theorem user_covariant : forall k1 k2 n a1 a2,
  Forall2 (fun x y => is_subtype x y = true) a1 a2 -> is_subtype (TUser k1 n a1) (TUser k2 n a2) = true.
Proof. exact user_covariant_lemma. Qed.
Print Assumptions user_covariant.

(* ... and nominal: at equal arity nothing else relates two (non-bottom) user types. *)
Theorem user_covariant_inv : forall k1 k2 n1 n2 a1 a2,
  n1 <> n_NoValue -> List.length a1 = List.length a2 ->
  is_subtype (TUser k1 n1 a1) (TUser k2 n2 a2) = true ->
  n1 = n2 /\ Forall2 (fun x y => is_subtype x y = true) a1 a2.
Proof. exact user_covariant_inv_lemma. Qed.
Print Assumptions user_covariant_inv.

(* Functions: contravariant in the parameters, covariant in the result. *)
Theorem fun_contra_co : forall t1 p1 r1 t2 p2 r2,
  is_subtype (TFun t1 p1 r1) (TFun t2 p2 r2) = true <->
  Forall2 (fun x y => is_subtype y x = true) p1 p2 /\ is_subtype r1 r2 = true.
Proof. exact fun_contra_co_lemma. Qed.
Print Assumptions fun_contra_co.

(* Non-vacuity of the variance statements: each is strict somewhere. *)
Example variance_example :
  is_subtype (t_list no_value) (t_list t_int) = true /\ is_subtype (t_list t_int) (t_list no_value) = false /\
  is_subtype (TTuple [no_value; t_int]) (TTuple [t_string; TAny]) = true /\
  is_subtype (TTuple [t_int]) (TTuple [t_int; t_int]) = false /\
  is_subtype (TFun 0 [TAny] t_int) (TFun 0 [t_int] t_int) = true /\
  is_subtype (TFun 0 [t_int] t_int) (TFun 0 [TAny] t_int) = false /\
  is_subtype (TParam (nm "T")) (TParam (nm "T")) = true /\ is_subtype (TParam (nm "T")) (TParam (nm "U")) = false.
Proof. vm_compute. repeat split. Qed.
Print Assumptions variance_example.

(* The byte-list constants are the names they claim to be. *)
Example names_example :
  n_NoValue = nm "NoValue" /\ n_Int = nm "Int" /\ n_List = nm "List" /\ n_Result = nm "Result".
Proof. repeat split. Qed.
Print Assumptions names_example.
