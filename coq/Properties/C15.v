(* C15 -- Inferred types of lists and branches cover every element.
   Only pinned statements; proofs are in TypesProps.v, the model in Types.v.

   `unify` / `unify_all` mirror src/checks/type_checker.rs; `site_*` mirror what the call
   sites do with the result (list and dict literals, if/else, try/catch, match arms). *)
From Coq Require Import List Bool Arith NArith String.
From Garden Require Import Types TypesProps.
Import ListNotations.

(* The combined type is above both inputs -- for ALL types (no hypothesis is needed). *)
Theorem unify_upper : forall a b c,
  unify a b = Some c -> is_subtype a c = true /\ is_subtype b c = true.
Proof. exact unify_upper_lemma. Qed.
Print Assumptions unify_upper.

(* Combining equal types returns that same type. *)
Theorem unify_idem : forall a, unify a a = Some a.
Proof. exact unify_idem_lemma. Qed.
Print Assumptions unify_idem.

Theorem unify_all_same : forall t n, unify_all (repeat t (S n)) = Some t.
Proof. exact unify_all_same_any_lemma. Qed.
Print Assumptions unify_all_same.

(* unify stays inside the well-formed, error-free types. *)
Theorem unify_preserves_ok : forall (Sg : sig) a b c,
  ty_ok Sg a = true -> ty_ok Sg b = true -> unify a b = Some c -> ty_ok Sg c = true.
Proof. exact unify_ok. Qed.
Print Assumptions unify_preserves_ok.

(* Every element of the list is below the combined type (uses transitivity, hence the
   well-formedness / error-freedom hypothesis on the elements). *)
Theorem unify_all_upper : forall (Sg : sig) ts c,
  forallb (ty_ok Sg) ts = true -> unify_all ts = Some c ->
  Forall (fun t => is_subtype t c = true) ts.
Proof. exact unify_all_upper_lemma. Qed.
Print Assumptions unify_all_upper.

Example unify_example :
  unify (t_list no_value) (t_list t_int) = Some (t_list t_int) /\
  unify (TUser KEnum n_Result [t_int; no_value]) (TUser KEnum n_Result [no_value; t_string])
    = Some (TUser KEnum n_Result [t_int; t_string]) /\
  unify t_int TAny = Some TAny /\
  unify t_int t_string = None /\
  unify (TTuple [t_int; no_value]) (TTuple [no_value; t_int]) = None /\
  unify_all [no_value; t_list no_value; t_list t_int; t_list no_value] = Some (t_list t_int) /\
  forallb (ty_ok prelude_sig) [no_value; t_list no_value; t_list t_int; t_list no_value] = true.
Proof. vm_compute. repeat split. Qed.
Print Assumptions unify_example.

(* ---- the call sites ---------------------------------------------------------------- *)
(* List / dict literals: the element type is unify_all's answer or, with a diagnostic, Any. *)
Theorem site_list_upper : forall (Sg : sig) items, forallb (ty_ok Sg) items = true ->
  exists e, site_list items = t_list e /\ Forall (fun t => is_subtype t e = true) items.
Proof. exact infer_list_upper_lemma. Qed.
Print Assumptions site_list_upper.

Theorem site_dict_upper : forall (Sg : sig) values, forallb (ty_ok Sg) values = true ->
  exists e, site_dict values = t_dict e /\ Forall (fun t => is_subtype t e = true) values.
Proof. exact infer_dict_upper_lemma. Qed.
Print Assumptions site_dict_upper.

(* List literal checked against List<T>: falls back to Error, which `is_subtype` puts above everything. *)
Theorem site_check_list_upper : forall (Sg : sig) items, forallb (ty_ok Sg) items = true ->
  exists e, site_check_list items = t_list e /\ Forall (fun t => is_subtype t e = true) items.
Proof. exact check_list_upper_lemma. Qed.
Print Assumptions site_check_list_upper.

(* if/else and try/catch. *)
Theorem site_branches_upper : forall t1 t2,
  is_subtype t1 (site_branches t1 t2) = true /\ is_subtype t2 (site_branches t1 t2) = true.
Proof. exact infer_branches_upper_lemma. Qed.
Print Assumptions site_branches_upper.

(* Their Error fall-back comes with a diagnostic; an error-free result is unify's own. *)
Theorem site_branches_error_free : forall t1 t2,
  ty_no_err (site_branches t1 t2) = true -> unify t1 t2 = Some (site_branches t1 t2).
Proof. exact infer_branches_no_err_lemma. Qed.
Print Assumptions site_branches_error_free.

(* match arms; `expected` is Any when inferring.  The second hypothesis says that
   check_block reported no mismatch between an arm and the expected type. *)
Theorem site_match_upper : forall (Sg : sig) expected cases,
  forallb (ty_ok Sg) cases = true ->
  Forall (fun t => is_subtype t expected = true) cases ->
  Forall (fun t => is_subtype t (site_match expected cases) = true) cases.
Proof. exact infer_match_upper_lemma. Qed.
Print Assumptions site_match_upper.

(* The two fall-back types are upper bounds of anything. *)
Theorem fallbacks_are_upper_bounds : forall a g, is_subtype a TAny = true /\ is_subtype a (TErr g) = true.
Proof. exact fallbacks_upper_lemma. Qed.
Print Assumptions fallbacks_are_upper_bounds.

Example site_example :
  site_list [t_int; t_string] = t_list TAny /\
  site_list [t_list no_value; t_list t_int] = t_list (t_list t_int) /\
  site_branches (t_list no_value) (t_list t_int) = t_list t_int /\
  site_branches t_int t_string = TErr 1 /\
  site_match TAny [TUser KEnum n_Option [no_value]; TUser KEnum n_Option [t_int]] = TUser KEnum n_Option [t_int] /\
  site_match (TUser KEnum n_Option [t_int]) [TUser KEnum n_Option [no_value]; TUser KEnum n_Option [no_value]]
    = TUser KEnum n_Option [no_value].
Proof. vm_compute. repeat split. Qed.
Print Assumptions site_example.
