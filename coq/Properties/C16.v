(* C16 -- Programs that pass `check` raise no runtime type errors.
   Statements only; proofs in TypingSound.v.

   SCOPE (be precise): `tc_prog` is the MODEL checker of Typing.v for the
   first-order core (Int/Bool/String/List<Int> literals, variables, let,
   assignment, += / -=, operators, if / if-else, while, blocks, println,
   string_repr, calls of fully annotated top-level functions) and `run` is the
   MODEL big-step semantics of that fragment, in which every type-related
   runtime error class of the property is the outcome TypeError.  The theorem
   says nothing about src/checks/type_checker.rs directly; the tie is the
   verdict correspondence of tools/props/C16.py (every generated program that
   `tc_prog` accepts must be accepted by `garden check`) plus the search that
   runs check-accepted programs on the real interpreter. *)
From Coq Require Import ZArith NArith Bool List.
From Garden Require Import Typing TypingSound.
Import ListNotations.

Theorem tc_sound_core : forall p, tc_prog p = true -> forall fuel, run fuel p <> TypeError.
Proof. exact tc_sound. Qed.
Print Assumptions tc_sound_core.

(* the two halves behind it, for every expression: progress + preservation in
   big-step form (`good`: never TypeErr; a result has the checked type and the
   environment still matches the typing context) *)
Theorem tc_progress_preservation : forall F, fenv_ok F -> forall k n G r e t,
  tc n F G e = Some t -> env_ok G r -> good t G (ev k F r e).
Proof. exact (fun F H k n => ev_sound F H k n). Qed.
Print Assumptions tc_progress_preservation.

(* the hypothesis is satisfiable by a program with a call, a loop and output *)
Example tc_accepts_example : tc_prog ex_good = true /\ run 100 ex_good = Finished (VBool true).
Proof. exact ex_good_accepted. Qed.
Print Assumptions tc_accepts_example.

(* and the checker is not vacuous the other way: an ill-typed call is rejected, and it does fail *)
Example tc_rejects_example : tc_prog ex_bad = false /\ run 100 ex_bad = TypeError.
Proof. exact ex_bad_rejected. Qed.
Print Assumptions tc_rejects_example.
