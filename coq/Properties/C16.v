(* C16 -- Programs that pass `check` raise no runtime type errors.
   Statements only; proofs in TypingSound.v.

   SCOPE (be precise): `tc_prog` is the MODEL checker of Typing.v for the
   first-order core (Int/Bool/String/List<Int> literals, Option<T> values with
   Some/None, variables, let, assignment, += / -=, operators, if / if-else,
   `match` on an Option with exactly the arms Some(x) and None, while,
   `for x in <List<Int>>`, blocks, pairs `(a, b)` with the destructuring
   `let (x, y) = e`, println, string_repr, early `return e`,
   calls of fully annotated top-level functions) and `run` is the
   MODEL big-step semantics of that fragment, in which every type-related
   runtime error class of the property is the outcome TypeError.  The theorem
   says nothing about src/checks/type_checker.rs directly; the tie is the
   verdict correspondence of tools/props/C16.py (every generated program that
   `tc_prog` accepts must be accepted by `garden check`) plus the search that
   runs check-accepted programs on the real interpreter. *)
From Coq Require Import ZArith NArith Bool List.
From Garden Require Import Typing TypingSound.
Import ListNotations.

Theorem tc_sound_core : forall p, tc_prog p = true -> forall fuel, run fuel p <> TypeError.
Proof. exact tc_sound. Qed.
Print Assumptions tc_sound_core.

(* the two halves behind it, for every expression: progress + preservation in
   big-step form (`good`: never TypeErr; a result has the checked type and the
   environment still matches the typing context) *)
Theorem tc_progress_preservation : forall F, fenv_ok F -> forall k n rt G r e t,
  tc n F rt G e = Some t -> env_ok G r -> good rt t G (ev k F r e).
Proof. exact (fun F H k n rt => ev_sound F H k n rt). Qed.
Print Assumptions tc_progress_preservation.

(* the hypothesis is satisfiable by a program with a call, a loop and output *)
Example tc_accepts_example : tc_prog ex_good = true /\ run 100 ex_good = Finished (VBool true).
Proof. exact ex_good_accepted. Qed.
Print Assumptions tc_accepts_example.

(* and the checker is not vacuous the other way: an ill-typed call is rejected, and it does fail *)
Example tc_rejects_example : tc_prog ex_bad = false /\ run 100 ex_bad = TypeError.
Proof. exact ex_bad_rejected. Qed.
Print Assumptions tc_rejects_example.

(* ---- the widened fragment (Option / match / for / return / pairs) ---------- *)
(* tc_sound_core above is already the theorem for the widened `tc_prog` / `run`;
   the same statement under the name of the wider fragment: *)
Theorem tc_sound_core_option_match_for_return :
  forall p, tc_prog p = true -> forall fuel, run fuel p <> TypeError.
Proof. exact tc_sound. Qed.
Print Assumptions tc_sound_core_option_match_for_return.

(* subsumption used at calls, assignments, returns, function results and branch joins *)
Theorem subtyping_sound : forall v a b, has_type v a = true -> sub a b = true -> has_type v b = true.
Proof. exact sub_sound. Qed.
Print Assumptions subtyping_sound.

(* non-vacuity: a program with a for loop, an early return, Option values and two
   matches is accepted and runs to a value; the early return yields Some(5) *)
Example tc_accepts_match_for_return :
  tc_prog ex_wide = true /\ run 200 ex_wide = Finished (VInt 0).
Proof. exact ex_wide_accepted. Qed.
Print Assumptions tc_accepts_match_for_return.

Example early_return_value :
  run 200 {| pfuns := [(1%N, ex_first_big)]; pmain := [TmCall 1%N [TmList [TmInt 1; TmInt 5; TmInt 9]; TmInt 3]] |}
  = Finished (VSome (VInt 5)).
Proof. exact ex_wide_return. Qed.
Print Assumptions early_return_value.

(* a non-exhaustive match is a type-related runtime error of the model semantics, and tc rejects it *)
Example tc_rejects_nonexhaustive_match : tc_prog ex_nonexh = false /\ run 100 ex_nonexh = TypeError.
Proof. exact ex_nonexh_rejected. Qed.
Print Assumptions tc_rejects_nonexhaustive_match.

(* pairs and destructuring let: accepted and runs; destructuring a non-pair is rejected and fails *)
Example tc_accepts_pairs : tc_prog ex_pairs = true /\ run 100 ex_pairs = Finished (VInt 4).
Proof. exact ex_pairs_accepted. Qed.
Print Assumptions tc_accepts_pairs.

Example tc_rejects_bad_destructuring : tc_prog ex_badpair = false /\ run 100 ex_badpair = TypeError.
Proof. exact ex_badpair_rejected. Qed.
Print Assumptions tc_rejects_bad_destructuring.
