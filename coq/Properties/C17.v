(* C17 -- Formatting never changes a program's meaning: THE TOKEN / GAP LAYER.
   Only statements here; the model is EditAlgebra.v (edits, position-free lexer
   steps) over Lex.v (the lexer), proofs are in EditAlgebraProps.v.

   What these theorems say: ANY formatter whose edits satisfy the decidable
   conditions `gap_edit_ok` / `edits_ok` keeps the sequence of token texts and
   comment texts of `Lex.lex` (`lex_items`: comments listed in front of the
   token that carries them, trailing comments last).  That src/format.rs's edits
   satisfy the conditions is NOT proved: tools/props/C17.py checks it PER RUN on
   the edits the real formatter produced (translation validation, op gapcheck of
   the extracted checker).  "Same token and comment texts (and the same
   same-line / adjacency facts the parser reads) => same syntax tree" is not
   proved either; it is validated end to end by comparing ASTs.

   gap_ok pre w rep post (EditAlgebra.v), for the source pre ++ w ++ post edited
   to pre ++ rep ++ post:  w and rep are whitespace only; the file does not start
   with `#`; the lexer, run on the source, has a step boundary at the end of pre
   reached through steps that are not unclosed strings, unterminated comments or
   strings closed only by the end of the text; and EITHER both w ++ post and
   rep ++ post start with a char that no token can absorb (`stop`: not
   [A-Za-z0-9_], not one of . = & | * > : /) or are empty, OR the last step
   before the edit (a whitespace char, a `//` line) is taken identically before
   and after the edit and starts with such a char.  The condition is sufficient;
   it is not claimed to be necessary. *)
From Coq Require Import NArith Bool List.
From Garden Require Import Base.Utf Lex EditAlgebra EditAlgebraProps.
Import ListNotations.
Open Scope N_scope.

(* A byte splice that satisfies the gap conditions keeps the token and comment
   texts, for ALL sources. *)
Theorem splice_in_gap_preserves_tokens : forall src e, gap_edit_ok src e = true ->
  exists src', splice src e = Some src' /\ lex_items src' = lex_items src.
Proof. exact splice_in_gap_edit. Qed.
Print Assumptions splice_in_gap_preserves_tokens.

(* the same in decomposed form *)
Theorem splice_in_gap_decomposed : forall pre w rep post, gap_ok pre w rep post = true ->
  lex_items (pre ++ rep ++ post) = lex_items (pre ++ w ++ post).
Proof. exact splice_in_gap_lemma. Qed.
Print Assumptions splice_in_gap_decomposed.

(* hypotheses satisfiable: `let x  = 1` -> `let x = 1`; `f(a ,b)` -> `f(a,b)`;
   `f(a,b)` -> `f(a, b)`; un-indenting the line after a `// c` line *)
Theorem splice_in_gap_examples :
  gap_ok [108; 101; 116; 32; 120] [32; 32] [32] [61; 32; 49] = true /\
  (gap_ok [102; 40; 97] [32] [] [44; 98; 41] = true /\
   gap_ok [102; 40; 97; 44] [] [32] [98; 41] = true) /\
  gap_ok [47; 47; 32; 99; 10] [32; 32] [] [120] = true.
Proof. exact (conj gap_ok_example (conj gap_ok_comma_examples gap_ok_after_comment_example)). Qed.
Print Assumptions splice_in_gap_examples.

(* the glue side condition cannot be dropped: whitespace-only edits inside a gap
   that change the tokens (`a b` -> `ab`, `1 .5` -> `1.5`, `- 1` -> `-1`) *)
Theorem glue_condition_needed :
  (gap_ok [97] [32] [] [98] = false /\ lex_items [97; 98] <> lex_items [97; 32; 98]) /\
  (gap_ok [49] [32] [] [46; 53] = false /\ lex_items [49; 46; 53] <> lex_items [49; 32; 46; 53]) /\
  (gap_ok [45] [32] [] [49] = false /\ lex_items [45; 49] <> lex_items [45; 32; 49]).
Proof. exact glue_needed. Qed.
Print Assumptions glue_condition_needed.

(* Edits applied one after the other (format.rs applies its span edits in
   descending offset order), each satisfying the conditions on the text it is
   applied to. *)
Theorem edits_in_gaps_preserve_tokens : forall es src, edits_ok src es = true ->
  exists src', apply_edits src es = Some src' /\ lex_items src' = lex_items src.
Proof. exact edits_in_gaps_lemma. Qed.
Print Assumptions edits_in_gaps_preserve_tokens.

(* descending order: a splice leaves the text in front of it unchanged, so the
   offsets of the edits still to be applied keep their meaning *)
Theorem splice_keeps_text_before : forall src e src', splice src e = Some src' ->
  exists pre q q', src = pre ++ q /\ src' = pre ++ q' /\ blen pre = e_start e.
Proof. exact splice_keeps_prefix. Qed.
Print Assumptions splice_keeps_text_before.

(* Per-line indentation edit (apply_indentation_edits): the leading whitespace
   of the line that starts after pre is replaced by n spaces.  Its hypothesis
   contains "the line start is a lexer step boundary" (krun inside gap_ok): the
   line does not start inside a token. *)
Theorem line_indent_edit_in_gap : forall pre rest n,
  gap_edit_ok (pre ++ rest) (indent_edit pre rest n) = true ->
  exists src', splice (pre ++ rest) (indent_edit pre rest n) = Some src' /\
               lex_items src' = lex_items (pre ++ rest).
Proof. exact line_indent_edit_lemma. Qed.
Print Assumptions line_indent_edit_in_gap.

(* satisfiable: `{\n    x\n}`, line 1 re-indented to two spaces *)
Theorem line_indent_edit_example :
  line_start ex_pre = true /\ gap_edit_ok (ex_pre ++ ex_rest) (indent_edit ex_pre ex_rest 2) = true /\
  splice (ex_pre ++ ex_rest) (indent_edit ex_pre ex_rest 2) = Some [123; 10; 32; 32; 120; 10; 125].
Proof. exact line_indent_example. Qed.
Print Assumptions line_indent_edit_example.

(* Without that hypothesis the statement is false: `"a\n  b"`, line 1 starts
   inside the string token; the edit format.rs made before the fix (un-indent
   the line) changes the token.  The condition rejects it. *)
Theorem line_indent_edit_refuted :
  line_start ms_pre = true /\
  gap_edit_ok (ms_pre ++ ms_rest) (indent_edit ms_pre ms_rest 0) = false /\
  exists src', splice (ms_pre ++ ms_rest) (indent_edit ms_pre ms_rest 0) = Some src' /\
               lex_items src' <> lex_items (ms_pre ++ ms_rest).
Proof. exact line_indent_refuted_lemma. Qed.
Print Assumptions line_indent_edit_refuted.

(* the position-free step function used by the conditions IS the lexer: at every
   offset of every source, one iteration of Lex.lex_step consumes the text and
   produces the kind `kstep` says *)
Theorem kstep_is_lex_step : forall p s, s <> [] ->
  agrees s (lex_step cfg_fixed (p ++ s) (blen p)) (kstep s).
Proof. exact kstep_agrees. Qed.
Print Assumptions kstep_is_lex_step.
