(* C18 -- Formatting is idempotent: PARTIAL.  Only statements here; model in
   EditAlgebra.v, proofs in EditAlgebraProps.v.

   Proved: fixed-point facts about the edit model and the two phase shapes that
   are modelled (the final-newline phase 9; a gap-normalising phase like phases
   7/8 that rewrites the text between two tokens to a whitespace determined by
   the two token texts).  NOT proved: idempotence of the whole pipeline of
   src/format.rs -- phases 0-6 (AST-driven indentation, blank lines, signature
   wrapping) are not modelled; tools/props/C18.py establishes
   format(format x) = format x and `--check` acceptance by search only. *)
From Coq Require Import NArith Bool List.
From Garden Require Import Base.Utf Lex EditAlgebra EditAlgebraProps FormatPhases FormatPhasesProps.
Import ListNotations.
Open Scope N_scope.

(* a run that computes no edit returns its input *)
Theorem apply_edits_nil : forall s, apply_edits s [] = Some s.
Proof. exact apply_edits_nil_lemma. Qed.
Print Assumptions apply_edits_nil.

(* phase 9 (strip all but one trailing newline, add one to non-empty text) is
   idempotent for ALL texts *)
Theorem final_newline_phase_idem_partial : forall s, final_newline (final_newline s) = final_newline s.
Proof. exact final_newline_idem_lemma. Qed.
Print Assumptions final_newline_phase_idem_partial.

Theorem final_newline_phase_example :
  final_newline [97; 10; 10; 10] = [97; 10] /\ final_newline [97] = [97; 10] /\ final_newline [] = [].
Proof. exact final_newline_example. Qed.
Print Assumptions final_newline_phase_example.

(* gap-normalising phase: a gap that already is the desired whitespace yields no
   edit, and the gap an edit writes yields no edit on the next run (the desired
   whitespace depends only on the two token texts, which C17's theorems keep) *)
Theorem gap_normal_fixed_point_partial : forall desired prev next d,
  desired prev next = Some d -> gap_edit_of desired prev next d = None.
Proof. exact gap_edit_fixed_point. Qed.
Print Assumptions gap_normal_fixed_point_partial.

Theorem gap_edit_result_is_fixed_partial : forall desired prev next gap d,
  gap_edit_of desired prev next gap = Some d -> gap_edit_of desired prev next d = None.
Proof. exact gap_edit_result_fixed. Qed.
Print Assumptions gap_edit_result_is_fixed_partial.

(* the token and comment texts the next run sees are those of this run *)
Theorem gap_edits_keep_tokens_for_next_run_partial : forall es src, edits_ok src es = true ->
  exists src', apply_edits src es = Some src' /\ lex_items src' = lex_items src.
Proof. exact edits_in_gaps_lemma. Qed.
Print Assumptions gap_edits_keep_tokens_for_next_run_partial.

(* ------------------------------------------------------------------ *)
(* The text-level phases of src/format.rs, modelled in FormatPhases.v (phase 6
   normalize_blank_lines, 7 fix_type_annotation_spacing, 8 normalize_token_spacing,
   9 final newline) and tied to the code per run: tools/props/C18.py runs the
   extracted phases on the phase inputs of the real formatter's trace and
   compares the outputs.  Phases 0-5 (signature wrapping, the AST-driven
   indentation and span edits, comment indentation) are NOT modelled: for them
   idempotence is established by search only, and so is the idempotence of the
   whole pipeline across the re-parse of the second run. *)

(* the segments (gap, token) and the trailing gap partition the source *)
Theorem segments_partition_source : forall s l tr, segs_of s = Some (l, tr) -> render l tr = s.
Proof. exact segs_of_render. Qed.
Print Assumptions segments_partition_source.

(* Phase 6 as a function on lines that carry the two facts it looks up by line
   number (starts a toplevel definition; starts inside a string literal):
   idempotent for EVERY list of annotated lines.  (That the facts stay attached
   to the same lines in the second run -- same syntax tree, same string tokens
   -- is C17's subject and validated by search.) *)
Theorem phase6_lines_idem : forall ls, p6a (p6a ls false) false = p6a ls false.
Proof. exact p6a_idem_lemma. Qed.
Print Assumptions phase6_lines_idem.

Theorem phase6_example_runs :
  phase6 [3] [97; 10; 10; 10; 102; 10] = [97; 10; 10; 102; 10] /\
  phase6 [1] [97; 10; 102; 10] = [97; 10; 10; 102; 10] /\
  phase6 [2] (phase6 [1] [97; 10; 102; 10]) = phase6 [1] [97; 10; 102; 10].
Proof. exact phase6_example. Qed.
Print Assumptions phase6_example_runs.

(* Phases 7 and 8 as gap rewritings on the segments: idempotent on EVERY input,
   for both versions of phase 8 (strict = true: current code) *)
Theorem phase7_segs_idem : forall l, phase7_segs (phase7_segs l) = phase7_segs l.
Proof. exact phase7_segs_idem_lemma. Qed.
Print Assumptions phase7_segs_idem.

Theorem phase8_segs_idem : forall strict l, phase8_segs strict (phase8_segs strict l) = phase8_segs strict l.
Proof. exact phase8_segs_idem_lemma. Qed.
Print Assumptions phase8_segs_idem.

(* stability: after phase 8 has run on a phase 7 output, phase 7 finds nothing
   to do (phase 8 has no rule for the gap between a `:` and a type name) *)
Theorem phase7_stable_after_phase8 : forall strict l,
  phase7_segs (phase8_segs strict (phase7_segs l)) = phase8_segs strict (phase7_segs l).
Proof. exact phase7_after_8_lemma. Qed.
Print Assumptions phase7_stable_after_phase8.

Theorem phase78_segs_idem : forall strict l, phase78_segs strict (phase78_segs strict l) = phase78_segs strict l.
Proof. exact phase78_segs_idem_lemma. Qed.
Print Assumptions phase78_segs_idem.

(* The same as text -> text functions (lex, rewrite the gaps, put the text back
   together; the second run lexes the OUTPUT): for every source in which the
   lexer meets no unclosed string literal.  The proof shows that re-lexing the
   output finds exactly the rewritten segments (FormatPhasesProps.relex_lemma). *)
Theorem phase7_idem_no_unclosed : forall s, no_unclosed s = true -> phase7 (phase7 s) = phase7 s.
Proof. exact phase7_idem_lemma. Qed.
Print Assumptions phase7_idem_no_unclosed.

Theorem phase8_idem_no_unclosed : forall s, no_unclosed s = true -> phase8 true (phase8 true s) = phase8 true s.
Proof. exact phase8_idem_lemma. Qed.
Print Assumptions phase8_idem_no_unclosed.

(* composition of the modelled token-gap phases (phase 8 after phase 7);
   partial: phases 6 and 9 are not part of this composition *)
Theorem phases_7_8_composition_idem_partial : forall s, no_unclosed s = true -> phase78 (phase78 s) = phase78 s.
Proof. exact phase78_idem_lemma. Qed.
Print Assumptions phases_7_8_composition_idem_partial.

(* the lexer finds the same token texts and the same trailing gap in the output,
   and every gap is kept up to whitespace: a gap that is not whitespace only (so
   every gap holding a comment) is kept verbatim behind possibly added whitespace *)
Theorem phases_7_8_keep_tokens : forall s l tr, segs_of s = Some (l, tr) -> no_unclosed s = true ->
  exists l', segs_of (phase78 s) = Some (l', tr) /\ map snd l' = map snd l.
Proof. exact phase78_tokens_lemma. Qed.
Print Assumptions phases_7_8_keep_tokens.

Theorem phases_7_8_keep_gaps_up_to_whitespace : forall l,
  Forall2 gap_keep (map fst l) (map fst (phase78_segs true l)).
Proof. exact phase78_gaps_lemma. Qed.
Print Assumptions phases_7_8_keep_gaps_up_to_whitespace.

(* hypotheses satisfiable:  f(a ,b:Int)  ->  f(a, b: Int) *)
Theorem phases_7_8_example :
  no_unclosed w_sample = true /\
  phase78 w_sample = [102; 40; 97; 44; 32; 98; 58; 32; 73; 110; 116; 41; 10].
Proof. exact phase78_example. Qed.
Print Assumptions phases_7_8_example.

(* phase 9 does nothing on a text that ends in exactly one line feed (what
   phase 6 leaves); partial: not composed with the other phases *)
Theorem final_newline_noop_partial : forall r c, (c =? LF) = false ->
  final_newline (rev (LF :: c :: r)) = rev (LF :: c :: r).
Proof. exact final_newline_noop. Qed.
Print Assumptions final_newline_noop_partial.

(* The code before fix-5 (phase 8 rewrote every gap without '/' and line feed,
   deleting unrecognised characters): NOT idempotent.  Witness, found on the
   model and confirmed on the binary: an unclosed string followed by
   f(a, \Q  ,b) -- the deleted backslash lets the quote close the string. *)
Theorem phase8_orig_not_idempotent :
  phase8 false (phase8 false w_unclosed) <> phase8 false w_unclosed.
Proof. exact phase8_orig_not_idempotent_lemma. Qed.
Print Assumptions phase8_orig_not_idempotent.

Theorem phase8_fixed_leaves_witness : phase8 true w_unclosed = w_unclosed.
Proof. exact phase8_fixed_on_witness. Qed.
Print Assumptions phase8_fixed_leaves_witness.
