(* C18 -- Formatting is idempotent: PARTIAL.  Only statements here; model in
   EditAlgebra.v, proofs in EditAlgebraProps.v.

   Proved: fixed-point facts about the edit model and the two phase shapes that
   are modelled (the final-newline phase 9; a gap-normalising phase like phases
   7/8 that rewrites the text between two tokens to a whitespace determined by
   the two token texts).  NOT proved: idempotence of the whole pipeline of
   src/format.rs -- phases 0-6 (AST-driven indentation, blank lines, signature
   wrapping) are not modelled; tools/props/C18.py establishes
   format(format x) = format x and `--check` acceptance by search only. *)
From Coq Require Import NArith Bool List.
From Garden Require Import Base.Utf Lex EditAlgebra EditAlgebraProps.
Import ListNotations.
Open Scope N_scope.

(* a run that computes no edit returns its input *)
Theorem apply_edits_nil : forall s, apply_edits s [] = Some s.
Proof. exact apply_edits_nil_lemma. Qed.
Print Assumptions apply_edits_nil.

(* phase 9 (strip all but one trailing newline, add one to non-empty text) is
   idempotent for ALL texts *)
Theorem final_newline_phase_idem_partial : forall s, final_newline (final_newline s) = final_newline s.
Proof. exact final_newline_idem_lemma. Qed.
Print Assumptions final_newline_phase_idem_partial.

Theorem final_newline_phase_example :
  final_newline [97; 10; 10; 10] = [97; 10] /\ final_newline [97] = [97; 10] /\ final_newline [] = [].
Proof. exact final_newline_example. Qed.
Print Assumptions final_newline_phase_example.

(* gap-normalising phase: a gap that already is the desired whitespace yields no
   edit, and the gap an edit writes yields no edit on the next run (the desired
   whitespace depends only on the two token texts, which C17's theorems keep) *)
Theorem gap_normal_fixed_point_partial : forall desired prev next d,
  desired prev next = Some d -> gap_edit_of desired prev next d = None.
Proof. exact gap_edit_fixed_point. Qed.
Print Assumptions gap_normal_fixed_point_partial.

Theorem gap_edit_result_is_fixed_partial : forall desired prev next gap d,
  gap_edit_of desired prev next gap = Some d -> gap_edit_of desired prev next d = None.
Proof. exact gap_edit_result_fixed. Qed.
Print Assumptions gap_edit_result_is_fixed_partial.

(* the token and comment texts the next run sees are those of this run *)
Theorem gap_edits_keep_tokens_for_next_run_partial : forall es src, edits_ok src es = true ->
  exists src', apply_edits src es = Some src' /\ lex_items src' = lex_items src.
Proof. exact edits_in_gaps_lemma. Qed.
Print Assumptions gap_edits_keep_tokens_for_next_run_partial.
