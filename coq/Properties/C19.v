(* C19 -- Rename changes exactly the occurrences of one variable.
   Statements only; proofs in RefactorProps.v. Model: Scope.v (syntax with occurrence ids, lexical resolution,
   big-step reference semantics) and Refactor.v (rename). The model is tied to src/rename.rs and the resolution of
   src/checks/type_checker.rs by differential execution (tools/props/C19.py: extracted rename vs `garden reftest-rename`
   on the same programs at every occurrence).

   Constructs covered by the model: integer and boolean literals, variables, binary operators, calls, closures
   (`fun(x) { .. }`, capture by value), `if c { .. } else { .. }` blocks, `dbg`, `println`, `let`, assignment, `while`,
   top-level functions with parameters. The binder b of rename_fresh_preserves is a local: a `let`, a closure parameter
   or a function parameter. *)
From Coq Require Import List ZArith Bool Arith.
From Garden Require Import Scope Refactor ScopeProps RefactorProps.
Import ListNotations.

(* The renamed program has the same occurrences (same ids, same order); an occurrence is called `new` exactly when it
   refers to the binder b -- the binder itself (resolve p b = Some b) and the uses u with resolve p u = Some b -- and
   every other occurrence keeps its name. *)
Theorem rename_exact : forall (p : program) (b : oid) (new : name),
  NoDup (map fst (occ_prog p)) ->
  occ_prog (rename b new p)
  = map (fun ox => (fst ox, if oo_eqb (resolve p (fst ox)) (Some b) then new else snd ox)) (occ_prog p).
Proof. exact rename_exact_thm. Qed.
Print Assumptions rename_exact.

Theorem rename_exact_sets : forall (p : program) (b : oid) (new : name) (o : oid) (x : name),
  NoDup (map fst (occ_prog p)) -> In (o, x) (occ_prog p) ->
  (resolve p o = Some b -> In (o, new) (occ_prog (rename b new p))) /\
  (resolve p o <> Some b -> In (o, x) (occ_prog (rename b new p))).
Proof. exact rename_exact_set. Qed.
Print Assumptions rename_exact_sets.

(* Renaming a local binder (occurrence id b, currently called xb) to a name that does not occur anywhere in the program
   gives a program that prints the same and ends with the same result, for every fuel (in particular it runs out of
   fuel exactly when the original does). *)
Theorem rename_fresh_preserves : forall (p : program) (b : oid) (xb new : name),
  NoDup (map fst (occ_prog p)) ->
  In (b, xb) (occ_prog p) ->
  (forall fd, In fd (fst p) -> fd_id fd <> b) ->
  ~ In new (map snd (occ_prog p)) ->
  forall fuel, run fuel (rename b new p) = run fuel p.
Proof. exact rename_fresh_preserves_thm. Qed.
Print Assumptions rename_fresh_preserves.

(* The resolution table (which binder every occurrence refers to) of the renamed program is the table of the original
   program -- also when b is a top-level function. *)
Theorem rename_preserves_resolution : forall (p : program) (b : oid) (xb new : name),
  NoDup (map fst (occ_prog p)) ->
  In (b, xb) (occ_prog p) ->
  ~ In new (map snd (occ_prog p)) ->
  res_prog (rename b new p) = res_prog p.
Proof. exact rename_preserves_resolution_thm. Qed.
Print Assumptions rename_preserves_resolution.

(* Non-vacuity: a program with shadowing and a capturing closure
     fun f(x) { let y = x + 1  if y > 2 { let y = y * 2  println(string_repr(y)) }  let g = fun(z) { z + y }  g(3) }
     println(string_repr(f(5)))
   (ids 1..15 in source order, names x=0 y=1 z=2 g=3 f=10). *)
Example example_resolution :
  map (resolve ex_prog) [3; 5; 7; 6; 8; 13; 4; 12; 14; 15; 77]
  = [Some 3; Some 3; Some 3; Some 6; Some 6; Some 3; Some 2; Some 11; Some 9; Some 1; None].
Proof. exact ex_resolution. Qed.
Print Assumptions example_resolution.

Example example_rename_outer_y :
  occ_prog (rename 3 99 ex_prog)
  = [(1, 10); (2, 0); (3, 99); (4, 0); (5, 99); (6, 1); (7, 99); (8, 1); (9, 3); (11, 2); (12, 2); (13, 99); (14, 3); (15, 10)].
Proof. exact ex_rename_occurrences. Qed.
Print Assumptions example_rename_outer_y.

Example example_hypotheses_hold :
  NoDup (map fst (occ_prog ex_prog)) /\ In (3, 1) (occ_prog ex_prog) /\
  (forall fd, In fd (fst ex_prog) -> fd_id fd <> 3) /\ ~ In 99 (map snd (occ_prog ex_prog)).
Proof. exact ex_hypotheses. Qed.
Print Assumptions example_hypotheses_hold.

Example example_runs :
  run 30 ex_prog = Some ([EvOut (PInt 12); EvOut (PInt 9)], ROk PUnit) /\
  run 30 (rename 3 99 ex_prog) = Some ([EvOut (PInt 12); EvOut (PInt 9)], ROk PUnit).
Proof. exact ex_runs. Qed.
Print Assumptions example_runs.
