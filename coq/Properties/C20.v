(* C20 -- Extract variable and extract function preserve behaviour (the extract-variable half, partial).
   Statements only; proofs in RefactorProps.v. Model: Scope.v (reference semantics) and Refactor.extract_var:
       stmts_before ++ [s] ++ stmts_after   becomes   stmts_before ++ [let x = e; s[e := x]] ++ stmts_after
   for a sub-expression e (selected by a path) of the i-th top-level statement s of the program.

   PARTIAL -- what is covered:
   * the statement is a top-level statement of the main program (a straight-line block), of the form `let y = ..`,
     `y = ..` or an expression statement (not `while`);
   * the selected expression e is PURE: integer/boolean literals, variables and binary operators over them (it may
     still fail, e.g. an unbound variable; then the hypothesis "the original ran without error" is false);
   * the position is `covered` (Refactor.covered_stmt): e is reached through operator operands, the callee or an argument
     of a call, the argument of dbg/println, or the condition of an `if` -- never through a nested block, a closure body
     or a loop -- and everything Garden evaluates BEFORE e inside the statement is pure: the operands to its left, the
     callee, and the call arguments to its RIGHT (arguments are evaluated right to left);
   * x occurs nowhere in the program (fresh).
   No assignment-freeness hypothesis is needed for these positions (nothing that could assign runs between the new `let`
   and the original evaluation point of e). NOT covered: positions after an impure sub-expression, positions inside nested
   blocks / closures / loops, function bodies, extract-function (search only, tools/props/C20.py). *)
From Coq Require Import List ZArith Bool Arith.
From Garden Require Import Scope Refactor ScopeProps RefactorProps.
Import ListNotations.

(* If the original program ends without error having produced the events out (stdout and stderr), the program after
   extract-variable ends with the same result and exactly the same events (one more unit of fuel: the main block has one
   more statement). *)
Theorem extract_var_preserves_partial : forall (p : program) (i : nat) (path : list nat) (x : name) (d u : oid)
    (s : stmt) (e0 : expr) (fuel : nat) (out : list event) (v : pval),
  block_nth i (snd p) = Some s ->
  get_stmt path s = Some e0 ->
  covered_stmt path s = true ->
  pure e0 = true ->
  ~ In x (map snd (occ_prog p)) ->
  run fuel p = Some (out, ROk v) ->
  run (S fuel) (extract_var i path x d u p) = Some (out, ROk v).
Proof. exact extract_var_preserves_thm. Qed.
Print Assumptions extract_var_preserves_partial.

(* Non-vacuity:  let a = 3   println(string_repr(a + (a * 2)))  -- extracting `a * 2` (the left operand `a` is pure)
   gives  let a = 3   let x = a * 2   println(string_repr(a + x))  and both print 9. *)
Example example_extract_var :
  block_nth 1 (snd ex_extract) = Some (SExpr (EPrint (EBin OAdd (EVar 2 0) (EBin OMul (EVar 3 0) (EInt 2))))) /\
  get_stmt [0; 1] (SExpr (EPrint (EBin OAdd (EVar 2 0) (EBin OMul (EVar 3 0) (EInt 2))))) = Some (EBin OMul (EVar 3 0) (EInt 2)) /\
  covered_stmt [0; 1] (SExpr (EPrint (EBin OAdd (EVar 2 0) (EBin OMul (EVar 3 0) (EInt 2))))) = true /\
  pure (EBin OMul (EVar 3 0) (EInt 2)) = true /\
  ~ In 7 (map snd (occ_prog ex_extract)) /\
  extract_var 1 [0; 1] 7 10 11 ex_extract =
    ([], BCons (SLet 1 0 (EInt 3))
        (BCons (SLet 10 7 (EBin OMul (EVar 3 0) (EInt 2)))
        (BCons (SExpr (EPrint (EBin OAdd (EVar 2 0) (EVar 11 7)))) BNil))) /\
  run 10 ex_extract = Some ([EvOut (PInt 9)], ROk PUnit) /\
  run 11 (extract_var 1 [0; 1] 7 10 11 ex_extract) = Some ([EvOut (PInt 9)], ROk PUnit).
Proof. exact ex_extract_ok. Qed.
Print Assumptions example_extract_var.
