(* C21 -- Wrap-in-dbg and add-type-annotation preserve behaviour (the wrap-in-dbg half).
   Statements only; proofs in RefactorProps.v (simulation) and ScopeProps.v (fuel monotonicity). Model: Scope.v (big-step
   reference semantics with stdout events EvOut and stderr events EvDbg) and Refactor.wrap_dbg (the selected expression e
   becomes dbg(e); positions are paths into the syntax tree, any function body or the main statements).
   add-type-annotation has no theorem here: it is covered by the search of tools/props/C21.py only. *)
From Coq Require Import List ZArith Bool Arith.
From Garden Require Import Scope Refactor ScopeProps RefactorProps.
Import ListNotations.

(* For every program and every position: if the program ends (with a value or with a Garden error) having produced the
   events out, the wrapped program ends in the same way (with twice the fuel: each inserted dbg adds one level of
   nesting); its event list is `out` with debug lines inserted (ext), hence the same stdout, and stderr only gains
   lines. *)
Theorem dbg_transparent : forall (pos : position) (p : program) (fuel : nat) (out : list event) (res : result),
  run fuel p = Some (out, res) ->
  exists out', run (2 * fuel) (wrap_dbg pos p) = Some (out', res)
               /\ ext out out' /\ stdout_of out' = stdout_of out
               /\ length (stderr_of out) <= length (stderr_of out').
Proof. exact dbg_transparent_thm. Qed.
Print Assumptions dbg_transparent.

(* what `ext` means for the two streams *)
Theorem ext_keeps_stdout : forall o o', ext o o' -> stdout_of o = stdout_of o'.
Proof. exact ext_stdout. Qed.
Print Assumptions ext_keeps_stdout.

(* more fuel never changes an outcome that is not OutOfFuel (so `2 * fuel` above can be any larger amount) *)
Theorem more_fuel_same_outcome : forall funs f f' r bl,
  f <= f' -> eval_block funs f r bl <> OutOfFuel -> eval_block funs f' r bl = eval_block funs f r bl.
Proof. exact eval_block_mono. Qed.
Print Assumptions more_fuel_same_outcome.

(* Non-vacuity: in  fun f(x) { let y = x + 1  if y > 2 { let y = y * 2  println(..y) }  let g = fun(z) { z + y }  g(3) }
   println(..f(5))  the captured y inside the closure body is wrapped: one debug line (6) appears between the two
   stdout lines. *)
Example example_dbg :
  run 30 ex_prog = Some ([EvOut (PInt 12); EvOut (PInt 9)], ROk PUnit) /\
  run 60 (wrap_dbg (Some 0, 2, [0; 1]) ex_prog) = Some ([EvOut (PInt 12); EvDbg (PInt 6); EvOut (PInt 9)], ROk PUnit).
Proof. exact ex_dbg_runs. Qed.
Print Assumptions example_dbg.
