(* C22 -- `check --fix` edits are safe.
   Only statements here; definitions are in Fixes.v (model of apply_fixes in src/syntax_check.rs and of
   get_line_position in src/checks/unused_literals.rs), proofs in FixesProps.v.

   Sources are lists of Unicode scalar values; offsets are BYTE offsets into the UTF-8 encoding; `None` is a
   panic (slice off a character boundary or past the end).  `spliced s 0 fs out` is the specification: out is s
   with every region of the ascending edit list fs replaced by the edit's text and every other byte kept.

   What is NOT a theorem: that the offsets the lints compute denote the intended syntax, that the result parses
   and runs the same, that `--fix` converges.  Those are searched for on the real binary (tools/props/C22.py).
   The last block of lemmas is over a tiny block/boolean model, not over Machine.v (hence `_partial`). *)
From Coq Require Import NArith Bool List.
From Garden Require Import Base.Utf Fixes FixesProps.
Import ListNotations.
Open Scope N_scope.

(* For every source and every fix list in the order the code applies it (descending start) in which each fix has
   start <= end <= len and the next fix ends at or before this one's start: applying the fixes one after the
   other as the code does is the simultaneous splice -- whenever it does not panic, and it does not panic when
   every offset is a character boundary. *)
Theorem apply_fixes_splice : forall s l, chain (blen s) l ->
  (forall out, apply_seq s l = Some out -> spliced s 0 (rev l) out) /\
  (on_boundaries s l -> exists out, apply_seq s l = Some out /\ spliced s 0 (rev l) out).
Proof. exact apply_fixes_splice_lemma. Qed.
Print Assumptions apply_fixes_splice.

Example apply_fixes_splice_example :
  chain (blen ex_src) ex_fixes /\ on_boundaries ex_src ex_fixes /\
  apply_seq ex_src ex_fixes = Some [97; 98; 120; 100] /\
  apply_seq ex_src [mkfix 2 3 []] = None.
Proof. exact apply_fixes_splice_example_lemma. Qed.
Print Assumptions apply_fixes_splice_example.

(* The hypothesis, as the driver computes it on the real fix lists. *)
Theorem chain_decided : forall l bound, chainb bound l = true <-> chain bound l.
Proof. exact chainb_chain. Qed.
Print Assumptions chain_decided.

(* The hypothesis is needed: the code before the repair (one flat list, no overlap handling) loses text outside
   every fix region, deletes twice, or panics when fixes overlap; the repaired code does not. *)
Theorem apply_fixes_overlap_refuted :
  let s := [97; 98; 99; 100; 101; 102] in
  let nested := [mkfix 1 4 []; mkfix 2 3 []] in
  let twice := [mkfix 0 2 []; mkfix 0 2 []] in
  chainb (blen s) (sort_desc nested) = false /\
  apply_fixes_orig s nested = Some [97; 102] /\
  apply_fixes_orig [97; 98; 99] twice = None /\
  apply_fixes_orig s twice = Some [101; 102] /\
  apply_fixes s [[mkfix 1 4 []]; [mkfix 2 3 []]] = Some [97; 101; 102] /\
  apply_fixes s [[mkfix 0 2 []]; [mkfix 0 2 []]] = Some [99; 100; 101; 102].
Proof. exact apply_fixes_overlap_refuted_lemma. Qed.
Print Assumptions apply_fixes_overlap_refuted.

(* The repaired apply_fixes, for ANY list of fix groups whose fixes lie inside the source (overlapping or not):
   the fixes it selects form a chain, were all offered, and its result is their simultaneous splice; no panic
   when the selected offsets are character boundaries. *)
Theorem apply_fixes_total : forall s groups,
  Forall (Forall (wf_in (blen s))) groups ->
  let sel := select groups in
  chain (blen s) sel /\ incl sel (concat groups) /\
  (forall out, apply_fixes s groups = Some out -> spliced s 0 (rev sel) out) /\
  (on_boundaries s sel -> exists out, apply_fixes s groups = Some out).
Proof. exact apply_fixes_total_lemma. Qed.
Print Assumptions apply_fixes_total.

Example apply_fixes_total_example :
  Forall (Forall (wf_in (blen ex_src))) ex_groups /\
  select ex_groups = ex_fixes /\ on_boundaries ex_src (select ex_groups) /\
  apply_fixes ex_src ex_groups = Some [97; 98; 120; 100].
Proof. exact apply_fixes_total_example_lemma. Qed.
Print Assumptions apply_fixes_total_example.

(* The fixes of one diagnostic are taken together or not at all. *)
Theorem fix_group_atomic : forall acc g, add_group acc g = acc \/ (forall x, In x g -> In x (add_group acc g)).
Proof. exact add_group_atomic. Qed.
Print Assumptions fix_group_atomic.

(* Unused literal at bytes [a, b): the span the repaired get_line_position returns is
   pre ++ literal ++ post with pre and post whitespace only -- for all sources. *)
Theorem line_removal_only_removes_that_statement : forall src a b s e, a <= b ->
  line_removal src a b = Some (s, e) ->
  exists before pre lit post after,
    src = before ++ pre ++ lit ++ post ++ after /\
    blen before = s /\ blen (before ++ pre) = a /\ blen (before ++ pre ++ lit) = b /\
    blen (before ++ pre ++ lit ++ post) = e /\
    all_ws pre = true /\ all_ws post = true.
Proof. exact line_removal_lemma. Qed.
Print Assumptions line_removal_only_removes_that_statement.

Example line_removal_example :
  line_removal [123; 10; 32; 32; 49; 10; 32; 32; 50; 125] 4 5 = Some (2, 6) /\
  line_removal [123; 32; 49; 32; 50; 32; 125] 2 3 = Some (2, 3).
Proof. exact line_removal_example_lemma. Qed.
Print Assumptions line_removal_example.

(* Before the repair: `1 println("hi")\n` -- the deleted span contains `println("hi")`. *)
Theorem line_removal_orig_refuted :
  let src := [49; 32; 112; 114; 105; 110; 116; 108; 110; 40; 34; 104; 105; 34; 41; 10] in
  line_removal_orig src 0 1 = Some (0, 16) /\
  (exists post, slice src 1 16 = Some post /\ all_ws post = false) /\
  line_removal src 0 1 = Some (0, 1).
Proof. exact line_removal_orig_refuted_lemma. Qed.
Print Assumptions line_removal_orig_refuted.

(* ---- per-lint semantics on a tiny model (partial: not tied to the evaluator model) ---- *)

(* repeated_bool: deleting operands already seen in a chain of pure operands keeps its value *)
Theorem repeated_bool_or_partial : forall env l, or_chain env (dedup_first [] l) = or_chain env l.
Proof. exact repeated_bool_or_lemma. Qed.
Print Assumptions repeated_bool_or_partial.

Theorem repeated_bool_and_partial : forall env l, and_chain env (dedup_first [] l) = and_chain env l.
Proof. exact repeated_bool_and_lemma. Qed.
Print Assumptions repeated_bool_and_partial.

(* unused literal: dropping a literal statement that is not last keeps the block's value and output ... *)
Theorem drop_unused_literal_partial : forall pre v post last env out, post <> [] ->
  run_block (pre ++ SLit v :: post) last env out = run_block (pre ++ post) last env out.
Proof. exact drop_unused_literal_lemma. Qed.
Print Assumptions drop_unused_literal_partial.

(* ... and dropping the last one does not *)
Theorem drop_last_literal_refuted : exists pre v last env out,
  run_block (pre ++ [SLit v]) last env out <> run_block pre last env out.
Proof. exact drop_last_literal_refuted_lemma. Qed.
Print Assumptions drop_last_literal_refuted.

(* unnecessary let: `let x = e  x` at the end of a block is `e` *)
Theorem unnecessary_let_partial : forall pre x e last env out,
  run_block (pre ++ [SLet x e; SVar x]) last env out = run_block (pre ++ [SExpr e]) last env out.
Proof. exact unnecessary_let_lemma. Qed.
Print Assumptions unnecessary_let_partial.

(* unused variable: removing `let x =` from the LAST statement of a block changes the block's value
   (the defect found: `fun f(): Unit { let x = 1 }`); the repaired lint renames instead *)
Theorem unused_let_tail_refuted : exists x e last env out,
  run_block [SLet x e] last env out <> run_block [SExpr e] last env out.
Proof. exact unused_let_tail_refuted_lemma. Qed.
Print Assumptions unused_let_tail_refuted.
