(* C23 -- Reported source positions are consistent: THE LEXER PART
   (token, comment and lex-error positions; Position::merge).
   Only statements here; proofs and the specification (`line_col`,
   `pos_consistent`, `all_positions`) are in LexProps.v, the model is Lex.v.

   LexProps.line_col src o l c: o is the byte length of a prefix p of src,
   l = number of `\n` in p, c = number of bytes of p after its last `\n`
   -- computed from the source text, independently of `from_offset`.
   LexProps.pos_consistent src p: start <= end <= byte length of src, both
   offsets are char boundaries, (line, column) = line_col of start,
   (end_line, end_column) = line_col of end.

   The AST-level part of C23 (positions built by the parser out of these with
   Position::merge) belongs to the parser model, not to this file. *)
From Coq Require Import NArith Bool List.
From Garden Require Import Base.Utf Lex LexProps.
Import ListNotations.
Open Scope N_scope.

(* For ALL sources: every position the lexer produces -- tokens, comments
   attached to tokens, trailing comments, lex errors -- is consistent. *)
Theorem lex_positions_wf : forall src ts tr es, lex src = LexOk ts tr es ->
  forall p, In p (all_positions ts tr es) -> pos_consistent src p.
Proof. exact lex_positions_wf_lemma. Qed.
Print Assumptions lex_positions_wf.

(* Position::merge(a, b) of two positions consistent with the same source is
   consistent with that source.  No ordering hypothesis is needed: the end
   offset is the larger of the two, and line numbers are monotone in offsets,
   so max(end lines) is the end line of the larger end offset. *)
Theorem merge_wf : forall src a b,
  pos_consistent src a -> pos_consistent src b -> pos_consistent src (merge a b).
Proof. exact merge_consistent_lemma. Qed.
Print Assumptions merge_wf.

(* `from_offset` (line_numbers) agrees with the independent specification on
   every char boundary of the source. *)
Theorem from_offset_correct : forall src o, boundary src o ->
  exists l c, from_offset src o = Some (l, c) /\ line_col src o l c.
Proof. exact from_offset_spec. Qed.
Print Assumptions from_offset_correct.

(* Non-vacuity: `let x = 1 é<U+00A0>"a<LF>€"`; the string token starts on
   line 0 column 14 and ends on line 1 column 4 (`€` is 3 bytes). *)
Example lex_positions_example :
  exists ts es, lex sample_src = LexOk ts [] es /\
    tok_texts ts = [[108; 101; 116]; [120]; [61]; [49]; [34; 97; 10; 8364; 34]] /\
    map (fun t => pos_fields (tpos t)) ts =
      [[0; 3; 0; 0; 0; 3]; [4; 5; 0; 0; 4; 5]; [6; 7; 0; 0; 6; 7]; [8; 9; 0; 0; 8; 9]; [14; 21; 0; 1; 14; 4]] /\
    map (fun e => pos_fields (epos e)) es = [[10; 12; 0; 0; 10; 12]].
Proof. exact sample_lex. Qed.
Print Assumptions lex_positions_example.

Example merge_example : merge (mkpos 0 3 0 0 0 3) (mkpos 14 21 0 1 14 4) = mkpos 0 21 0 1 0 4.
Proof. exact LexProps.merge_example. Qed.
Print Assumptions merge_example.

(* The code BEFORE fix-3 (cfg_orig) is refuted: the token of `"a<LF>b"` gets
   end line 0 / end column 5, which is not the line/column of offset 5. *)
Theorem unfixed_multiline_string_position :
  exists t, lex_with cfg_orig multi_line_string = LexOk [t] [] [] /\ ~ pos_wf multi_line_string (tpos t).
Proof. exact orig_multiline_refuted. Qed.
Print Assumptions unfixed_multiline_string_position.
