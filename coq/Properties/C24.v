(* C24 -- Sandboxed code cannot touch files, processes or stdin.
   Only pinned statements; proofs are in SandboxProps.v.  `builtin_table`,
   `sandbox_entry_points` are GENERATED from the Rust source on every run
   (tools/gen_builtins.py -> gen/Builtins.v), one row per variant of
   BuiltInFunctionKind and BuiltInMethodKind (the translator fails otherwise). *)
From Coq Require Import NArith List String Bool.
From Garden Require Import Sandbox SandboxProps gen.Builtins.
Import ListNotations.
Open Scope string_scope.

(* Every built-in of the current source has been audited (Sandbox.audited is keyed by
   the variant name: a new built-in makes this fail until it is classified). *)
Theorem all_kinds_classified : forall r, In r builtin_table -> classified r = true.
Proof. exact all_kinds_classified_lemma. Qed.
Print Assumptions all_kinds_classified.

(* Every built-in that can touch files, processes or stdin tests `env.enforce_sandbox`
   in a top-level `if` that returns ForbiddenInSandbox, as its first statement or at
   least before its first effectful Rust call. *)
Theorem effectful_guarded :
  forall r, In r builtin_table -> effectful r = true -> guarded_before_effect r = true.
Proof. exact effectful_guarded_lemma. Qed.
Print Assumptions effectful_guarded.

(* Conversely the arms audited as harmless contain no effectful Rust call at all
   (std::fs, File, Command, stdin, chdir, path probes ...) except the audited benign
   ones, and name no `std::` path outside the harmless list: the audit cannot silently
   go stale when an arm changes. *)
Theorem pure_rows_have_no_effect_call :
  forall r, In r builtin_table -> effectful r = false -> no_unaudited_effect r = true.
Proof. exact pure_rows_have_no_effect_call_lemma. Qed.
Print Assumptions pure_rows_have_no_effect_call.

(* The audit and the table list exactly the same built-ins, each once; the table has
   as many rows as the enums have variants; nothing but `Ok(())` follows the matches. *)
Theorem audit_matches_table :
  nodup_keys table_keys = true /\ nodup_keys audit_keys = true /\
  forallb (fun k => existsb (key_eqb k) table_keys) audit_keys = true /\
  N.of_nat (List.length function_rows) = function_variant_count /\
  N.of_nat (List.length method_rows) = method_variant_count /\
  function_match_tail_is_ok = true /\ method_match_tail_is_ok = true.
Proof. exact audit_matches_table_lemma. Qed.
Print Assumptions audit_matches_table.

(* Read as an order of events: a sandboxed run of an effectful arm emits no effect and
   ends with the sandbox refusal. *)
Theorem sandboxed_effectful_arm_emits_nothing :
  forall r, In r builtin_table -> effectful r = true -> run_arm true (arm_actions r) = ([], Forbidden).
Proof. exact sandboxed_effectful_arm_emits_nothing_lemma. Qed.
Print Assumptions sandboxed_effectful_arm_emits_nothing.

(* `playground-run` and `sandboxed-test` switch the sandbox on before any evaluation. *)
Theorem sandbox_enforced_in_entry_points :
  map l_file sandbox_entry_points = ["sandboxed_playground.rs"; "test_runner.rs"] /\
  forall l, In l sandbox_entry_points -> l_enforce_sandbox l = Some true /\ l_set_before_eval l = true.
Proof. exact sandbox_enforced_in_entry_points_lemma. Qed.
Print Assumptions sandbox_enforced_in_entry_points.

(* Non-vacuity: the table does contain effectful rows, e.g. fs::write_file and read_line,
   and they are guarded; a harmless one (println) is not required to be. *)
Example effectful_rows_exist :
  exists r1 r2 r3, In r1 builtin_table /\ r_variant r1 = "FsWriteFile" /\ effectful r1 = true /\
                   guarded_before_effect r1 = true /\
                   In r2 builtin_table /\ r_variant r2 = "PreludeReadLine" /\ effectful r2 = true /\
                   In r3 builtin_table /\ r_variant r3 = "PreludePrintln" /\ effectful r3 = false /\
                   guarded_before_effect r3 = false.
Proof. exact effectful_rows_exist_lemma. Qed.
Print Assumptions effectful_rows_exist.
