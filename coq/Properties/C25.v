(* C25 -- Sandboxed runs always finish within their step budget.  PARTIAL:
   proved here: (1) both sandbox entry points set finite, positive tick and stack limits
   before evaluating anything, and the interpreter loop increments the tick counter on
   every expression step and tests both limits before `eval_expr` (shape facts
   regenerated from the Rust source on every run); (2) the abstract argument: a machine
   whose every step increments a counter and which stops once the counter reaches the
   limit takes at most `limit` steps -- and the refinement with frame pops that do not
   tick.  NOT proved: that a SINGLE step terminates and fits the native stack (built-ins
   written in Rust, recursive display / equality / drop of deeply nested values) --
   search only (tools/props/C25.py).
   Only pinned statements; proofs are in SandboxProps.v. *)
From Coq Require Import NArith List String Bool.
From Garden Require Import Sandbox SandboxProps gen.Builtins.
From Garden Require Machine MachineBound.
Import ListNotations.
Open Scope string_scope.
Open Scope nat_scope.

(* `playground-run` (sandboxed_playground.rs) and `sandboxed-test` (test_runner.rs) assign
   `Some(positive literal)` to env.tick_limit and env.stack_limit, once, before the first
   eval_* call of the function. *)
Theorem sandbox_limits_set :
  forall l, In l sandbox_entry_points ->
  exists t s, l_tick_limit l = Some t /\ (0 < t)%N /\ l_stack_limit l = Some s /\ (0 < s)%N /\
              l_enforce_sandbox l = Some true /\ l_set_before_eval l = true.
Proof. exact sandbox_limits_set_lemma. Qed.
Print Assumptions sandbox_limits_set.

Theorem sandbox_entry_points_listed :
  map l_file sandbox_entry_points = ["sandboxed_playground.rs"; "test_runner.rs"].
Proof. exact entry_points_are_the_two_sandbox_commands. Qed.
Print Assumptions sandbox_entry_points_listed.

(* `fn eval`: `exprs_to_eval.pop()` is immediately followed by `env.ticks += 1;`, then
   `if env.ticks >= tick_limit { .. return Err(ReachedTickLimit` and
   `if env.stack.0.len() > limit { .. return Err(ReachedStackLimit`, both before the single
   `eval_expr(` call; no other assignment to `ticks` and no assignment to the limits outside
   the two entry points anywhere in src/. *)
Theorem eval_loop_counts_and_checks : loop_ok eval_loop = true.
Proof. exact eval_loop_shape_lemma. Qed.
Print Assumptions eval_loop_counts_and_checks.

(* In any machine where every step increments a counter and the run stops when the
   counter has reached the limit, the run from s ends within `limit - ticks s` steps. *)
Theorem ticks_bound_terminates :
  forall (state : Type) (step : state -> option state) (ticks : state -> nat) (limit : nat),
  (forall s s', step s = Some s' -> ticks s' = S (ticks s)) ->
  (forall s, limit <= ticks s -> step s = None) ->
  forall s, halts_within state step (limit - ticks s) s.
Proof. exact ticks_bound_terminates_sec. Qed.
Print Assumptions ticks_bound_terminates.

(* The interpreter loop has a second kind of step, popping a finished stack frame, which
   does not tick.  With expression steps (ticks + 1, depth + at most 1, only while the new
   count is below the limit) and pop steps (depth - 1), no run is longer than
   2 * (limit - ticks) + depth steps. *)
Theorem ticks_and_frames_bound_run_length :
  forall (state : Type) (step : state -> option state) (ticks depth : state -> nat) (limit : nat),
  (forall s s', step s = Some s' ->
     (ticks s' = S (ticks s) /\ depth s' <= S (depth s) /\ ticks s' < limit) \/
     (ticks s' = ticks s /\ S (depth s') = depth s)) ->
  forall k s s', ticks s <= limit -> iter state step k s = Some s' ->
  k <= 2 * (limit - ticks s) + depth s.
Proof. exact run_length_bounded_sec. Qed.
Print Assumptions ticks_and_frames_bound_run_length.

(* Non-vacuity: a counter machine satisfies the hypotheses and halts within the limit. *)
Example ticks_bound_counter_machine :
  forall limit, halts_within nat (counter_step limit) (limit - 0) 0.
Proof. exact counter_machine_instance. Qed.
Print Assumptions ticks_bound_counter_machine.

(* ---- the same bound on the evaluator model itself (Machine.v, the model of the
   eval loop that is tied to eval.rs by differential execution): under a tick
   limit L no run can take more than 2 * L + 1 iterations of the eval loop,
   whatever the program: it ends with a value, an error or a limit error. *)
Theorem sandbox_terminates : forall p L exprs sl fuel,
  2 * N.to_nat L + 1 < fuel ->
  match Machine.run p fuel (Machine.init_state exprs (Some L) sl) with
  | Machine.ROutOfFuel _ => False
  | _ => True
  end.
Proof. exact MachineBound.limited_run_finishes. Qed.
Print Assumptions sandbox_terminates.

Theorem sandbox_run_length : forall p L fuel s s',
  Machine.tick_limit s = Some L -> (Machine.ticks s <= L)%N ->
  Machine.run p fuel s = Machine.ROutOfFuel s' -> fuel <= MachineBound.potential L s.
Proof. exact MachineBound.run_bounded. Qed.
Print Assumptions sandbox_run_length.
