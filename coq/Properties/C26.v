(* C26 -- Test verdicts are independent and the exit status is honest.
   Only statements here; the model is TestRunner.v (definitions), proofs are in TestRunnerProps.v and
   TestRunnerTie.v. `loop_shape`, `exit_if_failed_positive` are GENERATED from eval.rs / test_runner.rs
   on every run (gen/TestRunnerGen.v). *)
From Coq Require Import List Bool NArith Arith.
Import ListNotations.
From Garden Require Import TestRunner TestRunnerProps TestRunnerTie gen.TestRunnerGen.

(* For ANY list of tests (so: any order, any subset chosen by -n), started at the top level: the verdict
   list of the loop `eval_tests` is the concatenation of the verdicts each test gets when it is the only
   selected test -- provided every test body reads nothing but the View (definitions, working directory,
   tick budget, pending top-level expressions) and is not interrupted from outside (Ctrl-C). *)
Theorem verdict_independent : forall e ts,
  at_toplevel e ->
  Forall (fun t => reads_only_view (t_body t) /\ never_interrupted (t_body t)) ts ->
  verdicts (eval_tests loop_shape e ts) = flat_map (verdict_alone loop_shape e) ts.
Proof. exact verdict_independent_tied. Qed.
Print Assumptions verdict_independent.

(* The same through the -n filter of run_tests_in_files (substring match on the test name). *)
Theorem verdict_independent_filtered : forall e all name_contains,
  at_toplevel e ->
  Forall (fun t => reads_only_view (t_body t) /\ never_interrupted (t_body t)) all ->
  verdicts (eval_tests loop_shape e (select name_contains all))
  = flat_map (verdict_alone loop_shape e) (select name_contains all).
Proof. exact verdict_independent_filtered_tied. Qed.
Print Assumptions verdict_independent_filtered.

(* After the loop the interpreter is back at a clean top level with the same definitions, working
   directory and tick limit. *)
Theorem loop_leaves_toplevel : forall e ts,
  at_toplevel e ->
  Forall (fun t => reads_only_view (t_body t) /\ never_interrupted (t_body t)) ts ->
  loop_inv e (snd (eval_tests loop_shape e ts)).
Proof. exact loop_leaves_toplevel_tied. Qed.
Print Assumptions loop_leaves_toplevel.

(* Exit status: 1 exactly when some selected test has an error verdict, otherwise 0. *)
Theorem exit_honest : forall vs,
  (exit_code exit_if_failed_positive vs = 1 <-> exists v, In v vs /\ failed v = true) /\
  (exit_code exit_if_failed_positive vs = 0 <-> forall v, In v vs -> failed v = false) /\
  (exit_code exit_if_failed_positive vs = 0 \/ exit_code exit_if_failed_positive vs = 1).
Proof. exact exit_honest_tied. Qed.
Print Assumptions exit_honest.

(* Summary line: total = number of verdicts, failed = number of error verdicts, passed = the rest, and one
   `Failed: <name>` line per error verdict, in order. *)
Theorem summary_counts : forall vs,
  let '(lines, s) := describe vs in
  summary_total s = length vs /\
  summary_failed s = count_failed vs /\
  summary_passed s = length vs - count_failed vs /\
  summary_passed s + summary_failed s = summary_total s /\
  lines = map (fun v => fst (fst v)) (filter failed vs) /\
  length lines = summary_failed s.
Proof. exact summary_counts_lemma. Qed.
Print Assumptions summary_counts.

(* The loop as it was before the fixes (tick counter shared, working directory not restored) does NOT
   have the property: witnesses computed on the model, confirmed on the binary by tools/props/C26.py. *)
Theorem unfixed_loop_refuted :
  exists e ts, at_toplevel e /\
    Forall (fun t => reads_only_view (t_body t)) ts /\
    Forall (fun t => x_result (t_body t e) <> Some Interrupted) ts /\
    verdicts (eval_tests shape_unfixed e ts) <> flat_map (verdict_alone shape_unfixed e) ts.
Proof. exact unfixed_loop_refuted_lemma. Qed.
Print Assumptions unfixed_loop_refuted.

Theorem unfixed_tick_budget_is_shared :
  verdicts (eval_tests shape_unfixed (initial_env 0 0 (Some 100000%N)) tick_tests)
  <> flat_map (verdict_alone shape_unfixed (initial_env 0 0 (Some 100000%N))) tick_tests.
Proof. exact unfixed_tick_budget_shared. Qed.
Print Assumptions unfixed_tick_budget_is_shared.

(* The hypothesis on bodies is needed: a body reading state outside the View breaks independence. *)
Theorem reads_only_view_is_needed :
  let ts := [ {| t_name := [1%N]; t_body := peeking_body; t_nexprs := 1 |};
              {| t_name := [2%N]; t_body := peeking_body; t_nexprs := 1 |} ] in
  ~ reads_only_view peeking_body /\
  verdicts (eval_tests shape_fixed (initial_env 0 0 None) ts) <> flat_map (verdict_alone shape_fixed (initial_env 0 0 None)) ts.
Proof. exact hypothesis_needed. Qed.
Print Assumptions reads_only_view_is_needed.

(* Non-vacuity: a concrete mixed file (passing, failing, erroring 3 calls deep with pending values,
   a test that changes the working directory) satisfies the hypotheses, and its verdicts / summary /
   exit status with and without a filter. *)
Example hypotheses_satisfiable :
  Forall (fun t => reads_only_view (t_body t) /\ never_interrupted (t_body t)) mixed_tests.
Proof. exact mixed_tests_satisfy_hypotheses. Qed.
Print Assumptions hypotheses_satisfiable.

Example mixed_file_example :
  run_tests_in_files shape_fixed true (initial_env 0 0 None) mixed_tests [] =
  ( [ ([1%N], None, None); ([2%N], Some AssertionFailed, None); ([3%N], Some Exception, Some 0%N);
      ([4%N], Some AssertionFailed, None); ([1%N; 2%N], None, None) ],
    ( [ [2%N]; [3%N]; [4%N] ], RanMixed 5 2 3 ), 1 )
  /\ run_tests_in_files shape_fixed true (initial_env 0 0 None) mixed_tests [1%N] =
  ( [ ([1%N], None, None); ([1%N; 2%N], None, None) ], ( [], RanAllPassed 2 ), 0 ).
Proof. exact mixed_example. Qed.
Print Assumptions mixed_file_example.
