(* C27 -- Eval-up-to reports the value the expression takes when run.
   Statements only; proofs in MachineStopProps.v.  MachineStop.v (Machine.step
   extended with the stop_at_expr_id checks of `eval`) is tied to src/eval.rs
   by differential execution against `garden reftest-eval-up-to`
   (tools/props/C27.py). *)
From Coq Require Import ZArith NArith Bool List.
From Garden Require Import Base.Int64 Arith gen.Tables Machine MachineStop MachineStopProps MachineStopWhole.
Import ListNotations.
Open Scope nat_scope.

(* For ANY program and target: a run that stops by its n-th step went through
   exactly the states of the plain run for n-1 steps (iter_stop = the stop
   machine's own steps), the n-th plain step exists, and the stopped state is
   its result (for a stop at a call's return: its result without the push of
   the returned value to the caller). *)
Theorem stop_never_changes_earlier_steps : forall t p fuel ss n v ss',
  run_stop t p fuel 0 ss = TStopped n v ss' ->
  exists spre s1,
    1 <= n /\
    iter_stop t p (n - 1) ss = Some spre /\
    plain_iter p (n - 1) (base ss) = Some (base spre) /\
    step p (base spre) = Next s1 /\
    plain_iter p n (base ss) = Some s1 /\
    stop_of_plain s1 v ss' /\
    (forall i si, i <= n - 1 -> iter_stop t p i ss = Some si -> plain_iter p i (base ss) = Some (base si)).
Proof. exact stop_prefix_is_plain. Qed.
Print Assumptions stop_never_changes_earlier_steps.

(* PARTIAL (fragment: literals, variables, fun literals, operators, let,
   assignment, update, parentheses, if / if-else, match, list and tuple literals; the
   target itself not a parenthesised expression; stated from the step at which
   the target's evaluation begins).
   If the run with target t stops with value v by step n, and at some earlier
   step m of the plain run the machine begins to evaluate an expression e with
   span t (entry (NotEvaluated, e) on top of the continuation T, value stack
   V), then step n is the first step after m at which the continuation is T
   again (at every step m <= i < n work above T is pending), the value stack
   is then v :: V -- exactly one value pushed, the reported one -- the rest of
   the call stack is untouched, and the stopped state IS the plain run's n-th
   state. *)
Theorem stop_at_first_value_partial : forall t p fuel ss0 n v ssf m s_m e f rest T,
  run_stop t p fuel 0 ss0 = TStopped n v ssf ->
  plain_iter p m (base ss0) = Some s_m -> m < n ->
  stack s_m = f :: rest -> todo f = (SNot, e) :: T ->
  epos e = t -> eused e = true -> not_paren e -> frag t e ->
  exists f',
    stack (base ssf) = f' :: rest /\ todo f' = T /\ vals f' = v :: vals f /\
    plain_iter p n (base ss0) = Some (base ssf) /\
    (forall i, m <= i < n -> exists si, plain_iter p i (base ss0) = Some si /\ above_state T rest si).
Proof. exact stop_at_first_value. Qed.
Print Assumptions stop_at_first_value_partial.

(* Such an evaluation cannot run past its completion without stopping: it
   either fails (error / crash) while work above T is pending, or reaches the
   stop with the continuation back to T and one more value. *)
Theorem target_evaluation_completes_or_fails : forall t p e ss f rest T,
  frag t e -> epos e = t -> eused e = true -> not_paren e ->
  stack (base ss) = f :: rest -> todo f = (SNot, e) :: T ->
  reach t p T rest ss (FinFail t p T rest) \/
  reach t p T rest ss (FinStop t p T rest (callers ss) (vals f)).
Proof. exact target_evaluation. Qed.
Print Assumptions target_evaluation_completes_or_fails.

(* The hypotheses of stop_at_first_value_partial are satisfiable:
   { let y = 2  let z = (y + 1)  z * 2 }, target `y + 1`, stops with 3. *)
Example stop_at_first_value_example :
  exists n ssf s_m f rest T,
    run_stop (29, 34)%N ex_prog 100 0 (mkS (init_state ex_exprs None None) []) = TStopped n (VInt 3) ssf /\
    plain_iter ex_prog 5 (init_state ex_exprs None None) = Some s_m /\ 5 < n /\
    stack s_m = f :: rest /\ todo f = (SNot, ex_bin) :: T /\
    epos ex_bin = (29, 34)%N /\ eused ex_bin = true /\ not_paren ex_bin /\ frag (29, 34)%N ex_bin.
Proof. exact ex_hypotheses. Qed.
Print Assumptions stop_at_first_value_example.

(* The defect: with the parenthesised expression `(y + 1)` itself as the target
   (the unrepaired eval_up_to) nothing ever stops and the whole block's value 6
   is reported; looking through the parentheses (the repair) reports 3. *)
Example paren_target_runs_to_the_end :
  eval_up_to false ex_prog ex_exprs (28, 35)%N None None 100 = UValue (VInt 6) 0.
Proof. exact ex_paren_unfixed. Qed.
Print Assumptions paren_target_runs_to_the_end.

Example paren_target_repaired :
  exists n, eval_up_to true ex_prog ex_exprs (28, 35)%N None None 100 = UValue (VInt 3) n.
Proof. exact ex_paren_fixed. Qed.
Print Assumptions paren_target_repaired.

(* ------------------------------------------------------------------------ *)
(* From the initial state, for ANY program (loops, calls, closures, match,
   break / continue / return anywhere around the target).                      *)

(* History of continuation entries: in every state reachable from a start whose
   continuation entries are all NotEvaluated (e.g. init_state), every entry that
   is not NotEvaluated belongs to an expression whose evaluation BEGAN -- entry
   (NotEvaluated, e) on top of the current frame -- at an earlier step. *)
Theorem nonfresh_entries_have_begun : forall p s0,
  (forall f, In f (stack s0) -> all_fresh (todo f)) ->
  forall i s, plain_iter p i s0 = Some s -> hist_inv p s0 i s.
Proof. exact hist_run. Qed.
Print Assumptions nonfresh_entries_have_begun.

(* The corollary from the initial state.  If eval-up-to's machine, started in
   init_state, stops with v by step n, then (with stop_never_changes_earlier_steps:
   the first n-1 steps are the plain run's) EITHER
   (A) it stopped after an expression: some expression e with the target span
       began to be evaluated at a step m < n, m being the FIRST step of the run at
       which an evaluation of an expression with span t begins; and if e is in the
       fragment of stop_at_first_value_partial, step n is exactly the completion of
       that first evaluation: continuation back to T, value stack v :: V, stopped
       state = plain n-th state, work above T pending at every step in between;
   OR
   (B) it stopped at the return of a call: the call expression e = f(args) has the
       target span, the call was made at step m (entry (EvaluatedSubexpressions, e),
       exec answers XCall), from step m+1 to n-1 the callee's frames stay above the
       caller's frame f' and the frames below (all untouched), at step n-1 the
       callee's own frame fb has nothing left to do and v is its value, the
       stopped state is the caller's stack without the push, and the plain run's
       n-th step pushes exactly v onto f' (continuation td = what followed the
       call).  No restriction on the callee's body. *)
Theorem stop_from_initial_state : forall t p fuel exprs tl sl n v ssf,
  let ss0 := mkS (init_state exprs tl sl) [] in
  run_stop t p fuel 0 ss0 = TStopped n v ssf ->
  (exists m s_m f rest e T,
     m < n /\ plain_iter p m (base ss0) = Some s_m /\
     stack s_m = f :: rest /\ todo f = (SNot, e) :: T /\ epos e = t /\
     (forall m', m' < m -> begins_at t p (base ss0) m' = false) /\
     (eused e = true -> not_paren e -> frag t e ->
      exists f',
        stack (base ssf) = f' :: rest /\ todo f' = T /\ vals f' = v :: vals f /\
        plain_iter p n (base ss0) = Some (base ssf) /\
        (forall i, m <= i < n -> exists si, plain_iter p i (base ss0) = Some si /\ above_state T rest si)))
  \/
  (exists m sm fm rest e td f' callee fb spre,
     S m < n /\ iter_stop t p m ss0 = Some sm /\ plain_iter p m (base ss0) = Some (base sm) /\
     stack (base sm) = fm :: rest /\ todo fm = (SDone, e) :: td /\ epos e = t /\
     (exists mm fe args, e = ECall mm fe args /\ uses callee = used mm) /\
     exec p (set_todo fm td) SDone e = XCall f' callee /\ todo f' = td /\
     (forall j, m < j < n -> exists sj X, plain_iter p j (base ss0) = Some sj /\ stack sj = X ++ f' :: rest /\ X <> []) /\
     iter_stop t p (n - 1) ss0 = Some spre /\
     stack (base spre) = fb :: f' :: rest /\ todo fb = [] /\ (exists vs, vals fb = v :: vs) /\
     stack (base ssf) = f' :: rest /\
     (exists s_n, plain_iter p n (base ss0) = Some s_n /\ stack s_n = push_val_if (uses fb) f' v :: rest)).
Proof. exact stop_from_init. Qed.
Print Assumptions stop_from_initial_state.

(* (B) on its own, from any start with a single frame *)
Theorem call_target_stops_at_return : forall t p fuel ss0 n v ssf spre,
  depth ss0 = 1 ->
  run_stop t p fuel 0 ss0 = TStopped n v ssf ->
  iter_stop t p (n - 1) ss0 = Some spre -> top_entry (base spre) = None ->
  exists m sm fm rest e td f' callee fb,
    S m < n /\ iter_stop t p m ss0 = Some sm /\ plain_iter p m (base ss0) = Some (base sm) /\
    stack (base sm) = fm :: rest /\ todo fm = (SDone, e) :: td /\ epos e = t /\
    (exists mm fe args, e = ECall mm fe args /\ uses callee = used mm) /\
    exec p (set_todo fm td) SDone e = XCall f' callee /\ todo f' = td /\
    (forall j, m < j < n -> exists sj X, plain_iter p j (base ss0) = Some sj /\ stack sj = X ++ f' :: rest /\ X <> []) /\
    stack (base spre) = fb :: f' :: rest /\ todo fb = [] /\ (exists vs, vals fb = v :: vs) /\
    stack (base ssf) = f' :: rest /\
    (exists s_n, plain_iter p n (base ss0) = Some s_n /\ stack s_n = push_val_if (uses fb) f' v :: rest).
Proof. exact return_stop_is_call_completion. Qed.
Print Assumptions call_target_stops_at_return.

(* satisfiable: fun f(x) { x + 1 }  f(2), target the call: stops with 3, the
   toplevel frame is left without the pushed value *)
Example call_target_example : exists n ssf,
  run_stop (19, 23)%N exc_prog 100 0 (mkS (init_state [exc_call] None None) []) = TStopped n (VInt 3) ssf /\
  stack (base ssf) = [mkFrame [] [vunit] [[]] [] true].
Proof. exact exc_stops. Qed.
Print Assumptions call_target_example.

(* A `for` loop as the target (the special case in `eval`): with the iterated
   expression in the fragment, the machine either fails while evaluating it or
   stops with Unit right after the step that enters the first iteration (or,
   for an empty list, ends the loop); in the stopped state the loop variable is
   bound to the first element, which is what eval_up_to reports. *)
Theorem for_target_stops_in_first_iteration : forall t p m x it body ss f rest T,
  frag t it -> eused it = true -> epos it <> t -> epos (EFor m x it body) = t ->
  stack (base ss) = f :: rest -> todo f = (SNot, EFor m x it body) :: T ->
  reach t p T rest ss (FinFail t p T rest) \/
  reach t p T rest ss (fun pre => above T rest pre /\
    exists f2 itv f3 pr ss',
      stack (base pre) = f2 :: rest /\ todo f2 = (SPart BWill, EFor m x it body) :: T /\
      vals f2 = itv :: VInt 0 :: vals f /\
      exec p (set_todo f2 T) (SPart BWill) (EFor m x it body) = XOk f3 pr /\
      step_stop t p pre = OStopped vunit ss' /\ stack (base ss') = f3 :: rest /\ callers ss' = callers ss /\
      (forall elem items, itv = VList (elem :: items) -> N.eqb x underscore = false ->
         get_var p f3 x = Some elem)).
Proof. exact MachineStopWhole.for_target_stops_in_first_iteration. Qed.
Print Assumptions for_target_stops_in_first_iteration.

Example for_target_example : exists n, eval_up_to true ex_prog [exf] (0, 20)%N None None 100 = UValue (VInt 1) n.
Proof. exact exf_reports. Qed.
Print Assumptions for_target_example.
