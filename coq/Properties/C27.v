(* C27 -- Eval-up-to reports the value the expression takes when run.
   Statements only; proofs in MachineStopProps.v.  MachineStop.v (Machine.step
   extended with the stop_at_expr_id checks of `eval`) is tied to src/eval.rs
   by differential execution against `garden reftest-eval-up-to`
   (tools/props/C27.py). *)
From Coq Require Import ZArith NArith Bool List.
From Garden Require Import Base.Int64 Arith gen.Tables Machine MachineStop MachineStopProps.
Import ListNotations.
Open Scope nat_scope.

(* For ANY program and target: a run that stops by its n-th step went through
   exactly the states of the plain run for n-1 steps (iter_stop = the stop
   machine's own steps), the n-th plain step exists, and the stopped state is
   its result (for a stop at a call's return: its result without the push of
   the returned value to the caller). *)
Theorem stop_never_changes_earlier_steps : forall t p fuel ss n v ss',
  run_stop t p fuel 0 ss = TStopped n v ss' ->
  exists spre s1,
    1 <= n /\
    iter_stop t p (n - 1) ss = Some spre /\
    plain_iter p (n - 1) (base ss) = Some (base spre) /\
    step p (base spre) = Next s1 /\
    plain_iter p n (base ss) = Some s1 /\
    stop_of_plain s1 v ss' /\
    (forall i si, i <= n - 1 -> iter_stop t p i ss = Some si -> plain_iter p i (base ss) = Some (base si)).
Proof. exact stop_prefix_is_plain. Qed.
Print Assumptions stop_never_changes_earlier_steps.

(* PARTIAL (fragment: literals, variables, fun literals, operators, let,
   assignment, update, parentheses, if / if-else, list and tuple literals; the
   target itself not a parenthesised expression; stated from the step at which
   the target's evaluation begins).
   If the run with target t stops with value v by step n, and at some earlier
   step m of the plain run the machine begins to evaluate an expression e with
   span t (entry (NotEvaluated, e) on top of the continuation T, value stack
   V), then step n is the first step after m at which the continuation is T
   again (at every step m <= i < n work above T is pending), the value stack
   is then v :: V -- exactly one value pushed, the reported one -- the rest of
   the call stack is untouched, and the stopped state IS the plain run's n-th
   state. *)
Theorem stop_at_first_value_partial : forall t p fuel ss0 n v ssf m s_m e f rest T,
  run_stop t p fuel 0 ss0 = TStopped n v ssf ->
  plain_iter p m (base ss0) = Some s_m -> m < n ->
  stack s_m = f :: rest -> todo f = (SNot, e) :: T ->
  epos e = t -> eused e = true -> not_paren e -> frag t e ->
  exists f',
    stack (base ssf) = f' :: rest /\ todo f' = T /\ vals f' = v :: vals f /\
    plain_iter p n (base ss0) = Some (base ssf) /\
    (forall i, m <= i < n -> exists si, plain_iter p i (base ss0) = Some si /\ above_state T rest si).
Proof. exact stop_at_first_value. Qed.
Print Assumptions stop_at_first_value_partial.

(* Such an evaluation cannot run past its completion without stopping: it
   either fails (error / crash) while work above T is pending, or reaches the
   stop with the continuation back to T and one more value. *)
Theorem target_evaluation_completes_or_fails : forall t p e ss f rest T,
  frag t e -> epos e = t -> eused e = true -> not_paren e ->
  stack (base ss) = f :: rest -> todo f = (SNot, e) :: T ->
  reach t p T rest ss (FinFail t p T rest) \/
  reach t p T rest ss (FinStop t p T rest (callers ss) (vals f)).
Proof. exact target_evaluation. Qed.
Print Assumptions target_evaluation_completes_or_fails.

(* The hypotheses of stop_at_first_value_partial are satisfiable:
   { let y = 2  let z = (y + 1)  z * 2 }, target `y + 1`, stops with 3. *)
Example stop_at_first_value_example :
  exists n ssf s_m f rest T,
    run_stop (29, 34)%N ex_prog 100 0 (mkS (init_state ex_exprs None None) []) = TStopped n (VInt 3) ssf /\
    plain_iter ex_prog 5 (init_state ex_exprs None None) = Some s_m /\ 5 < n /\
    stack s_m = f :: rest /\ todo f = (SNot, ex_bin) :: T /\
    epos ex_bin = (29, 34)%N /\ eused ex_bin = true /\ not_paren ex_bin /\ frag (29, 34)%N ex_bin.
Proof. exact ex_hypotheses. Qed.
Print Assumptions stop_at_first_value_example.

(* The defect: with the parenthesised expression `(y + 1)` itself as the target
   (the unrepaired eval_up_to) nothing ever stops and the whole block's value 6
   is reported; looking through the parentheses (the repair) reports 3. *)
Example paren_target_runs_to_the_end :
  eval_up_to false ex_prog ex_exprs (28, 35)%N None None 100 = UValue (VInt 6) 0.
Proof. exact ex_paren_unfixed. Qed.
Print Assumptions paren_target_runs_to_the_end.

Example paren_target_repaired :
  exists n, eval_up_to true ex_prog ex_exprs (28, 35)%N None None 100 = UValue (VInt 3) n.
Proof. exact ex_paren_fixed. Qed.
Print Assumptions paren_target_repaired.
