(* C28 -- The LSP server answers every request and never dies.
   Only statements here; the model is LspDispatch.v, the proofs LspDispatchProps.v.
   `dispatch_table` is GENERATED from src/lsp.rs on every run (tools/gen_lspdispatch.py):
   the arms of handle_message in source order with the shape of each body, the envelope
   parse-failure path, push_request_response / push_response / push_error, the run_lsp loop.

   PARTIAL (names end in _partial): handler bodies are abstracted to an outcome carried by
   each message (`w_outcome`: the handler returns / panics / returns something that does not
   serialize).  The theorems assume `outcome_ok` -- the handler returns -- for the messages
   that get processed; whether a handler can panic is searched for on the real server. *)
From Coq Require Import List String NArith Bool.
Require Import Garden.LspDispatch.
Require Import Garden.LspDispatchProps.
Require Import Garden.gen.LspDispatch.
Import ListNotations.
Open Scope string_scope.
Open Scope list_scope.

(* The generated table passes the finite check every theorem below rests on: every arm is
   recognised; an arm reachable WITH an id pushes exactly one response on every path; an arm
   reachable WITHOUT an id pushes none; only `exit` without an id stops the loop, only
   `shutdown` sets the shutdown flag; methods outside the table get MethodNotFound when they
   have an id and are ignored otherwise; a value that is not a `Message` gets InvalidRequest
   when it shows an id; read errors continue, EOF breaks, exit status is 0 after shutdown, else 1. *)
Theorem generated_table_passes_check : table_ok dispatch_table = true.
Proof. vm_compute. reflexivity. Qed.
Print Assumptions generated_table_passes_check.

(* For ALL message sequences: the responses written are, in order, exactly the ids of the
   requests (a `Message` with an id and a method -- ANY method, known or not, valid params or
   not) and of the malformed messages that still show an id, among the messages processed
   (those up to the first `exit` notification).  One response each, no other response. *)
Theorem one_response_per_request_partial : forall msgs st,
  Forall outcome_ok (processed msgs) ->
  response_ids (fst (run dispatch_table st msgs)) = filter_map answerable (processed msgs).
Proof. exact (fun msgs st H => proj1 (run_ok dispatch_table generated_table_passes_check msgs st H)). Qed.
Print Assumptions one_response_per_request_partial.

(* Counting form: for every id, as many responses carry it as processed requests do. *)
Theorem response_count_per_id_partial : forall msgs st r,
  Forall outcome_ok (processed msgs) ->
  count_id r (response_ids (fst (run dispatch_table st msgs))) = count_id r (filter_map answerable (processed msgs)).
Proof.
  exact (fun msgs st r H => count_of_equal_lists r _ _ (one_response_per_request_partial msgs st H)).
Qed.
Print Assumptions response_count_per_id_partial.

(* A message that is owed no answer -- a notification (no id or a null id) with any method,
   a client response (no method), a non-`Message` value without an id, a body that is not
   JSON -- produces no response (it may produce publishDiagnostics). *)
Theorem no_response_to_notification_partial : forall st m,
  outcome_ok m -> answerable m = None ->
  forall out act st', handle dispatch_table st m = Step out act st' -> response_ids out = [].
Proof. exact (handle_silent dispatch_table generated_table_passes_check). Qed.
Print Assumptions no_response_to_notification_partial.

(* A request whose method is not one of the table's literals is answered MethodNotFound,
   whatever its params, and the loop continues in the same state. *)
Theorem unknown_method_answered : forall st w i s,
  w_id w = Some i -> w_method w = Some s -> ~ In s (literals (t_arms dispatch_table)) ->
  handle dispatch_table st (Wellformed w) = Step [OError (IdVal i) MethodNotFound] ActContinue st.
Proof. exact (handle_unknown_method dispatch_table generated_table_passes_check). Qed.
Print Assumptions unknown_method_answered.

(* A JSON value that is not a `Message` but shows an `id` member (even null) is answered
   InvalidRequest with that id; without an id, or when the body is not JSON at all, nothing is
   sent; in all three cases the loop continues in the same state. *)
Theorem malformed_with_id_answered : forall st,
  (forall r, handle dispatch_table st (Malformed (Some r)) = Step [OError r InvalidRequest] ActContinue st)
  /\ handle dispatch_table st (Malformed None) = Step [] ActContinue st
  /\ handle dispatch_table st Garbage = Step [] ActContinue st.
Proof. exact (handle_malformed dispatch_table generated_table_passes_check). Qed.
Print Assumptions malformed_with_id_answered.

(* The loop handles every message up to the first `exit` notification and nothing after it;
   it ends there with status 0 when a shutdown was seen before and 1 otherwise, and at EOF
   (no exit) it ends normally. *)
Theorem loop_continues_until_exit_partial : forall msgs st,
  Forall outcome_ok (processed msgs) ->
  snd (run dispatch_table st msgs) = expected_final (shutdown_seen st) msgs
  /\ run dispatch_table st msgs = run dispatch_table st (processed msgs).
Proof.
  exact (fun msgs st H => conj (proj2 (run_ok dispatch_table generated_table_passes_check msgs st H))
                               (run_only_processed dispatch_table generated_table_passes_check msgs st H)).
Qed.
Print Assumptions loop_continues_until_exit_partial.

(* The only way the model's server dies is a handler that panics (any table). *)
Theorem server_dies_only_by_handler_panic : forall t st m,
  handle t st m = Crash -> exists w, m = Wellformed w /\ w_outcome w = Panics.
Proof. exact handle_crash_only_on_panic. Qed.
Print Assumptions server_dies_only_by_handler_panic.

(* didClose forgets the document (the arm of the generated table removes it from the store). *)
Theorem closed_document_is_forgotten : forall st w u,
  w_method w = Some "textDocument/didClose" -> w_id w = None -> w_outcome w = Returns -> w_doc w = Some u ->
  exists st', handle dispatch_table st (Wellformed w) = Step [ODiag u] ActContinue st' /\ ~ In u (open_docs st').
Proof.
  intros st w u Hm Hi Ho Hd. unfold handle. rewrite Hm, Hi, Ho, Hd.
  eexists. split; [vm_compute; reflexivity | apply remove_doc_not_in].
Qed.
Print Assumptions closed_document_is_forgotten.

(* Non-vacuity: a concrete session.  Requests before initialize, a known request with valid and
   with invalid params, an unknown method, a notification method sent with an id, a request
   method sent without one, a client response, malformed values with and without id, a body
   that is not JSON, duplicate ids, shutdown, exit, and a request after exit. *)
Definition rq (i : N) (m : string) (pok : bool) : cmsg :=
  Wellformed {| w_id := Some i; w_method := Some m; w_params_ok := pok; w_outcome := Returns; w_doc := None |}.
Definition nt (m : string) (d : option N) : cmsg :=
  Wellformed {| w_id := None; w_method := Some m; w_params_ok := true; w_outcome := Returns; w_doc := d |}.
Definition example_session : list cmsg :=
  [ rq 1 "textDocument/hover" true;
    rq 2 "initialize" true;
    nt "initialized" None;
    nt "textDocument/didOpen" (Some 7%N);
    rq 3 "textDocument/hover" true;
    rq 3 "textDocument/completion" false;
    rq 4 "textDocument/prepareRename" true;
    rq 5 "textDocument/didOpen" true;
    nt "textDocument/hover" None;
    nt "$/setTrace" None;
    Wellformed {| w_id := Some 6%N; w_method := None; w_params_ok := false; w_outcome := Returns; w_doc := None |};
    Malformed (Some (IdVal 8)); Malformed (Some IdNull); Malformed None; Garbage;
    nt "textDocument/didClose" (Some 7%N);
    rq 9 "shutdown" false;
    rq 10 "exit" true;
    nt "exit" None;
    rq 11 "textDocument/hover" true ].

Example session_example :
  Forall outcome_ok (processed example_session)
  /\ run dispatch_table init_state example_session =
     ([ OResult (IdVal 1); OResult (IdVal 2); ODiag 7; OResult (IdVal 3); OError (IdVal 3) InvalidParams;
        OError (IdVal 4) MethodNotFound; OError (IdVal 5) InvalidRequest;
        OError (IdVal 8) InvalidRequest; OError IdNull InvalidRequest; ODiag 7;
        OResult (IdVal 9); OError (IdVal 10) InvalidRequest ], FExit 0)
  /\ filter_map answerable (processed example_session) =
     [IdVal 1; IdVal 2; IdVal 3; IdVal 3; IdVal 4; IdVal 5; IdVal 8; IdNull; IdVal 9; IdVal 10]
  /\ count_id (IdVal 3) (response_ids (fst (run dispatch_table init_state example_session))) = 2%nat
  /\ snd (run dispatch_table init_state [nt "exit" None]) = FExit 1
  /\ snd (run dispatch_table init_state [rq 1 "shutdown" true]) = FEof
  /\ run dispatch_table init_state
       [Wellformed {| w_id := Some 1%N; w_method := Some "textDocument/hover"; w_params_ok := true; w_outcome := Panics; w_doc := None |};
        rq 2 "shutdown" true] = ([], FCrash).
Proof. vm_compute. repeat split; repeat constructor. Qed.
Print Assumptions session_example.

(* The check has teeth: a dispatcher whose didOpen arm ignores the id (garden before the fix),
   or whose catch-all arm does not answer, or with an unrecognised arm, is rejected. *)
Definition mini_arms (guarded : bool) (fallback : body) : list arm :=
  (if guarded then [{| a_pat := PStrs ["textDocument/didOpen"; "exit"]; a_guard := GIdPresent;
                       a_body := BRespondError InvalidRequest ActContinue |}] else [])
  ++ [ {| a_pat := PStrs ["textDocument/didOpen"]; a_guard := GNone; a_body := BNotify StoreInsert ActContinue |};
       {| a_pat := PStrs ["shutdown"]; a_guard := GNone; a_body := BRespondDirect ActShutdown |};
       {| a_pat := PStrs ["exit"]; a_guard := GNone; a_body := BNothing ActExit |};
       {| a_pat := PAnySome; a_guard := GNone; a_body := fallback |};
       {| a_pat := PNone; a_guard := GNone; a_body := BNothing ActContinue |} ].

Example table_check_has_teeth :
  arms_ok (mini_arms true (BRespondError MethodNotFound ActContinue)) = true
  /\ arms_ok (mini_arms false (BRespondError MethodNotFound ActContinue)) = false
  /\ arms_ok (mini_arms true (BNothing ActContinue)) = false
  /\ arms_ok (mini_arms true BUnknown) = false.
Proof. vm_compute. repeat split. Qed.
Print Assumptions table_check_has_teeth.
