(* C29 -- LSP positions and edits map exactly onto the document.
   Only statements here; definitions are in LspPos.v (model of src/lsp.rs and of
   the LSP specification), proofs in LspPosProps.v.

   Documents are lists of Unicode scalar values; offsets are BYTE offsets into
   the UTF-8 encoding (what garden's positions carry); `boundary s o` says o is
   the byte length of a prefix of s.  The line/end-line fields of a garden
   position are not used by the conversions (see stale_end_line_refuted for why
   they must not be).  The hypothesis
   `blen s < 2^32` is there because the Rust code truncates with `as u32`
   (LSP itself cannot address more). *)
From Coq Require Import NArith Bool List.
From Garden Require Import LspPos LspPosProps.
Import ListNotations.
Open Scope N_scope.

(* Offset -> LSP position -> offset is the identity on every character
   boundary of every document (CR, CRLF, astral characters included). *)
Theorem pos_roundtrip : forall s o, blen s < 4294967296 -> boundary s o ->
  exists l c, offset_to_lsp_position s o = POk l c /\ line_char_to_offset s l c = o.
Proof. exact pos_roundtrip_lemma. Qed.
Print Assumptions pos_roundtrip.

(* `boundary` is what the executable `is_boundary` (str::is_char_boundary) decides. *)
Theorem boundary_decided : forall s o, boundary s o <-> is_boundary s o = true.
Proof. exact boundary_iff. Qed.
Print Assumptions boundary_decided.

(* Inside a character the conversion panics (so callers must pass boundaries);
   past the end it clamps to the end. *)
Theorem offset_off_boundary_panics : forall s o, o <= blen s -> ~ boundary s o ->
  offset_to_lsp_position s o = PPanic.
Proof. exact o2p_nonboundary_panics. Qed.
Print Assumptions offset_off_boundary_panics.

Theorem offset_past_end_clamps : forall s o, blen s <= o ->
  offset_to_lsp_position s o = offset_to_lsp_position s (blen s).
Proof. exact o2p_clamps. Qed.
Print Assumptions offset_past_end_clamps.

(* The line of the LSP position is the line number garden's lexer gives that offset. *)
Theorem position_line_is_lexer_line : forall s o l c, blen s < 4294967296 -> boundary s o ->
  offset_to_lsp_position s o = POk l c -> l = line_of s o.
Proof. exact o2p_line_is_lexer_line. Qed.
Print Assumptions position_line_is_lexer_line.

(* The range of a garden position depends on its two offsets only. *)
Theorem range_uses_offsets_only : forall s g,
  garden_pos_to_lsp_range s g = range_of s (start_offset g) (end_offset g).
Proof. exact range_ignores_line_fields. Qed.
Print Assumptions range_uses_offsets_only.

(* Before the fix the line came from the garden position; a position whose
   end offset was moved past a newline (quick fix "Remove unused value") then
   produced an empty range.  First conjunct: the pre-fix code leaves the
   document unchanged; second: the intended splice; third: the fixed code. *)
Theorem stale_end_line_refuted :
  apply_lsp_edit_opt stale_doc (garden_pos_to_lsp_range_v0 stale_doc stale_pos) [] = Some stale_doc
  /\ splice stale_doc 2 4 [] = Some [123; LF; 98; 125]
  /\ apply_lsp_edit_opt stale_doc (garden_pos_to_lsp_range stale_doc stale_pos) [] = Some [123; LF; 98; 125].
Proof. exact stale_end_line_refuted_lemma. Qed.
Print Assumptions stale_end_line_refuted.

(* whole_document_range ends exactly at the position of the end offset:
   (number of `\n`, UTF-16 length of what follows the last `\n`). *)
Theorem whole_range_end_is_end_position : forall s, blen s < 4294967296 ->
  whole_document_end s = (count_lf s, ulen (last_line s)).
Proof. exact whole_document_end_small. Qed.
Print Assumptions whole_range_end_is_end_position.

(* Replacing whole_document_range by t, as the LSP specification defines edits,
   yields exactly t -- for documents in which every CR is followed by LF. *)
Theorem whole_range_covers : forall s t, blen s < 4294967296 -> no_lone_cr s ->
  apply_lsp_edit s (whole_document_range s) t = Some t.
Proof. exact whole_range_covers_lemma. Qed.
Print Assumptions whole_range_covers.

(* The unrestricted statement is false: with a bare CR the edit leaves text behind. *)
Theorem whole_range_lone_cr_refuted :
  apply_lsp_edit [ch_a; CR] (whole_document_range [ch_a; CR]) [] = Some [CR].
Proof. exact whole_range_lone_cr_refuted_lemma. Qed.
Print Assumptions whole_range_lone_cr_refuted.

Theorem whole_range_lone_cr_refuted2 :
  apply_lsp_edit [ch_a; CR; ch_a; LF] (whole_document_range [ch_a; CR; ch_a; LF]) [] = Some [ch_a; LF].
Proof. exact whole_range_lone_cr_refuted2_lemma. Qed.
Print Assumptions whole_range_lone_cr_refuted2.

(* A span edit [a, b) sent as the range garden computes is the byte splice, when
   every CR of the document is followed by LF and neither end lies between a CR
   and its LF. *)
Theorem range_edit_is_splice : forall s a b t, blen s < 4294967296 -> no_lone_cr s ->
  boundary s a -> boundary s b -> a <= b ->
  ~ between_cr_lf s a -> ~ between_cr_lf s b ->
  apply_lsp_edit_opt s (range_of s a b) t = splice s a b t /\ splice s a b t <> None.
Proof. exact range_edit_is_splice_lemma. Qed.
Print Assumptions range_edit_is_splice.

(* The same in prefix form, slightly stronger: only the text BEFORE each end of
   the span has to be free of lone CRs (what follows the span is irrelevant). *)
Theorem range_edit_is_splice_prefix_form : forall p m q t, blen (p ++ m ++ q) < 4294967296 ->
  no_lone_cr p -> no_lone_cr (p ++ m) ->
  apply_lsp_edit_opt (p ++ m ++ q) (range_of (p ++ m ++ q) (blen p) (blen p + blen m)) t
  = Some (p ++ t ++ q).
Proof. exact range_edit_is_splice_app. Qed.
Print Assumptions range_edit_is_splice_prefix_form.

Theorem splice_meaning : forall p m q t,
  splice (p ++ m ++ q) (blen p) (blen p + blen m) t = Some (p ++ t ++ q).
Proof. exact splice_app. Qed.
Print Assumptions splice_meaning.

(* Both hypotheses are necessary. *)
Theorem range_edit_lone_cr_refuted :
  apply_lsp_edit_opt [CR; ch_a] (range_of [CR; ch_a] 1 2) [ch_euro] = Some [ch_euro; CR; ch_a]
  /\ splice [CR; ch_a] 1 2 [ch_euro] = Some [CR; ch_euro].
Proof. exact range_edit_lone_cr_refuted_lemma. Qed.
Print Assumptions range_edit_lone_cr_refuted.

Theorem range_edit_mid_crlf_refuted :
  apply_lsp_edit_opt [ch_a; CR; LF; ch_a] (range_of [ch_a; CR; LF; ch_a] 2 2) [ch_euro]
    = Some [ch_a; ch_euro; CR; LF; ch_a]
  /\ splice [ch_a; CR; LF; ch_a] 2 2 [ch_euro] = Some [ch_a; CR; ch_euro; LF; ch_a].
Proof. exact range_edit_mid_crlf_refuted_lemma. Qed.
Print Assumptions range_edit_mid_crlf_refuted.

(* The side conditions are decidable by the executable checks the driver uses. *)
Theorem no_lone_cr_decided : forall s, no_lone_cr s <-> no_lone_cr_b s = true.
Proof. exact no_lone_cr_iff. Qed.
Print Assumptions no_lone_cr_decided.

Theorem between_cr_lf_decided : forall s o, between_cr_lf s o <-> between_cr_lf_b s o = true.
Proof. exact between_cr_lf_iff. Qed.
Print Assumptions between_cr_lf_decided.

(* Non-vacuity: "aé\r\n€😀a\n😀\ré" (2-, 3-, 4-byte characters, CRLF and a bare CR). *)
Example roundtrip_nonvacuous :
  blen sample = 21 /\ ulen sample = 13 /\
  boundary sample 12 /\ offset_to_lsp_position sample 12 = POk 1 3
  /\ line_char_to_offset sample 1 3 = 12
  /\ boundary sample 21 /\ offset_to_lsp_position sample 21 = POk 2 4
  /\ line_char_to_offset sample 2 4 = 21
  /\ ~ boundary sample 2 /\ offset_to_lsp_position sample 2 = PPanic.
Proof.
  pose proof sample_len. pose proof roundtrip_sample. pose proof roundtrip_sample_after_cr.
  pose proof nonboundary_sample. intuition.
Qed.
Print Assumptions roundtrip_nonvacuous.

(* "aé\r\n€😀a\n😀": hypotheses of the edit theorems hold; the span is "😀a" on line 1. *)
Example edits_nonvacuous :
  no_lone_cr sample_crlf /\ blen sample_crlf < 4294967296 /\
  whole_document_range sample_crlf = ((0, 0), (2, 2)) /\
  apply_lsp_edit sample_crlf (whole_document_range sample_crlf) [ch_euro] = Some [ch_euro] /\
  boundary sample_crlf 8 /\ boundary sample_crlf 13 /\
  ~ between_cr_lf sample_crlf 8 /\ ~ between_cr_lf sample_crlf 13 /\
  range_of sample_crlf 8 13 = Some ((1, 1), (1, 4)) /\
  splice sample_crlf 8 13 [ch_eacute] = Some [ch_a; ch_eacute; CR; LF; ch_euro; ch_eacute; LF; ch_grin].
Proof.
  pose proof sample_crlf_ok. pose proof whole_range_sample. pose proof range_edit_sample. intuition.
Qed.
Print Assumptions edits_nonvacuous.
