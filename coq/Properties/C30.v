(* C30 -- nREPL delivers one final `done` per request, after all its output.
   Only statements here; the model is Nrepl.v (read its header: threads, step
   granularity, NAMED ASSUMPTIONS A-FIFO, A-MUTEX, A-SEQCST, A-NOPANIC, A-WRITER,
   A-IDS), the proofs are in NreplProps.v.

   All theorems quantify over EVERY state reachable by ANY trace of `step`
   (= every interleaving of reader, workers, flushers, writer and SIGINT
   watchdog, for every sequence of client requests, of any length), and over
   all three code variants `pv` of Nrepl.v (as found; with fix-1; the current code with fix-1 and fix-2).

   Vocabulary: `st_sent` = every message ever put on the response channel,
   newest first (ghost); `st_wire` = what the writer has written to the socket,
   newest first; `st_printed` = everything evals printed (ghost); request ids
   are the reader's sequence numbers (A-IDS); `done_cnt r l` counts messages of
   `l` whose status has "done" for request r. *)
From Coq Require Import List Arith Bool.
Import ListNotations.
From Garden Require Import Nrepl NreplProps.

(* At most one `done` per request id, on the channel and on the socket; no `done`
   for an id that was never received; and when the system is quiescent (reader
   idle, every request queue empty, every worker idle or exited, response
   channel drained -- i.e. under A-NOPANIC and after every eval has returned)
   every request received so far has EXACTLY one `done` on the socket. *)
Theorem one_done_per_id : forall pv st r, reachable pv st ->
  done_cnt r (st_sent st) <= 1 /\
  done_cnt r (st_wire st) <= 1 /\
  (st_next st <= r -> done_cnt r (st_sent st) = 0) /\
  (quiescent st = true -> r < st_next st -> done_cnt r (st_wire st) = 1).
Proof.
  intros pv st r R. repeat split.
  - exact (one_done_sent pv st r R).
  - exact (one_done_wire pv st r R).
  - exact (no_done_unreceived pv st r R).
  - exact (exactly_one_done_quiescent pv st r R).
Qed.
Print Assumptions one_done_per_id.

(* `quiescent` is exactly "no internal move is enabled" in one direction: a
   quiescent state has no enabled reader/worker/flusher/writer step (only new
   client input, SIGINT, or the exit of a closed idle worker can happen). *)
Theorem quiescent_is_stuck : forall pv st l, reachable pv st -> quiescent st = true -> internal l = true ->
  enabled pv st l = false.
Proof. exact quiescent_stuck. Qed.
Print Assumptions quiescent_is_stuck.

(* The `done` is the last message with its id: nothing written to the socket
   after `MDone r` carries id r. *)
Theorem done_is_last_for_id : forall pv st a r s older, reachable pv st ->
  st_wire st = a ++ MDone r s :: older -> forall m, In m a -> mid m <> r.
Proof. exact done_last_wire. Qed.
Print Assumptions done_is_last_for_id.

(* Every piece of text request r printed (ever: `st_printed` is the whole
   history) is contained, in order and per stream, in the out/err messages that
   were put on the response channel BEFORE r's `done`. *)
Theorem out_before_done : forall pv st pre r s older k x, reachable pv st ->
  st_sent st = pre ++ MDone r s :: older ->
  ptoks k r x (st_printed st) = toks k r x older.
Proof. exact output_before_done_sent. Qed.
Print Assumptions out_before_done.

(* What the client has read from the socket before r's `done`: for each stream,
   the concatenation of the out (resp. err) chunks for r equals exactly what r
   printed on that stream -- complete, in order, nothing duplicated, nothing
   from another request or session. *)
Theorem output_complete_in_order : forall pv st a r s older k x, reachable pv st ->
  st_wire st = a ++ MDone r s :: older ->
  toks k r x older = ptoks k r x (st_printed st).
Proof. intros. symmetry. eapply output_before_done_wire; eauto. Qed.
Print Assumptions output_complete_in_order.

(* Sessions are isolated: a step of session k's worker or flusher leaves every
   other session record (queue, flag, buffers, Env) untouched, and an eval in
   session k only ever resolves a definition that session k itself loaded
   (clone starts from an empty Env, it does not copy). *)
Theorem sessions_isolated :
  (forall pv st k a st' j, step pv st (LWorker k a) = Some st' -> j <> k ->
     nth_error (st_sess st') j = nth_error (st_sess st) j) /\
  (forall pv st k a st' j, step pv st (LFlusher k a) = Some st' -> j <> k ->
     nth_error (st_sess st') j = nth_error (st_sess st) j) /\
  (forall pv tr st k d st', exec pv init tr = Some st ->
     step pv st (LWorker k (WASees d)) = Some st' -> In (LWorker k (WADefine d)) tr).
Proof. repeat split; [exact worker_frame | exact flusher_frame | exact sees_only_own_defs]. Qed.
Print Assumptions sessions_isolated.

(* Non-vacuity: a concrete schedule (flusher takes part of the output mid-eval,
   the final drain the rest) reaches a quiescent state whose socket history has
   the shape the theorems talk about. *)
Example c30_hypotheses_satisfiable :
  reachable VFix2 demo_state /\ quiescent demo_state = true /\
  st_wire demo_state = [MDone 1 StDone; MText 0 1; MOut 0 1 SErr [9]; MOut 0 1 SErr [8]; MOut 0 1 SOut [7]; MDone 0 StDone] /\
  ptoks 0 1 SErr (st_printed demo_state) = [8; 9] /\ ptoks 0 1 SOut (st_printed demo_state) = [7].
Proof. split; [exact demo_reachable | apply demo_ok]. Qed.
Print Assumptions c30_hypotheses_satisfiable.
