(* C31 -- nREPL interrupt stops the running eval and no other.
   Only statements; model Nrepl.v (same named assumptions as C30), proofs NreplProps.v.

   The current code is variant VFix2 of the model.  Per session there is the
   `interrupted` flag (polled and consumed by the evaluator's check) and, under
   one mutex, the counter `pending` = requests enqueued and not yet finished.
   Who writes the flag:
     reader `interrupt` op / SIGINT watchdog : store true ONLY IF pending > 0   (one critical section)
     reader close_session / disconnect       : closed := true, then store true (unconditional)
     worker after dequeue                    : store true if `closed`          (no reset any more)
     evaluator check                         : load; on true store false, return Interrupted
     worker finish_request                   : pending -= 1; if pending == 0 store false   (one critical section)

   THE RACES, stated explicitly:
   (R1, benign, inherent) an interrupt accepted after the evaluator's last check
       of the running eval is not seen by that eval.  If nothing else is pending
       the flag is cleared by finish_request (`idle_interrupt_harmless`,
       late_interrupt example); if another request of the session is already
       queued, the flag stays up and stops THAT request at its first check
       (`interrupt_reaches_queued_eval`): an accepted interrupt always stops at
       most one eval -- the first of the session to run a check -- or none if the
       session goes idle first.
   (R2, FIXED by fix-2) in the old protocol the worker cleared the flag on every
       dequeue, so an interrupt handled after its eval was queued but before the
       worker's reset (e.g. while a new session's worker was still building its
       Env) was acknowledged and erased: `interrupt_lost_old_protocol_refuted`.
   (R3, FIXED by fix-1) the same window for `close`: `close_stops_running_refuted_asis`. *)
From Coq Require Import List Arith Bool.
Import ListNotations.
From Garden Require Import Nrepl NreplProps.

(* The flag is true at some point (stored by anyone), and from there up to a
   state where worker k's evaluator is running request r the worker has done no
   check, no finish_request and (old protocol) no reset.  Then this check ends
   the eval with Interrupted and consumes the flag.  All code variants. *)
Theorem interrupt_running : forall pv st tr st' k r,
  flag_of st k = Some true -> exec pv st tr = Some st' ->
  (forall l, In l tr -> l <> LWorker k WAReset /\ l <> LWorker k WACheck /\ l <> LWorker k WADone) ->
  wpc_of st' k = Some (WRun r) ->
  exists st'', step pv st' (LWorker k WACheck) = Some st'' /\
               wpc_of st'' k = Some (WStop r RInterrupted) /\ flag_of st'' k = Some false.
Proof. exact interrupt_running_lemma. Qed.
Print Assumptions interrupt_running.

(* ... and the `done` of an eval stopped that way has status `interrupted`,
   whatever happens afterwards. *)
Theorem interrupted_eval_reports_interrupted : forall pv st tr st' k r s', reachable pv st ->
  wpc_of st k = Some (WStop r RInterrupted) ->
  exec pv st tr = Some st' -> In (MDone r s') (st_sent st') -> s' = StInterrupted.
Proof. exact interrupted_status_lemma. Qed.
Print Assumptions interrupted_eval_reports_interrupted.

(* Current code.  (1) An `interrupt` handled while a request of the session is
   queued (the worker may not even have started) or in the worker's hands is
   ACCEPTED: the flag is raised and it cannot be ignored.
   (2) From any state with the flag up: as long as no check of session k consumed
   it and no finish_request left the session idle (`holds_flag`: a finish_request
   of k only with pending >= 2), the flag is still up -- in particular it survives
   the worker's dequeue -- so the next check of whichever eval of the session is
   then running ends that eval with Interrupted.
   (3) finish_request cannot clear it while another request is still queued. *)
Theorem interrupt_reaches_queued_eval :
  (forall st r k s, reachable VFix2 st ->
     st_rd st = RGot r (OInterrupt k) -> open_sess st k = Some s ->
     (s_queue s <> [] \/ busy (s_w s) = 1) ->
     step VFix2 st (LReader RAIgnore) = None /\
     exists st', step VFix2 st (LReader RAFlag) = Some st' /\ flag_of st' k = Some true /\
                 st_rd st' = RSend r StDone) /\
  (forall pv st tr st' k r,
     flag_of st k = Some true -> exec pv st tr = Some st' -> holds_flag pv k st tr = true ->
     wpc_of st' k = Some (WRun r) ->
     exists st'', step pv st' (LWorker k WACheck) = Some st'' /\
                  wpc_of st'' k = Some (WStop r RInterrupted) /\ flag_of st'' k = Some false) /\
  (forall st k s, reachable VFix2 st -> nth_error (st_sess st) k = Some s ->
     s_w s = WFinishing -> s_queue s <> [] -> 2 <= s_pending s).
Proof. split; [exact interrupt_accepted_lemma | split; [exact interrupt_reaches_lemma | exact done_with_queue_keeps]]. Qed.
Print Assumptions interrupt_reaches_queued_eval.

(* Current code.  An `interrupt` handled while the session is idle (nothing
   queued, worker idle) stores NOTHING: raising the flag is not possible, the
   sessions are unchanged, the request is answered `done`. *)
Theorem idle_interrupt_is_ignored : forall st r k s, reachable VFix2 st ->
  st_rd st = RGot r (OInterrupt k) -> open_sess st k = Some s ->
  s_queue s = [] -> busy (s_w s) = 0 ->
  step VFix2 st (LReader RAFlag) = None /\
  (s_closed s = false -> s_flag s = false) /\
  exists st', step VFix2 st (LReader RAIgnore) = Some st' /\ st_sess st' = st_sess st /\
              st_rd st' = RSend r StDone.
Proof. exact idle_interrupt_ignored_lemma. Qed.
Print Assumptions idle_interrupt_is_ignored.

(* Current code.  (i) In EVERY reachable state an idle session that has not been
   closed has its flag down -- whatever was stored earlier: an ignored idle
   interrupt, or a late interrupt (R1) that finish_request cleared.
   (ii) (all variants) with the flag down and no new store of `true`
   (`no_flagset`; an ignored interrupt is not a store), every check of the eval
   passes and the eval continues.  So an interrupt handled while the session is
   idle cannot cancel the session's next eval. *)
Theorem idle_interrupt_harmless :
  (forall st k s, reachable VFix2 st -> nth_error (st_sess st) k = Some s ->
     s_queue s = [] -> busy (s_w s) = 0 -> s_closed s = false -> s_flag s = false) /\
  (forall pv st tr st' k r, flag_of st k = Some false ->
     exec pv st tr = Some st' -> no_flagset pv k st tr = true -> wpc_of st' k = Some (WRun r) ->
     exists st'', step pv st' (LWorker k WACheck) = Some st'' /\ wpc_of st'' k = Some (WRun r)).
Proof. split; [exact idle_flag_down | exact check_passes_lemma]. Qed.
Print Assumptions idle_interrupt_harmless.

(* The flag is cleared ONLY by the worker's own check, finish_request and (old
   protocol) reset, and raised ONLY by the labels `is_flagset` names. *)
Theorem flag_write_discipline :
  (forall pv st l st' k, step pv st l = Some st' -> flag_of st k = Some true ->
     l <> LWorker k WAReset -> l <> LWorker k WACheck -> l <> LWorker k WADone -> flag_of st' k = Some true) /\
  (forall pv st l st' k, step pv st l = Some st' -> flag_of st k = Some false ->
     is_flagset k st l = false -> flag_of st' k = Some false).
Proof. split; [exact flag_stays_true | exact flag_stays_false]. Qed.
Print Assumptions flag_write_discipline.

(* R2 on the OLD protocol (code as found and code with fix-1 only): eval queued,
   interrupt handled and acknowledged, worker then dequeues and resets: the eval
   runs with flag false and its check passes. *)
Theorem interrupt_lost_old_protocol_refuted : forall pv, counts pv = false ->
  match exec pv init (early_interrupt_trace pv) with
  | Some st => wpc_of st 0 = Some (WRun 1) /\ flag_of st 0 = Some false /\
               In (MDone 2 StDone) (st_sent st) /\
               match step pv st (LWorker 0 WACheck) with
               | Some st' => wpc_of st' 0 = Some (WRun 1)
               | None => False
               end
  | None => False
  end.
Proof. exact interrupt_lost_old_protocol. Qed.
Print Assumptions interrupt_lost_old_protocol_refuted.

(* the same client schedule on the current code stops the eval at its first check *)
Example early_interrupt_stops_eval :
  match exec VFix2 init (early_interrupt_trace VFix2) with
  | Some st => wpc_of st 0 = Some (WRun 1) /\ flag_of st 0 = Some true /\
               match step VFix2 st (LWorker 0 WACheck) with
               | Some st' => wpc_of st' 0 = Some (WStop 1 RInterrupted)
               | None => False
               end
  | None => False
  end.
Proof. exact early_interrupt_stops_eval_fix2. Qed.
Print Assumptions early_interrupt_stops_eval.

Example interrupt_accept_hypotheses_satisfiable :
  exists st s, reachable VFix2 st /\ st_rd st = RGot 2 (OInterrupt 0) /\ open_sess st 0 = Some s /\
    s_queue s <> [] /\ s_w s = WIdle.
Proof. exact accept_hyp_satisfiable. Qed.
Print Assumptions interrupt_accept_hypotheses_satisfiable.

(* idle interrupt then eval; late interrupt (R1) then eval: both evals start with the flag down *)
Example idle_and_late_interrupt_examples :
  (match exec VFix2 init idle_interrupt_trace with
   | Some st => wpc_of st 0 = Some (WRun 2) /\ flag_of st 0 = Some false
   | None => False
   end /\
   exec VFix2 init [ LRecv OClone; LReader RANew; LReader RASend; LRecv (OInterrupt 0); LReader RAFlag ] = None) /\
  match exec VFix2 init late_interrupt_trace with
  | Some st => wpc_of st 0 = Some (WRun 3) /\ flag_of st 0 = Some false /\ In (MDone 1 StDone) (st_sent st)
  | None => False
  end.
Proof. split; [exact idle_interrupt_demo | exact late_interrupt_demo]. Qed.
Print Assumptions idle_and_late_interrupt_examples.

(* Current code.  Once close_session has stored `closed` and the interrupt
   flag for session k (s_closed, and the reader is past the flag store), in EVERY
   reachable state an eval of session k that is running has the flag raised, so
   its next check stops it -- this covers the eval running at close time, an eval
   that was only queued or just dequeued at close time, and every request still
   queued behind it. *)
Theorem close_stops_running : forall st k s r, reachable VFix2 st ->
  nth_error (st_sess st) k = Some s -> s_closed s = true -> rd_mid_close k (st_rd st) = false ->
  s_w s = WRun r ->
  exists st', step VFix2 st (LWorker k WACheck) = Some st' /\ wpc_of st' k = Some (WStop r RInterrupted).
Proof. exact close_stops_running_lemma. Qed.
Print Assumptions close_stops_running.

(* the hypotheses are what close_session establishes, and they are reachable *)
Theorem close_establishes_hypotheses : forall st st1 st2 r k, st_rd st = RGot r (OClose k) ->
  step VFix2 st (LReader RAClosed) = Some st1 -> step VFix2 st1 (LReader RAFlag) = Some st2 ->
  exists s, nth_error (st_sess st2) k = Some s /\ s_closed s = true /\ s_flag s = true /\
            rd_mid_close k (st_rd st2) = false.
Proof. exact close_sets_both. Qed.
Print Assumptions close_establishes_hypotheses.

Example close_hypotheses_satisfiable :
  exists st s, reachable VFix2 st /\ nth_error (st_sess st) 0 = Some s /\ s_closed s = true /\
    rd_mid_close 0 (st_rd st) = false /\ s_w s = WRun 1.
Proof. exact close_hyp_satisfiable. Qed.
Print Assumptions close_hypotheses_satisfiable.

(* R3: the code AS FOUND violates close_stops_running.  Interleaving:
   clone; eval queued; close handled (flag stored, session removed, acknowledged
   `session-closed`); worker dequeues, resets the flag, starts the eval: running,
   flag false, checks pass, session unreachable. *)
Theorem close_stops_running_refuted_asis :
  exists st, exec VAsFound init close_race_trace = Some st /\
    In (MDone 2 StSessionClosed) (st_sent st) /\
    open_sess st 0 = None /\
    wpc_of st 0 = Some (WRun 1) /\ flag_of st 0 = Some false /\
    (forall st', step VAsFound st (LWorker 0 WACheck) = Some st' -> wpc_of st' 0 = Some (WRun 1)).
Proof. exact NreplProps.close_stops_running_refuted_asis. Qed.
Print Assumptions close_stops_running_refuted_asis.

(* the same schedule on the current code ends the eval at its first check *)
Example close_race_fixed_stops :
  exists st, exec VFix2 init close_race_trace_fixed = Some st /\ wpc_of st 0 = Some (WStop 1 RInterrupted).
Proof. exact close_race_fixed. Qed.
Print Assumptions close_race_fixed_stops.

(* non-vacuity of interrupt_running: a concrete interrupted eval, all variants *)
Example interrupt_running_example : forall pv,
  match exec pv init (interrupt_trace pv) with
  | Some st => flag_of st 0 = Some true /\ wpc_of st 0 = Some (WRun 1) /\
               match step pv st (LWorker 0 WACheck) with
               | Some st' => wpc_of st' 0 = Some (WStop 1 RInterrupted)
               | None => False
               end
  | None => False
  end.
Proof. exact interrupt_demo. Qed.
Print Assumptions interrupt_running_example.
