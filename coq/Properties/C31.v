(* C31 -- nREPL interrupt stops the running eval and no other.
   Only statements; model Nrepl.v (same named assumptions as C30), proofs NreplProps.v.

   The per-session `interrupted` flag is written by: the reader (interrupt op,
   close_session), the SIGINT watchdog, the worker's reset after every dequeue
   (store false), the evaluator's check (load; on true store false and return
   Interrupted), and -- with fix-1 -- the worker's re-raise for a closed session.

   THE RACES, stated explicitly:
   (R1, benign) a flag stored after the evaluator's last check of an eval is not
       seen by that eval; `idle_interrupt_harmless` shows it is erased by the
       next reset and can never cancel a later eval.
   (R2, by design) a flag stored after a request was queued but BEFORE the
       worker's reset for it is erased by that reset: `interrupt_before_reset_lost`.
       The interrupt is acknowledged, the eval runs on.  Confirmed on the real
       server; classified by the property's own second clause (the worker is
       idle / has not started the eval when the interrupt is handled).
   (R3, DEFECT in the code as found) the same window for `close`: the session is
       removed, the queued/just-dequeued eval then starts with a cleared flag and
       nothing can stop it any more: `close_stops_running_refuted_asis`.
       fix-1 closes it: `close_stops_running`. *)
From Coq Require Import List Arith Bool.
Import ListNotations.
From Garden Require Import Nrepl NreplProps.

(* The flag is true at some point (stored by anyone), and from there up to a
   state where worker k's evaluator is running request r the worker has done
   neither its reset nor a check (i.e. the store landed between the
   reset-on-dequeue and this check of the same eval).  Then this check ends the
   eval with Interrupted and consumes the flag. *)
Theorem interrupt_running : forall fx st tr st' k r,
  flag_of st k = Some true -> exec fx st tr = Some st' ->
  (forall l, In l tr -> l <> LWorker k WAReset /\ l <> LWorker k WACheck) ->
  wpc_of st' k = Some (WRun r) ->
  exists st'', step fx st' (LWorker k WACheck) = Some st'' /\
               wpc_of st'' k = Some (WStop r RInterrupted) /\ flag_of st'' k = Some false.
Proof. exact interrupt_running_lemma. Qed.
Print Assumptions interrupt_running.

(* ... and the `done` of an eval stopped that way has status `interrupted`,
   whatever happens afterwards. *)
Theorem interrupted_eval_reports_interrupted : forall fx st tr st' k r s', reachable fx st ->
  wpc_of st k = Some (WStop r RInterrupted) ->
  exec fx st tr = Some st' -> In (MDone r s') (st_sent st') -> s' = StInterrupted.
Proof. exact interrupted_status_lemma. Qed.
Print Assumptions interrupted_eval_reports_interrupted.

(* Worker k is idle, has just dequeued, or is past its evaluator's return
   (pre_reset) -- whatever is stored into its flag now, e.g. by an interrupt
   handled while the session is idle or by a late interrupt (R1):
   (i) before the worker can run a flag check again it executes its reset, and
   (ii) after a reset, as long as no NEW store of `true` happens, every check of
        the eval sees `false` and the eval continues. *)
Theorem idle_interrupt_harmless :
  (forall fx tr st st' k pc r, wpc_of st k = Some pc -> pre_reset pc = true ->
     exec fx st tr = Some st' -> wpc_of st' k = Some (WRun r) -> In (LWorker k WAReset) tr) /\
  (forall fx st k st1 tr st2 r,
     step fx st (LWorker k WAReset) = Some st1 -> exec fx st1 tr = Some st2 ->
     no_flagset fx k st1 tr = true -> wpc_of st2 k = Some (WRun r) ->
     exists st3, step fx st2 (LWorker k WACheck) = Some st3 /\ wpc_of st3 k = Some (WRun r)).
Proof. split; [exact check_needs_reset | exact idle_interrupt_harmless_lemma]. Qed.
Print Assumptions idle_interrupt_harmless.

(* The flag is cleared ONLY by the worker's own reset and check, and raised
   ONLY by the labels `is_flagset` names. *)
Theorem flag_write_discipline :
  (forall fx st l st' k, step fx st l = Some st' -> flag_of st k = Some true ->
     l <> LWorker k WAReset -> l <> LWorker k WACheck -> flag_of st' k = Some true) /\
  (forall fx st l st' k, step fx st l = Some st' -> flag_of st k = Some false ->
     is_flagset k st l = false -> flag_of st' k = Some false).
Proof. split; [exact flag_stays_true | exact flag_stays_false]. Qed.
Print Assumptions flag_write_discipline.

(* R2, exhibited (both code variants): eval queued, interrupt handled and
   acknowledged, worker then dequeues and resets: the eval runs with flag false. *)
Example interrupt_before_reset_lost : forall fx,
  match exec fx init (lost_interrupt_trace fx) with
  | Some st => wpc_of st 0 = Some (WRun 1) /\ flag_of st 0 = Some false /\ In (MDone 2 StDone) (st_sent st)
  | None => False
  end.
Proof. exact interrupt_before_reset_is_lost. Qed.
Print Assumptions interrupt_before_reset_lost.

(* Code with fix-1.  Once close_session has stored `closed` and the interrupt
   flag for session k (s_closed, and the reader is past the flag store), in EVERY
   reachable state an eval of session k that is running has the flag raised, so
   its next check stops it -- this covers the eval running at close time, an eval
   that was only queued or just dequeued at close time, and every request still
   queued behind it. *)
Theorem close_stops_running : forall st k s r, reachable true st ->
  nth_error (st_sess st) k = Some s -> s_closed s = true -> rd_mid_close k (st_rd st) = false ->
  s_w s = WRun r ->
  exists st', step true st (LWorker k WACheck) = Some st' /\ wpc_of st' k = Some (WStop r RInterrupted).
Proof. exact close_stops_running_lemma. Qed.
Print Assumptions close_stops_running.

(* the hypotheses are what close_session establishes, and they are reachable *)
Theorem close_establishes_hypotheses : forall st st1 st2 r k, st_rd st = RGot r (OClose k) ->
  step true st (LReader RAClosed) = Some st1 -> step true st1 (LReader RAFlag) = Some st2 ->
  exists s, nth_error (st_sess st2) k = Some s /\ s_closed s = true /\ s_flag s = true /\
            rd_mid_close k (st_rd st2) = false.
Proof. exact close_sets_both. Qed.
Print Assumptions close_establishes_hypotheses.

Example close_hypotheses_satisfiable :
  exists st s, reachable true st /\ nth_error (st_sess st) 0 = Some s /\ s_closed s = true /\
    rd_mid_close 0 (st_rd st) = false /\ s_w s = WRun 1.
Proof. exact close_hyp_satisfiable. Qed.
Print Assumptions close_hypotheses_satisfiable.

(* R3: the code AS FOUND (fx = false) violates close_stops_running.  Interleaving:
   clone; eval queued; close handled (flag stored, session removed, acknowledged
   `session-closed`); worker dequeues, resets the flag, starts the eval: running,
   flag false, checks pass, session unreachable. *)
Theorem close_stops_running_refuted_asis :
  exists st, exec false init close_race_trace = Some st /\
    In (MDone 2 StSessionClosed) (st_sent st) /\
    open_sess st 0 = None /\
    wpc_of st 0 = Some (WRun 1) /\ flag_of st 0 = Some false /\
    (forall st', step false st (LWorker 0 WACheck) = Some st' -> wpc_of st' 0 = Some (WRun 1)).
Proof. exact NreplProps.close_stops_running_refuted_asis. Qed.
Print Assumptions close_stops_running_refuted_asis.

(* the same schedule on the fixed code ends the eval at its first check *)
Example close_race_fixed_stops :
  exists st, exec true init close_race_trace_fixed = Some st /\ wpc_of st 0 = Some (WStop 1 RInterrupted).
Proof. exact close_race_fixed. Qed.
Print Assumptions close_race_fixed_stops.

(* non-vacuity of interrupt_running: a concrete interrupted eval, both variants *)
Example interrupt_running_example : forall fx,
  match exec fx init (if fx then interrupt_trace else filter (fun l => match l with LWorker _ WALoadClosed => false | _ => true end) interrupt_trace) with
  | Some st => flag_of st 0 = Some true /\ wpc_of st 0 = Some (WRun 1) /\
               match step fx st (LWorker 0 WACheck) with
               | Some st' => wpc_of st' 0 = Some (WStop 1 RInterrupted)
               | None => False
               end
  | None => False
  end.
Proof. exact interrupt_demo. Qed.
Print Assumptions interrupt_running_example.
