(* C32 -- Prelude string and list functions match their specification.
   Only statements here; proofs are in PreludeProps.v.  Model: Prelude.v (a
   transliteration of src/__prelude.gdn and of the Rust built-in arms it calls);
   specification: PreludeSpec.v.  `small l` = the string / list has fewer than
   2^62 items (it fits in memory), which makes the wrapping Int arithmetic of the
   loops exact.  Every theorem of the form `f fuel args = Ok (spec args)` says in
   particular that the Garden loop terminates within `fuel` iterations. *)
From Coq Require Import ZArith NArith List Bool String Sorting.Sorted Sorting.Permutation.
From Garden Require Import Base.Int64 Prelude PreludeSpec PreludeProps gen.PreludeSrc.
Import ListNotations.
Open Scope Z_scope.

(* ---- the model was written from exactly these sources (regenerated from the tree on every run) ---- *)
Example starts_with_src_pinned : PreludeSrc.starts_with_hash = "37ee8630518048c4"%string.
Proof. reflexivity. Qed.
Print Assumptions starts_with_src_pinned.

Example ends_with_src_pinned : PreludeSrc.ends_with_hash = "7c714018e84dfd88"%string.
Proof. reflexivity. Qed.
Print Assumptions ends_with_src_pinned.

Example replace_src_pinned : PreludeSrc.replace_hash = "cb4a16866bb6d9ee"%string.
Proof. reflexivity. Qed.
Print Assumptions replace_src_pinned.

Example split_once_src_pinned : PreludeSrc.split_once_hash = "a3ca513518fe7897"%string.
Proof. reflexivity. Qed.
Print Assumptions split_once_src_pinned.

Example join_src_pinned : PreludeSrc.join_hash = "2d7fbd4d55841889"%string.
Proof. reflexivity. Qed.
Print Assumptions join_src_pinned.

Example contains_src_pinned : PreludeSrc.contains_hash = "f43bedaa8cc52af0"%string.
Proof. reflexivity. Qed.
Print Assumptions contains_src_pinned.

Example trim_left_src_pinned : PreludeSrc.trim_left_hash = "77b6af7785fc71d7"%string.
Proof. reflexivity. Qed.
Print Assumptions trim_left_src_pinned.

Example trim_right_src_pinned : PreludeSrc.trim_right_hash = "78915444759a3996"%string.
Proof. reflexivity. Qed.
Print Assumptions trim_right_src_pinned.

Example trim_src_pinned : PreludeSrc.trim_hash = "2af1b28ee91d7e69"%string.
Proof. reflexivity. Qed.
Print Assumptions trim_src_pinned.

Example strip_suffix_src_pinned : PreludeSrc.strip_suffix_hash = "ef3959a2004fe632"%string.
Proof. reflexivity. Qed.
Print Assumptions strip_suffix_src_pinned.

Example strip_prefix_src_pinned : PreludeSrc.strip_prefix_hash = "9fc8f7393b88bf24"%string.
Proof. reflexivity. Qed.
Print Assumptions strip_prefix_src_pinned.

Example split_src_pinned : PreludeSrc.split_hash = "5e9dab8f70cefb10"%string.
Proof. reflexivity. Qed.
Print Assumptions split_src_pinned.

Example chars_src_pinned : PreludeSrc.chars_hash = "c355bcaf0ccefac9"%string.
Proof. reflexivity. Qed.
Print Assumptions chars_src_pinned.

Example len_src_pinned : PreludeSrc.len_hash = "dd424e97cd58c48c"%string.
Proof. reflexivity. Qed.
Print Assumptions len_src_pinned.

Example lines_src_pinned : PreludeSrc.lines_hash = "f164c6c6e5173240"%string.
Proof. reflexivity. Qed.
Print Assumptions lines_src_pinned.

Example substring_src_pinned : PreludeSrc.substring_hash = "6c8e91df60192b38"%string.
Proof. reflexivity. Qed.
Print Assumptions substring_src_pinned.

Example index_of_src_pinned : PreludeSrc.index_of_hash = "0229c805d737b55c"%string.
Proof. reflexivity. Qed.
Print Assumptions index_of_src_pinned.

Example range_src_pinned : PreludeSrc.range_hash = "b20e9861eb3d51a8"%string.
Proof. reflexivity. Qed.
Print Assumptions range_src_pinned.

Example append_src_pinned : PreludeSrc.append_hash = "c3ce76588f842d90"%string.
Proof. reflexivity. Qed.
Print Assumptions append_src_pinned.

Example concat_src_pinned : PreludeSrc.concat_hash = "82c988a655287999"%string.
Proof. reflexivity. Qed.
Print Assumptions concat_src_pinned.

Example lcontains_src_pinned : PreludeSrc.lcontains_hash = "88b65f7ec82b66be"%string.
Proof. reflexivity. Qed.
Print Assumptions lcontains_src_pinned.

Example get_src_pinned : PreludeSrc.get_hash = "ed2074f48f30d2cc"%string.
Proof. reflexivity. Qed.
Print Assumptions get_src_pinned.

Example llen_src_pinned : PreludeSrc.llen_hash = "51ca8a3a7429ee31"%string.
Proof. reflexivity. Qed.
Print Assumptions llen_src_pinned.

Example first_src_pinned : PreludeSrc.first_hash = "28c4f488cc53060e"%string.
Proof. reflexivity. Qed.
Print Assumptions first_src_pinned.

Example last_src_pinned : PreludeSrc.last_hash = "5eb1c7487776a814"%string.
Proof. reflexivity. Qed.
Print Assumptions last_src_pinned.

Example filter_src_pinned : PreludeSrc.filter_hash = "bc0690856dd4505a"%string.
Proof. reflexivity. Qed.
Print Assumptions filter_src_pinned.

Example map_src_pinned : PreludeSrc.map_hash = "6d5f301f1aa7068f"%string.
Proof. reflexivity. Qed.
Print Assumptions map_src_pinned.

Example lindex_of_src_pinned : PreludeSrc.lindex_of_hash = "c254570323152aab"%string.
Proof. reflexivity. Qed.
Print Assumptions lindex_of_src_pinned.

Example slice_src_pinned : PreludeSrc.slice_hash = "faf4827b97765a68"%string.
Proof. reflexivity. Qed.
Print Assumptions slice_src_pinned.

Example enumerate_src_pinned : PreludeSrc.enumerate_hash = "8e6b1121ba41fa24"%string.
Proof. reflexivity. Qed.
Print Assumptions enumerate_src_pinned.

Example sort_nums_src_pinned : PreludeSrc.sort_nums_hash = "cbcbdedacff5735d"%string.
Proof. reflexivity. Qed.
Print Assumptions sort_nums_src_pinned.

Example max_src_pinned : PreludeSrc.max_hash = "ed7dbccbedbc4968"%string.
Proof. reflexivity. Qed.
Print Assumptions max_src_pinned.

Example min_src_pinned : PreludeSrc.min_hash = "cb76c0eecda1a0d7"%string.
Proof. reflexivity. Qed.
Print Assumptions min_src_pinned.

Example rust_StringLen_src_pinned : PreludeSrc.rust_StringLen_hash = "b60dd7e8114c359d"%string.
Proof. reflexivity. Qed.
Print Assumptions rust_StringLen_src_pinned.

Example rust_StringSubstring_src_pinned : PreludeSrc.rust_StringSubstring_hash = "b794605d6d020435"%string.
Proof. reflexivity. Qed.
Print Assumptions rust_StringSubstring_src_pinned.

Example rust_StringStartsWith_src_pinned : PreludeSrc.rust_StringStartsWith_hash = "9d9f5c9f1a67ce5b"%string.
Proof. reflexivity. Qed.
Print Assumptions rust_StringStartsWith_src_pinned.

Example rust_StringEndsWith_src_pinned : PreludeSrc.rust_StringEndsWith_hash = "f308467b15cdb158"%string.
Proof. reflexivity. Qed.
Print Assumptions rust_StringEndsWith_src_pinned.

Example rust_StringIndexOf_src_pinned : PreludeSrc.rust_StringIndexOf_hash = "26040f6b747c5d82"%string.
Proof. reflexivity. Qed.
Print Assumptions rust_StringIndexOf_src_pinned.

Example rust_StringJoin_src_pinned : PreludeSrc.rust_StringJoin_hash = "ac3e3a472ed659c1"%string.
Proof. reflexivity. Qed.
Print Assumptions rust_StringJoin_src_pinned.

Example rust_StringChars_src_pinned : PreludeSrc.rust_StringChars_hash = "686bcfcc6274b1fb"%string.
Proof. reflexivity. Qed.
Print Assumptions rust_StringChars_src_pinned.

Example rust_StringLines_src_pinned : PreludeSrc.rust_StringLines_hash = "016cb58a2f8da8e1"%string.
Proof. reflexivity. Qed.
Print Assumptions rust_StringLines_src_pinned.

Example rust_ListAppend_src_pinned : PreludeSrc.rust_ListAppend_hash = "2fff703e7bcf5818"%string.
Proof. reflexivity. Qed.
Print Assumptions rust_ListAppend_src_pinned.

Example rust_ListLen_src_pinned : PreludeSrc.rust_ListLen_hash = "67692ae7b8857a81"%string.
Proof. reflexivity. Qed.
Print Assumptions rust_ListLen_src_pinned.

Example rust_ListGet_src_pinned : PreludeSrc.rust_ListGet_hash = "06def9b08871c0ff"%string.
Proof. reflexivity. Qed.
Print Assumptions rust_ListGet_src_pinned.

Example rust_ListContains_src_pinned : PreludeSrc.rust_ListContains_hash = "e33216d059d46d95"%string.
Proof. reflexivity. Qed.
Print Assumptions rust_ListContains_src_pinned.

Example rust_ListSlice_src_pinned : PreludeSrc.rust_ListSlice_hash = "7735bc2ae92be3b3"%string.
Proof. reflexivity. Qed.
Print Assumptions rust_ListSlice_src_pinned.

(* ---- strings ----------------------------------------------------------------------------------- *)
(* starts_with: `s` is a prefix of `this` *)
Theorem C32_starts_with : forall this s, starts_with this s = spec_starts_with this s /\ (starts_with this s = true <-> is_prefix s this).
Proof. intros; split; [apply starts_with_spec | apply starts_with_meaning]. Qed.
Print Assumptions C32_starts_with.

Theorem C32_ends_with : forall this s, ends_with this s = spec_ends_with this s /\ (ends_with this s = true <-> is_suffix s this).
Proof. intros; split; [apply ends_with_spec | apply ends_with_meaning]. Qed.
Print Assumptions C32_ends_with.

(* index_of: the character offset of the first occurrence (Some 0 for the empty needle, also in the empty string) *)
Theorem C32_index_of : forall this needle, index_of this needle = spec_index_of this needle.
Proof. exact index_of_spec. Qed.
Print Assumptions C32_index_of.

Theorem C32_index_of_first_occurrence : forall this needle i, index_of this needle = Some (Z.of_nat i) <-> first_occurrence needle this i.
Proof. exact index_of_meaning. Qed.
Print Assumptions C32_index_of_first_occurrence.

Theorem C32_index_of_none : forall this needle, index_of this needle = None <-> ~ occurs needle this.
Proof. exact index_of_none_meaning. Qed.
Print Assumptions C32_index_of_none.

(* substring: raises unless 0 <= from <= to, otherwise the characters at offsets from <= k < to (clamped at the end) *)
Theorem C32_substring : forall this from to, substring this from to = match spec_substring this from to with Some r => Ok r | None => Exn end.
Proof. exact substring_spec. Qed.
Print Assumptions C32_substring.

Theorem C32_split_once : forall this needle, small this -> split_once this needle = Ok (spec_split_once this needle).
Proof. exact split_once_spec. Qed.
Print Assumptions C32_split_once.

Theorem C32_strip_prefix : forall this prefix, small this -> strip_prefix this prefix = Ok (spec_strip_prefix this prefix).
Proof. exact strip_prefix_spec. Qed.
Print Assumptions C32_strip_prefix.

Theorem C32_strip_suffix : forall this suffix, small this -> strip_suffix this suffix = Ok (spec_strip_suffix this suffix).
Proof. exact strip_suffix_spec. Qed.
Print Assumptions C32_strip_suffix.

(* contains terminates (fuel = length + 2) and decides occurrence *)
Theorem C32_contains : forall this substring, small this -> contains (fuel_of_string this) this substring = Ok (spec_contains this substring).
Proof. exact contains_spec. Qed.
Print Assumptions C32_contains.

Theorem C32_contains_meaning : forall s n, spec_contains s n = true <-> occurs n s.
Proof. exact spec_contains_meaning. Qed.
Print Assumptions C32_contains_meaning.

(* split terminates for EVERY needle (fuel = length + 2), the empty one included *)
Theorem C32_split : forall this needle, small this -> split (fuel_of_string this) this needle = Ok (spec_split this needle).
Proof. exact split_spec. Qed.
Print Assumptions C32_split.

(* for a non-empty needle the parts are THE leftmost decomposition: joining them with the needle gives the string back and no part contains the needle *)
Theorem C32_split_meaning : forall this needle parts, small this -> this <> [] -> needle <> [] ->
  split (fuel_of_string this) this needle = Ok parts ->
  Split needle this parts /\ spec_join needle parts = this /\ Forall (fun p => ~ occurs needle p) parts.
Proof. exact split_meaning. Qed.
Print Assumptions C32_split_meaning.

Theorem C32_split_unique : forall n s p1 p2, Split n s p1 -> Split n s p2 -> p1 = p2.
Proof. intros n s p1 p2 H1 H2; exact (Split_functional n s p1 H1 p2 H2). Qed.
Print Assumptions C32_split_unique.

(* the empty needle splits between all characters; joining with the empty needle still gives the string back *)
Theorem C32_split_empty_needle : forall this, spec_split this [] = spec_chars this /\ spec_join [] (chars this) = this.
Proof. intro this; split; [destruct this; reflexivity | apply chars_join]. Qed.
Print Assumptions C32_split_empty_needle.

(* replace terminates for EVERY `before`, the empty one included *)
Theorem C32_replace : forall this before after, small this -> replace (fuel_of_string this) this before after = Ok (spec_replace this before after).
Proof. exact replace_spec. Qed.
Print Assumptions C32_replace.

Theorem C32_replace_meaning : forall this before after, before <> [] ->
  exists parts, Split before this parts /\ spec_replace this before after = spec_join after parts.
Proof. exact replace_meaning. Qed.
Print Assumptions C32_replace_meaning.

Theorem C32_join : forall this items, join this items = spec_join this items.
Proof. exact join_spec. Qed.
Print Assumptions C32_join.

Theorem C32_chars : forall this, chars this = spec_chars this.
Proof. exact chars_spec. Qed.
Print Assumptions C32_chars.

Theorem C32_len : forall this, len this = spec_len this.
Proof. exact len_spec. Qed.
Print Assumptions C32_len.

(* trim_left / trim_right / trim terminate (fuel = length + 2) and remove the U+0020 characters at the ends *)
Theorem C32_trim_left : forall this, small this -> trim_left (fuel_of_string this) this = Ok (spec_trim_left this).
Proof. exact trim_left_spec. Qed.
Print Assumptions C32_trim_left.

Theorem C32_trim_right : forall this, small this -> trim_right (fuel_of_string this) this = Ok (spec_trim_right this).
Proof. exact trim_right_spec. Qed.
Print Assumptions C32_trim_right.

Theorem C32_trim : forall this, small this -> trim (fuel_of_string this) this = Ok (spec_trim this).
Proof. exact trim_spec. Qed.
Print Assumptions C32_trim.

(* drop_spaces removes exactly the maximal run of U+0020 *)
Theorem C32_trim_meaning : forall s, exists k, s = (repeat 32%N k ++ drop_spaces s)%list /\ (forall c t, drop_spaces s = c :: t -> c <> 32%N).
Proof. exact drop_spaces_meaning. Qed.
Print Assumptions C32_trim_meaning.

(* lines: the pieces between newline characters, one CR before a newline removed, no final empty line *)
Theorem C32_lines : forall this, lines this = spec_lines this.
Proof. exact lines_spec. Qed.
Print Assumptions C32_lines.

Theorem C32_lines_pieces : forall c s, spec_join [c] (split_char c s) = s /\ Forall (fun p => ~ In c p) (split_char c s).
Proof. intros; split; [apply split_char_join | apply split_char_free]. Qed.
Print Assumptions C32_lines_pieces.

(* ---- lists ------------------------------------------------------------------------------------- *)
(* range terminates for all i64 pairs (fuel = j - i + 1) and counts from i to j - 1 *)
Theorem C32_range : forall i j, in64 i = true -> in64 j = true -> range (fuel_of_range i j) i j = Ok (spec_range i j).
Proof. exact range_spec. Qed.
Print Assumptions C32_range.

Theorem C32_concat : forall (A : Type) (this other : list A), concat this other = spec_concat this other.
Proof. intros; apply concat_spec. Qed.
Print Assumptions C32_concat.

Theorem C32_list_contains : forall (A : Type) (eqb : A -> A -> bool) this item, lcontains eqb this item = spec_lcontains eqb this item.
Proof. intros; apply lcontains_spec. Qed.
Print Assumptions C32_list_contains.

Theorem C32_get : forall (A : Type) (this : list A) index, get this index = spec_get this index.
Proof. intros; apply get_spec. Qed.
Print Assumptions C32_get.

Theorem C32_list_len : forall (A : Type) (this : list A), llen this = spec_llen this.
Proof. intros; apply llen_spec. Qed.
Print Assumptions C32_list_len.

Theorem C32_first : forall (A : Type) (this : list A), first this = spec_first this.
Proof. intros; apply first_spec. Qed.
Print Assumptions C32_first.

Theorem C32_last : forall (A : Type) (this : list A), small this -> last this = spec_last this.
Proof. intros; now apply last_spec. Qed.
Print Assumptions C32_last.

(* map / filter for a pure total closure f *)
Theorem C32_filter : forall (A : Type) (this : list A) f, filter this f = spec_filter this f.
Proof. intros; apply filter_spec. Qed.
Print Assumptions C32_filter.

Theorem C32_map : forall (A B : Type) (this : list A) (f : A -> B), map_ this f = spec_map this f.
Proof. intros; apply map_spec. Qed.
Print Assumptions C32_map.

Theorem C32_enumerate : forall (A : Type) (this : list A), small this -> enumerate this = spec_enumerate this.
Proof. intros; now apply enumerate_spec. Qed.
Print Assumptions C32_enumerate.

Theorem C32_list_index_of : forall (A : Type) (eqb : A -> A -> bool) (this : list A) value, small this -> lindex_of eqb this value = spec_lindex_of eqb this value.
Proof. intros; now apply lindex_of_spec. Qed.
Print Assumptions C32_list_index_of.

Theorem C32_list_index_of_meaning : forall (A : Type) (p : A -> bool) (l : list A) i, first_index p l = Some i <->
  (exists x, nth_error l i = Some x /\ p x = true) /\ forall j y, (j < i)%nat -> nth_error l j = Some y -> p y = false.
Proof. intros; apply first_index_meaning. Qed.
Print Assumptions C32_list_index_of_meaning.

(* slice: the items at positions i <= k < j (j < 0 counts from the end), never raises *)
Theorem C32_slice : forall (A : Type) (this : list A) i j, slice this i j = spec_slice this i j.
Proof. intros; apply slice_spec. Qed.
Print Assumptions C32_slice.

(* sort_nums terminates (recursion depth <= length) and returns the sorted permutation *)
Theorem C32_sort_nums : forall items, small items -> exists r, sort_nums (fuel_of_list items) items = Ok r /\ Sorted Z.le r /\ Permutation items r.
Proof. exact sort_nums_spec. Qed.
Print Assumptions C32_sort_nums.

Theorem C32_sort_nums_exec : forall items, small items -> sort_nums (fuel_of_list items) items = Ok (spec_sort items).
Proof. exact sort_nums_spec_exec. Qed.
Print Assumptions C32_sort_nums_exec.

Theorem C32_max : forall x y, max x y = Z.max x y.
Proof. exact max_spec. Qed.
Print Assumptions C32_max.

Theorem C32_min : forall x y, min x y = Z.min x y.
Proof. exact min_spec. Qed.
Print Assumptions C32_min.

(* ---- the code as it was before the fixes (fix-1, fix-2): refuted ---------------------------------- *)
(* `"a".split("")` ran out of every fuel *)
Theorem C32_split_old_refuted : forall fuel, split_old fuel [97%N] [] = OutOfFuel.
Proof. exact split_old_refuted. Qed.
Print Assumptions C32_split_old_refuted.

Theorem C32_replace_old_refuted : forall fuel after, replace_old fuel [97%N] [] after = OutOfFuel.
Proof. exact replace_old_refuted. Qed.
Print Assumptions C32_replace_old_refuted.

Theorem C32_index_of_old_refuted : string_index_of_old [] [] = None /\ spec_index_of [] [] = Some 0.
Proof. exact index_of_old_refuted. Qed.
Print Assumptions C32_index_of_old_refuted.

(* ---- the hypotheses are satisfiable / the statements are not vacuous ------------------------------ *)
Example ex_small : small [97%N; 44%N; 98%N].
Proof. reflexivity. Qed.
Print Assumptions ex_small.

Example ex_split : split (fuel_of_string [97;44;44;98;44]%N) [97;44;44;98;44]%N [44%N] = Ok [[97%N]; []; [98%N]; []].
Proof. reflexivity. Qed.
Print Assumptions ex_split.

Example ex_split_overlap : split (fuel_of_string [97;97;97]%N) [97;97;97]%N [97;97]%N = Ok [[]; [97%N]].
Proof. reflexivity. Qed.
Print Assumptions ex_split_overlap.

Example ex_split_empty : split (fuel_of_string [97;233]%N) [97;233]%N [] = Ok [[97%N]; [233%N]].
Proof. reflexivity. Qed.
Print Assumptions ex_split_empty.

Example ex_replace : replace (fuel_of_string [97;98;99;32;120;97;98;99]%N) [97;98;99;32;120;97;98;99]%N [97;98;99]%N [100%N] = Ok [100;32;120;100]%N.
Proof. reflexivity. Qed.
Print Assumptions ex_replace.

Example ex_contains : contains (fuel_of_string [97;98;99;100]%N) [97;98;99;100]%N [98;99]%N = Ok true.
Proof. reflexivity. Qed.
Print Assumptions ex_contains.

Example ex_index_of : index_of [9731;99]%N [99%N] = Some 1.
Proof. reflexivity. Qed.
Print Assumptions ex_index_of.

Example ex_substring : substring [97;98;99]%N 1 99 = Ok [98;99]%N /\ substring [97;98;99]%N 2 1 = Exn.
Proof. split; reflexivity. Qed.
Print Assumptions ex_substring.

Example ex_split_once : split_once [97;98;99;98;101]%N [98%N] = Ok (Some ([97%N], [99;98;101]%N)).
Proof. reflexivity. Qed.
Print Assumptions ex_split_once.

Example ex_sort_nums : sort_nums (fuel_of_list [3;1;2;1]) [3;1;2;1] = Ok [1;1;2;3].
Proof. reflexivity. Qed.
Print Assumptions ex_sort_nums.

Example ex_range : range (fuel_of_range 9223372036854775805 9223372036854775807) 9223372036854775805 9223372036854775807 = Ok [9223372036854775805; 9223372036854775806].
Proof. reflexivity. Qed.
Print Assumptions ex_range.

Example ex_slice : slice [10;11;12] 1 (-1) = [11] /\ slice [10;11;12] (-5) 99 = [10;11;12].
Proof. split; reflexivity. Qed.
Print Assumptions ex_slice.

Example ex_enumerate : enumerate [7;8] = [(0,7);(1,8)].
Proof. reflexivity. Qed.
Print Assumptions ex_enumerate.

Example ex_lines : lines [97;13;10;10;98;13]%N = [[97%N]; []; [98;13]%N].
Proof. reflexivity. Qed.
Print Assumptions ex_lines.

Example ex_trim : trim (fuel_of_string [32;97;32;98;32;32]%N) [32;97;32;98;32;32]%N = Ok [97;32;98]%N.
Proof. reflexivity. Qed.
Print Assumptions ex_trim.
