(* C33 -- Printing a syntax tree and parsing it gives the same tree.
   PARTIAL: the theorem covers the expression-chain fragment of the grammar
   (literals, variables, binary operators of all 21 kinds, explicit
   parentheses, any nesting); the rest of the grammar (calls, literals of
   collections, statements, definitions) is covered by the generator-based
   search of tools/props/C33.py against the real parser. *)
From Coq Require Import ZArith NArith Bool List.
From Garden Require Import ParseExpr ParseExprProps gen.ParserShape ParseExprTie.
Import ListNotations.

(* For EVERY tree of the fragment that the grammar can express without
   inventing parentheses (wf: the right operand of an operator is not itself an
   operator application -- such trees need an explicit Parentheses node, which
   the AST has), its canonical token text parses back to exactly that tree,
   with nothing left over. *)
Theorem parse_print_partial : forall e, wf e = true ->
  exists f0, forall f, f0 <= f -> parse current_shape f true (print e) = Some (e, []).
Proof. rewrite current_is_good. exact parse_print. Qed.
Print Assumptions parse_print_partial.

(* wf is not a restriction on meaning: every tree has a wf form obtained by
   inserting explicit Parentheses nodes around right operands *)
Fixpoint parenthesise (e : pexpr) : pexpr :=
  match e with
  | PBin o l r => PBin o (parenthesise l) (match r with PBin _ _ _ => PParen (parenthesise r) | _ => parenthesise r end)
  | PParen e' => PParen (parenthesise e')
  | _ => e
  end.

Theorem parenthesise_wf : forall e, wf (parenthesise e) = true.
Proof.
  induction e as [z|x|o l IHl r IHr|e' IH]; cbn [parenthesise wf]; auto.
  rewrite IHl. destruct r; cbn [wf] in *; auto; rewrite ?IHr; auto.
Qed.
Print Assumptions parenthesise_wf.

Example parse_print_example :
  let e := PBin KSubtract (PBin KMultiply (PInt 2) (PParen (PBin KAdd (PVar 1) (PInt 3)))) (PParen (PParen (PInt 4))) in
  wf e = true /\ parse_top current_shape (print e) = Some e.
Proof. vm_compute. split; reflexivity. Qed.
Print Assumptions parse_print_example.

(* ---- the wider model (ParseFull.v): definitions, statements, expressions ----------------------
   PARTIAL.  What IS covered (every tree t of the type `item` with wf_item t = true, any nesting):
     definitions  fun / method (optional `public`, type parameters, parameters with optional type hints,
                  optional return hint, body), test, enum (variants with optional payload hint), struct
                  (fields with hints), import (with optional `as name`), toplevel expression, toplevel block;
     statements   let (symbol or destructuring destination, optional hint), `x = e`, `x += e`, `x -= e`,
                  return with and without a value -- these four in statement position only (elements of a
                  block, toplevel expression) -- and if / else, while, for-in, break, continue, match (cases
                  `V => { }` and `V(dest) => { }`), assert, which may also be nested inside expressions;
     expressions  integer (incl. negative), float and string literal tokens, variables, all 21 infix operators
                  (left-nested), explicit parentheses, tuples of any length (`()`, `(a,)`, `(a, b)`), lists,
                  calls `f(a, b)` (the parenthesis touches the callee), method calls `x.m(a)`, field access
                  `x.f`, closures `fun(x, y) { ... }`;
     type hints   `Name`, `Name<H, ...>`, `(H, ...)`.
   wf_item asks for what the grammar needs to express a tree WITHOUT inventing parentheses: the right operand of
   an operator, a callee and a receiver are not operator applications; a callee is not a field access (that text
   is a method call); let/assignment/return only in statement position; no repeated name (other than `_`) in a
   parameter list or destructuring destination (the parser reports those); a toplevel expression does not start
   with the keyword `fun` (read as a definition).
   What is NOT covered (the model answers None): `Dict[...]` literals, struct literals `Foo{...}`, try/catch,
   `::`, doc comments, every error-recovery path of the parser; the lexer (tokens are abstract: kind + spacing,
   see Lex.v for the lexer) -- these are exercised by the generator-based search of tools/props/C33.py.
   `current_shape` and the facts below are REGENERATED from src/parser.rs on every run. *)
From Garden Require Import ParseFull ParseFullProps ParseFullTie.

Theorem full_facts :
  method_arm_recognised = true /\ method_paren_touches = true /\ call_paren_touches = true /\
  return_needs_same_line = true /\ assignment_decided_by_second_token = true /\ keyword_count = 22.
Proof. exact full_facts_lemma. Qed.
Print Assumptions full_facts.

Theorem parse_print_full_partial : forall t, wf_item t = true ->
  exists f0, forall f, f0 <= f -> parse_item current_shape method_paren_touches f (print_item t) = Some (t, []).
Proof. exact parse_print_full_current. Qed.
Print Assumptions parse_print_full_partial.

(* the expression-chain fragment of parse_print_partial is inside the new domain *)
Theorem old_fragment_wf : forall e, ParseExpr.wf e = true -> ParseFull.wf false (emb e) = true.
Proof. exact emb_wf. Qed.
Print Assumptions old_fragment_wf.

(* before the fix "a method call's parenthesis must touch the method name" the round trip FAILED on a block of
   two statements, `v1.v2` and `(v3)`: it came back as the one statement `v1.v2(v3)` *)
Theorem method_space_refuted :
  let t := IBlock [EDot (EVar 1) 2; EParen (EVar 3)] in
  wf_item t = true /\
  parse_item good_shape false 40 (print_item t) = Some (IBlock [EMethod (EVar 1) 2 [EVar 3]], []) /\
  parse_item good_shape true 40 (print_item t) = Some (t, []).
Proof. exact method_space_refuted_lemma. Qed.
Print Assumptions method_space_refuted.

(* non-vacuity: a definition that uses most of the grammar is in the domain and round-trips by computation *)
Example parse_print_full_example :
  let body : block :=
    [ELet (DSym 1) (Some (HName 5 [HName 6 []; HTuple [HName 7 []; HName 8 []]]))
          (EBin KAdd (ECall (EVar 2) [EInt 1; EStr 3]) (EMethod (EVar 4) 5 [ETuple [EInt 1]; ETuple [EInt 1; EInt 2]; ETuple []]));
     EIf (EDot (EVar 1) 2) [EReturn None] (Some [EAssign 3 (EList [EInt 1; EList []])]);
     EWhile (EParen (EBin KLessThan (EVar 1) (EInt (-5)))) [EBreak; EContinue; EAssignUpdate true 1 (EInt 1)];
     EFor (DDestructure [1; 2]) (EVar 3) [EAssert (EVar 1)];
     EMatch (EVar 1) [(5, Some (DSym 1), [EVar 1]); (6, None, []); (0, None, [EReturn (Some (EInt 1))])];
     ELet (DSym 2) None (EIf (EVar 1) [EInt 1] (Some [EInt 2]));
     EFunLit [(1, None); (2, Some (HName 9 []))] None [EVar 1];
     ECall (EFunLit [] (Some (HName 9 [])) []) [];
     EDot (EVar 1) 2; EParen (EVar 3)]%N in
  let t := IFun true 10 [11; 12]%N [(1, Some (HName 5 [])); (2, None)]%N (Some (HName 5 [])) body in
  wf_item t = true /\ parse_item current_shape method_paren_touches 60 (print_item t) = Some (t, []) /\
  wf_item (IEnum true 10 [11]%N [(1, None); (2, Some (HName 5 [HName 6 []]))]%N) = true /\
  wf_item (IExpr (EFunLit [] None [])) = false.
Proof. vm_compute. repeat split; reflexivity. Qed.
Print Assumptions parse_print_full_example.
