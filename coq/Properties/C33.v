(* C33 -- Printing a syntax tree and parsing it gives the same tree.
   PARTIAL: the theorem covers the expression-chain fragment of the grammar
   (literals, variables, binary operators of all 21 kinds, explicit
   parentheses, any nesting); the rest of the grammar (calls, literals of
   collections, statements, definitions) is covered by the generator-based
   search of tools/props/C33.py against the real parser. *)
From Coq Require Import ZArith NArith Bool List.
From Garden Require Import ParseExpr ParseExprProps gen.ParserShape ParseExprTie.
Import ListNotations.

(* For EVERY tree of the fragment that the grammar can express without
   inventing parentheses (wf: the right operand of an operator is not itself an
   operator application -- such trees need an explicit Parentheses node, which
   the AST has), its canonical token text parses back to exactly that tree,
   with nothing left over. *)
Theorem parse_print_partial : forall e, wf e = true ->
  exists f0, forall f, f0 <= f -> parse current_shape f true (print e) = Some (e, []).
Proof. rewrite current_is_good. exact parse_print. Qed.
Print Assumptions parse_print_partial.

(* wf is not a restriction on meaning: every tree has a wf form obtained by
   inserting explicit Parentheses nodes around right operands *)
Fixpoint parenthesise (e : pexpr) : pexpr :=
  match e with
  | PBin o l r => PBin o (parenthesise l) (match r with PBin _ _ _ => PParen (parenthesise r) | _ => parenthesise r end)
  | PParen e' => PParen (parenthesise e')
  | _ => e
  end.

Theorem parenthesise_wf : forall e, wf (parenthesise e) = true.
Proof.
  induction e as [z|x|o l IHl r IHr|e' IH]; cbn [parenthesise wf]; auto.
  rewrite IHl. destruct r; cbn [wf] in *; auto; rewrite ?IHr; auto.
Qed.
Print Assumptions parenthesise_wf.

Example parse_print_example :
  let e := PBin KSubtract (PBin KMultiply (PInt 2) (PParen (PBin KAdd (PVar 1) (PInt 3)))) (PParen (PParen (PInt 4))) in
  wf e = true /\ parse_top current_shape (print e) = Some e.
Proof. vm_compute. split; reflexivity. Qed.
Print Assumptions parse_print_example.
