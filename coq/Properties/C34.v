(* C34 -- Only public definitions are visible through imports.
   Only statements here; the model is Imports.v (definitions), proofs are in ImportsProps.v / ImportsTie.v.
   `loader_shape` is GENERATED from src/eval.rs on every run (gen/ImportsGen.v).
   Names in the examples: file 0 = main, file 1 = lib; 1 = public fun, 2 = private fun, 3 = variant of a public
   enum, 4 = variant of a private enum, 10/11 = import aliases, 0 = a prelude function, 20/21 = public/private
   struct, 22/23 = public/private enum, 40.30 / 40.31 = public/private method. *)
From Coq Require Import List Bool NArith Arith.
Import ListNotations.
From Garden Require Import Imports ImportsProps ImportsGeneral ImportsTie gen.ImportsGen.

(* Any finite file graph, cycles and self-imports included, with or without the repairs: fuel = number of
   files + 1 is enough (the root file is not in paths_seen when loading starts, so it can be loaded twice). *)
Theorem load_terminates : forall sh proj root fuel,
  length proj < fuel -> load_root sh proj fuel root <> OutOfFuel.
Proof. exact load_terminates_lemma. Qed.
Print Assumptions load_terminates.

(* PARTIAL. `a::x` resolves exactly when `a` names the namespace of a file g, x has a value in it and x is in
   g's exported_syms. Missing for the full statement: a general lemma that after load_root the exported_syms of
   g are exactly the names g marks `public` (shown below on concrete projects only, by computation). *)
Theorem qualified_visible_iff_public_partial : forall e f a x,
  run_qualified e f a x = Resolved <->
  exists g, lookup_N a (ns_values (ns_of e f)) = Some (VNs g) /\
            lookup_N x (ns_values (ns_of e g)) <> None /\ mem_N x (ns_exported (ns_of e g)) = true.
Proof. exact qualified_visible_iff_exported_lemma. Qed.
Print Assumptions qualified_visible_iff_public_partial.

(* Check time (infer_namespace_access / get_var) and run time (eval_namespace_access / variable lookup)
   take the same decision in every environment. *)
Theorem check_and_run_agree : forall e f a x,
  check_qualified e f a x = run_qualified e f a x /\ check_unqualified e f x = run_unqualified e f x.
Proof. exact check_and_run_agree_lemma. Qed.
Print Assumptions check_and_run_agree.

(* PARTIAL (concrete projects, by computation on the model of the CURRENT source): through `as` and through an
   unqualified import exactly the public function and the variants of the public enum are reachable; private ones,
   prelude functions seen through the namespace and missing names are rejected. *)
Theorem unqualified_imports_exactly_public_partial :
  option_map2 (fun e => (run_qualified e 0 10 1, run_qualified e 0 10 2, run_qualified e 0 10 3, run_qualified e 0 10 4,
                         run_qualified e 0 10 0, run_qualified e 0 10 99))
              (loaded loader_shape [main_alias; lib])
  = Some (Resolved, Rejected, Resolved, Rejected, Rejected, Rejected)
  /\
  option_map2 (fun e => (run_unqualified e 0 1, run_unqualified e 0 2, run_unqualified e 0 3, run_unqualified e 0 4))
              (loaded loader_shape [main_plain; lib])
  = Some (Resolved, Rejected, Resolved, Rejected).
Proof. exact current_loader_values. Qed.
Print Assumptions unqualified_imports_exactly_public_partial.

(* Cycles on the model of the CURRENT source: in main -> b <-> c (all unqualified) c sees b's public function and
   b sees c's, main sees b's but not c's (no re-export); an unqualified self-import and a missing file imported
   twice load without panicking. *)
Theorem cyclic_imports_complete :
  option_map2 (fun e => (run_unqualified e 2 1, run_unqualified e 1 5, run_unqualified e 0 1, run_unqualified e 0 5))
              (loaded loader_shape cyc) = Some (Resolved, Resolved, Resolved, Rejected)
  /\ loaded loader_shape [[IImport 0 None; IFun 1 Public]] <> None
  /\ loaded loader_shape [[IImport 7 (Some 10%N); IImport 7 (Some 11%N)]] <> None.
Proof. exact current_loader_cycles. Qed.
Print Assumptions cyclic_imports_complete.

(* EXPECTED FINDING (DESIGN.md section 8 item 21): a private struct, a private enum and a private method of an
   imported file ARE usable by the importer, with either import form, with and without the repairs: types and
   methods live in one global table keyed by name only. *)
Theorem types_visible_refuted :
  forall sh, In sh [shape_unfixed; shape_fixed] ->
  forall main, In main [main_alias; main_plain] ->
  option_map2 (fun e => (type_usable e 0 21, type_usable e 0 23, method_usable e 0 40 31)) (loaded sh [main; lib])
  = Some (Resolved, Resolved, Resolved).
Proof. exact types_visible_refuted_lemma. Qed.
Print Assumptions types_visible_refuted.

Theorem types_visible_refuted_current_source :
  forall main, In main [main_alias; main_plain] ->
  option_map2 (fun e => (type_usable e 0 21, type_usable e 0 23, method_usable e 0 40 31)) (loaded loader_shape [main; lib])
  = Some (Resolved, Resolved, Resolved).
Proof. exact current_loader_types_visible. Qed.
Print Assumptions types_visible_refuted_current_source.

(* The loader as it was before the repairs: each defect as a computed witness (all confirmed on the binary). *)
Theorem unfixed_loader_refuted :
  (option_map2 (fun e => (run_qualified e 0 10 3)) (loaded shape_unfixed [main_alias; lib]) = Some Rejected /\
   option_map2 (fun e => (run_unqualified e 0 3)) (loaded shape_unfixed [main_plain; lib]) = Some Rejected) /\
  (load_root shape_unfixed [[IImport 0 None; IFun 1 Public]] 2 0 = Panic) /\
  (load_root shape_unfixed [[IImport 7 (Some 10%N); IImport 7 (Some 11%N)]] 2 0 = Panic) /\
  (option_map2 (fun e => run_unqualified e 2 1) (loaded shape_unfixed cyc) = Some Rejected).
Proof.
  split; [exact unfixed_public_variant_unreachable|].
  split; [exact (proj1 unfixed_self_import_panics)|].
  split; [exact (proj1 unfixed_missing_twice_panics)|].
  exact (proj1 cyclic_unqualified_import).
Qed.
Print Assumptions unfixed_loader_refuted.

(* ================================================================================================
   GENERAL theorems: ARBITRARY project (any number of files), ANY import graph (cycles, self-imports,
   repeated imports, imports of missing files), with and without `as`, for the loader shape regenerated
   from the current source. Hypotheses: the root file exists, loading returned an environment e (it
   always terminates: load_terminates), and no file marks one name both public and private
   (consistent_marks; shown necessary below). Vocabulary (ImportsGeneral.v):
     hasns e g         file g has a namespace in e, i.e. it was loaded (the root, or reached by imports)
     exp e g x         x is in the exported_syms of g's namespace;   val e g x   the value bound to x in it
     pubp proj g x     file g marks x `public` (a public fun, or a variant of a public enum)
     declared proj g x g declares x (fun or enum variant, any visibility)
     import_alias proj f t a / import_plain proj f t    f contains `import t as a` / `import t`
     allowed proj f x  x is a prelude name, or declared by f, or an import alias of f, or public in a file
                       that f imports without `as`.
   ================================================================================================ *)

(* (a) After loading, the exported_syms of EVERY loaded file are exactly its public marks. *)
Theorem exported_iff_public : forall proj root fuel e,
  consistent_marks proj -> root < length proj -> load_root loader_shape proj fuel root = Ok e ->
  forall g, hasns e g = true -> forall x, exp e g x = pubp proj g x.
Proof. exact exported_iff_public_tied. Qed.
Print Assumptions exported_iff_public.

(* The root is loaded, loaded files exist, and every namespace value refers to a loaded file. *)
Theorem namespaces_are_loaded_files : forall proj root fuel e,
  consistent_marks proj -> root < length proj -> load_root loader_shape proj fuel root = Ok e ->
  hasns e root = true /\ (forall g, hasns e g = true -> g < length proj) /\
  (forall f a g, val e f a = Some (VNs g) -> hasns e g = true).
Proof. exact loaded_tied. Qed.
Print Assumptions namespaces_are_loaded_files.

(* `a::x` resolves exactly when `a` is bound to the namespace of a file that marks x public
   (restatement of qualified_visible_iff_public_partial against the public marks, for all projects). *)
Theorem qualified_visible_iff_public : forall proj root fuel e,
  consistent_marks proj -> root < length proj -> load_root loader_shape proj fuel root = Ok e ->
  forall f a x, run_qualified e f a x = Resolved <-> exists g, val e f a = Some (VNs g) /\ pubp proj g x = true.
Proof. exact qualified_visible_iff_public_tied. Qed.
Print Assumptions qualified_visible_iff_public.

(* (b) In every loaded file an unqualified name resolves exactly when it is allowed: through `import t`
   exactly the public items of t, nothing private, nothing re-exported. *)
Theorem unqualified_imports_exactly_public : forall proj root fuel e,
  consistent_marks proj -> root < length proj -> load_root loader_shape proj fuel root = Ok e ->
  forall f, hasns e f = true -> forall x, run_unqualified e f x = Resolved <-> allowed proj f x.
Proof. exact unqualified_visible_iff_tied. Qed.
Print Assumptions unqualified_imports_exactly_public.

(* General form of cyclic_imports_complete: whatever the graph, every public item of a file imported
   without `as` is reachable from every loaded importer ... *)
Theorem cyclic_imports_complete_general : forall proj root fuel e,
  consistent_marks proj -> root < length proj -> load_root loader_shape proj fuel root = Ok e ->
  forall f g x, hasns e f = true -> import_plain proj f g -> pubp proj g x = true -> run_unqualified e f x = Resolved.
Proof. exact unqualified_import_complete_tied. Qed.
Print Assumptions cyclic_imports_complete_general.

(* ... and a name that is neither prelude, nor declared by f, nor an alias of f, resolves only if some file
   that f itself imports without `as` marks it public (no re-export, no private item). *)
Theorem unqualified_import_sound : forall proj root fuel e,
  consistent_marks proj -> root < length proj -> load_root loader_shape proj fuel root = Ok e ->
  forall f x, hasns e f = true -> run_unqualified e f x = Resolved ->
  ~ In x prelude_names -> ~ declared proj f x -> (forall t, ~ import_alias proj f t x) ->
  exists g, import_plain proj f g /\ pubp proj g x = true.
Proof. exact unqualified_import_sound_tied. Qed.
Print Assumptions unqualified_import_sound.

(* Non-vacuity: a two-file project with a cycle, a self-import, both import forms, public and private
   functions and enums satisfies consistent_marks, loads, and resolves as the theorems say. *)
Example general_hypotheses_satisfiable :
  consistent_marks ex_proj /\ 0 < length ex_proj /\
  exists e, load_root shape_fixed ex_proj 3 0 = Ok e /\
    run_unqualified e 0 1 = Resolved /\ run_unqualified e 0 3 = Resolved /\ run_unqualified e 0 2 = Rejected /\
    run_unqualified e 1 5 = Resolved /\ run_qualified e 1 10 1 = Resolved /\ run_qualified e 1 10 2 = Rejected.
Proof. split; [exact ex_proj_consistent|]. split; [cbn; auto|]. exact ex_proj_loads. Qed.
Print Assumptions general_hypotheses_satisfiable.

(* consistent_marks is needed: `public fun f` and `fun f` in one file leave f out of exported_syms. *)
Example consistent_marks_is_needed :
  let p := [[IFun 1 Public; IFun 1 Private]] in
  ~ consistent_marks p /\
  exists e, load_root shape_fixed p 2 0 = Ok e /\ pubp p 0 1 = true /\ exp e 0 1 = false.
Proof. exact consistent_marks_needed. Qed.
Print Assumptions consistent_marks_is_needed.
