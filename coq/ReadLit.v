(* ReadLit -- MODEL of how garden prints and reads back the values of the
   literal fragment:  integers, strings, True / False / Unit / None,
   Some(x) / Ok(x) / Err(x), list literals and tuple literals, nested
   arbitrarily.  Definitions only (proofs are in ReadLitProps.v).

   `lit` / `show` are this file's OWN small value tree and printer, not
   Value.v's `value` / `display`: Value.v keeps strings as UTF-8 bytes and
   carries runtime type annotations that a reader cannot produce, while the
   lexer model works on scalar values.  `show` mirrors src/values.rs
   `Value::display` for these constructors:
     Int        `format!("{i}")`
     String     escape_string_literal           (Lex.escape)
     List       `[a, b]`       items joined by ", "
     Tuple      `(a, b)`, the 1-tuple `(a,)`, the empty tuple `()`
     EnumVariant  the variant name, `Name(payload)` with a payload.
   `read_literal` mirrors the SUCCESS paths of src/parser.rs on this grammar
   (parse_simple_expression, parse_integer, unescape_string,
   parse_tuple_literal_or_parentheses, parse_list_literal,
   parse_comma_separated_exprs, the call arm of parse_expression_with) and
   interprets `True` .. `Err(x)` as the prelude's constructors; every path on
   which the parser would report an error, or build something that is not a
   literal of the fragment (a float, a parenthesised expression, any other
   symbol), gives None.  A trailing comma is accepted where the parser accepts
   one.  What comes AFTER the literal is returned, not judged: statements
   are about inputs that are consumed completely.

   Floats, dicts and structs are outside this model (search only, C12.py).

   Modelled, not verified: `i64::from_str`, `i64`'s Display. *)
From Coq Require Import ZArith NArith Bool List.
From Garden Require Import Base.Utf Lex.
Import ListNotations.
Open Scope N_scope.

Inductive lit :=
| LInt (z : Z)
| LStr (s : list N)
| LBool (b : bool)
| LUnit
| LNone
| LSome (v : lit)
| LOk (v : lit)
| LErr (v : lit)
| LList (vs : list lit)
| LTuple (vs : list lit).

(* ------------------------------------------------------------------ *)
(* texts *)

Definition T_TRUE : list N := [84; 114; 117; 101].
Definition T_FALSE : list N := [70; 97; 108; 115; 101].
Definition T_UNIT : list N := [85; 110; 105; 116].
Definition T_NONE : list N := [78; 111; 110; 101].
Definition T_SOME : list N := [83; 111; 109; 101].
Definition T_OK : list N := [79; 107].
Definition T_ERR : list N := [69; 114; 114].
Definition LPAREN : N := 40.
Definition RPAREN : N := 41.
Definition LBRACKET : N := 91.
Definition RBRACKET : N := 93.
Definition COMMA : N := 44.
Definition SPACE : N := 32.

Fixpoint text_eqb (a b : list N) : bool :=
  match a, b with
  | [], [] => true
  | x :: a', y :: b' => (x =? y) && text_eqb a' b'
  | _, _ => false
  end.

(* ------------------------------------------------------------------ *)
(* printing *)

Definition min_i64 : Z := (- 2 ^ 63)%Z.
Definition max_i64 : Z := (2 ^ 63 - 1)%Z.
Definition in_i64 (z : Z) : bool := ((min_i64 <=? z) && (z <=? max_i64))%Z.

(* decimal digits of n, most significant first; enough fuel = number of bits *)
Fixpoint digits_fuel (fuel : nat) (n : N) : list N :=
  match fuel with
  | O => []
  | S f => if n <? 10 then [48 + n] else digits_fuel f (n / 10) ++ [48 + n mod 10]
  end.
Definition show_N (n : N) : list N := digits_fuel (S (N.to_nat (N.size n))) n.

(* i64's Display *)
Definition show_int (z : Z) : list N :=
  if (z <? 0)%Z then MINUS :: show_N (Z.to_N (- z)) else show_N (Z.to_N z).

(* items joined by ", " *)
Fixpoint join_items (xs : list (list N)) : list N :=
  match xs with
  | [] => []
  | x :: r => x ++ match r with [] => [] | _ => COMMA :: SPACE :: join_items r end
  end.

Fixpoint show (v : lit) : list N :=
  match v with
  | LInt z => show_int z
  | LStr s => escape s
  | LBool true => T_TRUE
  | LBool false => T_FALSE
  | LUnit => T_UNIT
  | LNone => T_NONE
  | LSome x => T_SOME ++ LPAREN :: show x ++ [RPAREN]
  | LOk x => T_OK ++ LPAREN :: show x ++ [RPAREN]
  | LErr x => T_ERR ++ LPAREN :: show x ++ [RPAREN]
  | LList vs => LBRACKET :: join_items (map show vs) ++ [RBRACKET]
  | LTuple vs =>
    LPAREN :: join_items (map show vs)
           ++ (match vs with [_] => [COMMA] | _ => [] end) ++ [RPAREN]
  end.

(* the values the theorem is about: every integer is an i64 *)
Fixpoint printable (v : lit) : bool :=
  match v with
  | LInt z => in_i64 z
  | LStr _ | LBool _ | LUnit | LNone => true
  | LSome x | LOk x | LErr x => printable x
  | LList vs | LTuple vs => forallb printable vs
  end.

(* ------------------------------------------------------------------ *)
(* reading an integer token: parse_integer
     let text = token.text.replace('_', "");  text.parse::<i64>()
   i64::from_str: optional `+` / `-`, then one or more ASCII digits; any other
   character, no digit, or a value outside i64 is an error. *)
Definition strip_underscores (t : list N) : list N :=
  filter (fun c => negb (c =? UNDERSCORE)) t.

Fixpoint dec_value (acc : N) (ds : list N) : option N :=
  match ds with
  | [] => Some acc
  | d :: r => if is_digit d then dec_value (acc * 10 + (d - 48)) r else None
  end.

Definition parse_i64 (t : list N) : option Z :=
  match strip_underscores t with
  | [] => None
  | c :: r =>
    if c =? MINUS then
      match r with
      | [] => None
      | _ => match dec_value 0 r with
             | Some n => let z := (- Z.of_N n)%Z in if (min_i64 <=? z)%Z then Some z else None
             | None => None
             end
      end
    else
      let ds := if c =? 43 then r else c :: r in
      match ds with
      | [] => None
      | _ => match dec_value 0 ds with
             | Some n => let z := Z.of_N n in if (z <=? max_i64)%Z then Some z else None
             | None => None
             end
      end
  end.

(* ------------------------------------------------------------------ *)
(* reading a literal from tokens *)

Definition is_text (t : token) (s : list N) : bool := text_eqb (ttext t) s.

(* expr.position.end_offset == token.position.start_offset  (a call needs the
   open parenthesis to touch the callee) *)
Definition touching (a b : token) : bool := end_offset (tpos a) =? start_offset (tpos b).

Definition reader := list token -> option (lit * list token).

(* parse_comma_separated_exprs(.., terminator), success path.  Returns the
   items and the remaining tokens STARTING AT the terminator. *)
Fixpoint comma_items (rd : reader) (n : nat) (term : list N) (ts : list token)
  : option (list lit * list token) :=
  match n with
  | O => None
  | S n' =>
    match ts with
    | [] => None
    | t :: _ =>
      if is_text t term then Some ([], ts) else
      match rd ts with
      | None => None
      | Some (v, r) =>
        match r with
        | [] => None                                   (* end of file *)
        | t2 :: r2 =>
          if is_text t2 [COMMA] then
            match comma_items rd n' term r2 with
            | Some (vs, r3) => Some (v :: vs, r3)
            | None => None
            end
          else if is_text t2 term then Some ([v], r)
          else None                                    (* Expected `,` or terminator *)
        end
      end
    end
  end.

(* the loop of parse_tuple_literal_or_parentheses after the first expression,
   entered when a `,` follows it.  Returns the further items and the remaining
   tokens STARTING AT the `)`. *)
Fixpoint tuple_rest (rd : reader) (n : nat) (ts : list token) : option (list lit * list token) :=
  match n with
  | O => None
  | S n' =>
    match ts with
    | [] => None
    | t :: r =>
      if is_text t [COMMA] then
        match r with
        | [] => None
        | t2 :: _ =>
          if is_text t2 [RPAREN] then Some ([], r) else
          match rd r with
          | Some (v, r3) =>
            match tuple_rest rd n' r3 with
            | Some (vs, r4) => Some (v :: vs, r4)
            | None => None
            end
          | None => None
          end
        end
      else if is_text t [RPAREN] then Some ([], ts)
      else None                                        (* Expected `,` or `)` *)
    end
  end.

(* after the terminator has been found: pop it *)
Definition close (res : option (list lit * list token)) : option (list lit * list token) :=
  match res with
  | Some (vs, _ :: r) => Some (vs, r)
  | _ => None
  end.

Fixpoint read_lit (fuel : nat) (ts : list token) {struct fuel} : option (lit * list token) :=
  match fuel with
  | O => None
  | S f =>
    match ts with
    | [] => None
    | t :: r =>
      if is_text t [LPAREN] then                       (* parse_tuple_literal_or_parentheses *)
        match r with
        | [] => None
        | t2 :: r2 =>
          if is_text t2 [RPAREN] then Some (LTuple [], r2) else
          match read_lit f r with
          | None => None
          | Some (v, r3) =>
            match r3 with
            | t3 :: _ =>
              if is_text t3 [COMMA] then
                match close (tuple_rest (read_lit f) f r3) with
                | Some (vs, r4) => Some (LTuple (v :: vs), r4)
                | None => None
                end
              else None                                (* `(e)`: parentheses, not a literal *)
            | [] => None
            end
          end
        end
      else if is_text t [LBRACKET] then                (* parse_list_literal *)
        match close (comma_items (read_lit f) f [RBRACKET] r) with
        | Some (vs, r2) => Some (LList vs, r2)
        | None => None
        end
      else
      match ttext t with
      | [] => None
      | c :: _ =>
        if is_sym_start c then                         (* SYMBOL_RE.is_match: a variable ... *)
          let ctor (mk : lit -> lit) :=                (* ... called with one argument, `(` touching *)
            match r with
            | t2 :: r2 =>
              if is_text t2 [LPAREN] && touching t t2 then
                match close (comma_items (read_lit f) f [RPAREN] r2) with
                | Some ([x], r3) => Some (mk x, r3)
                | _ => None
                end
              else None
            | [] => None
            end in
          if is_text t T_TRUE then Some (LBool true, r)
          else if is_text t T_FALSE then Some (LBool false, r)
          else if is_text t T_UNIT then Some (LUnit, r)
          else if is_text t T_NONE then Some (LNone, r)
          else if is_text t T_SOME then ctor LSome
          else if is_text t T_OK then ctor LOk
          else if is_text t T_ERR then ctor LErr
          else None
        else if c =? QUOTE then                        (* token.text starts with a double quote *)
          match unescape (ttext t) with
          | Some (s, 0) => Some (LStr s, r)
          | _ => None                                  (* invalid escape sequence reported *)
          end
        else
        match float_re (ttext t) with                  (* FLOAT_RE.is_match *)
        | Some _ => None
        | None =>
          match integer_re (ttext t) with              (* INTEGER_RE.is_match: parse_integer *)
          | Some _ =>
            match parse_i64 (ttext t) with
            | Some z => Some (LInt z, r)
            | None => None                             (* outside the range of valid integer values *)
            end
          | None => None
          end
        end
      end
    end
  end.

Definition read_literal (ts : list token) : option (lit * list token) :=
  read_lit (S (length ts)) ts.

(* print, lex, read: what the round trip computes (used by the extracted driver) *)
Definition read_source (src : list N) : option lit :=
  match lex src with
  | LexOk ts [] [] =>
    match read_literal ts with
    | Some (v, []) => Some v
    | _ => None
    end
  | _ => None
  end.
