(* ReadLitProps -- proofs about ReadLit.v: printing a value of the literal
   fragment, lexing the text and reading the tokens gives the value back.

   Part A  decimal printing / i64 parsing
   Part B  a fuel-free view of the lexer loop (relation `runs`), deterministic,
           and implied by the executable loop
   Part C  one lexer iteration on each kind of piece `show` emits
   Part D  the tokens of a printed value (`toks_of`) and the lexer produces them
   Part E  the reader reads them back
   Part F  the round trip                                                     *)
From Coq Require Import ZArith NArith Bool List Lia.
From Garden Require Import Base.Utf Lex LexProps ReadLit.
Import ListNotations.
Open Scope N_scope.

(* ================================================================== *)
(* Part A: decimal *)

Lemma is_digit_range : forall c, is_digit c = true <-> 48 <= c <= 57.
Proof.
  intro c. unfold is_digit. rewrite andb_true_iff, !N.leb_le. tauto.
Qed.

Lemma is_digit_add : forall d, d < 10 -> is_digit (48 + d) = true.
Proof. intros d H. apply is_digit_range. lia. Qed.

Lemma dec_value_snoc : forall a acc d,
  dec_value acc (a ++ [d]) =
  match dec_value acc a with
  | Some x => if is_digit d then Some (x * 10 + (d - 48)) else None
  | None => None
  end.
Proof.
  induction a as [|c a IH]; intros acc d; cbn [app dec_value].
  - destruct (is_digit d); reflexivity.
  - destruct (is_digit c); [apply IH|reflexivity].
Qed.

Definition all_digits (ds : list N) : Prop := Forall (fun c => is_digit c = true) ds.

Lemma digits_fuel_spec : forall fuel n, n < 2 ^ N.of_nat fuel ->
  all_digits (digits_fuel fuel n) /\ dec_value 0 (digits_fuel fuel n) = Some n.
Proof.
  induction fuel as [|f IH]; intros n H.
  - cbn in H. assert (n = 0) by lia. subst. split; [constructor|reflexivity].
  - cbn [digits_fuel]. destruct (N.ltb_spec n 10) as [L|L].
    + split.
      * constructor; [now apply is_digit_add|constructor].
      * cbn [dec_value]. rewrite is_digit_add by assumption. f_equal. lia.
    + assert (Hq : n / 10 < 2 ^ N.of_nat f).
      { apply N.div_lt_upper_bound; [lia|].
        rewrite Nat2N.inj_succ, N.pow_succ_r' in H. lia. }
      destruct (IH _ Hq) as [A V]. split.
      * apply Forall_app. split; [exact A|].
        constructor; [|constructor]. apply is_digit_add. apply N.mod_lt. lia.
      * rewrite dec_value_snoc, V. rewrite is_digit_add by (apply N.mod_lt; lia).
        f_equal. rewrite (N.add_comm 48), N.add_sub.
        rewrite N.mul_comm. symmetry. apply N.div_mod'.
Qed.

Lemma digits_fuel_nonempty : forall f n, digits_fuel (S f) n <> [].
Proof.
  intros f n. cbn [digits_fuel]. destruct (n <? 10); [discriminate|].
  destruct (digits_fuel f (n / 10)); discriminate.
Qed.

Lemma show_N_spec : forall n,
  all_digits (show_N n) /\ dec_value 0 (show_N n) = Some n /\ show_N n <> [].
Proof.
  intro n. unfold show_N.
  assert (H : n < 2 ^ N.of_nat (S (N.to_nat (N.size n)))).
  { rewrite Nat2N.inj_succ, N2Nat.id, N.pow_succ_r'. pose proof (N.size_gt n). lia. }
  destruct (digits_fuel_spec _ _ H) as [A V]. split; [exact A|]. split; [exact V|].
  apply digits_fuel_nonempty.
Qed.

Lemma filter_id : forall (f : N -> bool) l, Forall (fun c => f c = true) l -> filter f l = l.
Proof.
  intros f l F. induction F as [|c l Hc F IH]; [reflexivity|]. cbn [filter]. now rewrite Hc, IH.
Qed.

Lemma digit_not_underscore : forall c, is_digit c = true -> negb (c =? UNDERSCORE) = true.
Proof.
  intros c H. apply is_digit_range in H. destruct (N.eqb_spec c UNDERSCORE) as [->|]; [|reflexivity].
  unfold UNDERSCORE in H. lia.
Qed.

(* the shape of a printed integer: optional `-`, a digit, digits *)
Lemma show_int_shape : forall z, exists sg d ds,
  show_int z = sg ++ d :: ds /\ (sg = [] \/ sg = [MINUS]) /\ is_digit d = true /\ all_digits ds.
Proof.
  intro z. unfold show_int. destruct (z <? 0)%Z.
  - destruct (show_N_spec (Z.to_N (- z))) as (A & _ & Ne).
    destruct (show_N (Z.to_N (- z))) as [|d ds]; [congruence|]. inversion A; subst.
    exists [MINUS], d, ds. repeat split; auto.
  - destruct (show_N_spec (Z.to_N z)) as (A & _ & Ne).
    destruct (show_N (Z.to_N z)) as [|d ds]; [congruence|]. inversion A; subst.
    exists [], d, ds. repeat split; auto.
Qed.

Lemma parse_show_int : forall z, in_i64 z = true -> parse_i64 (show_int z) = Some z.
Proof.
  intros z H. unfold in_i64 in H. apply andb_prop in H as [Hlo Hhi].
  unfold parse_i64, show_int. destruct (Z.ltb_spec z 0) as [Neg|Pos].
  - destruct (show_N_spec (Z.to_N (- z))) as (A & V & Ne).
    assert (S : strip_underscores (MINUS :: show_N (Z.to_N (- z))) = MINUS :: show_N (Z.to_N (- z))).
    { unfold strip_underscores. apply filter_id. constructor; [reflexivity|].
      eapply Forall_impl; [|exact A]. intros c Hc. now apply digit_not_underscore. }
    rewrite S. rewrite N.eqb_refl.
    destruct (show_N (Z.to_N (- z))) as [|d ds] eqn:E; [congruence|]. rewrite V.
    rewrite Z2N.id by lia. rewrite Z.opp_involutive. now rewrite Hlo.
  - destruct (show_N_spec (Z.to_N z)) as (A & V & Ne).
    assert (S : strip_underscores (show_N (Z.to_N z)) = show_N (Z.to_N z)).
    { unfold strip_underscores. apply filter_id.
      eapply Forall_impl; [|exact A]. intros c Hc. now apply digit_not_underscore. }
    rewrite S. destruct (show_N (Z.to_N z)) as [|d ds] eqn:E; [congruence|].
    inversion A as [|? ? Hd Hds]; subst. apply is_digit_range in Hd.
    destruct (N.eqb_spec d MINUS) as [->|_]; [unfold MINUS in Hd; lia|].
    destruct (N.eqb_spec d 43) as [->|_]; [lia|].
    rewrite V. rewrite Z2N.id by lia. now rewrite Hhi.
Qed.

(* ================================================================== *)
(* Part B: the lexer loop without fuel *)

Section Runs.
  Variable src : list N.

  (* `runs o pc res`: the loop of lex_between, started at offset o with
     preceding_comments pc, ends with res *)
  Inductive runs : N -> list comment -> lex_result -> Prop :=
  | R_end : forall o pc, o <? blen src = false -> runs o pc (LexOk [] pc [])
  | R_break : forall o pc, o <? blen src = true -> lex_step cfg_fixed src o = SBreak ->
      runs o pc (LexOk [] pc [])
  | R_panic : forall o pc, o <? blen src = true -> lex_step cfg_fixed src o = SPanic ->
      runs o pc LexPanic
  | R_skip : forall o pc n res, o <? blen src = true -> lex_step cfg_fixed src o = SSkip n ->
      runs (o + n) pc res -> runs o pc res
  | R_comment : forall o pc p t n res, o <? blen src = true -> lex_step cfg_fixed src o = SComment p t n ->
      runs (o + n) (pc ++ [(p, t)]) res -> runs o pc res
  | R_token : forall o pc p t n res, o <? blen src = true -> lex_step cfg_fixed src o = SToken p t n ->
      runs (o + n) [] res -> runs o pc (cons_tok (mktoken p t pc) res)
  | R_errtoken : forall o pc ep m p t n res, o <? blen src = true ->
      lex_step cfg_fixed src o = SErrToken ep m p t n ->
      runs (o + n) [] res -> runs o pc (cons_err (mkerr ep m) (cons_tok (mktoken p t pc) res))
  | R_err : forall o pc ep m n res, o <? blen src = true -> lex_step cfg_fixed src o = SErr ep m n ->
      runs (o + n) pc res -> runs o pc (cons_err (mkerr ep m) res).

  Lemma runs_det : forall o pc r1, runs o pc r1 -> forall r2, runs o pc r2 -> r1 = r2.
  Proof.
    intros o pc r1 H. induction H; intros r2 H2; inversion H2; subst; try congruence;
      match goal with
      | A : lex_step cfg_fixed src ?o = _, B : lex_step cfg_fixed src ?o = _ |- _ =>
        rewrite A in B; inversion B; subst
      end; try reflexivity;
      repeat match goal with
      | IH : forall r, runs ?a ?b r -> ?x = r, K : runs ?a ?b ?y |- _ => apply IH in K; subst
      end; reflexivity.
  Qed.

  (* whatever the executable loop returns (with any fuel that was enough) *)
  Lemma loop_runs : forall fuel o pc res,
    lex_loop cfg_fixed fuel src (blen src) o pc = res -> res <> LexOutOfFuel -> runs o pc res.
  Proof.
    induction fuel as [|f IH]; intros o pc res E Ne; [cbn in E; congruence|].
    cbn [lex_loop] in E. destruct (o <? blen src) eqn:Lt.
    - destruct (lex_step cfg_fixed src o) as [| |n|p t n|p t n|ep m p t n|ep m n] eqn:St.
      + subst. now apply R_panic.
      + subst. now apply R_break.
      + eapply R_skip; eauto.
      + eapply R_comment; eauto.
      + subst res. eapply R_token; eauto. apply (IH _ _ _ eq_refl).
        intro K. rewrite K in Ne. now apply Ne.
      + subst res. eapply R_errtoken; eauto. apply (IH _ _ _ eq_refl).
        intro K. rewrite K in Ne. now apply Ne.
      + subst res. eapply R_err; eauto. apply (IH _ _ _ eq_refl).
        intro K. rewrite K in Ne. now apply Ne.
    - subst. now apply R_end.
  Qed.
End Runs.

(* to know what `lex src` is, it is enough to exhibit a run *)
Lemma lex_by_run : forall src res, shebang_skip src = 0 -> runs src 0 [] res -> lex src = res.
Proof.
  intros src res Sh R. destruct (lex_total_lemma src) as (ts & tr & es & E).
  assert (R' : runs src 0 [] (LexOk ts tr es)).
  { unfold lex, lex_with in E. rewrite Sh in E. eapply loop_runs; [exact E|discriminate]. }
  rewrite E. eapply runs_det; eauto.
Qed.

(* ================================================================== *)
(* Part C: one lexer iteration on each kind of piece *)

Lemma match_token_eq : forall p m r, exists ps,
  match_token (p ++ m ++ r) (blen p) m = SToken ps m (blen m) /\ spans ps (blen p) (blen m).
Proof.
  intros p m r. unfold match_token, single_line_pos. rewrite from_offset_app.
  eexists. split; [reflexivity|]. split; reflexivity.
Qed.

Lemma slice_token_eq1 : forall p c r, len_utf8 c = 1 -> exists ps,
  slice_token (p ++ c :: r) (c :: r) (blen p) 1 = SToken ps [c] 1 /\ spans ps (blen p) 1.
Proof.
  intros p c r H.
  assert (T : take_bytes (c :: r) 1 = Some [c]).
  { change (c :: r) with ([c] ++ r). rewrite <- H, <- blen_single. apply take_bytes_app. }
  unfold slice_token, single_line_pos. rewrite from_offset_app, T.
  eexists. split; [reflexivity|]. split; reflexivity.
Qed.

Ltac bool_hyps :=
  repeat match goal with
  | H : _ || _ = true |- _ => apply orb_prop in H; destruct H
  | H : _ && _ = true |- _ => apply andb_prop in H; destruct H
  | H : (_ =? _) = true |- _ => apply N.eqb_eq in H
  | H : (_ <=? _) = true |- _ => apply N.leb_le in H
  | H : (_ <? _) = true |- _ => apply N.ltb_lt in H
  end.

(* printable ASCII is not whitespace *)
Lemma not_whitespace : forall c, 33 <= c <= 126 -> is_whitespace c = false.
Proof.
  intros c H. destruct (is_whitespace c) eqn:E; [|reflexivity].
  unfold is_whitespace in E. bool_hyps; lia.
Qed.

Lemma starts_with2_head : forall a b x s, x <> a -> starts_with2 a b (x :: s) = false.
Proof.
  intros a b x [|y s] H; [reflexivity|]. cbn [starts_with2].
  destruct (N.eqb_spec x a); [contradiction|reflexivity].
Qed.

Lemma two_char_head_miss : forall (tbl : list (N * N)) c s,
  forallb (fun ab => negb (fst ab =? c)) tbl = true ->
  existsb (fun ab => starts_with2 (fst ab) (snd ab) (c :: s)) tbl = false.
Proof.
  induction tbl as [|[a b] tbl IH]; intros c s H; [reflexivity|].
  cbn [forallb existsb fst snd] in *. apply andb_prop in H as [Ha Ht].
  rewrite starts_with2_head; [now apply IH|].
  intros ->. rewrite N.eqb_refl in Ha. discriminate.
Qed.

Lemma is_digit_enum : forall d, is_digit d = true ->
  d = 48 \/ d = 49 \/ d = 50 \/ d = 51 \/ d = 52 \/ d = 53 \/ d = 54 \/ d = 55 \/ d = 56 \/ d = 57.
Proof. intros d H. apply is_digit_range in H. lia. Qed.

Lemma two_char_digit : forall d s, is_digit d = true ->
  existsb (fun ab => starts_with2 (fst ab) (snd ab) (d :: s)) two_char_tokens = false.
Proof.
  intros d s H. apply two_char_head_miss.
  apply is_digit_enum in H. repeat (destruct H as [->|H]; [reflexivity|]). subst. reflexivity.
Qed.

Lemma two_char_minus : forall d s, is_digit d = true ->
  existsb (fun ab => starts_with2 (fst ab) (snd ab) (MINUS :: d :: s)) two_char_tokens = false.
Proof.
  intros d s H. apply is_digit_range in H.
  cbn [existsb two_char_tokens starts_with2 fst snd].
  change (MINUS =? 45) with true. cbn [andb orb].
  destruct (N.eqb_spec d 61); [lia|]. destruct (N.eqb_spec d 46); [lia|]. reflexivity.
Qed.

Lemma span_app : forall (f : N -> bool) a b, Forall (fun c => f c = true) a ->
  (match b with [] => True | c :: _ => f c = false end) -> span f (a ++ b) = (a, b).
Proof.
  intros f a b F Hb. induction F as [|c a Hc F IH].
  - destruct b as [|c b]; [reflexivity|]. cbn [app span]. now rewrite Hb.
  - cbn [app span]. now rewrite Hc, IH.
Qed.

Lemma float_re_head_none : forall c s, c <> MINUS -> is_digit c = false -> float_re (c :: s) = None.
Proof.
  intros c s Hm Hd. unfold float_re, opt_minus. destruct (N.eqb_spec c MINUS); [contradiction|].
  cbn [scan_digits]. now rewrite Hd.
Qed.

Lemma integer_re_head_none : forall c s, c <> MINUS -> is_digit c = false -> integer_re (c :: s) = None.
Proof.
  intros c s Hm Hd. unfold integer_re, opt_minus. destruct (N.eqb_spec c MINUS); [contradiction|].
  cbn [scan_digits]. now rewrite Hd.
Qed.

Lemma string_re_head_none : forall b c s, c <> QUOTE -> string_re b (c :: s) = None.
Proof. intros b c s H. cbn [string_re]. destruct (N.eqb_spec c QUOTE); [contradiction|reflexivity]. Qed.

(* what may follow a printed value: nothing, or `,` `)` `]` *)
Definition closer (c : N) : bool := (c =? COMMA) || (c =? RPAREN) || (c =? RBRACKET).
Definition follow_ok (r : list N) : Prop := match r with [] => True | c :: _ => closer c = true end.

Lemma closer_cases : forall c, closer c = true -> c = COMMA \/ c = RPAREN \/ c = RBRACKET.
Proof. intros c H. unfold closer in H. bool_hyps; auto. Qed.

Lemma digits_us : forall ds, all_digits ds -> Forall (fun c => is_digit_us c = true) ds.
Proof.
  intros ds H. eapply Forall_impl; [|exact H]. intros c Hc. unfold is_digit_us. now rewrite Hc.
Qed.

Lemma follow_not_digit_us : forall r, follow_ok r ->
  match r with [] => True | c :: _ => is_digit_us c = false end.
Proof.
  intros [|c r] H; [exact I|]. apply closer_cases in H. destruct H as [->|[->| ->]]; reflexivity.
Qed.

Lemma scan_digits_app : forall d ds r, is_digit d = true -> all_digits ds -> follow_ok r ->
  scan_digits (d :: ds ++ r) = Some (d :: ds, r).
Proof.
  intros d ds r Hd Hds Hr. cbn [scan_digits]. rewrite Hd.
  rewrite span_app; [reflexivity|now apply digits_us|now apply follow_not_digit_us].
Qed.

(* an integer text sg ++ d :: ds followed by r *)
Section IntPiece.
  Variables (sg : list N) (d : N) (ds r : list N).
  Hypothesis Hsg : sg = [] \/ sg = [MINUS].
  Hypothesis Hd : is_digit d = true.
  Hypothesis Hds : all_digits ds.
  Hypothesis Hr : follow_ok r.

  Lemma opt_minus_int : opt_minus (sg ++ d :: ds ++ r) = (sg, d :: ds ++ r).
  Proof.
    destruct Hsg as [->| ->]; cbn [app opt_minus].
    - apply is_digit_range in Hd. destruct (N.eqb_spec d MINUS) as [E|_]; [|reflexivity].
      unfold MINUS in E. lia.
    - reflexivity.
  Qed.

  Lemma float_re_int : float_re (sg ++ d :: ds ++ r) = None.
  Proof.
    unfold float_re. rewrite opt_minus_int, scan_digits_app by assumption.
    destruct r as [|c r']; [reflexivity|]. apply closer_cases in Hr.
    destruct Hr as [->|[->| ->]]; reflexivity.
  Qed.

  Lemma integer_re_int : integer_re (sg ++ d :: ds ++ r) = Some (sg ++ d :: ds).
  Proof. unfold integer_re. now rewrite opt_minus_int, scan_digits_app. Qed.

  Lemma lex_step_int : forall p, exists ps,
    lex_step cfg_fixed (p ++ (sg ++ d :: ds) ++ r) (blen p) = SToken ps (sg ++ d :: ds) (blen (sg ++ d :: ds))
    /\ spans ps (blen p) (blen (sg ++ d :: ds)).
  Proof.
    intro p. unfold lex_step. rewrite drop_bytes_app.
    replace ((sg ++ d :: ds) ++ r) with (sg ++ d :: ds ++ r) by (rewrite <- app_assoc; reflexivity).
    pose proof float_re_int as Hf. pose proof integer_re_int as Hi.
    pose proof Hd as Hd'. apply is_digit_range in Hd'.
    destruct Hsg as [->| ->]; cbn [app] in *.
    - rewrite starts_with2_head by (unfold SLASH; lia).
      rewrite not_whitespace by lia. rewrite two_char_digit by assumption.
      rewrite Hf, Hi. apply (match_token_eq p (d :: ds) r).
    - rewrite starts_with2_head by discriminate.
      change (is_whitespace MINUS) with false. cbv iota.
      rewrite two_char_minus by assumption.
      rewrite Hf, Hi. apply (match_token_eq p (MINUS :: d :: ds) r).
  Qed.
End IntPiece.

(* the seven constructor names *)
Definition words : list (list N) := [T_TRUE; T_FALSE; T_UNIT; T_NONE; T_SOME; T_OK; T_ERR].

Lemma symbol_re_app : forall c w r, is_sym_start c = true -> Forall (fun x => is_sym_char x = true) w ->
  (match r with [] => True | x :: _ => is_sym_char x = false end) ->
  symbol_re (c :: w ++ r) = Some (c :: w).
Proof.
  intros c w r Hc Hw Hr. cbn [symbol_re]. rewrite Hc. now rewrite span_app.
Qed.

Lemma lex_step_symbol : forall c w p r,
  c <> SLASH -> 33 <= c <= 126 ->
  forallb (fun ab => negb (fst ab =? c)) two_char_tokens = true ->
  c <> MINUS -> is_digit c = false -> existsb (N.eqb c) one_char_tokens = false -> c <> QUOTE ->
  is_sym_start c = true -> Forall (fun x => is_sym_char x = true) w ->
  (match r with [] => True | x :: _ => is_sym_char x = false end) ->
  exists ps, lex_step cfg_fixed (p ++ (c :: w) ++ r) (blen p) = SToken ps (c :: w) (blen (c :: w))
             /\ spans ps (blen p) (blen (c :: w)).
Proof.
  intros c w p r H1 H2 H3 H4 H5 H6 H7 H8 H9 Hr. unfold lex_step. rewrite drop_bytes_app. cbn [app].
  rewrite starts_with2_head by assumption. rewrite not_whitespace by assumption.
  rewrite two_char_head_miss by assumption.
  rewrite float_re_head_none, integer_re_head_none by assumption. rewrite H6.
  rewrite string_re_head_none by assumption.
  rewrite symbol_re_app by assumption.
  apply (match_token_eq p (c :: w) r).
Qed.

Lemma lex_step_word : forall w p r, In w words ->
  (match r with [] => True | x :: _ => is_sym_char x = false end) ->
  exists ps, lex_step cfg_fixed (p ++ w ++ r) (blen p) = SToken ps w (blen w)
             /\ spans ps (blen p) (blen w).
Proof.
  intros w p r Hin Hr. unfold words in Hin. cbn [In] in Hin.
  destruct Hin as [<-|[<-|[<-|[<-|[<-|[<-|[<-|[]]]]]]]];
    (apply lex_step_symbol;
     [discriminate|lia|reflexivity|discriminate|reflexivity|reflexivity|discriminate|reflexivity
     |repeat constructor|exact Hr]).
Qed.

(* `(` `)` `[` `]` `,` *)
Definition punct (c : N) : bool :=
  (c =? LPAREN) || (c =? RPAREN) || (c =? LBRACKET) || (c =? RBRACKET) || (c =? COMMA).

Lemma lex_step_punct : forall c p r, punct c = true ->
  exists ps, lex_step cfg_fixed (p ++ [c] ++ r) (blen p) = SToken ps [c] (blen [c])
             /\ spans ps (blen p) (blen [c]).
Proof.
  intros c p r H. unfold punct in H.
  assert (K : starts_with2 SLASH SLASH (c :: r) = false /\ is_whitespace c = false /\
              existsb (fun ab => starts_with2 (fst ab) (snd ab) (c :: r)) two_char_tokens = false /\
              float_re (c :: r) = None /\ integer_re (c :: r) = None /\
              existsb (N.eqb c) one_char_tokens = true /\ len_utf8 c = 1).
  { bool_hyps; subst c;
      (split; [now apply starts_with2_head|]; split; [reflexivity|];
       split; [now apply two_char_head_miss|];
       split; [now apply float_re_head_none|]; split; [now apply integer_re_head_none|];
       split; reflexivity). }
  destruct K as (K1 & K2 & K3 & K4 & K5 & K6 & K7).
  unfold lex_step. rewrite drop_bytes_app. cbn [app]. rewrite K1, K2, K3, K4, K5, K6.
  cbn [blen]. rewrite K7. apply (slice_token_eq1 p c r K7).
Qed.

Lemma lex_step_space : forall p r, lex_step cfg_fixed (p ++ [SPACE] ++ r) (blen p) = SSkip 1.
Proof.
  intros p r. unfold lex_step. rewrite drop_bytes_app. cbn [app].
  rewrite starts_with2_head by discriminate. reflexivity.
Qed.

(* ================================================================== *)
(* Part D: the tokens of a printed value *)

Definition prepend (toks : list token) (res : lex_result) : lex_result :=
  fold_right cons_tok res toks.

Lemma prepend_app : forall a b res, prepend (a ++ b) res = prepend a (prepend b res).
Proof. intros. unfold prepend. apply fold_right_app. Qed.

Lemma prepend_ok : forall toks ts tr es, prepend toks (LexOk ts tr es) = LexOk (toks ++ ts) tr es.
Proof.
  induction toks as [|t toks IH]; intros; [reflexivity|].
  change (prepend (t :: toks) (LexOk ts tr es)) with (cons_tok t (prepend toks (LexOk ts tr es))).
  now rewrite IH.
Qed.

(* lexing `piece`, which sits in src right after p, yields toks and goes on after it *)
Definition lexes_to (src p piece : list N) (toks : list token) : Prop :=
  forall res, runs src (blen (p ++ piece)) [] res -> runs src (blen p) [] (prepend toks res).

Lemma lexes_to_app : forall src p a b ta tb,
  lexes_to src p a ta -> lexes_to src (p ++ a) b tb -> lexes_to src p (a ++ b) (ta ++ tb).
Proof.
  intros src p a b ta tb Ha Hb res R. rewrite prepend_app. apply Ha. apply Hb.
  now rewrite <- app_assoc.
Qed.

Lemma lexes_to_nil : forall src p, lexes_to src p [] [].
Proof. intros src p res R. now rewrite app_nil_r in R. Qed.

Lemma offset_inside : forall p m r, m <> [] -> blen p <? blen (p ++ m ++ r) = true.
Proof.
  intros p m r H. apply N.ltb_lt. rewrite !blen_app. pose proof (blen_nonempty m H). lia.
Qed.

Lemma lexes_to_token : forall src p m r ps, src = p ++ m ++ r -> m <> [] ->
  lex_step cfg_fixed src (blen p) = SToken ps m (blen m) ->
  lexes_to src p m [mktoken ps m []].
Proof.
  intros src p m r ps E Hm St res R. cbn. eapply R_token.
  - subst src. now apply offset_inside.
  - exact St.
  - now rewrite <- blen_app.
Qed.

Lemma lexes_to_space : forall src p r, src = p ++ [SPACE] ++ r -> lexes_to src p [SPACE] [].
Proof.
  intros src p r E res R. cbn. eapply R_skip.
  - subst src. now apply offset_inside.
  - subst src. apply lex_step_space.
  - change 1 with (blen [SPACE]). now rewrite <- blen_app.
Qed.

(* The token sequence of a printed value.  Only texts matter, plus the fact
   that the `(` of Some( / Ok( / Err( touches the name. *)
Section ToksOf.
  Variable toks_of : lit -> list token -> Prop.
  Fixpoint toks_items (vs : list lit) (tl : list token) {struct vs} : Prop :=
    match vs with
    | [] => tl = []
    | v :: r =>
      match r with
      | [] => toks_of v tl
      | _ => exists tv c tl', tl = tv ++ c :: tl' /\ toks_of v tv /\ ttext c = [COMMA] /\ toks_items r tl'
      end
    end.
End ToksOf.

Definition ctor_toks (toks_of : lit -> list token -> Prop) (name : list N) (x : lit) (ts : list token) : Prop :=
  exists t1 t2 tx t3, ts = t1 :: t2 :: tx ++ [t3] /\ ttext t1 = name /\ ttext t2 = [LPAREN] /\
    touching t1 t2 = true /\ toks_of x tx /\ ttext t3 = [RPAREN].

Fixpoint toks_of (v : lit) (ts : list token) {struct v} : Prop :=
  match v with
  | LInt z => exists t, ts = [t] /\ ttext t = show_int z
  | LStr s => exists t, ts = [t] /\ ttext t = escape s
  | LBool true => exists t, ts = [t] /\ ttext t = T_TRUE
  | LBool false => exists t, ts = [t] /\ ttext t = T_FALSE
  | LUnit => exists t, ts = [t] /\ ttext t = T_UNIT
  | LNone => exists t, ts = [t] /\ ttext t = T_NONE
  | LSome x => ctor_toks toks_of T_SOME x ts
  | LOk x => ctor_toks toks_of T_OK x ts
  | LErr x => ctor_toks toks_of T_ERR x ts
  | LList vs => exists t1 tl t2, ts = t1 :: tl ++ [t2] /\ ttext t1 = [LBRACKET] /\
                                 toks_items toks_of vs tl /\ ttext t2 = [RBRACKET]
  | LTuple vs =>
    match vs with
    | [v] => exists t1 tv c t2, ts = t1 :: tv ++ [c; t2] /\ ttext t1 = [LPAREN] /\ toks_of v tv /\
                                ttext c = [COMMA] /\ ttext t2 = [RPAREN]
    | _ => exists t1 tl t2, ts = t1 :: tl ++ [t2] /\ ttext t1 = [LPAREN] /\
                            toks_items toks_of vs tl /\ ttext t2 = [RPAREN]
    end
  end.

(* induction on values, with the induction hypothesis for every list item *)
Section LitInd.
  Variable P : lit -> Prop.
  Hypothesis Hint : forall z, P (LInt z).
  Hypothesis Hstr : forall s, P (LStr s).
  Hypothesis Hbool : forall b, P (LBool b).
  Hypothesis Hunit : P LUnit.
  Hypothesis Hnone : P LNone.
  Hypothesis Hsome : forall x, P x -> P (LSome x).
  Hypothesis Hok : forall x, P x -> P (LOk x).
  Hypothesis Herr : forall x, P x -> P (LErr x).
  Hypothesis Hlist : forall vs, Forall P vs -> P (LList vs).
  Hypothesis Htuple : forall vs, Forall P vs -> P (LTuple vs).

  Fixpoint lit_ind' (v : lit) : P v :=
    let fix all (vs : list lit) : Forall P vs :=
      match vs with
      | [] => Forall_nil P
      | x :: r => Forall_cons x (lit_ind' x) (all r)
      end in
    match v with
    | LInt z => Hint z
    | LStr s => Hstr s
    | LBool b => Hbool b
    | LUnit => Hunit
    | LNone => Hnone
    | LSome x => Hsome x (lit_ind' x)
    | LOk x => Hok x (lit_ind' x)
    | LErr x => Herr x (lit_ind' x)
    | LList vs => Hlist vs (all vs)
    | LTuple vs => Htuple vs (all vs)
    end.
End LitInd.

Ltac src_eq := subst; repeat (rewrite <- app_assoc || (progress (cbn [app]))); reflexivity.

Lemma follow_not_sym : forall r, follow_ok r ->
  match r with [] => True | x :: _ => is_sym_char x = false end.
Proof.
  intros [|c r] H; [exact I|]. apply closer_cases in H. destruct H as [->|[->| ->]]; reflexivity.
Qed.

(* what the lexer does on a printed value *)
Definition lex_shows (v : lit) : Prop :=
  forall src p r, src = p ++ show v ++ r -> follow_ok r ->
  exists toks, toks_of v toks /\ lexes_to src p (show v) toks.

Lemma lex_word_piece : forall w src p r, In w words -> src = p ++ w ++ r -> w <> [] ->
  (match r with [] => True | x :: _ => is_sym_char x = false end) ->
  exists ps, lexes_to src p w [mktoken ps w []] /\ spans ps (blen p) (blen w).
Proof.
  intros w src p r Hin E Hw Hr. destruct (lex_step_word w p r Hin Hr) as (ps & St & Sp).
  exists ps. split; [|exact Sp]. eapply lexes_to_token; eauto. now rewrite E.
Qed.

Lemma lex_punct_piece : forall c src p r, punct c = true -> src = p ++ [c] ++ r ->
  exists ps, lexes_to src p [c] [mktoken ps [c] []] /\ spans ps (blen p) (blen [c]).
Proof.
  intros c src p r Hc E. destruct (lex_step_punct c p r Hc) as (ps & St & Sp).
  exists ps. split; [|exact Sp]. eapply lexes_to_token; eauto; [discriminate|]. now rewrite E.
Qed.

Lemma lex_shows_word : forall v w, In w words -> show v = w -> w <> [] ->
  (forall ts, (exists t, ts = [t] /\ ttext t = w) -> toks_of v ts) -> lex_shows v.
Proof.
  intros v w Hin Hs Hw Ht src p r E Hr. rewrite Hs in *.
  destruct (lex_word_piece w src p r Hin E Hw (follow_not_sym r Hr)) as (ps & L & _).
  exists [mktoken ps w []]. split; [|exact L]. apply Ht. now eexists.
Qed.

Lemma lex_shows_ctor : forall name mk x, In name words -> name <> [] ->
  (forall y, show (mk y) = name ++ LPAREN :: show y ++ [RPAREN]) ->
  (forall y ts, ctor_toks toks_of name y ts -> toks_of (mk y) ts) ->
  lex_shows x -> lex_shows (mk x).
Proof.
  intros name mk x Hin Hne Hshow Htoks IH src p r E Hr. rewrite Hshow in *.
  destruct (lex_word_piece name src p (LPAREN :: show x ++ [RPAREN] ++ r) Hin) as (ps1 & L1 & S1);
    [src_eq|exact Hne|reflexivity|].
  destruct (lex_punct_piece LPAREN src (p ++ name) (show x ++ [RPAREN] ++ r)) as (ps2 & L2 & S2);
    [reflexivity|src_eq|].
  destruct (IH src ((p ++ name) ++ [LPAREN]) ([RPAREN] ++ r)) as (tx & Tx & L3); [src_eq|reflexivity|].
  destruct (lex_punct_piece RPAREN src (((p ++ name) ++ [LPAREN]) ++ show x) r) as (ps4 & L4 & S4);
    [reflexivity|src_eq|].
  exists (mktoken ps1 name [] :: mktoken ps2 [LPAREN] [] :: tx ++ [mktoken ps4 [RPAREN] []]). split.
  - apply Htoks. exists (mktoken ps1 name []), (mktoken ps2 [LPAREN] []), tx, (mktoken ps4 [RPAREN] []).
    repeat split; try assumption; try reflexivity.
    unfold touching. cbn [tpos]. destruct S1 as [_ E1]. destruct S2 as [E2 _].
    rewrite E1, E2, blen_app. apply N.eqb_refl.
  - change (name ++ LPAREN :: show x ++ [RPAREN]) with (name ++ [LPAREN] ++ show x ++ [RPAREN]).
    change (mktoken ps1 name [] :: mktoken ps2 [LPAREN] [] :: tx ++ [mktoken ps4 [RPAREN] []])
      with ([mktoken ps1 name []] ++ [mktoken ps2 [LPAREN] []] ++ tx ++ [mktoken ps4 [RPAREN] []]).
    apply lexes_to_app; [exact L1|]. apply lexes_to_app; [exact L2|]. apply lexes_to_app; [exact L3|exact L4].
Qed.

(* the items of a list / tuple: each followed by `, ` or by what follows the last one *)
Lemma lex_shows_items : forall vs, Forall lex_shows vs ->
  forall src p r, src = p ++ join_items (map show vs) ++ r -> follow_ok r ->
  exists tl, toks_items toks_of vs tl /\ lexes_to src p (join_items (map show vs)) tl.
Proof.
  intros vs F. induction F as [|v vs Hv F IH]; intros src p r E Hr.
  - exists []. split; [reflexivity|apply lexes_to_nil].
  - destruct vs as [|v2 vs'].
    + cbn [map join_items] in *. rewrite app_nil_r in *.
      destruct (Hv src p r E Hr) as (tv & Tv & L). exists tv. now split.
    + set (rest := join_items (map show (v2 :: vs'))) in *.
      assert (Ej : join_items (map show (v :: v2 :: vs')) = show v ++ [COMMA] ++ [SPACE] ++ rest) by reflexivity.
      rewrite Ej in *.
      destruct (Hv src p ([COMMA] ++ [SPACE] ++ rest ++ r)) as (tv & Tv & L1); [src_eq|reflexivity|].
      destruct (lex_punct_piece COMMA src (p ++ show v) ([SPACE] ++ rest ++ r)) as (psc & L2 & _);
        [reflexivity|src_eq|].
      pose proof (lexes_to_space src ((p ++ show v) ++ [COMMA]) (rest ++ r)) as L3.
      destruct (IH src (((p ++ show v) ++ [COMMA]) ++ [SPACE]) r) as (tl' & Tl & L4); [src_eq|exact Hr|].
      exists (tv ++ mktoken psc [COMMA] [] :: tl'). split.
      * cbn [toks_items]. exists tv, (mktoken psc [COMMA] []), tl'. repeat split; assumption.
      * change (tv ++ mktoken psc [COMMA] [] :: tl') with (tv ++ [mktoken psc [COMMA] []] ++ [] ++ tl').
        apply lexes_to_app; [exact L1|]. apply lexes_to_app; [exact L2|].
        apply lexes_to_app; [apply L3; src_eq|exact L4].
Qed.

Lemma lex_shows_all : forall v, lex_shows v.
Proof.
  induction v using lit_ind'.
  - (* int *)
    intros src p r E Hr. cbn [show] in *.
    destruct (show_int_shape z) as (sg & d & ds & Es & Hsg & Hd & Hds). rewrite Es in *.
    destruct (lex_step_int sg d ds r Hsg Hd Hds Hr p) as (ps & St & _).
    exists [mktoken ps (sg ++ d :: ds) []]. split.
    + cbn [toks_of]. eexists. split; [reflexivity|]. now rewrite Es.
    + eapply lexes_to_token; eauto; [destruct sg; discriminate|]. now rewrite E.
  - (* string *)
    intros src p r E Hr. cbn [show] in *.
    destruct (lex_step_escape p s r) as (ps & St & _).
    exists [mktoken ps (escape s) []]. split.
    + cbn [toks_of]. now eexists.
    + eapply lexes_to_token; eauto; [discriminate|]. now rewrite E.
  - destruct b.
    + apply (lex_shows_word _ T_TRUE); [cbn; auto|reflexivity|discriminate|intros ts H; exact H].
    + apply (lex_shows_word _ T_FALSE); [cbn; auto|reflexivity|discriminate|intros ts H; exact H].
  - apply (lex_shows_word _ T_UNIT); [cbn; auto|reflexivity|discriminate|intros ts H; exact H].
  - apply (lex_shows_word _ T_NONE); [cbn; auto 6|reflexivity|discriminate|intros ts H; exact H].
  - apply (lex_shows_ctor T_SOME LSome); [cbn; auto 8|discriminate|reflexivity|intros y ts H; exact H|exact IHv].
  - apply (lex_shows_ctor T_OK LOk); [cbn; auto 8|discriminate|reflexivity|intros y ts H; exact H|exact IHv].
  - apply (lex_shows_ctor T_ERR LErr); [cbn; auto 9|discriminate|reflexivity|intros y ts H; exact H|exact IHv].
  - (* list *)
    intros src p r E Hr. cbn [show] in *.
    set (body := join_items (map show vs)) in *.
    destruct (lex_punct_piece LBRACKET src p (body ++ [RBRACKET] ++ r)) as (ps1 & L1 & _); [reflexivity|src_eq|].
    destruct (lex_shows_items vs H src (p ++ [LBRACKET]) ([RBRACKET] ++ r)) as (tl & Tl & L2);
      [src_eq|reflexivity|].
    destruct (lex_punct_piece RBRACKET src ((p ++ [LBRACKET]) ++ body) r) as (ps3 & L3 & _); [reflexivity|src_eq|].
    exists (mktoken ps1 [LBRACKET] [] :: tl ++ [mktoken ps3 [RBRACKET] []]). split.
    + cbn [toks_of]. do 3 eexists. repeat split; [exact Tl].
    + change (LBRACKET :: body ++ [RBRACKET]) with ([LBRACKET] ++ body ++ [RBRACKET]).
      change (mktoken ps1 [LBRACKET] [] :: tl ++ [mktoken ps3 [RBRACKET] []])
        with ([mktoken ps1 [LBRACKET] []] ++ tl ++ [mktoken ps3 [RBRACKET] []]).
      apply lexes_to_app; [exact L1|]. apply lexes_to_app; [exact L2|exact L3].
  - (* tuple *)
    intros src p r E Hr.
    destruct vs as [|v [|v2 vs']].
    + cbn [show map join_items app] in *.
      destruct (lex_punct_piece LPAREN src p ([RPAREN] ++ r)) as (ps1 & L1 & _); [reflexivity|src_eq|].
      destruct (lex_punct_piece RPAREN src (p ++ [LPAREN]) r) as (ps2 & L2 & _); [reflexivity|src_eq|].
      exists [mktoken ps1 [LPAREN] []; mktoken ps2 [RPAREN] []]. split.
      * cbn [toks_of]. exists (mktoken ps1 [LPAREN] []), [], (mktoken ps2 [RPAREN] []). repeat split.
      * change [LPAREN; RPAREN] with ([LPAREN] ++ [RPAREN]).
        change [mktoken ps1 [LPAREN] []; mktoken ps2 [RPAREN] []]
          with ([mktoken ps1 [LPAREN] []] ++ [mktoken ps2 [RPAREN] []]).
        apply lexes_to_app; assumption.
    + pose proof (Forall_inv H) as Hv.
      assert (Es : show (LTuple [v]) = [LPAREN] ++ show v ++ [COMMA] ++ [RPAREN]).
      { cbn [show map join_items]. rewrite app_nil_r. reflexivity. }
      rewrite Es in *.
      destruct (lex_punct_piece LPAREN src p (show v ++ [COMMA] ++ [RPAREN] ++ r)) as (ps1 & L1 & _); [reflexivity|src_eq|].
      destruct (Hv src (p ++ [LPAREN]) ([COMMA] ++ [RPAREN] ++ r)) as (tv & Tv & L2); [src_eq|reflexivity|].
      destruct (lex_punct_piece COMMA src ((p ++ [LPAREN]) ++ show v) ([RPAREN] ++ r)) as (ps3 & L3 & _); [reflexivity|src_eq|].
      destruct (lex_punct_piece RPAREN src (((p ++ [LPAREN]) ++ show v) ++ [COMMA]) r) as (ps4 & L4 & _); [reflexivity|src_eq|].
      exists (mktoken ps1 [LPAREN] [] :: tv ++ [mktoken ps3 [COMMA] []; mktoken ps4 [RPAREN] []]). split.
      * cbn [toks_of]. do 4 eexists. repeat split; [exact Tv].
      * change (mktoken ps1 [LPAREN] [] :: tv ++ [mktoken ps3 [COMMA] []; mktoken ps4 [RPAREN] []])
          with ([mktoken ps1 [LPAREN] []] ++ tv ++ [mktoken ps3 [COMMA] []] ++ [mktoken ps4 [RPAREN] []]).
        apply lexes_to_app; [exact L1|]. apply lexes_to_app; [exact L2|]. apply lexes_to_app; assumption.
    + set (vs := v :: v2 :: vs') in *.
      set (body := join_items (map show vs)) in *.
      assert (Es : show (LTuple vs) = [LPAREN] ++ body ++ [RPAREN]) by reflexivity.
      rewrite Es in *.
      destruct (lex_punct_piece LPAREN src p (body ++ [RPAREN] ++ r)) as (ps1 & L1 & _); [reflexivity|src_eq|].
      destruct (lex_shows_items vs H src (p ++ [LPAREN]) ([RPAREN] ++ r)) as (tl & Tl & L2);
        [src_eq|reflexivity|].
      destruct (lex_punct_piece RPAREN src ((p ++ [LPAREN]) ++ body) r) as (ps3 & L3 & _); [reflexivity|src_eq|].
      exists (mktoken ps1 [LPAREN] [] :: tl ++ [mktoken ps3 [RPAREN] []]). split.
      * cbn [toks_of]. unfold vs. do 3 eexists. repeat split; [exact Tl].
      * change (mktoken ps1 [LPAREN] [] :: tl ++ [mktoken ps3 [RPAREN] []])
          with ([mktoken ps1 [LPAREN] []] ++ tl ++ [mktoken ps3 [RPAREN] []]).
        apply lexes_to_app; [exact L1|]. apply lexes_to_app; [exact L2|exact L3].
Qed.

(* ================================================================== *)
(* Part E: the reader reads the tokens back *)

Lemma text_eqb_head_ne : forall x y a b, x <> y -> text_eqb (x :: a) (y :: b) = false.
Proof. intros x y a b H. cbn [text_eqb]. destruct (N.eqb_spec x y); [contradiction|reflexivity]. Qed.

Lemma is_text_eq : forall t s, ttext t = s -> is_text t s = true.
Proof.
  intros t s <-. unfold is_text. induction (ttext t) as [|c l IH]; [reflexivity|].
  cbn [text_eqb]. now rewrite N.eqb_refl.
Qed.

(* the head character of a printed integer *)
Lemma show_int_head : forall z, exists c l, show_int z = c :: l /\ (c = MINUS \/ is_digit c = true).
Proof.
  intro z. destruct (show_int_shape z) as (sg & d & ds & E & [->| ->] & Hd & _); rewrite E; cbn [app]; eauto.
Qed.

Lemma int_head_facts : forall c, c = MINUS \/ is_digit c = true ->
  c <> LPAREN /\ c <> RPAREN /\ c <> LBRACKET /\ c <> RBRACKET /\ c <> COMMA /\
  is_sym_start c = false /\ (c =? QUOTE) = false.
Proof.
  intros c [->|H]; [repeat split; discriminate|].
  apply is_digit_enum in H.
  repeat (destruct H as [->|H]; [repeat split; discriminate|]). subst. repeat split; discriminate.
Qed.

(* the first token of a value is never `)` `]` *)
Lemma toks_first : forall v ts, toks_of v ts ->
  exists t ts', ts = t :: ts' /\ is_text t [RPAREN] = false /\ is_text t [RBRACKET] = false.
Proof.
  assert (W : forall t w, ttext t = w -> In w (escape [] :: [LPAREN] :: [LBRACKET] :: words) \/ (exists s, w = escape s) ->
              is_text t [RPAREN] = false /\ is_text t [RBRACKET] = false).
  { intros t w E [Hin|[s ->]]; unfold is_text; rewrite E.
    - cbn [In words] in Hin.
      repeat (destruct Hin as [<-|Hin]; [split; reflexivity|]). destruct Hin.
    - split; reflexivity. }
  intros v ts H. destruct v as [z|s|[|]| | |x|x|x|vs|vs]; cbn [toks_of] in H.
  - destruct H as (t & -> & E). exists t, []. split; [reflexivity|].
    destruct (show_int_head z) as (c & l & El & Hc). unfold is_text. rewrite E, El.
    destruct (int_head_facts c Hc) as (_ & A & _ & B & _).
    split; now apply text_eqb_head_ne.
  - destruct H as (t & -> & E). exists t, []. split; [reflexivity|]. eapply W; eauto.
  - destruct H as (t & -> & E). exists t, []. split; [reflexivity|]. eapply W; eauto. left. cbn; auto 6.
  - destruct H as (t & -> & E). exists t, []. split; [reflexivity|]. eapply W; eauto. left. cbn; auto 6.
  - destruct H as (t & -> & E). exists t, []. split; [reflexivity|]. eapply W; eauto. left. cbn; auto 7.
  - destruct H as (t & -> & E). exists t, []. split; [reflexivity|]. eapply W; eauto. left. cbn; auto 8.
  - destruct H as (t1 & t2 & tx & t3 & -> & E & _). eexists _, _. split; [reflexivity|]. eapply W; eauto. left. cbn; auto 9.
  - destruct H as (t1 & t2 & tx & t3 & -> & E & _). eexists _, _. split; [reflexivity|]. eapply W; eauto. left. cbn; auto 10.
  - destruct H as (t1 & t2 & tx & t3 & -> & E & _). eexists _, _. split; [reflexivity|]. eapply W; eauto. left. cbn; auto 11.
  - destruct H as (t1 & tl & t2 & -> & E & _). eexists _, _. split; [reflexivity|]. eapply W; eauto. left. cbn; auto.
  - destruct vs as [|v [|v2 vs']].
    + destruct H as (t1 & tl & t2 & -> & E & _). eexists _, _. split; [reflexivity|]. eapply W; eauto. left. cbn; auto.
    + destruct H as (t1 & tv & c & t2 & -> & E & _). eexists _, _. split; [reflexivity|]. eapply W; eauto. left. cbn; auto.
    + destruct H as (t1 & tl & t2 & -> & E & _). eexists _, _. split; [reflexivity|]. eapply W; eauto. left. cbn; auto.
Qed.

Lemma toks_items_len : forall vs tl, toks_items toks_of vs tl -> (length vs <= length tl)%nat.
Proof.
  induction vs as [|v vs IH]; intros tl H; [cbn; lia|].
  destruct vs as [|v2 vs'].
  - cbn [toks_items] in H. destruct (toks_first _ _ H) as (t & ts' & -> & _). cbn. lia.
  - cbn [toks_items] in H. destruct H as (tv & c & tl' & -> & Hv & _ & Hr).
    apply IH in Hr. destruct (toks_first _ _ Hv) as (t & ts' & -> & _).
    rewrite app_length. cbn [length] in *. lia.
Qed.

(* reading a value's tokens, whatever follows, with enough fuel *)
Definition reads (v : lit) : Prop :=
  forall ts rest fuel, toks_of v ts -> printable v = true -> (length ts < fuel)%nat ->
  read_lit fuel (ts ++ rest) = Some (v, rest).

Definition is_term (term : list N) : Prop := term = [RBRACKET] \/ term = [RPAREN].

Lemma term_not_comma : forall t term, is_term term -> ttext t = term -> is_text t [COMMA] = false.
Proof. intros t term [->| ->] E; unfold is_text; rewrite E; reflexivity. Qed.

Lemma first_not_term : forall v ts term, toks_of v ts -> is_term term ->
  exists t ts', ts = t :: ts' /\ is_text t term = false.
Proof.
  intros v ts term H T. destruct (toks_first _ _ H) as (t & ts' & -> & A & B).
  exists t, ts'. split; [reflexivity|]. destruct T as [->| ->]; assumption.
Qed.

Lemma comma_items_read : forall vs, Forall reads vs ->
  forall tl term tterm rest f n, toks_items toks_of vs tl -> forallb printable vs = true ->
  is_term term -> ttext tterm = term -> (length tl < f)%nat -> (length vs < n)%nat ->
  comma_items (read_lit f) n term (tl ++ tterm :: rest) = Some (vs, tterm :: rest).
Proof.
  intros vs F. induction F as [|v vs Hv F IH]; intros tl term tterm rest f n Ht Hp Tm Et Lf Ln.
  - cbn [toks_items] in Ht. subst tl. destruct n as [|n]; [cbn in Ln; lia|].
    cbn [app comma_items]. now rewrite (is_text_eq _ _ Et).
  - cbn [forallb] in Hp. apply andb_prop in Hp as [Hpv Hps].
    destruct n as [|n]; [cbn in Ln; lia|]. cbn [length] in Ln.
    destruct vs as [|v2 vs'].
    + cbn [toks_items] in Ht.
      destruct (first_not_term _ _ term Ht Tm) as (t & ts' & -> & Nt).
      cbn [app comma_items]. rewrite Nt.
      change (t :: ts' ++ tterm :: rest) with ((t :: ts') ++ tterm :: rest).
      rewrite (Hv _ _ _ Ht Hpv Lf).
      rewrite (term_not_comma _ _ Tm Et). now rewrite (is_text_eq _ _ Et).
    + cbn [toks_items] in Ht. destruct Ht as (tv & c & tl' & -> & Htv & Ec & Hr).
      destruct (first_not_term _ _ term Htv Tm) as (t & ts' & -> & Nt).
      rewrite app_length in Lf. cbn [length] in Lf.
      replace (((t :: ts') ++ c :: tl') ++ tterm :: rest)
        with ((t :: ts') ++ c :: tl' ++ tterm :: rest) by (rewrite <- app_assoc; reflexivity).
      cbn [app comma_items]. rewrite Nt.
      change (t :: ts' ++ c :: tl' ++ tterm :: rest) with ((t :: ts') ++ c :: tl' ++ tterm :: rest).
      rewrite (Hv (t :: ts') (c :: tl' ++ tterm :: rest) f Htv Hpv) by (cbn [length] in *; lia).
      rewrite (is_text_eq _ _ Ec).
      rewrite (IH tl' term tterm rest f n Hr Hps Tm Et) by (cbn [length] in *; lia).
      reflexivity.
Qed.

Lemma tuple_rest_end : forall rd n t2 rest, ttext t2 = [RPAREN] ->
  tuple_rest rd (S n) (t2 :: rest) = Some ([], t2 :: rest).
Proof.
  intros rd n t2 rest E. cbn [tuple_rest].
  assert (C : is_text t2 [COMMA] = false) by (unfold is_text; rewrite E; reflexivity).
  now rewrite C, (is_text_eq _ _ E).
Qed.

Lemma tuple_rest_read : forall vs, Forall reads vs -> vs <> [] ->
  forall tl c t2 rest f n, toks_items toks_of vs tl -> forallb printable vs = true ->
  ttext c = [COMMA] -> ttext t2 = [RPAREN] -> (length tl < f)%nat -> (length vs < n)%nat ->
  tuple_rest (read_lit f) n (c :: tl ++ t2 :: rest) = Some (vs, t2 :: rest).
Proof.
  intros vs F. induction F as [|v vs Hv F IH]; intros Ne tl c t2 rest f n Ht Hp Ec E2 Lf Ln; [congruence|].
  cbn [forallb] in Hp. apply andb_prop in Hp as [Hpv Hps].
  destruct n as [|n]; [cbn in Ln; lia|]. cbn [length] in Ln.
  assert (T : is_term [RPAREN]) by (right; reflexivity).
  destruct vs as [|v2 vs'].
  - cbn [toks_items] in Ht.
    destruct (first_not_term _ _ [RPAREN] Ht T) as (t & ts' & -> & Nt).
    cbn [tuple_rest app]. rewrite (is_text_eq _ _ Ec), Nt.
    change (t :: ts' ++ t2 :: rest) with ((t :: ts') ++ t2 :: rest).
    rewrite (Hv _ _ _ Ht Hpv Lf).
    destruct n as [|n]; [lia|]. now rewrite tuple_rest_end.
  - cbn [toks_items] in Ht. destruct Ht as (tv & c2 & tl' & -> & Htv & Ec2 & Hr).
    destruct (first_not_term _ _ [RPAREN] Htv T) as (t & ts' & -> & Nt).
    rewrite app_length in Lf. cbn [length] in Lf.
    replace (((t :: ts') ++ c2 :: tl') ++ t2 :: rest)
      with ((t :: ts') ++ c2 :: tl' ++ t2 :: rest) by (rewrite <- app_assoc; reflexivity).
    cbn [tuple_rest app]. rewrite (is_text_eq _ _ Ec), Nt.
    change (t :: ts' ++ c2 :: tl' ++ t2 :: rest) with ((t :: ts') ++ c2 :: tl' ++ t2 :: rest).
    rewrite (Hv (t :: ts') (c2 :: tl' ++ t2 :: rest) f Htv Hpv) by (cbn [length] in *; lia).
    rewrite (IH ltac:(discriminate) tl' c2 t2 rest f n Hr Hps Ec2 E2) by (cbn [length] in *; lia).
    reflexivity.
Qed.

Lemma read_word : forall t r f w v,
  ttext t = w -> In (w, v) [(T_TRUE, LBool true); (T_FALSE, LBool false); (T_UNIT, LUnit); (T_NONE, LNone)] ->
  read_lit (S f) (t :: r) = Some (v, r).
Proof.
  intros t r f w v E Hin. cbn [read_lit]. unfold is_text. rewrite E.
  cbn [In] in Hin.
  repeat (destruct Hin as [Hin|Hin]; [inversion Hin; subst; reflexivity|]). destruct Hin.
Qed.

Lemma read_ctor : forall name mk x, In (name, mk) [(T_SOME, LSome); (T_OK, LOk); (T_ERR, LErr)] ->
  reads x -> forall ts rest fuel, ctor_toks toks_of name x ts -> printable x = true ->
  (length ts < fuel)%nat -> read_lit fuel (ts ++ rest) = Some (mk x, rest).
Proof.
  intros name mk x Hin Hx ts rest fuel (t1 & t2 & tx & t3 & -> & E1 & E2 & Tc & Tx & E3) Hp L.
  destruct fuel as [|f]; [lia|]. cbn [length] in L. rewrite app_length in L. cbn [length] in L.
  assert (C : comma_items (read_lit f) f [RPAREN] (tx ++ t3 :: rest) = Some ([x], t3 :: rest)).
  { apply comma_items_read; try assumption.
    - constructor; [exact Hx|constructor].
    - cbn [forallb]. now rewrite Hp.
    - right; reflexivity.
    - lia.
    - cbn [length]. lia. }
  replace ((t1 :: t2 :: tx ++ [t3]) ++ rest) with (t1 :: t2 :: tx ++ t3 :: rest)
    by (cbn [app]; rewrite <- app_assoc; reflexivity).
  cbn [read_lit]. unfold is_text. rewrite E2, Tc.
  cbn [In] in Hin.
  destruct Hin as [Hin|[Hin|[Hin|[]]]]; inversion Hin as [[En Em]]; rewrite <- En in E1; rewrite E1;
    cbn -[comma_items read_lit close]; rewrite C; reflexivity.
Qed.

Lemma reads_all : forall v, reads v.
Proof.
  induction v using lit_ind'; intros ts rest fuel Ht Hp L.
  - (* int *)
    cbn [toks_of] in Ht. destruct Ht as (t & -> & E). destruct fuel as [|f]; [cbn in L; lia|].
    cbn [app read_lit]. unfold is_text. rewrite E.
    destruct (show_int_shape z) as (sg & d & ds & Es & Hsg & Hd & Hds).
    destruct (show_int_head z) as (c & l & El & Hc).
    destruct (int_head_facts c Hc) as (A1 & A2 & A3 & A4 & A5 & A6 & A7).
    rewrite El. rewrite !text_eqb_head_ne by assumption. rewrite A6, A7. rewrite <- El.
    assert (Hf : float_re (show_int z) = None).
    { rewrite Es. pose proof (float_re_int sg d ds [] Hsg Hd Hds I) as K. now rewrite app_nil_r in K. }
    assert (Hi : integer_re (show_int z) = Some (show_int z)).
    { rewrite Es. pose proof (integer_re_int sg d ds [] Hsg Hd Hds I) as K. now rewrite app_nil_r in K. }
    rewrite Hf, Hi. cbn [printable] in Hp. now rewrite parse_show_int.
  - (* string *)
    cbn [toks_of] in Ht. destruct Ht as (t & -> & E). destruct fuel as [|f]; [cbn in L; lia|].
    cbn [app read_lit]. unfold is_text. rewrite E.
    change (text_eqb (escape s) [LPAREN]) with false. change (text_eqb (escape s) [LBRACKET]) with false.
    cbv iota. unfold escape at 1. change (is_sym_start QUOTE) with false. change (QUOTE =? QUOTE) with true.
    cbv iota. now rewrite unescape_escape.
  - destruct fuel as [|f]; [lia|].
    destruct b; cbn [toks_of] in Ht; destruct Ht as (t & -> & E); cbn [app];
      eapply read_word; eauto; cbn; auto.
  - destruct fuel as [|f]; [lia|]. cbn [toks_of] in Ht. destruct Ht as (t & -> & E). cbn [app].
    eapply read_word; eauto; cbn; auto.
  - destruct fuel as [|f]; [lia|]. cbn [toks_of] in Ht. destruct Ht as (t & -> & E). cbn [app].
    eapply read_word; eauto; cbn; auto.
  - apply (read_ctor T_SOME LSome); auto; cbn; auto.
  - apply (read_ctor T_OK LOk); auto; cbn; auto.
  - apply (read_ctor T_ERR LErr); auto; cbn; auto.
  - (* list *)
    cbn [toks_of] in Ht. destruct Ht as (t1 & tl & t2 & -> & E1 & Tl & E2).
    destruct fuel as [|f]; [lia|]. cbn [length] in L. rewrite app_length in L. cbn [length] in L.
    cbn [printable] in Hp.
    replace ((t1 :: tl ++ [t2]) ++ rest) with (t1 :: tl ++ t2 :: rest)
      by (cbn [app]; rewrite <- app_assoc; reflexivity).
    assert (N1 : is_text t1 [LPAREN] = false) by (unfold is_text; rewrite E1; reflexivity).
    cbn [read_lit]. rewrite N1, (is_text_eq _ _ E1).
    rewrite (comma_items_read vs H tl [RBRACKET] t2 rest f f Tl Hp (or_introl eq_refl) E2);
      [reflexivity|lia|]. pose proof (toks_items_len _ _ Tl). lia.
  - (* tuple *)
    cbn [printable] in Hp. destruct fuel as [|f]; [lia|].
    assert (T : is_term [RPAREN]) by (right; reflexivity).
    destruct vs as [|v [|v2 vs']]; cbn [toks_of] in Ht.
    + destruct Ht as (t1 & tl & t2 & -> & E1 & Tl & E2). cbn [toks_items] in Tl. subst tl.
      cbn [app read_lit]. now rewrite (is_text_eq _ _ E1), (is_text_eq _ _ E2).
    + destruct Ht as (t1 & tv & c & t2 & -> & E1 & Tv & Ec & E2).
      cbn [length] in L. rewrite app_length in L. cbn [length] in L.
      pose proof (Forall_inv H) as Hv. cbn [forallb] in Hp. apply andb_prop in Hp as [Hpv _].
      destruct (first_not_term _ _ [RPAREN] Tv T) as (t & ts' & -> & Nt).
      replace ((t1 :: (t :: ts') ++ [c; t2]) ++ rest) with (t1 :: (t :: ts') ++ c :: t2 :: rest)
        by (cbn [app]; rewrite <- app_assoc; reflexivity).
      cbn [read_lit app]. rewrite (is_text_eq _ _ E1), Nt.
      change (t :: ts' ++ c :: t2 :: rest) with ((t :: ts') ++ c :: t2 :: rest).
      rewrite (Hv (t :: ts') (c :: t2 :: rest) f Tv Hpv) by (cbn [length] in *; lia).
      rewrite (is_text_eq _ _ Ec).
      destruct f as [|f']; [cbn [length] in L; lia|].
      cbn [tuple_rest]. rewrite (is_text_eq _ _ Ec), (is_text_eq _ _ E2). reflexivity.
    + destruct Ht as (t1 & tl & t2 & -> & E1 & Tl & E2).
      cbn [length] in L. rewrite app_length in L. cbn [length] in L.
      cbn [toks_items] in Tl. destruct Tl as (tv & c & tl' & -> & Tv & Ec & Tr).
      change (toks_items toks_of (v2 :: vs') tl') in Tr.
      pose proof (Forall_inv H) as Hv. pose proof (Forall_inv_tail H) as Hvs.
      cbn [forallb] in Hp. apply andb_prop in Hp as [Hpv Hps].
      change (forallb printable (v2 :: vs') = true) in Hps.
      destruct (first_not_term _ _ [RPAREN] Tv T) as (t & ts' & -> & Nt).
      rewrite app_length in L. cbn [length] in L.
      replace ((t1 :: ((t :: ts') ++ c :: tl') ++ [t2]) ++ rest)
        with (t1 :: (t :: ts') ++ c :: tl' ++ t2 :: rest)
        by (repeat (rewrite <- app_assoc || (progress (cbn [app]))); reflexivity).
      cbn [read_lit app]. rewrite (is_text_eq _ _ E1), Nt.
      change (t :: ts' ++ c :: tl' ++ t2 :: rest) with ((t :: ts') ++ c :: tl' ++ t2 :: rest).
      rewrite (Hv (t :: ts') (c :: tl' ++ t2 :: rest) f Tv Hpv) by (cbn [length] in *; lia).
      rewrite (is_text_eq _ _ Ec).
      rewrite (tuple_rest_read (v2 :: vs') Hvs ltac:(discriminate) tl' c t2 rest f f Tr Hps Ec E2);
        [reflexivity|cbn [length] in *; lia|].
      pose proof (toks_items_len _ _ Tr). cbn [length] in *. lia.
Qed.

(* ================================================================== *)
(* Part F: the round trip *)

Lemma show_head_not_hash : forall v, shebang_skip (show v) = 0.
Proof.
  intro v. destruct v as [z|s|[|]| | |x|x|x|vs|vs]; try reflexivity.
  cbn [show]. destruct (show_int_head z) as (c & l & -> & Hc). cbn [shebang_skip].
  destruct Hc as [->|Hd]; [reflexivity|]. apply is_digit_range in Hd.
  destruct (N.eqb_spec c HASH) as [->|_]; [unfold HASH in Hd; lia|reflexivity].
Qed.

Lemma literal_roundtrip_lemma : forall v, printable v = true ->
  exists toks, lex (show v) = LexOk toks [] [] /\ read_literal toks = Some (v, []).
Proof.
  intros v Hp.
  destruct (lex_shows_all v (show v) [] [] ) as (toks & Tk & Lx); [now rewrite app_nil_r|exact I|].
  exists toks. split.
  - apply lex_by_run; [apply show_head_not_hash|].
    specialize (Lx (LexOk [] [] [])). rewrite prepend_ok, app_nil_r in Lx. apply Lx.
    apply R_end. cbn [app]. apply N.ltb_irrefl.
  - unfold read_literal. pose proof (reads_all v toks [] (S (length toks)) Tk Hp) as R.
    rewrite app_nil_r in R. apply R. lia.
Qed.

Lemma read_source_show : forall v, printable v = true -> read_source (show v) = Some v.
Proof.
  intros v Hp. destruct (literal_roundtrip_lemma v Hp) as (toks & L & R).
  unfold read_source. now rewrite L, R.
Qed.

(* a concrete nested value: [Some(-9223372036854775808), (1,), ("a\", True), (), [], Ok(Err(Unit))] *)
Definition sample_value : lit :=
  LList [LSome (LInt (-9223372036854775808)); LTuple [LInt 1];
         LTuple [LStr [97; 92]; LBool true]; LTuple []; LList []; LOk (LErr LUnit)].

Lemma sample_value_roundtrip :
  printable sample_value = true /\
  read_source (show sample_value) = Some sample_value /\
  show sample_value =
    [91; 83; 111; 109; 101; 40; 45; 57; 50; 50; 51; 51; 55; 50; 48; 51; 54; 56; 53; 52; 55; 55; 53; 56; 48;
     56; 41; 44; 32; 40; 49; 44; 41; 44; 32; 40; 34; 97; 92; 92; 34; 44; 32; 84; 114; 117; 101; 41; 44; 32;
     40; 41; 44; 32; 91; 93; 44; 32; 79; 107; 40; 69; 114; 114; 40; 85; 110; 105; 116; 41; 41; 93].
Proof. split; [reflexivity|]. split; vm_compute; reflexivity. Qed.

(* an integer outside i64 is refused by the reader (the parser reports an error) *)
Lemma out_of_range_refused :
  parse_i64 [57; 50; 50; 51; 51; 55; 50; 48; 51; 54; 56; 53; 52; 55; 55; 53; 56; 48; 56] = None /\
  parse_i64 [45; 57; 50; 50; 51; 51; 55; 50; 48; 51; 54; 56; 53; 52; 55; 55; 53; 56; 48; 56] =
    Some (-9223372036854775808)%Z /\
  parse_i64 [49; 95; 48; 48; 48] = Some 1000%Z.
Proof. vm_compute. repeat split. Qed.
