(* An INDEPENDENT reference semantics for the core language: a definitional
   big-step interpreter with lexical scopes as environment lists and control
   signals for break / continue / return / errors.  It is written from the
   language documentation, not from the structure of eval.rs: no continuation
   stack, no value stack, no `value_is_used` flags, no expression states.
   (It shares only the syntax tree and value types with Machine.v.)

   Evaluation order, as documented by the implementation: operands of binary
   operators left to right (both sides of && and || are evaluated); the callee
   before the arguments; arguments and list / tuple items RIGHT TO LEFT.

   MODEL FILE: definitions only. *)
From Coq Require Import ZArith NArith Bool List.
From Garden Require Import Base.Int64 Arith ArithSpec Machine.
Import ListNotations.
Open Scope Z_scope.

Inductive rerr :=
| ETypeError        (* wrong operand / argument / condition / callee / scrutinee type *)
| EUnbound          (* no such variable *)
| ENotBound         (* assignment to a variable that is not bound *)
| EArith            (* division by zero, unrepresentable result, negative exponent *)
| EArity            (* wrong number of arguments *)
| ENoMatch.         (* no case of a match was reached *)

Inductive ctl := CBreak | CContinue | CReturn (v : value) | CErr (e : rerr).

Inductive res (A : Type) :=
| Ok (a : A)
| Ctl (c : ctl)
| OutOfFuel
| Unsupp.
Arguments Ok {A} a.
Arguments Ctl {A} c.
Arguments OutOfFuel {A}.
Arguments Unsupp {A}.

Definition env := list block.            (* innermost scope first *)
Record st := mkSt { scopes : env; printed : list text }.   (* printed: most recent first *)

Definition bind (x : ident) (v : value) (s : st) : st :=
  mkSt (add_new x v (scopes s)) (printed s).
Definition push_scope (b : block) (s : st) : st := mkSt (b :: scopes s) (printed s).
Definition pop_scope (s : st) : st := mkSt (tl (scopes s)) (printed s).
Definition emit (t : text) (s : st) : st := mkSt (scopes s) (t :: printed s).

Definition lookup (p : prog) (s : st) (x : ident) : option value :=
  match lookup_blocks x (scopes s) with
  | Some v => Some v
  | None => assoc x (globals p)
  end.

Definition int_binop (o : int_op) (a b : Z) : res value :=
  match spec_exec o a b with
  | Val z => Ok (VInt z)
  | ValB t => Ok (vbool t)
  | Exn => Ctl (CErr EArith)
  | Panic => Unsupp
  end.

Definition apply_binop (o : binop) (l r : value) : res value :=
  match o with
  | BInt io =>
      match l, r with
      | VInt a, VInt b => int_binop io a b
      | _, _ => Ctl (CErr ETypeError)
      end
  | BEq => Ok (vbool (veq l r))
  | BNeq => Ok (vbool (negb (veq l r)))
  | BAnd | BOr =>
      match as_bool l, as_bool r with
      | Some a, Some b => Ok (vbool (match o with BAnd => a && b | _ => a || b end))
      | _, _ => Ctl (CErr ETypeError)
      end
  | BConcat =>
      match l, r with
      | VStr a, VStr b => Ok (VStr (a ++ b))
      | _, _ => Ctl (CErr ETypeError)
      end
  end.

Fixpoint bind_params (ps : list ident) (vs : list value) (b : block) : block :=
  match ps, vs with
  | p :: ps', v :: vs' => bind_params ps' vs' (if N.eqb p underscore then b else (p, v) :: b)
  | _, _ => b
  end.

Section Eval.
Variable p : prog.

(* eval: one expression.  seq: the statements of a block (value of the last,
   Unit when empty).  args: expressions right to left, results in source order.
   loop constructs recurse through eval with less fuel. *)
Fixpoint eval (fuel : nat) (s : st) (e : expr) {struct fuel} : res value * st :=
  match fuel with
  | O => (OutOfFuel, s)
  | S f =>
      let seq := fix seq (body : list expr) (s : st) : res value * st :=
        match body with
        | [] => (Ok vunit, s)
        | [x] => eval f s x
        | x :: rest =>
            match eval f s x with
            | (Ok _, s1) => seq rest s1
            | other => other
            end
        end in
      let block_in (extra : block) (body : list expr) (s : st) : res value * st :=
        match seq body (push_scope extra s) with
        | (r, s1) => (r, pop_scope s1)
        end in
      let args := fix args (l : list expr) (s : st) : res (list value) * st :=
        match l with
        | [] => (Ok [], s)
        | x :: rest =>
            match args rest s with
            | (Ok vs, s1) =>
                match eval f s1 x with
                | (Ok v, s2) => (Ok (v :: vs), s2)
                | (Ctl c, s2) => (Ctl c, s2)
                | (OutOfFuel, s2) => (OutOfFuel, s2)
                | (Unsupp, s2) => (Unsupp, s2)
                end
            | other => other
            end
        end in
      match e with
      | EInt _ z => (Ok (VInt z), s)
      | EStr _ t => (Ok (VStr t), s)
      | EVar _ x =>
          match lookup p s x with
          | Some v => (Ok v, s)
          | None => (Ctl (CErr EUnbound), s)
          end
      | EParen _ inner => eval f s inner
      | EBin _ o l r =>
          match eval f s l with
          | (Ok lv, s1) =>
              match eval f s1 r with
              | (Ok rv, s2) => (apply_binop o lv rv, s2)
              | other => other
              end
          | other => other
          end
      | ELet _ x rhs =>
          match eval f s rhs with
          | (Ok v, s1) => (Ok vunit, bind x v s1)
          | other => other
          end
      | EAssign _ x _ rhs =>
          match eval f s rhs with
          | (Ok v, s1) =>
              match set_existing x v (scopes s1) with
              | Some sc => (Ok vunit, mkSt sc (printed s1))
              | None => (Ctl (CErr ENotBound), s1)
              end
          | other => other
          end
      | EUpd _ u x _ rhs =>
          match eval f s rhs with
          | (Ok rv, s1) =>
              match lookup p s1 x with
              | None => (Ctl (CErr ENotBound), s1)
              | Some (VInt a) =>
                  match rv with
                  | VInt b =>
                      match int_binop (upd_as_binop u) a b with
                      | Ok nv =>
                          match set_existing x nv (scopes s1) with
                          | Some sc => (Ok vunit, mkSt sc (printed s1))
                          | None => (Unsupp, s1)
                          end
                      | Ctl c => (Ctl c, s1)
                      | OutOfFuel => (OutOfFuel, s1)
                      | Unsupp => (Unsupp, s1)
                      end
                  | _ => (Ctl (CErr ETypeError), s1)
                  end
              | Some _ => (Ctl (CErr ETypeError), s1)
              end
          | other => other
          end
      | EIf _ c t el =>
          match eval f s c with
          | (Ok cv, s1) =>
              match as_bool cv with
              | None => (Ctl (CErr ETypeError), s1)
              | Some true =>
                  match block_in [] t s1 with
                  | (Ok v, s2) => (Ok (match el with Some _ => v | None => vunit end), s2)
                  | other => other
                  end
              | Some false =>
                  match el with
                  | Some eb => block_in [] eb s1
                  | None => (Ok vunit, s1)
                  end
              end
          | other => other
          end
      | EWhile _ c body =>
          match eval f s c with
          | (Ok cv, s1) =>
              match as_bool cv with
              | None => (Ctl (CErr ETypeError), s1)
              | Some false => (Ok vunit, s1)
              | Some true =>
                  match block_in [] body s1 with
                  | (Ok _, s2) => eval f s2 e
                  | (Ctl CContinue, s2) => eval f s2 e
                  | (Ctl CBreak, s2) => (Ok vunit, s2)
                  | other => other
                  end
              end
          | other => other
          end
      | EFor _ x it body =>
          match eval f s it with
          | (Ok (VList items), s1) =>
              (fix iter (items : list value) (s : st) : res value * st :=
                 match items with
                 | [] => (Ok vunit, s)
                 | v :: rest =>
                     match block_in (if N.eqb x underscore then [] else [(x, v)]) body s with
                     | (Ok _, s2) => iter rest s2
                     | (Ctl CContinue, s2) => iter rest s2
                     | (Ctl CBreak, s2) => (Ok vunit, s2)
                     | other => other
                     end
                 end) items s1
          | (Ok _, s1) => (Ctl (CErr ETypeError), s1)
          | other => other
          end
      | EBreak _ => (Ctl CBreak, s)
      | EContinue _ => (Ctl CContinue, s)
      | EReturn _ None => (Ctl (CReturn vunit), s)
      | EReturn _ (Some x) =>
          match eval f s x with
          | (Ok v, s1) => (Ctl (CReturn v), s1)
          | other => other
          end
      | EList _ items =>
          match args items s with
          | (Ok vs, s1) => (Ok (VList vs), s1)
          | (Ctl c, s1) => (Ctl c, s1)
          | (OutOfFuel, s1) => (OutOfFuel, s1)
          | (Unsupp, s1) => (Unsupp, s1)
          end
      | ETuple _ items =>
          match args items s with
          | (Ok vs, s1) => (Ok (VTuple vs), s1)
          | (Ctl c, s1) => (Ctl c, s1)
          | (OutOfFuel, s1) => (OutOfFuel, s1)
          | (Unsupp, s1) => (Unsupp, s1)
          end
      | EFun _ params body => (Ok (VClosure (scopes s) params body), s)
      | ECall _ fe actuals =>
          match eval f s fe with
          | (Ok fv, s1) =>
              match args actuals s1 with
              | (Ok vs, s2) =>
                  let call (callee_env : env) (params : list ident) (body : list expr) : res value * st :=
                    if Nat.eqb (length params) (length vs) then
                      match seq body (mkSt (bind_params params vs [] :: callee_env) (printed s2)) with
                      | (Ok v, s3) => (Ok v, mkSt (scopes s2) (printed s3))
                      | (Ctl (CReturn v), s3) => (Ok v, mkSt (scopes s2) (printed s3))
                      | (Ctl (CErr er), s3) => (Ctl (CErr er), mkSt (scopes s2) (printed s3))
                      | (Ctl _, s3) => (Unsupp, mkSt (scopes s2) (printed s3))      (* break/continue outside a loop *)
                      | (OutOfFuel, s3) => (OutOfFuel, s3)
                      | (Unsupp, s3) => (Unsupp, s3)
                      end
                    else (Ctl (CErr EArity), s2) in
                  match fv with
                  | VClosure cenv params body => call cenv params body
                  | VFun name _ =>
                      match assoc name (funs p) with
                      | Some fd => call [] (fparams fd) (fbody fd)
                      | None => (Unsupp, s2)
                      end
                  | VBuiltin b =>
                      match vs with
                      | [a] =>
                          match b with
                          | BiPrintln => match a with VStr t => (Ok vunit, emit (t ++ [10%N]) s2) | _ => (Ctl (CErr ETypeError), s2) end
                          | BiPrint => match a with VStr t => (Ok vunit, emit t s2) | _ => (Ctl (CErr ETypeError), s2) end
                          | BiStringRepr => (Ok (VStr (display a)), s2)
                          end
                      | _ => (Ctl (CErr EArity), s2)
                      end
                  | VCtor ty idx name =>
                      match vs with
                      | [a] => (Ok (VEnum ty idx name (Some a)), s2)
                      | _ => (Ctl (CErr EArity), s2)
                      end
                  | _ => (Ctl (CErr ETypeError), s2)
                  end
              | (Ctl c, s2) => (Ctl c, s2)
              | (OutOfFuel, s2) => (OutOfFuel, s2)
              | (Unsupp, s2) => (Unsupp, s2)
              end
          | other => other
          end
      | EMatch _ sc cases =>
          match eval f s sc with
          | (Ok (VEnum ty idx _ payload), s1) =>
              (fix pick (cs : list (ident * (N * N) * option ident * list expr)) : res value * st :=
                 match cs with
                 | [] => (Ctl (CErr ENoMatch), s1)
                 | (pat, _, binder, body) :: rest =>
                     if N.eqb pat underscore then block_in [] body s1
                     else
                       match lookup p s1 pat with
                       | None => (Ctl (CErr EUnbound), s1)
                       | Some pv =>
                           let hit (t : ident) (i : N) :=
                             if N.eqb ty t && N.eqb idx i then
                               match payload, binder with
                               | Some pl, Some x => block_in (if N.eqb x underscore then [] else [(x, pl)]) body s1
                               | None, None => block_in [] body s1
                               | _, _ => pick rest
                               end
                             else pick rest in
                           match pv with
                           | VEnum t i _ _ => hit t i
                           | VCtor t i _ => hit t i
                           | _ => (Ctl (CErr ETypeError), s1)
                           end
                       end
                 end) cases
          | (Ok _, s1) => (Ctl (CErr ETypeError), s1)
          | other => other
          end
      | EUnsupported _ => (Unsupp, s)
      end
  end.

(* a whole program: the toplevel expressions in order, in one toplevel scope *)
Fixpoint run_toplevel (fuel : nat) (s : st) (exprs : list expr) : res value * st :=
  match exprs with
  | [] => (Ok vunit, s)
  | [x] => eval fuel s x
  | x :: rest =>
      match eval fuel s x with
      | (Ok _, s1) => run_toplevel fuel s1 rest
      | other => other
      end
  end.

Definition ref_run (fuel : nat) (exprs : list expr) : res value * st :=
  match run_toplevel fuel (mkSt [[]] []) exprs with
  | (Ctl (CReturn v), s) => (Ok v, s)          (* a toplevel `return` ends the program with that value *)
  | other => other
  end.

End Eval.
