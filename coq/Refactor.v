(* MODEL (definitions only): the refactorings on the language of Scope.v.

   rename  -- src/rename.rs: the type checker's table id_to_def_pos gives every symbol the position of its definition;
              RenameLocalVisitor rewrites every symbol whose definition is the definition of the symbol under the cursor.
              Here: a scope-passing traversal that rewrites an occurrence exactly when it resolves (Scope.resolve_name,
              in the scopes of the ORIGINAL program) to the binder b; binders resolve to themselves.
   wrap_dbg -- src/wrap_in_dbg.rs: the selected expression e becomes dbg(e). Positions are paths into the syntax tree.
   extract_var -- src/extract_variable.rs for a selected sub-expression of a statement of a block: `let fresh = e` is
              inserted before the statement and the occurrence is replaced by the variable. *)
From Coq Require Import List ZArith Bool Arith.
Import ListNotations.
Require Import Garden.Scope.

Section Rename.
  Variable funs : list fundef.
  Variable b : oid.
  Variable new : name.

  (* the new text of an occurrence that refers to definition d *)
  Definition rn_use (d : option oid) (x : name) : name :=
    match d with
    | Some d' => if Nat.eqb d' b then new else x
    | None => x
    end.

  Definition rn_bind (d : oid) (x : name) : name := if Nat.eqb d b then new else x.

  Definition rn_params (ps : list (oid * name)) : list (oid * name) :=
    map (fun p => (fst p, rn_bind (fst p) (snd p))) ps.

  Fixpoint rn_expr (sc : scope) (e : expr) : expr :=
    match e with
    | EInt z => EInt z
    | EBool v => EBool v
    | EVar u x => EVar u (rn_use (resolve_name funs sc x) x)
    | EBin op l r => EBin op (rn_expr sc l) (rn_expr sc r)
    | ECall f args => ECall (rn_expr sc f) (rn_exprs sc args)
    | EFun ps body => EFun (rn_params ps) (rn_block (params_frame ps :: sc) body)
    | EIf c t e => EIf (rn_expr sc c) (rn_block ([] :: sc) t) (rn_block ([] :: sc) e)
    | EDbg e => EDbg (rn_expr sc e)
    | EPrint e => EPrint (rn_expr sc e)
    end
  with rn_exprs (sc : scope) (es : exprs) : exprs :=
    match es with
    | ENil => ENil
    | ECons e r => ECons (rn_expr sc e) (rn_exprs sc r)
    end
  with rn_block (sc : scope) (bl : block) : block :=
    match bl with
    | BNil => BNil
    | BCons s r => BCons (rn_stmt sc s) (rn_block (stmt_scope s sc) r)
    end
  with rn_stmt (sc : scope) (s : stmt) : stmt :=
    match s with
    | SLet d x e => SLet d (rn_bind d x) (rn_expr sc e)
    | SAssign u x e => SAssign u (rn_use (resolve_name funs sc x) x) (rn_expr sc e)
    | SExpr e => SExpr (rn_expr sc e)
    | SWhile c body => SWhile (rn_expr sc c) (rn_block ([] :: sc) body)
    end.

  Definition rn_fundef (fd : fundef) : fundef :=
    {| fd_name := rn_bind (fd_id fd) (fd_name fd);
       fd_id := fd_id fd;
       fd_params := rn_params (fd_params fd);
       fd_body := rn_block [params_frame (fd_params fd)] (fd_body fd) |}.
End Rename.

(* rename b new p: the binder with occurrence id b, and everything that refers to it, is now called `new` *)
Definition rename (b : oid) (new : name) (p : program) : program :=
  (map (rn_fundef (fst p) b new) (fst p), rn_block (fst p) b new [[]] (snd p)).

(* ------------------------------------------------------------------------------------------------------------ *)
(* wrap-in-dbg. A path selects a sub-expression: in EBin 0 = left, 1 = right; in ECall 0 = callee, S j = j-th argument;
   in EIf 0 = condition, 1 = then-block, 2 = else-block (followed by the statement index); in EFun the statement index of
   the body; in SWhile 0 = condition, 1 = body (followed by the statement index). The empty path selects the expression
   itself. A path that does not lead to an expression leaves the program unchanged. *)

Fixpoint wrap_expr (path : list nat) (e : expr) {struct e} : expr :=
  match path with
  | [] => EDbg e
  | i :: rest =>
      match e with
      | EBin op l r => match i with O => EBin op (wrap_expr rest l) r | _ => EBin op l (wrap_expr rest r) end
      | ECall f args => match i with O => ECall (wrap_expr rest f) args | S j => ECall f (wrap_exprs j rest args) end
      | EFun ps body => EFun ps (wrap_block i rest body)
      | EIf c t el =>
          match i, rest with
          | O, _ => EIf (wrap_expr rest c) t el
          | 1, j :: rest' => EIf c (wrap_block j rest' t) el
          | 2, j :: rest' => EIf c t (wrap_block j rest' el)
          | _, _ => e
          end
      | EDbg e1 => EDbg (wrap_expr rest e1)
      | EPrint e1 => EPrint (wrap_expr rest e1)
      | _ => e
      end
  end
with wrap_exprs (j : nat) (path : list nat) (es : exprs) {struct es} : exprs :=
  match es with
  | ENil => ENil
  | ECons e r => match j with O => ECons (wrap_expr path e) r | S j' => ECons e (wrap_exprs j' path r) end
  end
with wrap_block (j : nat) (path : list nat) (bl : block) {struct bl} : block :=
  match bl with
  | BNil => BNil
  | BCons s r => match j with O => BCons (wrap_stmt path s) r | S j' => BCons s (wrap_block j' path r) end
  end
with wrap_stmt (path : list nat) (s : stmt) {struct s} : stmt :=
  match s with
  | SLet d x e => SLet d x (wrap_expr path e)
  | SAssign u x e => SAssign u x (wrap_expr path e)
  | SExpr e => SExpr (wrap_expr path e)
  | SWhile c body =>
      match path with
      | O :: rest => SWhile (wrap_expr rest c) body
      | 1 :: j :: rest => SWhile c (wrap_block j rest body)
      | _ => s
      end
  end.

(* position: which top-level function (None = the main statements), which statement, path inside the statement *)
Definition position := (option nat * nat * list nat)%type.

Fixpoint wrap_nth_fun (k : nat) (j : nat) (path : list nat) (funs : list fundef) : list fundef :=
  match funs with
  | [] => []
  | fd :: r =>
      match k with
      | O => {| fd_name := fd_name fd; fd_id := fd_id fd; fd_params := fd_params fd;
                fd_body := wrap_block j path (fd_body fd) |} :: r
      | S k' => fd :: wrap_nth_fun k' j path r
      end
  end.

Definition wrap_dbg (pos : position) (p : program) : program :=
  match pos with
  | (None, j, path) => (fst p, wrap_block j path (snd p))
  | (Some k, j, path) => (wrap_nth_fun k j path (fst p), snd p)
  end.

(* ------------------------------------------------------------------------------------------------------------ *)
(* extract-variable (src/extract_variable.rs) for a selected sub-expression e of the i-th statement s of the main block
   (a straight-line position: the selection is reached through operator operands, the callee or an argument of a call,
   dbg/println arguments, an `if` condition or the right-hand side of let / assignment -- never through a nested block,
   closure body or loop, where extract_variable.rs would put the `let` somewhere else):
       stmts_before ++ [s] ++ stmts_after   becomes   stmts_before ++ [let x = e; s[e := x]] ++ stmts_after.
   Paths as for wrap_dbg. d is the occurrence id of the new binder, u the id of the new use. No check is made that e is
   pure or x fresh: the refactoring does not check it either. *)

Fixpoint get_expr (path : list nat) (e : expr) {struct e} : option expr :=
  match path with
  | [] => Some e
  | i :: rest =>
      match e with
      | EBin _ l r => match i with O => get_expr rest l | _ => get_expr rest r end
      | ECall f args => match i with O => get_expr rest f | S j => get_exprs j rest args end
      | EIf c _ _ => match i with O => get_expr rest c | _ => None end
      | EDbg e1 => get_expr rest e1
      | EPrint e1 => get_expr rest e1
      | _ => None
      end
  end
with get_exprs (j : nat) (path : list nat) (es : exprs) {struct es} : option expr :=
  match es with
  | ENil => None
  | ECons e r => match j with O => get_expr path e | S j' => get_exprs j' path r end
  end.

Fixpoint put_expr (path : list nat) (ex : expr) (e : expr) {struct e} : expr :=
  match path with
  | [] => ex
  | i :: rest =>
      match e with
      | EBin op l r => match i with O => EBin op (put_expr rest ex l) r | _ => EBin op l (put_expr rest ex r) end
      | ECall f args => match i with O => ECall (put_expr rest ex f) args | S j => ECall f (put_exprs j rest ex args) end
      | EIf c t el => match i with O => EIf (put_expr rest ex c) t el | _ => e end
      | EDbg e1 => EDbg (put_expr rest ex e1)
      | EPrint e1 => EPrint (put_expr rest ex e1)
      | _ => e
      end
  end
with put_exprs (j : nat) (path : list nat) (ex : expr) (es : exprs) {struct es} : exprs :=
  match es with
  | ENil => ENil
  | ECons e r => match j with O => ECons (put_expr path ex e) r | S j' => ECons e (put_exprs j' path ex r) end
  end.

Definition get_stmt (path : list nat) (s : stmt) : option expr :=
  match s with
  | SLet _ _ e => get_expr path e
  | SAssign _ _ e => get_expr path e
  | SExpr e => get_expr path e
  | SWhile _ _ => None
  end.

Definition put_stmt (path : list nat) (ex : expr) (s : stmt) : stmt :=
  match s with
  | SLet d y e => SLet d y (put_expr path ex e)
  | SAssign u y e => SAssign u y (put_expr path ex e)
  | SExpr e => SExpr (put_expr path ex e)
  | SWhile _ _ => s
  end.

Fixpoint extract_block (i : nat) (path : list nat) (x : name) (d u : oid) (bl : block) : block :=
  match bl with
  | BNil => BNil
  | BCons s rest =>
      match i with
      | O => match get_stmt path s with
             | Some e => BCons (SLet d x e) (BCons (put_stmt path (EVar u x) s) rest)
             | None => bl
             end
      | S i' => BCons s (extract_block i' path x d u rest)
      end
  end.

Definition extract_var (i : nat) (path : list nat) (x : name) (d u : oid) (p : program) : program :=
  (fst p, extract_block i path x d u (snd p)).

(* side-effect free expressions of the property: literals, variables and operators over them (no call, print, dbg,
   closure literal, block). They can still fail (unbound variable, operator on the wrong kind of value). *)
Fixpoint pure (e : expr) : bool :=
  match e with
  | EInt _ | EBool _ | EVar _ _ => true
  | EBin _ l r => pure l && pure r
  | _ => false
  end.

Fixpoint pure_es (es : exprs) : bool :=
  match es with
  | ENil => true
  | ECons e r => pure e && pure_es r
  end.

(* the positions covered by the theorem extract_var_preserves_partial: everything that Garden evaluates BEFORE the selected
   expression inside the statement is pure (operands to the left; the callee; the arguments to the RIGHT, because
   arguments are evaluated right to left). *)
Fixpoint covered_expr (path : list nat) (e : expr) {struct e} : bool :=
  match path with
  | [] => true
  | i :: rest =>
      match e with
      | EBin _ l r => match i with O => covered_expr rest l | _ => pure l && covered_expr rest r end
      | ECall f args => match i with O => covered_expr rest f | S j => pure f && covered_exprs j rest args end
      | EIf c _ _ => match i with O => covered_expr rest c | _ => false end
      | EDbg e1 => covered_expr rest e1
      | EPrint e1 => covered_expr rest e1
      | _ => false
      end
  end
with covered_exprs (j : nat) (path : list nat) (es : exprs) {struct es} : bool :=
  match es with
  | ENil => false
  | ECons e r => match j with O => pure_es r && covered_expr path e | S j' => covered_exprs j' path r end
  end.

Definition covered_stmt (path : list nat) (s : stmt) : bool :=
  match s with
  | SLet _ _ e => covered_expr path e
  | SAssign _ _ e => covered_expr path e
  | SExpr e => covered_expr path e
  | SWhile _ _ => false
  end.

Fixpoint block_nth (i : nat) (bl : block) : option stmt :=
  match bl with
  | BNil => None
  | BCons s rest => match i with O => Some s | S i' => block_nth i' rest end
  end.
