(* MODEL (definitions only): the refactorings on the language of Scope.v.

   rename  -- src/rename.rs: the type checker's table id_to_def_pos gives every symbol the position of its definition;
              RenameLocalVisitor rewrites every symbol whose definition is the definition of the symbol under the cursor.
              Here: a scope-passing traversal that rewrites an occurrence exactly when it resolves (Scope.resolve_name,
              in the scopes of the ORIGINAL program) to the binder b; binders resolve to themselves.
   wrap_dbg -- src/wrap_in_dbg.rs: the selected expression e becomes dbg(e). Positions are paths into the syntax tree.
   extract_var -- src/extract_variable.rs for a selected sub-expression of a statement of a block: `let fresh = e` is
              inserted before the statement and the occurrence is replaced by the variable. *)
From Coq Require Import List ZArith Bool Arith.
Import ListNotations.
Require Import Garden.Scope.

Section Rename.
  Variable funs : list fundef.
  Variable b : oid.
  Variable new : name.

  (* the new text of an occurrence that refers to definition d *)
  Definition rn_use (d : option oid) (x : name) : name :=
    match d with
    | Some d' => if Nat.eqb d' b then new else x
    | None => x
    end.

  Definition rn_bind (d : oid) (x : name) : name := if Nat.eqb d b then new else x.

  Definition rn_params (ps : list (oid * name)) : list (oid * name) :=
    map (fun p => (fst p, rn_bind (fst p) (snd p))) ps.

  Fixpoint rn_expr (sc : scope) (e : expr) : expr :=
    match e with
    | EInt z => EInt z
    | EBool v => EBool v
    | EVar u x => EVar u (rn_use (resolve_name funs sc x) x)
    | EBin op l r => EBin op (rn_expr sc l) (rn_expr sc r)
    | ECall f args => ECall (rn_expr sc f) (rn_exprs sc args)
    | EFun ps body => EFun (rn_params ps) (rn_block (params_frame ps :: sc) body)
    | EIf c t e => EIf (rn_expr sc c) (rn_block ([] :: sc) t) (rn_block ([] :: sc) e)
    | EDbg e => EDbg (rn_expr sc e)
    | EPrint e => EPrint (rn_expr sc e)
    end
  with rn_exprs (sc : scope) (es : exprs) : exprs :=
    match es with
    | ENil => ENil
    | ECons e r => ECons (rn_expr sc e) (rn_exprs sc r)
    end
  with rn_block (sc : scope) (bl : block) : block :=
    match bl with
    | BNil => BNil
    | BCons s r => BCons (rn_stmt sc s) (rn_block (stmt_scope s sc) r)
    end
  with rn_stmt (sc : scope) (s : stmt) : stmt :=
    match s with
    | SLet d x e => SLet d (rn_bind d x) (rn_expr sc e)
    | SAssign u x e => SAssign u (rn_use (resolve_name funs sc x) x) (rn_expr sc e)
    | SExpr e => SExpr (rn_expr sc e)
    | SWhile c body => SWhile (rn_expr sc c) (rn_block ([] :: sc) body)
    end.

  Definition rn_fundef (fd : fundef) : fundef :=
    {| fd_name := rn_bind (fd_id fd) (fd_name fd);
       fd_id := fd_id fd;
       fd_params := rn_params (fd_params fd);
       fd_body := rn_block [params_frame (fd_params fd)] (fd_body fd) |}.
End Rename.

(* rename b new p: the binder with occurrence id b, and everything that refers to it, is now called `new` *)
Definition rename (b : oid) (new : name) (p : program) : program :=
  (map (rn_fundef (fst p) b new) (fst p), rn_block (fst p) b new [[]] (snd p)).

(* ------------------------------------------------------------------------------------------------------------ *)
(* wrap-in-dbg. A path selects a sub-expression: in EBin 0 = left, 1 = right; in ECall 0 = callee, S j = j-th argument;
   in EIf 0 = condition, 1 = then-block, 2 = else-block (followed by the statement index); in EFun the statement index of
   the body; in SWhile 0 = condition, 1 = body (followed by the statement index). The empty path selects the expression
   itself. A path that does not lead to an expression leaves the program unchanged. *)

Fixpoint wrap_expr (path : list nat) (e : expr) {struct e} : expr :=
  match path with
  | [] => EDbg e
  | i :: rest =>
      match e with
      | EBin op l r => match i with O => EBin op (wrap_expr rest l) r | _ => EBin op l (wrap_expr rest r) end
      | ECall f args => match i with O => ECall (wrap_expr rest f) args | S j => ECall f (wrap_exprs j rest args) end
      | EFun ps body => EFun ps (wrap_block i rest body)
      | EIf c t el =>
          match i, rest with
          | O, _ => EIf (wrap_expr rest c) t el
          | 1, j :: rest' => EIf c (wrap_block j rest' t) el
          | 2, j :: rest' => EIf c t (wrap_block j rest' el)
          | _, _ => e
          end
      | EDbg e1 => EDbg (wrap_expr rest e1)
      | EPrint e1 => EPrint (wrap_expr rest e1)
      | _ => e
      end
  end
with wrap_exprs (j : nat) (path : list nat) (es : exprs) {struct es} : exprs :=
  match es with
  | ENil => ENil
  | ECons e r => match j with O => ECons (wrap_expr path e) r | S j' => ECons e (wrap_exprs j' path r) end
  end
with wrap_block (j : nat) (path : list nat) (bl : block) {struct bl} : block :=
  match bl with
  | BNil => BNil
  | BCons s r => match j with O => BCons (wrap_stmt path s) r | S j' => BCons s (wrap_block j' path r) end
  end
with wrap_stmt (path : list nat) (s : stmt) {struct s} : stmt :=
  match s with
  | SLet d x e => SLet d x (wrap_expr path e)
  | SAssign u x e => SAssign u x (wrap_expr path e)
  | SExpr e => SExpr (wrap_expr path e)
  | SWhile c body =>
      match path with
      | O :: rest => SWhile (wrap_expr rest c) body
      | 1 :: j :: rest => SWhile c (wrap_block j rest body)
      | _ => s
      end
  end.

(* position: which top-level function (None = the main statements), which statement, path inside the statement *)
Definition position := (option nat * nat * list nat)%type.

Fixpoint wrap_nth_fun (k : nat) (j : nat) (path : list nat) (funs : list fundef) : list fundef :=
  match funs with
  | [] => []
  | fd :: r =>
      match k with
      | O => {| fd_name := fd_name fd; fd_id := fd_id fd; fd_params := fd_params fd;
                fd_body := wrap_block j path (fd_body fd) |} :: r
      | S k' => fd :: wrap_nth_fun k' j path r
      end
  end.

Definition wrap_dbg (pos : position) (p : program) : program :=
  match pos with
  | (None, j, path) => (fst p, wrap_block j path (snd p))
  | (Some k, j, path) => (wrap_nth_fun k j path (fst p), snd p)
  end.
