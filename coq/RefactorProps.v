(* PROOFS about the refactorings of Refactor.v:
   - rename rewrites exactly the occurrences that resolve to the binder (rename_exact_thm);
   - renaming a local binder to a fresh name is a simulation of the reference semantics (rename_fresh_preserves_thm). *)
From Coq Require Import List ZArith Bool Arith Lia.
Import ListNotations.
Require Import Garden.Scope Garden.Refactor Garden.ScopeProps.

Definition oo_eqb (a c : option oid) : bool :=
  match a, c with
  | Some x, Some y => Nat.eqb x y
  | None, None => true
  | _, _ => false
  end.

Section Exact.
  Variable funs : list fundef.
  Variable b : oid.
  Variable new : name.

  Definition trow := (oid * name * option oid)%type.
  Definition ptab (ps : list (oid * name)) : list trow := map (fun p => (fst p, snd p, Some (fst p))) ps.

  (* one row per occurrence: id, name, what it refers to *)
  Fixpoint tab_expr (sc : scope) (e : expr) : list trow :=
    match e with
    | EInt _ | EBool _ => []
    | EVar u x => [(u, x, resolve_name funs sc x)]
    | EBin _ l r => tab_expr sc l ++ tab_expr sc r
    | ECall f args => tab_expr sc f ++ tab_exprs sc args
    | EFun ps body => ptab ps ++ tab_block (params_frame ps :: sc) body
    | EIf c t e => tab_expr sc c ++ tab_block ([] :: sc) t ++ tab_block ([] :: sc) e
    | EDbg e => tab_expr sc e
    | EPrint e => tab_expr sc e
    end
  with tab_exprs (sc : scope) (es : exprs) : list trow :=
    match es with
    | ENil => []
    | ECons e r => tab_expr sc e ++ tab_exprs sc r
    end
  with tab_block (sc : scope) (bl : block) : list trow :=
    match bl with
    | BNil => []
    | BCons s r => tab_stmt sc s ++ tab_block (stmt_scope s sc) r
    end
  with tab_stmt (sc : scope) (s : stmt) : list trow :=
    match s with
    | SLet d x e => (d, x, Some d) :: tab_expr sc e
    | SAssign u x e => (u, x, resolve_name funs sc x) :: tab_expr sc e
    | SExpr e => tab_expr sc e
    | SWhile c body => tab_expr sc c ++ tab_block ([] :: sc) body
    end.

  Definition pO (t : trow) : oid * name := (fst (fst t), snd (fst t)).
  Definition pR (t : trow) : oid * option oid := (fst (fst t), snd t).
  Definition pN (t : trow) : oid * name := (fst (fst t), rn_use b new (snd t) (snd (fst t))).

  Lemma ptab_O ps : map pO (ptab ps) = ps.
  Proof. induction ps as [|[d x] ps IH]; auto. unfold ptab in *. cbn [map]. rewrite IH. reflexivity. Qed.
  Lemma ptab_R ps : map pR (ptab ps) = map (fun p => (fst p, Some (fst p))) ps.
  Proof. induction ps as [|[d x] ps IH]; auto. unfold ptab in *. cbn [map]. rewrite IH. reflexivity. Qed.
  Lemma ptab_N ps : map pN (ptab ps) = rn_params b new ps.
  Proof. induction ps as [|[d x] ps IH]; auto. unfold ptab in *. cbn [map]. rewrite IH. reflexivity. Qed.

  Ltac ih := repeat match goal with H : forall _ : scope, _ = _ |- _ => rewrite !H; clear H end.

  Lemma tab_O :
    (forall e sc, map pO (tab_expr sc e) = occ_expr e) /\
    (forall es sc, map pO (tab_exprs sc es) = occ_exprs es) /\
    (forall bl sc, map pO (tab_block sc bl) = occ_block bl) /\
    (forall s sc, map pO (tab_stmt sc s) = occ_stmt s).
  Proof.
    apply syntax_mutind; intros; simpl; rewrite ?map_app, ?ptab_O; ih; auto.
  Qed.

  Lemma tab_R :
    (forall e sc, map pR (tab_expr sc e) = res_expr funs sc e) /\
    (forall es sc, map pR (tab_exprs sc es) = res_exprs funs sc es) /\
    (forall bl sc, map pR (tab_block sc bl) = res_block funs sc bl) /\
    (forall s sc, map pR (tab_stmt sc s) = res_stmt funs sc s).
  Proof.
    apply syntax_mutind; intros; simpl; rewrite ?map_app, ?ptab_R; ih; auto.
  Qed.

  Lemma tab_N :
    (forall e sc, map pN (tab_expr sc e) = occ_expr (rn_expr funs b new sc e)) /\
    (forall es sc, map pN (tab_exprs sc es) = occ_exprs (rn_exprs funs b new sc es)) /\
    (forall bl sc, map pN (tab_block sc bl) = occ_block (rn_block funs b new sc bl)) /\
    (forall s sc, map pN (tab_stmt sc s) = occ_stmt (rn_stmt funs b new sc s)).
  Proof.
    apply syntax_mutind; intros; simpl; rewrite ?map_app, ?ptab_N; ih; auto.
  Qed.

  Definition tab_fundef (fd : fundef) : list trow :=
    (fd_id fd, fd_name fd, Some (fd_id fd)) :: ptab (fd_params fd) ++ tab_block [params_frame (fd_params fd)] (fd_body fd).
End Exact.

Definition tab_prog (p : program) : list trow :=
  flat_map (tab_fundef (fst p)) (fst p) ++ tab_block (fst p) [[]] (snd p).

Lemma flat_map_map {A B C} (f : A -> list B) (g : B -> C) l :
  map g (flat_map f l) = flat_map (fun x => map g (f x)) l.
Proof. induction l; simpl; auto. rewrite map_app, IHl. reflexivity. Qed.

Lemma flat_map_ext' {A B} (f g : A -> list B) l : (forall x, f x = g x) -> flat_map f l = flat_map g l.
Proof. intros H. induction l; simpl; auto. rewrite H, IHl. reflexivity. Qed.

Lemma flat_map_map_in {A B C} (f : A -> B) (g : B -> list C) l : flat_map g (map f l) = flat_map (fun x => g (f x)) l.
Proof. induction l; simpl; auto. rewrite IHl. reflexivity. Qed.

Lemma tab_prog_O p : map pO (tab_prog p) = occ_prog p.
Proof.
  unfold tab_prog, occ_prog. rewrite map_app, flat_map_map.
  destruct (tab_O (fst p)) as [_ [_ [Hb _]]]. rewrite Hb. f_equal.
  apply flat_map_ext'. intros fd. unfold tab_fundef, occ_fundef. simpl. rewrite map_app, ptab_O, Hb. reflexivity.
Qed.

Lemma tab_prog_R p : map pR (tab_prog p) = res_prog p.
Proof.
  unfold tab_prog, res_prog. rewrite map_app, flat_map_map.
  destruct (tab_R (fst p)) as [_ [_ [Hb _]]]. rewrite Hb. f_equal.
  apply flat_map_ext'. intros fd. unfold tab_fundef, res_fundef. simpl. rewrite map_app, ptab_R, Hb. reflexivity.
Qed.

Lemma tab_prog_N b new p : map (pN b new) (tab_prog p) = occ_prog (rename b new p).
Proof.
  unfold tab_prog, occ_prog, rename. cbn [fst snd]. rewrite map_app, flat_map_map, flat_map_map_in.
  destruct (tab_N (fst p) b new) as [_ [_ [Hb _]]]. rewrite Hb. f_equal.
  apply flat_map_ext'. intros fd. unfold tab_fundef, occ_fundef, rn_fundef. simpl.
  rewrite map_app, ptab_N, Hb. reflexivity.
Qed.

Lemma assoc_nodup {A} (l : list (oid * A)) k v : NoDup (map fst l) -> In (k, v) l -> assoc_oid l k = Some v.
Proof.
  induction l as [|[k0 v0] l IH]; simpl; intros Hnd Hin; [contradiction|].
  inversion Hnd as [|? ? Hnin Hnd']; subst.
  destruct Hin as [E|Hin].
  - inversion E; subst. rewrite Nat.eqb_refl. reflexivity.
  - destruct (Nat.eqb_spec k k0) as [->|_]; auto.
    exfalso. apply Hnin. apply (in_map fst) in Hin. exact Hin.
Qed.

Lemma map_fst_pO l : map fst (map pO l) = map fst (map pR l).
Proof. rewrite !map_map. reflexivity. Qed.

(* the occurrences of the renamed program: same ids in the same order; an occurrence is now called `new` exactly when it
   refers to b (a binder refers to itself); every other occurrence keeps its name *)
Theorem rename_exact_thm : forall (p : program) (b : oid) (new : name),
  NoDup (map fst (occ_prog p)) ->
  occ_prog (rename b new p)
  = map (fun ox => (fst ox, if oo_eqb (resolve p (fst ox)) (Some b) then new else snd ox)) (occ_prog p).
Proof.
  intros p b new Hnd.
  rewrite <- tab_prog_N, <- tab_prog_O, map_map.
  apply map_ext_in. intros [[o x] d] Hin. unfold pN, pO; simpl.
  assert (Hres : resolve p o = d).
  { unfold resolve. rewrite <- tab_prog_R.
    rewrite (assoc_nodup (map pR (tab_prog p)) o d); auto.
    - rewrite <- map_fst_pO, tab_prog_O. exact Hnd.
    - apply (in_map pR) in Hin. exact Hin. }
  rewrite Hres. destruct d as [d|]; simpl; auto.
Qed.

(* the set form: the rewritten occurrence ids are {b} U {u | resolve p u = Some b} (resolve p b = Some b when b is a
   binder of p), nothing else changes *)
Corollary rename_exact_set : forall (p : program) (b : oid) (new : name) (o : oid) (x : name),
  NoDup (map fst (occ_prog p)) -> In (o, x) (occ_prog p) ->
  (resolve p o = Some b -> In (o, new) (occ_prog (rename b new p))) /\
  (resolve p o <> Some b -> In (o, x) (occ_prog (rename b new p))).
Proof.
  intros p b new o x Hnd Hin. rewrite rename_exact_thm by auto.
  split; intros H.
  - apply in_map_iff. exists (o, x). simpl. rewrite H. simpl. rewrite Nat.eqb_refl. auto.
  - apply in_map_iff. exists (o, x). simpl. split; auto.
    destruct (resolve p o) as [d|]; simpl; auto.
    destruct (Nat.eqb_spec d b) as [->|_]; auto. congruence.
Qed.

(* ---------------------------------------------------------------------------------------------------------- *)
(* rename to a fresh name: simulation *)

Lemma find_fun_map (F : fundef -> fundef) l g :
  (forall fd, In fd l -> fd_name (F fd) = fd_name fd) ->
  find_fun (map F l) g = option_map F (find_fun l g).
Proof.
  induction l as [|fd l IH]; simpl; intros H; auto.
  rewrite (H fd) by auto. destruct (Nat.eqb g (fd_name fd)); auto.
Qed.

Lemma Forall2_len {A B} (R : A -> B -> Prop) l l' : Forall2 R l l' -> length l = length l'.
Proof. induction 1; simpl; auto. Qed.

Lemma find_fun_in l g fd : find_fun l g = Some fd -> In fd l.
Proof.
  induction l as [|fd0 l IH]; simpl; [discriminate|].
  destruct (Nat.eqb g (fd_name fd0)); [intros H; inversion H; auto|auto].
Qed.

Lemma lookup_fun_id_find l g : lookup_fun_id l g = option_map fd_id (find_fun l g).
Proof. induction l as [|fd l IH]; simpl; auto. destruct (Nat.eqb g (fd_name fd)); auto. Qed.

Lemma eval_block_cons funs f r s rest :
  rest <> BNil ->
  eval_block funs (S f) r (BCons s rest) = bind (exec_stmt funs f r s) (fun r1 _ => eval_block funs f r1 rest).
Proof. destruct rest; [congruence|reflexivity]. Qed.

Lemma rn_block_cons funs b new sc s rest :
  rn_block funs b new sc (BCons s rest) = BCons (rn_stmt funs b new sc s) (rn_block funs b new (stmt_scope s sc) rest).
Proof. reflexivity. Qed.

Section RenameSim.
  Variable funs : list fundef.
  Variable b : oid.
  Variable xb new : name.

  Definition okb (ox : oid * name) : Prop := snd ox <> new /\ (fst ox = b -> snd ox = xb).
  Definition ok_occs (l : list (oid * name)) : Prop := Forall okb l.

  Hypothesis Hb : forall fd, In fd funs -> fd_id fd <> b.
  Hypothesis Hfuns : forall fd, In fd funs -> ok_occs (fd_params fd) /\ ok_occs (occ_block (fd_body fd)).

  Let funs' := map (rn_fundef funs b new) funs.

  Inductive val_rel : value -> value -> Prop :=
  | VR_int z : val_rel (VInt z) (VInt z)
  | VR_bool v : val_rel (VBool v) (VBool v)
  | VR_unit : val_rel VUnit VUnit
  | VR_fun f : val_rel (VFun f) (VFun f)
  | VR_clo r r' ps body :
      env_rel r r' -> ok_occs ps -> ok_occs (occ_block body) ->
      val_rel (VClo r ps body)
              (VClo r' (rn_params b new ps) (rn_block funs b new (params_frame ps :: scope_of r) body))
  with env_rel : env -> env -> Prop :=
  | ER_nil : env_rel [] []
  | ER_cons fr fr' r r' : frame_rel fr fr' -> env_rel r r' -> env_rel (fr :: r) (fr' :: r')
  with frame_rel : frame -> frame -> Prop :=
  | FR_nil : frame_rel [] []
  | FR_cons x d v v' fr fr' :
      okb (d, x) -> val_rel v v' -> frame_rel fr fr' ->
      frame_rel ((x, d, v) :: fr) ((rn_bind b new d x, d, v') :: fr').

  Lemma val_rel_show v v' : val_rel v v' -> show v = show v'.
  Proof. destruct 1; reflexivity. Qed.

  (* ---- lookups in related frames *)

  Lemma rn_bind_neq d x dy y : okb (d, x) -> okb (dy, y) -> x <> y -> rn_bind b new d x <> rn_bind b new dy y.
  Proof.
    unfold okb, rn_bind; simpl. intros [Hx Hxb] [Hy Hyb] Hne.
    destruct (Nat.eqb_spec d b), (Nat.eqb_spec dy b); subst; auto.
    rewrite Hxb, Hyb in Hne; auto.
  Qed.

  Lemma frame_none fr fr' x d :
    frame_rel fr fr' -> lookup_frame fr x = None -> okb (d, x) -> lookup_frame fr' (rn_bind b new d x) = None.
  Proof.
    induction 1 as [|y dy v v' fr fr' Hok Hv Hfr IH]; simpl; intros Hl Hx; auto.
    destruct (Nat.eqb_spec x y) as [->|Hne]; [discriminate|].
    destruct (Nat.eqb_spec (rn_bind b new d x) (rn_bind b new dy y)) as [E|_]; auto.
    exfalso. exact (rn_bind_neq _ _ _ _ Hx Hok Hne E).
  Qed.

  Lemma frame_some fr fr' x d v :
    frame_rel fr fr' -> lookup_frame fr x = Some v -> lookup_frame_s (scope_of_frame fr) x = Some d ->
    okb (d, x) /\ exists v', lookup_frame fr' (rn_bind b new d x) = Some v' /\ val_rel v v'.
  Proof.
    induction 1 as [|y dy w w' fr fr' Hok Hv Hfr IH]; simpl; intros Hl Hs; [discriminate|].
    destruct (Nat.eqb_spec x y) as [->|Hne].
    - inversion Hl; inversion Hs; subst. split; auto. rewrite Nat.eqb_refl. eauto.
    - destruct (IH Hl Hs) as [Hokx [v' [Hl' Hr]]]. split; auto.
      destruct (Nat.eqb_spec (rn_bind b new d x) (rn_bind b new dy y)) as [E|_]; eauto.
      exfalso. exact (rn_bind_neq _ _ _ _ Hokx Hok Hne E).
  Qed.

  Lemma frame_cases fr x :
    (lookup_frame_s (scope_of_frame fr) x = None /\ lookup_frame fr x = None)
    \/ (exists d v, lookup_frame_s (scope_of_frame fr) x = Some d /\ lookup_frame fr x = Some v).
  Proof.
    induction fr as [|[[y d] v] fr IH]; simpl; auto.
    destruct (Nat.eqb x y); eauto.
  Qed.

  Lemma frame_none_use fr fr' x :
    frame_rel fr fr' -> lookup_frame fr x = None -> x <> new -> lookup_frame fr' x = None.
  Proof.
    intros Hfr Hl Hx.
    assert (H : lookup_frame fr' (rn_bind b new (S b) x) = None).
    { eapply frame_none; eauto. split; simpl; auto. intros E. exfalso. clear -E. induction b; simpl in *; lia. }
    unfold rn_bind in H. replace (Nat.eqb (S b) b) with false in H; auto.
    symmetry. apply Nat.eqb_neq. lia.
  Qed.

  Lemma env_lookup r r' x :
    env_rel r r' -> x <> new ->
    match lookup_s (scope_of r) x with
    | Some d => okb (d, x) /\ exists v v', lookup r x = Some v /\ lookup r' (rn_bind b new d x) = Some v' /\ val_rel v v'
    | None => lookup r x = None /\ lookup r' x = None
    end.
  Proof.
    induction 1 as [|fr fr' r r' Hfr Hr IH]; simpl; intros Hx; auto.
    destruct (frame_cases fr x) as [[Hs Hl]|[d [v [Hs Hl]]]]; rewrite Hs, Hl.
    - specialize (IH Hx). destruct (lookup_s (scope_of r) x) as [d|].
      + destruct IH as [Hok [v [v' [H1 [H2 H3]]]]]. split; auto. exists v, v'. split; auto.
        rewrite (frame_none _ _ _ _ Hfr Hl Hok). auto.
      + destruct IH as [H1 H2]. split; auto. rewrite (frame_none_use _ _ _ Hfr Hl Hx). auto.
    - destruct (frame_some _ _ _ _ _ Hfr Hl Hs) as [Hok [v' [Hl' Hv]]].
      split; auto. exists v, v'. rewrite Hl'. auto.
  Qed.

  (* ---- assignment in related frames *)

  Lemma assign_frame_none fr x v : lookup_frame fr x = None -> assign_frame fr x v = None.
  Proof.
    induction fr as [|[[y d] w] fr IH]; simpl; auto.
    destruct (Nat.eqb x y); [discriminate|]. intros H. rewrite (IH H). reflexivity.
  Qed.

  Lemma assign_frame_some fr fr' x d v0 v v' :
    frame_rel fr fr' -> lookup_frame fr x = Some v0 -> lookup_frame_s (scope_of_frame fr) x = Some d ->
    val_rel v v' ->
    exists fr1 fr1', assign_frame fr x v = Some fr1 /\ assign_frame fr' (rn_bind b new d x) v' = Some fr1'
                     /\ frame_rel fr1 fr1' /\ scope_of_frame fr1 = scope_of_frame fr.
  Proof.
    induction 1 as [|y dy w w' fr fr' Hok Hv Hfr IH]; simpl; intros Hl Hs Hvv; [discriminate|].
    destruct (Nat.eqb_spec x y) as [->|Hne].
    - inversion Hs; subst. rewrite Nat.eqb_refl.
      eexists _, _. split; [reflexivity|]. split; [reflexivity|]. split; [constructor; auto|reflexivity].
    - destruct (frame_some _ _ _ _ _ Hfr Hl Hs) as [Hokx _].
      destruct (IH Hl Hs Hvv) as [fr1 [fr1' [H1 [H2 [H3 H4]]]]].
      rewrite H1.
      destruct (Nat.eqb_spec (rn_bind b new d x) (rn_bind b new dy y)) as [E|_].
      { exfalso. exact (rn_bind_neq _ _ _ _ Hokx Hok Hne E). }
      rewrite H2. eexists _, _. split; [reflexivity|]. split; [reflexivity|].
      split; [constructor; auto|]. simpl. rewrite H4. reflexivity.
  Qed.

  Lemma assign_frame_none' fr fr' x d v' :
    frame_rel fr fr' -> lookup_frame fr x = None -> okb (d, x) -> assign_frame fr' (rn_bind b new d x) v' = None.
  Proof.
    intros. apply assign_frame_none. eapply frame_none; eauto.
  Qed.

  Lemma env_assign r r' x v v' :
    env_rel r r' -> x <> new -> val_rel v v' ->
    match lookup_s (scope_of r) x with
    | Some d => exists r1 r1', assign r x v = Some r1 /\ assign r' (rn_bind b new d x) v' = Some r1'
                               /\ env_rel r1 r1' /\ scope_of r1 = scope_of r
    | None => assign r x v = None /\ assign r' x v' = None
    end.
  Proof.
    induction 1 as [|fr fr' r r' Hfr Hr IH]; simpl; intros Hx Hv; auto.
    destruct (frame_cases fr x) as [[Hs Hl]|[d [v0 [Hs Hl]]]]; rewrite Hs.
    - rewrite (assign_frame_none _ _ v Hl).
      specialize (IH Hx Hv). pose proof (env_lookup r r' x Hr Hx) as HL.
      destruct (lookup_s (scope_of r) x) as [d|].
      + destruct HL as [Hok _].
        destruct IH as [r1 [r1' [H1 [H2 [H3 H4]]]]].
        rewrite H1, H2, (assign_frame_none' _ _ _ _ v' Hfr Hl Hok).
        eexists _, _. split; [reflexivity|]. split; [reflexivity|]. split; [constructor; auto|].
        simpl. rewrite H4. reflexivity.
      + destruct IH as [H1 H2]. rewrite H1, H2.
        rewrite (assign_frame_none fr' x v'); auto. eapply frame_none_use; eauto.
    - destruct (assign_frame_some _ _ _ _ _ _ _ Hfr Hl Hs Hv) as [fr1 [fr1' [H1 [H2 [H3 H4]]]]].
      rewrite H1, H2. eexists _, _. split; [reflexivity|]. split; [reflexivity|].
      split; [constructor; auto|]. simpl. rewrite H4. reflexivity.
  Qed.

  (* ---- parameters *)

  Lemma bind_params_rel ps : forall vs vs' acc acc',
    ok_occs ps -> Forall2 val_rel vs vs' -> frame_rel acc acc' ->
    frame_rel (bind_params ps vs acc) (bind_params (rn_params b new ps) vs' acc').
  Proof.
    induction ps as [|[d x] ps IH]; simpl; intros vs vs' acc acc' Hok Hvs Hacc; auto.
    inversion Hok; subst. destruct Hvs; auto.
    apply IH; auto. constructor; auto.
  Qed.

  Lemma bind_params_scope ps : forall vs acc,
    length ps = length vs ->
    scope_of_frame (bind_params ps vs acc) = rev (map (fun p => (snd p, fst p)) ps) ++ scope_of_frame acc.
  Proof.
    induction ps as [|[d x] ps IH]; simpl; intros vs acc Hlen; destruct vs; try discriminate; auto.
    simpl in Hlen. rewrite IH by lia. simpl. rewrite <- app_assoc. reflexivity.
  Qed.

  Lemma rn_params_length ps : length (rn_params b new ps) = length ps.
  Proof. apply map_length. Qed.

  (* ---- global functions *)

  Lemma find_fun_rn g : find_fun funs' g = option_map (rn_fundef funs b new) (find_fun funs g).
  Proof.
    apply find_fun_map. intros fd Hin. simpl. unfold rn_bind.
    destruct (Nat.eqb_spec (fd_id fd) b) as [E|_]; auto. exfalso. eapply Hb; eauto.
  Qed.

  (* a use that is not a local: its name is unchanged *)
  Lemma rn_use_global sc x : lookup_s sc x = None -> rn_use b new (resolve_name funs sc x) x = x.
  Proof.
    unfold resolve_name. intros ->. rewrite lookup_fun_id_find.
    destruct (find_fun funs x) as [fd|] eqn:E; simpl; auto.
    destruct (Nat.eqb_spec (fd_id fd) b) as [E'|_]; auto. exfalso. eapply Hb; eauto using find_fun_in.
  Qed.

  Lemma rn_use_local sc x d : lookup_s sc x = Some d -> rn_use b new (resolve_name funs sc x) x = rn_bind b new d x.
  Proof. unfold resolve_name. intros ->. reflexivity. Qed.

  (* ---- the simulation *)

  Definition orel {A} (sc : scope) (R : A -> A -> Prop) (m m' : outcome A) : Prop :=
    match m, m' with
    | Done o r a, Done o' r' a' => o = o' /\ env_rel r r' /\ scope_of r = sc /\ R a a'
    | Fail o k, Fail o' k' => o = o' /\ k = k'
    | OutOfFuel, OutOfFuel => True
    | _, _ => False
    end.

  Lemma orel_bind {A B} sc1 sc2 (R : A -> A -> Prop) (R2 : B -> B -> Prop) m m' k k' :
    orel sc1 R m m' ->
    (forall r r' a a', env_rel r r' -> scope_of r = sc1 -> R a a' -> orel sc2 R2 (k r a) (k' r' a')) ->
    orel sc2 R2 (bind m k) (bind m' k').
  Proof.
    intros Hm Hk. destruct m, m'; simpl in *; try contradiction; auto.
    destruct Hm as [-> [Hr [Hs Ha]]]. specialize (Hk _ _ _ _ Hr Hs Ha).
    destruct (k r a), (k' r0 a0); simpl in *; try contradiction; auto.
    - destruct Hk as [-> H]. auto.
    - destruct Hk as [-> H]. auto.
  Qed.

  Lemma env_rel_nil_frame r r' : env_rel r r' -> env_rel ([] :: r) ([] :: r').
  Proof. intros. constructor; auto. constructor. Qed.

  Lemma env_rel_push r r' x d v v' :
    env_rel r r' -> okb (d, x) -> val_rel v v' ->
    env_rel (push_binding x d v r) (push_binding (rn_bind b new d x) d v' r').
  Proof.
    intros Hr Hok Hv. destruct Hr; simpl.
    - constructor; [|constructor]. constructor; auto. constructor.
    - constructor; auto. constructor; auto.
  Qed.

  Lemma env_rel_tl r r' : env_rel r r' -> env_rel (tl r) (tl r').
  Proof. destruct 1; simpl; auto. constructor. Qed.

  Lemma eval_binop_rel op a a' c c' :
    val_rel a a' -> val_rel c c' ->
    match eval_binop op a c, eval_binop op a' c' with
    | Some v, Some v' => val_rel v v'
    | None, None => True
    | _, _ => False
    end.
  Proof.
    destruct 1; destruct 1; simpl; auto.
    - destruct op; simpl; auto; constructor.
    - destruct op; simpl; auto; constructor.
  Qed.

  Ltac okinv :=
    repeat match goal with
           | H : ok_occs (_ ++ _) |- _ => apply Forall_app in H; destruct H
           | H : ok_occs (_ :: _) |- _ => apply Forall_cons_iff in H; destruct H
           | H : Forall okb (_ ++ _) |- _ => apply Forall_app in H; destruct H
           | H : Forall okb (_ :: _) |- _ => apply Forall_cons_iff in H; destruct H
           end.

  Definition sim_expr f := forall r r' e, env_rel r r' -> ok_occs (occ_expr e) ->
    orel (scope_of r) val_rel (eval_expr funs f r e) (eval_expr funs' f r' (rn_expr funs b new (scope_of r) e)).
  Definition sim_args f := forall r r' es, env_rel r r' -> ok_occs (occ_exprs es) ->
    orel (scope_of r) (Forall2 val_rel) (eval_args funs f r es) (eval_args funs' f r' (rn_exprs funs b new (scope_of r) es)).
  Definition sim_block f := forall r r' bl, env_rel r r' -> ok_occs (occ_block bl) ->
    orel (block_scope bl (scope_of r)) val_rel (eval_block funs f r bl) (eval_block funs' f r' (rn_block funs b new (scope_of r) bl)).
  Definition sim_stmt f := forall r r' s, env_rel r r' -> ok_occs (occ_stmt s) ->
    orel (stmt_scope s (scope_of r)) val_rel (exec_stmt funs f r s) (exec_stmt funs' f r' (rn_stmt funs b new (scope_of r) s)).

  Lemma sim_call f r2 r2' cenv cenv' ps body vs vs' :
    sim_block f ->
    env_rel r2 r2' -> env_rel cenv cenv' -> ok_occs ps -> ok_occs (occ_block body) -> Forall2 val_rel vs vs' ->
    length ps = length vs ->
    orel (scope_of r2) val_rel
      (bind (eval_block funs f (bind_params ps vs [] :: cenv) body) (fun _ v => Done [] r2 v))
      (bind (eval_block funs' f (bind_params (rn_params b new ps) vs' [] :: cenv')
               (rn_block funs b new (params_frame ps :: scope_of cenv) body)) (fun _ v => Done [] r2' v)).
  Proof.
    intros IH Hr2 Hc Hps Hbody Hvs Hlen.
    assert (Hfr : frame_rel (bind_params ps vs []) (bind_params (rn_params b new ps) vs' [])).
    { apply bind_params_rel; auto. constructor. }
    assert (Hsc : scope_of (bind_params ps vs [] :: cenv) = params_frame ps :: scope_of cenv).
    { simpl. rewrite bind_params_scope by auto. simpl. rewrite app_nil_r. reflexivity. }
    eapply orel_bind.
    - rewrite <- Hsc. apply IH; auto. constructor; auto.
    - intros; simpl. auto.
  Qed.

  Lemma sim_all : forall f, sim_expr f /\ sim_args f /\ sim_block f /\ sim_stmt f.
  Proof.
    induction f as [|f [IHe [IHa [IHb IHs]]]].
    { repeat split; intros r r' x Hr Hok; simpl; auto. }
    repeat split.
    - (* expressions *)
      intros r r' e Hr Hok. destruct e; simpl in Hok |- *.
      + repeat split; auto; constructor.
      + repeat split; auto; constructor.
      + (* EVar *)
        okinv. destruct H as [Hx _]; simpl in Hx.
        pose proof (env_lookup r r' x Hr Hx) as HL.
        destruct (lookup_s (scope_of r) x) as [d|] eqn:Els.
        * destruct HL as [_ [v [v' [H1 [H2 H3]]]]].
          rewrite (rn_use_local _ _ _ Els), H1, H2. simpl. auto.
        * destruct HL as [H1 H2]. rewrite (rn_use_global _ _ Els), H1, H2, find_fun_rn.
          destruct (find_fun funs x); simpl; auto. repeat split; auto. constructor.
      + (* EBin *)
        okinv. eapply orel_bind; [apply IHe; auto|]. intros r1 r1' a a' Hr1 Hs1 Ha.
        rewrite <- Hs1. eapply orel_bind; [apply IHe; auto|]. intros r2 r2' c c' Hr2 Hs2 Hc.
        pose proof (eval_binop_rel op _ _ _ _ Ha Hc) as Hop.
        destruct (eval_binop op a c), (eval_binop op a' c'); simpl; try contradiction; auto.
      + (* ECall *)
        okinv. eapply orel_bind; [apply IHe; auto|]. intros r1 r1' vf vf' Hr1 Hs1 Hvf.
        rewrite <- Hs1. eapply orel_bind; [apply IHa; auto|]. intros r2 r2' vs vs' Hr2 Hs2 Hvs.
        pose proof (Forall2_len _ _ _ Hvs) as Hlen.
        destruct Hvf; simpl; auto.
        * (* VFun *)
          rewrite find_fun_rn. destruct (find_fun funs f0) as [fd|] eqn:Ef; simpl; auto.
          rewrite rn_params_length, <- Hlen.
          destruct (Nat.eqb_spec (length (fd_params fd)) (length vs)) as [El|_]; simpl; auto.
          destruct (Hfuns fd (find_fun_in _ _ _ Ef)) as [Hps Hbody].
          rewrite <- Hs2.
          apply (sim_call f r2 r2' [] [] (fd_params fd) (fd_body fd) vs vs'); auto. constructor.
        * (* VClo *)
          rewrite rn_params_length, <- Hlen.
          destruct (Nat.eqb_spec (length ps) (length vs)) as [El|_]; simpl; auto.
          rewrite <- Hs2. apply sim_call; auto.
      + (* EFun *)
        okinv. repeat split; auto. constructor; auto.
      + (* EIf *)
        okinv. eapply orel_bind; [apply IHe; auto|]. intros r1 r1' vc vc' Hr1 Hs1 Hvc.
        destruct Hvc; simpl; auto. destruct v.
        * eapply orel_bind; [rewrite <- Hs1; apply (IHb ([] :: r1) ([] :: r1')); auto using env_rel_nil_frame|].
          intros r2 r2' a a' Hr2 Hs2 Ha. simpl. repeat split; auto using env_rel_tl.
          rewrite scope_of_tl, Hs2. simpl. rewrite tl_block_scope. auto.
        * eapply orel_bind; [rewrite <- Hs1; apply (IHb ([] :: r1) ([] :: r1')); auto using env_rel_nil_frame|].
          intros r2 r2' a a' Hr2 Hs2 Ha. simpl. repeat split; auto using env_rel_tl.
          rewrite scope_of_tl, Hs2. simpl. rewrite tl_block_scope. auto.
      + (* EDbg *)
        eapply orel_bind; [apply IHe; auto|]. intros r1 r1' v v' Hr1 Hs1 Hv. simpl.
        rewrite (val_rel_show _ _ Hv). auto.
      + (* EPrint *)
        eapply orel_bind; [apply IHe; auto|]. intros r1 r1' v v' Hr1 Hs1 Hv. simpl.
        rewrite (val_rel_show _ _ Hv). repeat split; auto. constructor.
    - (* arguments *)
      intros r r' es Hr Hok. destruct es; simpl in Hok |- *.
      + repeat split; auto.
      + okinv. eapply orel_bind; [apply IHa; auto|]. intros r1 r1' vs vs' Hr1 Hs1 Hvs.
        rewrite <- Hs1. eapply orel_bind; [apply IHe; auto|]. intros r2 r2' v v' Hr2 Hs2 Hv.
        simpl. repeat split; auto.
    - (* blocks *)
      intros r r' bl Hr Hok. destruct bl as [|s rest]; simpl in Hok.
      + simpl. repeat split; auto. constructor.
      + okinv. destruct rest as [|s2 rest].
        * simpl. apply IHs; auto.
        * rewrite (rn_block_cons _ _ _ _ s).
          rewrite !eval_block_cons; [|rewrite rn_block_cons; discriminate|discriminate].
          change (block_scope (BCons s (BCons s2 rest)) (scope_of r))
            with (block_scope (BCons s2 rest) (stmt_scope s (scope_of r))).
          eapply orel_bind; [apply IHs; auto|]. intros r1 r1' a a' Hr1 Hs1 Ha.
          rewrite <- Hs1. apply IHb; auto.
    - (* statements *)
      intros r r' s Hr Hok. destruct s; simpl in Hok |- *.
      + (* SLet *)
        okinv. eapply orel_bind; [apply IHe; auto|]. intros r1 r1' v v' Hr1 Hs1 Hv. simpl.
        repeat split; auto; try constructor.
        * apply env_rel_push; auto.
        * rewrite scope_of_push, Hs1. reflexivity.
      + (* SAssign *)
        okinv. destruct H as [Hx _]; simpl in Hx.
        eapply orel_bind; [apply IHe; auto|]. intros r1 r1' v v' Hr1 Hs1 Hv.
        pose proof (env_assign r1 r1' x v v' Hr1 Hx Hv) as HA. rewrite Hs1 in HA.
        destruct (lookup_s (scope_of r) x) as [d|] eqn:Els.
        * destruct HA as [ra [ra' [H1 [H2 [H3 H4]]]]].
          rewrite (rn_use_local _ _ _ Els), H1, H2. simpl. repeat split; auto; try constructor; try congruence.
        * destruct HA as [H1 H2]. rewrite (rn_use_global _ _ Els), H1, H2. simpl. auto.
      + (* SExpr *)
        apply IHe; auto.
      + (* SWhile *)
        okinv. eapply orel_bind; [apply IHe; auto|]. intros r1 r1' vc vc' Hr1 Hs1 Hvc.
        destruct Hvc; simpl; auto. destruct v.
        * eapply orel_bind; [rewrite <- Hs1; apply (IHb ([] :: r1) ([] :: r1')); auto using env_rel_nil_frame|].
          intros r2 r2' a a' Hr2 Hs2 Ha.
          assert (Hsc : scope_of (tl r2) = scope_of r).
          { rewrite scope_of_tl, Hs2. simpl. rewrite tl_block_scope. auto. }
          rewrite <- Hsc.
          apply (IHs (tl r2) (tl r2') (SWhile c body)); auto using env_rel_tl.
          simpl. apply Forall_app; auto.
        * repeat split; auto. constructor.
  Qed.
End RenameSim.

Lemma nodup_fst_unique {A} (l : list (oid * A)) k v v' :
  NoDup (map fst l) -> In (k, v) l -> In (k, v') l -> v = v'.
Proof.
  induction l as [|[k0 v0] l IH]; simpl; intros Hnd H1 H2; [contradiction|].
  inversion Hnd as [|? ? Hnin Hnd']; subst.
  destruct H1 as [E1|H1], H2 as [E2|H2].
  - congruence.
  - inversion E1; subst. exfalso. apply Hnin. apply (in_map fst) in H2. exact H2.
  - inversion E2; subst. exfalso. apply Hnin. apply (in_map fst) in H1. exact H1.
  - eauto.
Qed.

Definition run_of (m : outcome value) : option (list event * result) :=
  match m with
  | Done o _ v => Some (o, ROk (show v))
  | Fail o k => Some (o, RErr k)
  | OutOfFuel => None
  end.

Lemma orel_run funs b xb new sc m m' :
  orel funs b xb new sc (val_rel funs b xb new) m m' -> run_of m' = run_of m.
Proof.
  destruct m, m'; simpl; try contradiction; auto.
  - intros [-> [_ [_ Hv]]]. rewrite (val_rel_show _ _ _ _ _ _ Hv). reflexivity.
  - intros [-> ->]. reflexivity.
Qed.

Theorem rename_fresh_preserves_thm : forall (p : program) (b : oid) (xb new : name),
  NoDup (map fst (occ_prog p)) ->
  In (b, xb) (occ_prog p) ->
  (forall fd, In fd (fst p) -> fd_id fd <> b) ->
  ~ In new (map snd (occ_prog p)) ->
  forall fuel, run fuel (rename b new p) = run fuel p.
Proof.
  intros [funs main] b xb new Hnd Hin Hb Hfresh fuel. simpl in Hb.
  assert (Hok : ok_occs b xb new (occ_prog (funs, main))).
  { apply Forall_forall. intros [o x] Hox. split; simpl.
    - intros ->. apply Hfresh. apply (in_map snd) in Hox. exact Hox.
    - intros ->. eapply nodup_fst_unique; eauto. }
  unfold occ_prog in Hok; simpl in Hok. apply Forall_app in Hok. destruct Hok as [Hokf Hokm].
  assert (Hfuns : forall fd, In fd funs ->
            ok_occs b xb new (fd_params fd) /\ ok_occs b xb new (occ_block (fd_body fd))).
  { intros fd Hfd. unfold ok_occs in *. rewrite Forall_forall in Hokf.
    split; apply Forall_forall; intros ox Hox; apply Hokf; apply in_flat_map; exists fd; split; auto;
      unfold occ_fundef; right; apply in_or_app; auto. }
  destruct (sim_all funs b xb new Hb Hfuns fuel) as [_ [_ [Hsim _]]].
  specialize (Hsim [[]] [[]] main).
  assert (Hr : env_rel funs b xb new [[]] [[]]) by (constructor; constructor).
  specialize (Hsim Hr Hokm).
  unfold run, rename. cbn [fst snd]. simpl scope_of in Hsim.
  eapply orel_run. exact Hsim.
Qed.

(* ---------------------------------------------------------------------------------------------------------- *)
(* A concrete program with shadowing and a capturing closure (names: x=0 y=1 z=2 g=3 f=10):
     fun f(x) { let y = x + 1   if y > 2 { let y = y * 2  println(string_repr(y)) }   let g = fun(z) { z + y }   g(3) }
     println(string_repr(f(5)))                                                                                   *)
Definition ex_prog : program :=
  ([ {| fd_name := 10; fd_id := 1; fd_params := [(2, 0)];
        fd_body :=
          BCons (SLet 3 1 (EBin OAdd (EVar 4 0) (EInt 1)))
         (BCons (SExpr (EIf (EBin OGt (EVar 5 1) (EInt 2))
                   (BCons (SLet 6 1 (EBin OMul (EVar 7 1) (EInt 2)))
                   (BCons (SExpr (EPrint (EVar 8 1))) BNil))
                   BNil))
         (BCons (SLet 9 3 (EFun [(11, 2)] (BCons (SExpr (EBin OAdd (EVar 12 2) (EVar 13 1))) BNil)))
         (BCons (SExpr (ECall (EVar 14 3) (ECons (EInt 3) ENil))) BNil))) |} ],
   BCons (SExpr (EPrint (ECall (EVar 15 10) (ECons (EInt 5) ENil)))) BNil).

Lemma ex_resolution :
  map (resolve ex_prog) [3; 5; 7; 6; 8; 13; 4; 12; 14; 15; 77]
  = [Some 3; Some 3; Some 3; Some 6; Some 6; Some 3; Some 2; Some 11; Some 9; Some 1; None].
Proof. vm_compute. reflexivity. Qed.

(* renaming the outer y (binder 3) rewrites 3, 5, 7 and the captured use 13, and leaves the inner y (6, 8) alone *)
Lemma ex_rename_occurrences :
  occ_prog (rename 3 99 ex_prog)
  = [(1, 10); (2, 0); (3, 99); (4, 0); (5, 99); (6, 1); (7, 99); (8, 1); (9, 3); (11, 2); (12, 2); (13, 99); (14, 3); (15, 10)].
Proof. vm_compute. reflexivity. Qed.

Lemma ex_hypotheses :
  NoDup (map fst (occ_prog ex_prog)) /\ In (3, 1) (occ_prog ex_prog) /\
  (forall fd, In fd (fst ex_prog) -> fd_id fd <> 3) /\ ~ In 99 (map snd (occ_prog ex_prog)).
Proof.
  split; [|split; [|split]].
  - vm_compute. repeat (constructor; [simpl; intuition discriminate|]). constructor.
  - vm_compute. intuition.
  - simpl. intros fd [<-|[]]. simpl. discriminate.
  - vm_compute. intuition discriminate.
Qed.

Lemma ex_runs :
  run 30 ex_prog = Some ([EvOut (PInt 12); EvOut (PInt 9)], ROk PUnit) /\
  run 30 (rename 3 99 ex_prog) = Some ([EvOut (PInt 12); EvOut (PInt 9)], ROk PUnit).
Proof. split; vm_compute; reflexivity. Qed.

(* ---------------------------------------------------------------------------------------------------------- *)
(* wrap-in-dbg *)

(* e' is e with dbg(..) wrapped around some sub-expressions, never two new wrappers directly around each other *)
Inductive dle_e : expr -> expr -> Prop :=
| DE_wrap e e' : dle_c e e' -> dle_e e (EDbg e')
| DE_core e e' : dle_c e e' -> dle_e e e'
with dle_c : expr -> expr -> Prop :=
| DC_int z : dle_c (EInt z) (EInt z)
| DC_bool b : dle_c (EBool b) (EBool b)
| DC_var u x : dle_c (EVar u x) (EVar u x)
| DC_bin op l l' r r' : dle_e l l' -> dle_e r r' -> dle_c (EBin op l r) (EBin op l' r')
| DC_call f f' a a' : dle_e f f' -> dle_es a a' -> dle_c (ECall f a) (ECall f' a')
| DC_fun ps b b' : dle_b b b' -> dle_c (EFun ps b) (EFun ps b')
| DC_if c c' t t' e e' : dle_e c c' -> dle_b t t' -> dle_b e e' -> dle_c (EIf c t e) (EIf c' t' e')
| DC_dbg e e' : dle_e e e' -> dle_c (EDbg e) (EDbg e')
| DC_print e e' : dle_e e e' -> dle_c (EPrint e) (EPrint e')
with dle_es : exprs -> exprs -> Prop :=
| DES_nil : dle_es ENil ENil
| DES_cons e e' r r' : dle_e e e' -> dle_es r r' -> dle_es (ECons e r) (ECons e' r')
with dle_b : block -> block -> Prop :=
| DB_nil : dle_b BNil BNil
| DB_cons s s' r r' : dle_s s s' -> dle_b r r' -> dle_b (BCons s r) (BCons s' r')
with dle_s : stmt -> stmt -> Prop :=
| DS_let d x e e' : dle_e e e' -> dle_s (SLet d x e) (SLet d x e')
| DS_assign u x e e' : dle_e e e' -> dle_s (SAssign u x e) (SAssign u x e')
| DS_expr e e' : dle_e e e' -> dle_s (SExpr e) (SExpr e')
| DS_while c c' b b' : dle_e c c' -> dle_b b b' -> dle_s (SWhile c b) (SWhile c' b').

Lemma dle_refl :
  (forall e, dle_c e e) /\ (forall es, dle_es es es) /\ (forall b, dle_b b b) /\ (forall s, dle_s s s).
Proof.
  apply syntax_mutind; intros; constructor; auto; apply DE_core; auto.
Qed.

Lemma dle_e_refl e : dle_e e e.
Proof. apply DE_core. apply dle_refl. Qed.

(* the wrap functions produce related syntax *)
Lemma wrap_dle :
  (forall e path, dle_e e (wrap_expr path e)) /\
  (forall es j path, dle_es es (wrap_exprs j path es)) /\
  (forall b j path, dle_b b (wrap_block j path b)) /\
  (forall s path, dle_s s (wrap_stmt path s)).
Proof.
  destruct dle_refl as [Rc [Res [Rb Rs]]].
  assert (Re : forall e, dle_e e e) by (intros; apply DE_core; auto).
  assert (Wc : forall e e', dle_e e e' -> e' = e \/ True) by auto.
  apply syntax_mutind; intros.
  - destruct path; simpl; [apply DE_wrap|apply DE_core]; auto.
  - destruct path; simpl; [apply DE_wrap|apply DE_core]; auto.
  - destruct path; simpl; [apply DE_wrap|apply DE_core]; auto.
  - destruct path as [|i rest]; simpl; [apply DE_wrap; auto|]. apply DE_core.
    destruct i; constructor; auto.
  - destruct path as [|i rest]; simpl; [apply DE_wrap; auto|]. apply DE_core.
    destruct i; constructor; auto.
  - destruct path as [|i rest]; simpl; [apply DE_wrap; auto|]. apply DE_core. constructor; auto.
  - destruct path as [|i rest]; simpl; [apply DE_wrap; auto|]. apply DE_core.
    destruct i as [|[|[|i]]]; try (constructor; auto; fail); destruct rest; constructor; auto.
  - destruct path as [|i rest]; simpl; [apply DE_wrap; auto|]. apply DE_core. constructor; auto.
  - destruct path as [|i rest]; simpl; [apply DE_wrap; auto|]. apply DE_core. constructor; auto.
  - simpl. constructor.
  - simpl. destruct j; constructor; auto.
  - simpl. constructor.
  - simpl. destruct j; constructor; auto.
  - simpl. constructor; auto.
  - simpl. constructor; auto.
  - simpl. constructor; auto.
  - simpl. destruct path as [|[|[|i]] rest]; try (constructor; auto; fail).
    destruct rest; constructor; auto.
Qed.

(* event lists: o' is o with debug lines inserted *)
Inductive ext : list event -> list event -> Prop :=
| ext_nil : ext [] []
| ext_same ev o o' : ext o o' -> ext (ev :: o) (ev :: o')
| ext_dbg s o o' : ext o o' -> ext o (EvDbg s :: o').

Lemma ext_refl o : ext o o.
Proof. induction o; constructor; auto. Qed.

Lemma ext_app a a' c c' : ext a a' -> ext c c' -> ext (a ++ c) (a' ++ c').
Proof. induction 1; simpl; intros; auto; constructor; auto. Qed.

Lemma ext_stdout o o' : ext o o' -> stdout_of o = stdout_of o'.
Proof.
  induction 1; simpl; auto. destruct ev; simpl; congruence.
Qed.

Lemma ext_stderr_length o o' : ext o o' -> length (stderr_of o) <= length (stderr_of o').
Proof.
  induction 1; simpl; auto; try lia. destruct ev; simpl; lia.
Qed.

Inductive dv : value -> value -> Prop :=
| DV_int z : dv (VInt z) (VInt z)
| DV_bool b : dv (VBool b) (VBool b)
| DV_unit : dv VUnit VUnit
| DV_fun f : dv (VFun f) (VFun f)
| DV_clo r r' ps b b' : denv r r' -> dle_b b b' -> dv (VClo r ps b) (VClo r' ps b')
with denv : env -> env -> Prop :=
| DN_nil : denv [] []
| DN_cons fr fr' r r' : dframe fr fr' -> denv r r' -> denv (fr :: r) (fr' :: r')
with dframe : frame -> frame -> Prop :=
| DF_nil : dframe [] []
| DF_cons x d v v' fr fr' : dv v v' -> dframe fr fr' -> dframe ((x, d, v) :: fr) ((x, d, v') :: fr').

Lemma dv_show v v' : dv v v' -> show v = show v'.
Proof. destruct 1; reflexivity. Qed.

Lemma dframe_lookup fr fr' x : dframe fr fr' ->
  match lookup_frame fr x with
  | Some v => exists v', lookup_frame fr' x = Some v' /\ dv v v'
  | None => lookup_frame fr' x = None
  end.
Proof. induction 1; simpl; auto. destruct (Nat.eqb x x0); eauto. Qed.

Lemma denv_lookup r r' x : denv r r' ->
  match lookup r x with
  | Some v => exists v', lookup r' x = Some v' /\ dv v v'
  | None => lookup r' x = None
  end.
Proof.
  induction 1 as [|fr fr' r r' Hfr Hr IH]; simpl; auto.
  pose proof (dframe_lookup fr fr' x Hfr) as HF.
  destruct (lookup_frame fr x).
  - destruct HF as [v' [-> Hv]]. eauto.
  - rewrite HF. exact IH.
Qed.

Lemma dframe_assign fr fr' x v v' : dframe fr fr' -> dv v v' ->
  match assign_frame fr x v with
  | Some fr1 => exists fr1', assign_frame fr' x v' = Some fr1' /\ dframe fr1 fr1'
  | None => assign_frame fr' x v' = None
  end.
Proof.
  induction 1 as [|y d w w' fr fr' Hw Hfr IH]; simpl; intros Hv; auto.
  destruct (Nat.eqb x y).
  - eexists; split; eauto. constructor; auto.
  - specialize (IH Hv). destruct (assign_frame fr x v).
    + destruct IH as [fr1' [-> H1]]. eexists; split; eauto. constructor; auto.
    + rewrite IH. reflexivity.
Qed.

Lemma denv_assign r r' x v v' : denv r r' -> dv v v' ->
  match assign r x v with
  | Some r1 => exists r1', assign r' x v' = Some r1' /\ denv r1 r1'
  | None => assign r' x v' = None
  end.
Proof.
  induction 1 as [|fr fr' r r' Hfr Hr IH]; simpl; intros Hv; auto.
  pose proof (dframe_assign fr fr' x v v' Hfr Hv) as HF.
  destruct (assign_frame fr x v).
  - destruct HF as [fr1' [-> H1]]. eexists; split; eauto. constructor; auto.
  - rewrite HF. specialize (IH Hv). destruct (assign r x v).
    + destruct IH as [r1' [-> H1]]. eexists; split; eauto. constructor; auto.
    + rewrite IH. reflexivity.
Qed.

Lemma dbind_params ps : forall vs vs' acc acc',
  Forall2 dv vs vs' -> dframe acc acc' -> dframe (bind_params ps vs acc) (bind_params ps vs' acc').
Proof.
  induction ps as [|[d x] ps IH]; simpl; intros vs vs' acc acc' Hvs Hacc; auto.
  destruct Hvs; auto. apply IH; auto. constructor; auto.
Qed.

Lemma Forall2_len' {A B} (R : A -> B -> Prop) l l' : Forall2 R l l' -> length l = length l'.
Proof. induction 1; simpl; auto. Qed.

Lemma denv_tl r r' : denv r r' -> denv (tl r) (tl r').
Proof. destruct 1; simpl; auto. constructor. Qed.

Lemma denv_push r r' x d v v' : denv r r' -> dv v v' -> denv (push_binding x d v r) (push_binding x d v' r').
Proof.
  intros Hr Hv. destruct Hr; simpl.
  - constructor; [|constructor]. constructor; auto. constructor.
  - constructor; auto. constructor; auto.
Qed.

Definition dfun (fd fd' : fundef) : Prop :=
  fd_name fd' = fd_name fd /\ fd_id fd' = fd_id fd /\ fd_params fd' = fd_params fd /\ dle_b (fd_body fd) (fd_body fd').

Lemma dfun_find funs funs' g : Forall2 dfun funs funs' ->
  match find_fun funs g with
  | Some fd => exists fd', find_fun funs' g = Some fd' /\ dfun fd fd'
  | None => find_fun funs' g = None
  end.
Proof.
  induction 1 as [|fd fd' l l' Hfd Hl IH]; simpl; auto.
  destruct Hfd as [Hn Hrest]. rewrite Hn. destruct (Nat.eqb g (fd_name fd)); auto.
  exists fd'. split; auto. split; auto.
Qed.

Definition orel_d {A} (R : A -> A -> Prop) (m m' : outcome A) : Prop :=
  match m, m' with
  | OutOfFuel, _ => True
  | Done o r a, Done o' r' a' => ext o o' /\ denv r r' /\ R a a'
  | Fail o k, Fail o' k' => ext o o' /\ k = k'
  | _, _ => False
  end.

Lemma orel_d_bind {A B} (R : A -> A -> Prop) (R2 : B -> B -> Prop) m m' k k' :
  orel_d R m m' ->
  (forall r r' a a', denv r r' -> R a a' -> orel_d R2 (k r a) (k' r' a')) ->
  orel_d R2 (bind m k) (bind m' k').
Proof.
  intros Hm Hk. destruct m as [o r a|o e|]; destruct m' as [o' r' a'|o' e'|]; simpl in *; try tauto.
  - destruct Hm as [Ho [Hr Ha]]. specialize (Hk _ _ _ _ Hr Ha).
    destruct (k r a); destruct (k' r' a'); simpl in *; try tauto.
    + destruct Hk as [Ho2 H]. split; auto using ext_app.
    + destruct Hk as [Ho2 H]. split; auto using ext_app.
Qed.

Lemma orel_d_mono {A} (R : A -> A -> Prop) (m m1 m2 : outcome A) :
  orel_d R m m1 -> (m1 <> OutOfFuel -> m2 = m1) -> orel_d R m m2.
Proof.
  intros H Hm. destruct m; simpl in *; auto; destruct m1; simpl in *; try tauto; rewrite Hm by discriminate; auto.
Qed.

Lemma orel_d_emit m m' :
  orel_d dv m m' -> orel_d dv m (bind m' (fun r v => Done [EvDbg (show v)] r v)).
Proof.
  destruct m; destruct m'; simpl; try tauto.
  intros [Ho [Hr Hv]]. repeat split; auto.
  rewrite <- (app_nil_r out). apply ext_app; auto. constructor. constructor.
Qed.

Section DbgSim.
  Variables funs funs' : list fundef.
  Hypothesis Hfuns : Forall2 dfun funs funs'.

  Definition dsim_e f g := forall r r' e e', denv r r' -> dle_e e e' ->
    orel_d dv (eval_expr funs f r e) (eval_expr funs' g r' e').
  Definition dsim_c f g := forall r r' e e', denv r r' -> dle_c e e' ->
    orel_d dv (eval_expr funs f r e) (eval_expr funs' g r' e').
  Definition dsim_a f g := forall r r' e e', denv r r' -> dle_es e e' ->
    orel_d (Forall2 dv) (eval_args funs f r e) (eval_args funs' g r' e').
  Definition dsim_b f g := forall r r' e e', denv r r' -> dle_b e e' ->
    orel_d dv (eval_block funs f r e) (eval_block funs' g r' e').
  Definition dsim_s f g := forall r r' e e', denv r r' -> dle_s e e' ->
    orel_d dv (exec_stmt funs f r e) (exec_stmt funs' g r' e').

  Lemma dsim_call f g r2 r2' cenv cenv' ps body body' vs vs' :
    dsim_b f g -> denv r2 r2' -> denv cenv cenv' -> dle_b body body' -> Forall2 dv vs vs' ->
    orel_d dv
      (bind (eval_block funs f (bind_params ps vs [] :: cenv) body) (fun _ v => Done [] r2 v))
      (bind (eval_block funs' g (bind_params ps vs' [] :: cenv') body') (fun _ v => Done [] r2' v)).
  Proof.
    intros IH Hr2 Hc Hb Hvs. eapply orel_d_bind.
    - apply IH; auto. constructor; auto. apply dbind_params; auto. constructor.
    - intros; simpl. repeat split; auto. constructor.
  Qed.

  Lemma dbinop op a a' c c' : dv a a' -> dv c c' ->
    match eval_binop op a c, eval_binop op a' c' with
    | Some v, Some v' => dv v v'
    | None, None => True
    | _, _ => False
    end.
  Proof.
    destruct 1; destruct 1; simpl; auto.
    - destruct op; simpl; auto; constructor.
    - destruct op; simpl; auto; constructor.
  Qed.

  Lemma dsim_core f g :
    dsim_e f g -> dsim_a f g -> dsim_b f g -> dsim_s f g ->
    dsim_c (S f) (S g) /\ dsim_a (S f) (S g) /\ dsim_b (S f) (S g) /\ dsim_s (S f) (S g).
  Proof.
    intros IHe IHa IHb IHs. repeat split.
    - intros r r' e e' Hr He. destruct He; simpl.
      + repeat split; auto; constructor.
      + repeat split; auto; constructor.
      + pose proof (denv_lookup r r' x Hr) as HL. destruct (lookup r x).
        * destruct HL as [v' [-> Hv]]. simpl. repeat split; auto. constructor.
        * rewrite HL. pose proof (dfun_find funs funs' x Hfuns) as HF. destruct (find_fun funs x).
          -- destruct HF as [fd' [-> _]]. simpl. repeat split; auto; constructor.
          -- rewrite HF. simpl. split; auto. constructor.
      + eapply orel_d_bind; [apply IHe; auto|]. intros r1 r1' a a' Hr1 Ha.
        eapply orel_d_bind; [apply IHe; auto|]. intros r2 r2' c c' Hr2 Hc.
        pose proof (dbinop op _ _ _ _ Ha Hc) as Hop.
        destruct (eval_binop op a c), (eval_binop op a' c'); simpl; try contradiction; repeat split; auto; constructor.
      + eapply orel_d_bind; [apply IHe; auto|]. intros r1 r1' vf vf' Hr1 Hvf.
        eapply orel_d_bind; [apply IHa; auto|]. intros r2 r2' vs vs' Hr2 Hvs.
        pose proof (Forall2_len' _ _ _ Hvs) as Hlen.
        destruct Hvf; simpl; try (split; [constructor|reflexivity]).
        * pose proof (dfun_find funs funs' f1 Hfuns) as HF. destruct (find_fun funs f1) as [fd|].
          -- destruct HF as [fd' [-> [_ [_ [Hps Hb]]]]]. rewrite Hps, <- Hlen.
             destruct (Nat.eqb (length (fd_params fd)) (length vs)); simpl; [|split; [constructor|reflexivity]].
             apply dsim_call; auto. constructor.
          -- rewrite HF. simpl. split; [constructor|reflexivity].
        * rewrite <- Hlen. destruct (Nat.eqb (length ps) (length vs)); simpl; [|split; [constructor|reflexivity]].
          apply dsim_call; auto.
      + repeat split; auto; constructor; auto.
      + eapply orel_d_bind; [apply IHe; auto|]. intros r1 r1' vc vc' Hr1 Hvc.
        destruct Hvc as [?|bb| | |]; simpl; try (split; [constructor|reflexivity]). destruct bb.
        * eapply orel_d_bind; [apply IHb; auto; constructor; auto; constructor|].
          intros; simpl. repeat split; auto using denv_tl. constructor.
        * eapply orel_d_bind; [apply IHb; auto; constructor; auto; constructor|].
          intros; simpl. repeat split; auto using denv_tl. constructor.
      + eapply orel_d_bind; [apply IHe; auto|]. intros r1 r1' v v' Hr1 Hv. simpl.
        rewrite (dv_show _ _ Hv). repeat split; auto. apply ext_refl.
      + eapply orel_d_bind; [apply IHe; auto|]. intros r1 r1' v v' Hr1 Hv. simpl.
        rewrite (dv_show _ _ Hv). repeat split; auto. apply ext_refl. constructor.
    - intros r r' e e' Hr He. destruct He; simpl.
      + repeat split; auto; constructor.
      + eapply orel_d_bind; [apply IHa; auto|]. intros r1 r1' vs vs' Hr1 Hvs.
        eapply orel_d_bind; [apply IHe; auto|]. intros r2 r2' v v' Hr2 Hv. simpl. repeat split; auto; constructor; auto.
    - intros r r' e e' Hr He. destruct He as [|s s' rest rest' Hs Hrest]; simpl.
      + repeat split; auto; constructor.
      + destruct Hrest as [|s2 s2' rest2 rest2' Hs2 Hrest2].
        * apply IHs; auto.
        * eapply orel_d_bind; [apply IHs; auto|]. intros r1 r1' a a' Hr1 Ha. apply IHb; auto. constructor; auto.
    - intros r r' e e' Hr He. destruct He; simpl.
      + eapply orel_d_bind; [apply IHe; auto|]. intros r1 r1' v v' Hr1 Hv. simpl.
        repeat split; auto using denv_push; constructor.
      + eapply orel_d_bind; [apply IHe; auto|]. intros r1 r1' v v' Hr1 Hv.
        pose proof (denv_assign r1 r1' x v v' Hr1 Hv) as HA. destruct (assign r1 x v).
        * destruct HA as [ra' [-> Hra]]. simpl. repeat split; auto; constructor.
        * rewrite HA. simpl. split; [constructor|reflexivity].
      + apply IHe; auto.
      + eapply orel_d_bind; [apply IHe; auto|]. intros r1 r1' vc vc' Hr1 Hvc.
        destruct Hvc as [?|bb| | |]; simpl; try (split; [constructor|reflexivity]). destruct bb.
        * eapply orel_d_bind; [apply IHb; auto; constructor; auto; constructor|].
          intros r2 r2' a a' Hr2 Ha. apply IHs; auto using denv_tl. constructor; auto.
        * repeat split; auto; constructor.
  Qed.
End DbgSim.

Section DbgAll.
  Variables funs funs' : list fundef.
  Hypothesis Hfuns : Forall2 dfun funs funs'.

  Lemma dsim_all f :
    dsim_e funs funs' f (2 * f) /\ dsim_a funs funs' f (2 * f) /\ dsim_b funs funs' f (2 * f) /\ dsim_s funs funs' f (2 * f).
  Proof.
    induction f as [|f [IHe [IHa [IHb IHs]]]].
    - repeat split; intros r r' e e' Hr He; simpl; auto.
    - destruct (dsim_core funs funs' Hfuns f (2 * f) IHe IHa IHb IHs) as [Cc [Ca [Cb Cs]]].
      replace (2 * S f) with (S (S (2 * f))) by lia.
      destruct (eval_mono_step funs' (S (2 * f))) as [Me [Ma [Mb Ms]]].
      repeat split; intros r r' e e' Hr He.
      + destruct He as [e e' Hc|e e' Hc].
        * change (eval_expr funs' (S (S (2 * f))) r' (EDbg e'))
            with (bind (eval_expr funs' (S (2 * f)) r' e') (fun r1 v => Done [EvDbg (show v)] r1 v)).
          apply orel_d_emit. apply Cc; auto.
        * eapply orel_d_mono; [apply Cc; eauto|]. intros H. apply Me; auto.
      + eapply orel_d_mono; [apply Ca; eauto|]. intros H. apply Ma; auto.
      + eapply orel_d_mono; [apply Cb; eauto|]. intros H. apply Mb; auto.
      + eapply orel_d_mono; [apply Cs; eauto|]. intros H. apply Ms; auto.
  Qed.
End DbgAll.

Lemma dfun_refl_list funs : Forall2 dfun funs funs.
Proof.
  induction funs; constructor; auto. repeat split; auto. apply dle_refl.
Qed.

Lemma dfun_wrap_nth k j path : forall funs, Forall2 dfun funs (wrap_nth_fun k j path funs).
Proof.
  induction k as [|k IH]; intros [|fd funs]; simpl; try constructor; auto using dfun_refl_list.
  - repeat split; auto. simpl. apply wrap_dle.
  - repeat split; auto. apply dle_refl.
Qed.

(* If the program ends (with a value or a Garden error) having produced the events out, then the program with any
   sub-expression wrapped in dbg(..) ends the same way; its events are out with debug lines inserted, so stdout is the
   same and stderr only gains lines. *)
Theorem dbg_transparent_thm : forall (pos : position) (p : program) (fuel : nat) (out : list event) (res : result),
  run fuel p = Some (out, res) ->
  exists out', run (2 * fuel) (wrap_dbg pos p) = Some (out', res)
               /\ ext out out' /\ stdout_of out' = stdout_of out
               /\ length (stderr_of out) <= length (stderr_of out').
Proof.
  intros [[k j] path] [funs main] fuel out res Hrun.
  assert (HF : Forall2 dfun funs (fst (wrap_dbg (k, j, path) (funs, main)))).
  { destruct k; simpl; auto using dfun_refl_list, dfun_wrap_nth. }
  assert (HB : dle_b main (snd (wrap_dbg (k, j, path) (funs, main)))).
  { destruct k; simpl; [apply dle_refl|apply wrap_dle]. }
  destruct (dsim_all funs _ HF fuel) as [_ [_ [Hb _]]].
  assert (Hr : denv [[]] [[]]) by (constructor; constructor).
  specialize (Hb [[]] [[]] main _ Hr HB).
  unfold run in *. cbn [fst snd] in Hrun.
  destruct (eval_block funs fuel [[]] main) as [o r v|o e|]; try discriminate;
    destruct (eval_block (fst (wrap_dbg (k, j, path) (funs, main))) (2 * fuel) [[]] (snd (wrap_dbg (k, j, path) (funs, main))))
      as [o' r' v'|o' e'|]; simpl in Hb; try contradiction; inversion Hrun; subst.
  - destruct Hb as [Ho [_ Hv]]. exists o'. rewrite (dv_show _ _ Hv).
    repeat split; auto using ext_stderr_length. symmetry. apply ext_stdout; auto.
  - destruct Hb as [Ho ->]. exists o'. repeat split; auto using ext_stderr_length. symmetry. apply ext_stdout; auto.
Qed.

(* non-vacuity on the example program of RefactorProps: wrapping the captured `y` inside the closure body *)
Lemma ex_dbg_runs :
  run 30 ex_prog = Some ([EvOut (PInt 12); EvOut (PInt 9)], ROk PUnit) /\
  run 60 (wrap_dbg (Some 0, 2, [0; 1]) ex_prog) = Some ([EvOut (PInt 12); EvDbg (PInt 6); EvOut (PInt 9)], ROk PUnit).
Proof. split; vm_compute; reflexivity. Qed.

(* ---------------------------------------------------------------------------------------------------------- *)
(* extract-variable *)

Lemma bind_done_nil {A B} r (a : A) (k : env -> A -> outcome B) : bind (Done [] r a) k = k r a.
Proof. unfold bind. destruct (k r a); reflexivity. Qed.

Lemma bind_done {A B} o1 r (a : A) (k : env -> A -> outcome B) o2 r2 b :
  k r a = Done o2 r2 b -> bind (Done o1 r a) k = Done (o1 ++ o2) r2 b.
Proof. simpl. intros ->. reflexivity. Qed.

Lemma bind_done_inv {A B} (m : outcome A) (k : env -> A -> outcome B) o r b :
  bind m k = Done o r b -> exists o1 r1 a1 o2, m = Done o1 r1 a1 /\ k r1 a1 = Done o2 r b /\ o = o1 ++ o2.
Proof.
  destruct m as [o1 r1 a1|o1 e|]; simpl; try discriminate.
  destruct (k r1 a1) as [o2 r2 b2|o2 e|] eqn:E; try discriminate.
  intros H; inversion H; subst. eexists _, _, _, _. eauto.
Qed.

Lemma eval_expr_mono funs f f' r e :
  f <= f' -> eval_expr funs f r e <> OutOfFuel -> eval_expr funs f' r e = eval_expr funs f r e.
Proof.
  induction 1 as [|f' Hle IH]; auto. intros H.
  destruct (eval_mono_step funs f') as [He _]. rewrite He; rewrite IH; auto.
Qed.

Lemma exec_stmt_mono funs f f' r s :
  f <= f' -> exec_stmt funs f r s <> OutOfFuel -> exec_stmt funs f' r s = exec_stmt funs f r s.
Proof.
  induction 1 as [|f' Hle IH]; auto. intros H.
  destruct (eval_mono_step funs f') as [_ [_ [_ Hs]]]. rewrite Hs; rewrite IH; auto.
Qed.

(* ---------------------------------------------------------------------------------------------------------- *)
(* Weakening: extra bindings of a name that occurs nowhere in the code change nothing *)

Section Weaken.
  Variable funs : list fundef.
  Variable x : name.

  Definition nox (l : list (oid * name)) : Prop := Forall (fun ox => snd ox <> x) l.

  Hypothesis Hfuns : forall fd, In fd funs -> nox (fd_params fd) /\ nox (occ_block (fd_body fd)).

  Inductive wv : value -> value -> Prop :=
  | WV_int z : wv (VInt z) (VInt z)
  | WV_bool b : wv (VBool b) (VBool b)
  | WV_unit : wv VUnit VUnit
  | WV_fun f : wv (VFun f) (VFun f)
  | WV_clo r r' ps b : wenv r r' -> nox ps -> nox (occ_block b) -> wv (VClo r ps b) (VClo r' ps b)
  with wenv : env -> env -> Prop :=
  | WE_nil : wenv [] []
  | WE_nil_ins fr' : wframe [] fr' -> wenv [] [fr']
  | WE_cons fr fr' r r' : wframe fr fr' -> wenv r r' -> wenv (fr :: r) (fr' :: r')
  with wframe : frame -> frame -> Prop :=
  | WF_nil : wframe [] []
  | WF_same y d v v' fr fr' : y <> x -> wv v v' -> wframe fr fr' -> wframe ((y, d, v) :: fr) ((y, d, v') :: fr')
  | WF_ins d v fr fr' : wframe fr fr' -> wframe fr ((x, d, v) :: fr').

  Lemma wv_show v v' : wv v v' -> show v = show v'.
  Proof. destruct 1; reflexivity. Qed.

  Lemma wframe_lookup fr fr' y : wframe fr fr' -> y <> x ->
    match lookup_frame fr y with
    | Some v => exists v', lookup_frame fr' y = Some v' /\ wv v v'
    | None => lookup_frame fr' y = None
    end.
  Proof.
    induction 1 as [|z d v v' fr fr' Hz Hv Hfr IH|d v fr fr' Hfr IH]; simpl; intros Hy; auto.
    - destruct (Nat.eqb y z); [eexists; split; eauto|apply IH; auto].
    - destruct (Nat.eqb_spec y x); [contradiction|apply IH; auto].
  Qed.

  Lemma wenv_lookup r r' y : wenv r r' -> y <> x ->
    match lookup r y with
    | Some v => exists v', lookup r' y = Some v' /\ wv v v'
    | None => lookup r' y = None
    end.
  Proof.
    induction 1 as [|fr' Hfr|fr fr' r r' Hfr Hr IH]; intros Hy.
    - reflexivity.
    - pose proof (wframe_lookup _ _ y Hfr Hy) as HF. simpl in HF. simpl. rewrite HF. reflexivity.
    - pose proof (wframe_lookup _ _ y Hfr Hy) as HF. simpl. destruct (lookup_frame fr y) as [v|].
      + destruct HF as [v' [HF Hv]]. rewrite HF. exists v'. split; auto.
      + rewrite HF. apply IH; auto.
  Qed.

  Lemma wframe_assign fr fr' y v v' : wframe fr fr' -> y <> x -> wv v v' ->
    match assign_frame fr y v with
    | Some fr1 => exists fr1', assign_frame fr' y v' = Some fr1' /\ wframe fr1 fr1'
    | None => assign_frame fr' y v' = None
    end.
  Proof.
    induction 1 as [|z d w w' fr fr' Hz Hw Hfr IH|d w fr fr' Hfr IH]; simpl; intros Hy Hv; auto.
    - destruct (Nat.eqb y z).
      + eexists; split; eauto. constructor; auto.
      + specialize (IH Hy Hv). destruct (assign_frame fr y v).
        * destruct IH as [fr1' [-> H1]]. eexists; split; eauto. constructor; auto.
        * rewrite IH. reflexivity.
    - destruct (Nat.eqb_spec y x); [contradiction|]. specialize (IH Hy Hv).
      destruct (assign_frame fr y v).
      + destruct IH as [fr1' [-> H1]]. eexists; split; eauto. apply WF_ins; auto.
      + rewrite IH. reflexivity.
  Qed.

  Lemma wenv_assign r r' y v v' : wenv r r' -> y <> x -> wv v v' ->
    match assign r y v with
    | Some r1 => exists r1', assign r' y v' = Some r1' /\ wenv r1 r1'
    | None => assign r' y v' = None
    end.
  Proof.
    induction 1 as [|fr' Hfr|fr fr' r r' Hfr Hr IH]; simpl; intros Hy Hv; auto.
    - pose proof (wframe_assign _ _ y v v' Hfr Hy Hv) as HF. simpl in HF. rewrite HF. reflexivity.
    - pose proof (wframe_assign _ _ y v v' Hfr Hy Hv) as HF. destruct (assign_frame fr y v).
      + destruct HF as [fr1' [-> H1]]. eexists; split; eauto. constructor; auto.
      + rewrite HF. specialize (IH Hy Hv). destruct (assign r y v).
        * destruct IH as [r1' [-> H1]]. eexists; split; eauto. constructor; auto.
        * rewrite IH. reflexivity.
  Qed.

  Lemma wbind_params ps : forall vs vs' acc acc',
    nox ps -> Forall2 wv vs vs' -> wframe acc acc' -> wframe (bind_params ps vs acc) (bind_params ps vs' acc').
  Proof.
    induction ps as [|[d y] ps IH]; simpl; intros vs vs' acc acc' Hok Hvs Hacc; auto.
    inversion Hok; subst. destruct Hvs; auto. apply IH; auto. constructor; auto.
  Qed.

  Lemma wenv_tl r r' : wenv r r' -> wenv (tl r) (tl r').
  Proof. destruct 1; simpl; auto; constructor. Qed.

  Lemma wenv_push r r' y d v v' : wenv r r' -> y <> x -> wv v v' ->
    wenv (push_binding y d v r) (push_binding y d v' r').
  Proof.
    intros Hr Hy Hv. destruct Hr; simpl.
    - constructor; [|constructor]. constructor; auto. constructor.
    - constructor; [|constructor]. constructor; auto.
    - constructor; auto. constructor; auto.
  Qed.

  (* the extra binding itself *)
  Lemma wenv_ins r r' d v : wenv r r' -> wenv r (push_binding x d v r').
  Proof.
    intros Hr. destruct Hr; simpl.
    - apply WE_nil_ins. apply WF_ins. constructor.
    - apply WE_nil_ins. apply WF_ins. auto.
    - constructor; auto. apply WF_ins. auto.
  Qed.

  Lemma wenv_nil_frame r r' : wenv r r' -> wenv ([] :: r) ([] :: r').
  Proof. intros. constructor; auto. constructor. Qed.

  Definition orel_w {A} (R : A -> A -> Prop) (m m' : outcome A) : Prop :=
    match m, m' with
    | Done o r a, Done o' r' a' => o = o' /\ wenv r r' /\ R a a'
    | Fail o k, Fail o' k' => o = o' /\ k = k'
    | OutOfFuel, OutOfFuel => True
    | _, _ => False
    end.

  Lemma orel_w_bind {A B} (R : A -> A -> Prop) (R2 : B -> B -> Prop) m m' k k' :
    orel_w R m m' ->
    (forall r r' a a', wenv r r' -> R a a' -> orel_w R2 (k r a) (k' r' a')) ->
    orel_w R2 (bind m k) (bind m' k').
  Proof.
    intros Hm Hk. destruct m, m'; simpl in *; try contradiction; auto.
    destruct Hm as [-> [Hr Ha]]. specialize (Hk _ _ _ _ Hr Ha).
    destruct (k r a), (k' r0 a0); simpl in *; try contradiction; auto.
    - destruct Hk as [-> H]. auto.
    - destruct Hk as [-> H]. auto.
  Qed.

  Lemma wbinop op a a' c c' : wv a a' -> wv c c' ->
    match eval_binop op a c, eval_binop op a' c' with
    | Some v, Some v' => wv v v'
    | None, None => True
    | _, _ => False
    end.
  Proof.
    destruct 1; destruct 1; simpl; auto.
    - destruct op; simpl; auto; constructor.
    - destruct op; simpl; auto; constructor.
  Qed.

  Ltac noxinv :=
    repeat match goal with
           | H : nox (_ ++ _) |- _ => apply Forall_app in H; destruct H
           | H : nox (_ :: _) |- _ => apply Forall_cons_iff in H; destruct H
           | H : Forall _ (_ ++ _) |- _ => apply Forall_app in H; destruct H
           | H : Forall _ (_ :: _) |- _ => apply Forall_cons_iff in H; destruct H
           end.

  Definition ws_expr f := forall r r' e, wenv r r' -> nox (occ_expr e) ->
    orel_w wv (eval_expr funs f r e) (eval_expr funs f r' e).
  Definition ws_args f := forall r r' es, wenv r r' -> nox (occ_exprs es) ->
    orel_w (Forall2 wv) (eval_args funs f r es) (eval_args funs f r' es).
  Definition ws_block f := forall r r' bl, wenv r r' -> nox (occ_block bl) ->
    orel_w wv (eval_block funs f r bl) (eval_block funs f r' bl).
  Definition ws_stmt f := forall r r' s, wenv r r' -> nox (occ_stmt s) ->
    orel_w wv (exec_stmt funs f r s) (exec_stmt funs f r' s).

  Lemma ws_call f r2 r2' cenv cenv' ps body vs vs' :
    ws_block f -> wenv r2 r2' -> wenv cenv cenv' -> nox ps -> nox (occ_block body) -> Forall2 wv vs vs' ->
    orel_w wv
      (bind (eval_block funs f (bind_params ps vs [] :: cenv) body) (fun _ v => Done [] r2 v))
      (bind (eval_block funs f (bind_params ps vs' [] :: cenv') body) (fun _ v => Done [] r2' v)).
  Proof.
    intros IH Hr2 Hc Hps Hb Hvs. eapply orel_w_bind.
    - apply IH; auto. constructor; auto. apply wbind_params; auto. constructor.
    - intros; simpl. auto.
  Qed.

  Lemma ws_all : forall f, ws_expr f /\ ws_args f /\ ws_block f /\ ws_stmt f.
  Proof.
    induction f as [|f [IHe [IHa [IHb IHs]]]].
    { repeat split; intros r r' e Hr Hok; simpl; auto. }
    repeat split.
    - intros r r' e Hr Hok. destruct e; simpl in Hok |- *.
      + repeat split; auto; constructor.
      + repeat split; auto; constructor.
      + noxinv. simpl in H.
        pose proof (wenv_lookup r r' x0 Hr H) as HL. destruct (lookup r x0).
        * destruct HL as [v' [-> Hv]]. simpl. auto.
        * rewrite HL. destruct (find_fun funs x0); simpl; auto. repeat split; auto. constructor.
      + noxinv. eapply orel_w_bind; [apply IHe; auto|]. intros r1 r1' a a' Hr1 Ha.
        eapply orel_w_bind; [apply IHe; auto|]. intros r2 r2' c c' Hr2 Hc.
        pose proof (wbinop op _ _ _ _ Ha Hc) as Hop.
        destruct (eval_binop op a c), (eval_binop op a' c'); simpl; try contradiction; auto.
      + noxinv. eapply orel_w_bind; [apply IHe; auto|]. intros r1 r1' vf vf' Hr1 Hvf.
        eapply orel_w_bind; [apply IHa; auto|]. intros r2 r2' vs vs' Hr2 Hvs.
        pose proof (Forall2_len _ _ _ Hvs) as Hlen.
        destruct Hvf; simpl; auto.
        * destruct (find_fun funs f0) as [fd|] eqn:Ef; simpl; auto.
          rewrite <- Hlen. destruct (Nat.eqb (length (fd_params fd)) (length vs)); simpl; auto.
          destruct (Hfuns fd (find_fun_in _ _ _ Ef)) as [Hps Hbody].
          apply ws_call; auto. constructor.
        * rewrite <- Hlen. destruct (Nat.eqb (length ps) (length vs)); simpl; auto.
          apply ws_call; auto.
      + noxinv. repeat split; auto. constructor; auto.
      + noxinv. eapply orel_w_bind; [apply IHe; auto|]. intros r1 r1' vc vc' Hr1 Hvc.
        destruct Hvc as [?|bb| | |]; simpl; auto. destruct bb.
        * eapply orel_w_bind; [apply IHb; auto using wenv_nil_frame|].
          intros; simpl. repeat split; auto using wenv_tl.
        * eapply orel_w_bind; [apply IHb; auto using wenv_nil_frame|].
          intros; simpl. repeat split; auto using wenv_tl.
      + eapply orel_w_bind; [apply IHe; auto|]. intros r1 r1' v v' Hr1 Hv. simpl.
        rewrite (wv_show _ _ Hv). auto.
      + eapply orel_w_bind; [apply IHe; auto|]. intros r1 r1' v v' Hr1 Hv. simpl.
        rewrite (wv_show _ _ Hv). repeat split; auto. constructor.
    - intros r r' es Hr Hok. destruct es; simpl in Hok |- *.
      + repeat split; auto.
      + noxinv. eapply orel_w_bind; [apply IHa; auto|]. intros r1 r1' vs vs' Hr1 Hvs.
        eapply orel_w_bind; [apply IHe; auto|]. intros r2 r2' v v' Hr2 Hv. simpl. repeat split; auto.
    - intros r r' bl Hr Hok. destruct bl as [|s [|s2 rest]]; simpl in Hok |- *.
      + repeat split; auto. constructor.
      + noxinv. apply IHs; auto.
      + noxinv. eapply orel_w_bind; [apply IHs; auto|]. intros r1 r1' a a' Hr1 Ha.
        apply IHb; auto. simpl. apply Forall_app; auto.
    - intros r r' s Hr Hok. destruct s; simpl in Hok |- *.
      + noxinv. simpl in H. eapply orel_w_bind; [apply IHe; auto|]. intros r1 r1' v v' Hr1 Hv. simpl.
        repeat split; auto using wenv_push. constructor.
      + noxinv. simpl in H. eapply orel_w_bind; [apply IHe; auto|]. intros r1 r1' v v' Hr1 Hv.
        pose proof (wenv_assign r1 r1' x0 v v' Hr1 H Hv) as HA. destruct (assign r1 x0 v).
        * destruct HA as [ra' [-> Hra]]. simpl. repeat split; auto. constructor.
        * rewrite HA. simpl. auto.
      + apply IHe; auto.
      + noxinv. eapply orel_w_bind; [apply IHe; auto|]. intros r1 r1' vc vc' Hr1 Hvc.
        destruct Hvc as [?|bb| | |]; simpl; auto. destruct bb.
        * eapply orel_w_bind; [apply IHb; auto using wenv_nil_frame|].
          intros r2 r2' a a' Hr2 Ha. apply IHs; auto using wenv_tl. simpl. apply Forall_app; auto.
        * repeat split; auto. constructor.
  Qed.
End Weaken.

(* ---------------------------------------------------------------------------------------------------------- *)
(* Pure expressions *)

Inductive pres := PV (v : value) | PE (k : err).

Definition of_pres (r : env) (p : pres) : outcome value :=
  match p with PV v => Done [] r v | PE k => Fail [] k end.

Section Pure.
  Variable funs : list fundef.

  Fixpoint peval (r : env) (e : expr) : pres :=
    match e with
    | EInt z => PV (VInt z)
    | EBool b => PV (VBool b)
    | EVar _ y =>
        match lookup r y with
        | Some v => PV v
        | None => match find_fun funs y with Some _ => PV (VFun y) | None => PE ErrUnbound end
        end
    | EBin op l rr =>
        match peval r l with
        | PV a => match peval r rr with
                  | PV b => match eval_binop op a b with Some v => PV v | None => PE ErrType end
                  | PE k => PE k
                  end
        | PE k => PE k
        end
    | _ => PE ErrType
    end.

  Ltac sub_nonoof H m :=
    let E := fresh "E" in
    assert (m <> OutOfFuel) by (intros E; rewrite E in H; simpl in H; congruence).

  Lemma eval_pure e : forall f r, pure e = true -> eval_expr funs f r e <> OutOfFuel ->
    eval_expr funs f r e = of_pres r (peval r e).
  Proof.
    induction e as [z|b|u y|op l IHl rr IHr|fe IHf args|ps body|c IHc t el|e1 IH1|e1 IH1];
      intros f r Hp H; simpl in Hp; try discriminate; destruct f as [|f]; try (simpl in H; congruence).
    - reflexivity.
    - reflexivity.
    - simpl. destruct (lookup r y); auto. destruct (find_fun funs y); auto.
    - apply andb_prop in Hp. destruct Hp as [Hl Hr]. simpl in H |- *.
      sub_nonoof H (eval_expr funs f r l).
      rewrite (IHl f r Hl H0) in *. destruct (peval r l) as [a|k]; simpl of_pres in *; [|reflexivity].
      rewrite bind_done_nil in *.
      sub_nonoof H (eval_expr funs f r rr).
      rewrite (IHr f r Hr H1) in *. destruct (peval r rr) as [c|k]; simpl of_pres in *; [|reflexivity].
      rewrite bind_done_nil. destruct (eval_binop op a c); reflexivity.
  Qed.

  Lemma pure_done e f r o r1 a : pure e = true -> eval_expr funs f r e = Done o r1 a -> o = [] /\ r1 = r /\ peval r e = PV a.
  Proof.
    intros Hp H. rewrite (eval_pure e f r Hp) in H by congruence.
    destruct (peval r e); simpl in H; inversion H; auto.
  Qed.

  Lemma pure_es_done es : forall f r o r1 vs, pure_es es = true -> eval_args funs f r es = Done o r1 vs -> o = [] /\ r1 = r.
  Proof.
    induction es as [|e rest IH]; intros f r o r1 vs Hp H; destruct f as [|f]; simpl in H; try discriminate.
    - inversion H; auto.
    - simpl in Hp. apply andb_prop in Hp. destruct Hp as [He Hrest].
      apply bind_done_inv in H. destruct H as [o1 [r' [vs1 [o2 [H1 [H2 ->]]]]]].
      destruct (IH _ _ _ _ _ Hrest H1) as [-> ->].
      apply bind_done_inv in H2. destruct H2 as [o3 [r'' [v [o4 [H3 [H4 ->]]]]]].
      destruct (pure_done _ _ _ _ _ _ He H3) as [-> [-> _]]. inversion H4; auto.
  Qed.

  Lemma lookup_push_neq x d v r y : y <> x -> lookup (push_binding x d v r) y = lookup r y.
  Proof. intros Hy. destruct r; simpl; destruct (Nat.eqb_spec y x); try contradiction; auto. Qed.

  Lemma lookup_push_same x d v r : lookup (push_binding x d v r) x = Some v.
  Proof. destruct r; simpl; rewrite Nat.eqb_refl; reflexivity. Qed.

  Lemma peval_push x d v r e : pure e = true -> Forall (fun ox => snd ox <> x) (occ_expr e) ->
    peval (push_binding x d v r) e = peval r e.
  Proof.
    induction e as [z|b|u y|op l IHl rr IHr|fe IHf args|ps body|c IHc t el|e1 IH1|e1 IH1];
      intros Hp Hn; simpl in Hp; try discriminate; simpl; auto.
    - simpl in Hn. inversion Hn; subst. simpl in H1. rewrite lookup_push_neq; auto.
    - apply andb_prop in Hp. destruct Hp as [Hl Hr]. simpl in Hn. apply Forall_app in Hn. destruct Hn as [Hnl Hnr].
      rewrite IHl, IHr; auto.
  Qed.

  (* ---- the selected occurrence: replacing it by a variable that holds its value changes nothing *)
  Section Hole.
    Variable r : env.
    Variable x : name.
    Variable u : oid.
    Variable e0 : expr.
    Hypothesis Hp0 : pure e0 = true.

    Lemma hole_done :
      (forall e path f o r1 a, covered_expr path e = true -> get_expr path e = Some e0 ->
         eval_expr funs f r e = Done o r1 a -> exists g v, g <= f /\ eval_expr funs g r e0 = Done [] r v) /\
      (forall es j path f o r1 vs, covered_exprs j path es = true -> get_exprs j path es = Some e0 ->
         eval_args funs f r es = Done o r1 vs -> exists g v, g <= f /\ eval_expr funs g r e0 = Done [] r v) /\
      (forall b : block, True) /\ (forall s : stmt, True).
    Proof.
      assert (Here : forall e f o r1 a, Some e = Some e0 -> eval_expr funs f r e = Done o r1 a ->
                exists g v, g <= f /\ eval_expr funs g r e0 = Done [] r v).
      { intros e f o r1 a E H. inversion E; subst.
        destruct (pure_done _ _ _ _ _ _ Hp0 H) as [-> [-> _]]. exists f, a. auto. }
      apply syntax_mutind; auto; intros.
      - destruct path; simpl in *; [eauto|discriminate].
      - destruct path; simpl in *; [eauto|discriminate].
      - destruct path; simpl in *; [eauto|discriminate].
      - (* EBin *) destruct path as [|i rest]; [simpl in *; eauto|]. simpl in H1, H2.
        destruct f as [|f]; [simpl in H3; discriminate|]. simpl in H3.
        apply bind_done_inv in H3. destruct H3 as [o1 [r' [a1 [o2 [E1 [E2 ->]]]]]].
        destruct i.
        + destruct (H _ _ _ _ _ H1 H2 E1) as [g [v [Hg Hv]]]. exists g, v. split; auto.
        + apply andb_prop in H1. destruct H1 as [Hl Hc].
          destruct (pure_done _ _ _ _ _ _ Hl E1) as [-> [-> _]].
          apply bind_done_inv in E2. destruct E2 as [o3 [r'' [a2 [o4 [E3 [E4 ->]]]]]].
          destruct (H0 _ _ _ _ _ Hc H2 E3) as [g [v [Hg Hv]]]. exists g, v. split; auto.
      - (* ECall *) destruct path as [|i rest]; [simpl in *; eauto|]. simpl in H1, H2.
        destruct f0 as [|f0]; [simpl in H3; discriminate|]. simpl in H3.
        apply bind_done_inv in H3. destruct H3 as [o1 [r' [a1 [o2 [E1 [E2 ->]]]]]].
        destruct i.
        + destruct (H _ _ _ _ _ H1 H2 E1) as [g [v [Hg Hv]]]. exists g, v. split; auto.
        + apply andb_prop in H1. destruct H1 as [Hl Hc].
          destruct (pure_done _ _ _ _ _ _ Hl E1) as [-> [-> _]].
          apply bind_done_inv in E2. destruct E2 as [o3 [r'' [a2 [o4 [E3 [E4 ->]]]]]].
          destruct (H0 _ _ _ _ _ _ Hc H2 E3) as [g [v [Hg Hv]]]. exists g, v. split; auto.
      - destruct path; simpl in *; [eauto|discriminate].
      - (* EIf *) destruct path as [|i rest]; [simpl in *; eauto|]. simpl in H2, H3.
        destruct i; [|discriminate].
        destruct f as [|f]; [simpl in H4; discriminate|]. simpl in H4.
        apply bind_done_inv in H4. destruct H4 as [o1 [r' [a1 [o2 [E1 [E2 ->]]]]]].
        destruct (H _ _ _ _ _ H2 H3 E1) as [g [v [Hg Hv]]]. exists g, v. split; auto.
      - (* EDbg *) destruct path as [|i rest]; [simpl in *; eauto|]. simpl in H0, H1.
        destruct f as [|f]; [simpl in H2; discriminate|]. simpl in H2.
        apply bind_done_inv in H2. destruct H2 as [o1 [r' [a1 [o2 [E1 [E2 ->]]]]]].
        destruct (H _ _ _ _ _ H0 H1 E1) as [g [v [Hg Hv]]]. exists g, v. split; auto.
      - (* EPrint *) destruct path as [|i rest]; [simpl in *; eauto|]. simpl in H0, H1.
        destruct f as [|f]; [simpl in H2; discriminate|]. simpl in H2.
        apply bind_done_inv in H2. destruct H2 as [o1 [r' [a1 [o2 [E1 [E2 ->]]]]]].
        destruct (H _ _ _ _ _ H0 H1 E1) as [g [v [Hg Hv]]]. exists g, v. split; auto.
      - simpl in *. discriminate.
      - (* ECons *) simpl in H1, H2.
        destruct f as [|f]; [simpl in H3; discriminate|]. simpl in H3.
        apply bind_done_inv in H3. destruct H3 as [o1 [r' [vs1 [o2 [E1 [E2 ->]]]]]].
        destruct j.
        + apply andb_prop in H1. destruct H1 as [Hrest Hc].
          destruct (pure_es_done _ _ _ _ _ _ Hrest E1) as [-> ->].
          apply bind_done_inv in E2. destruct E2 as [o3 [r'' [a2 [o4 [E3 [E4 ->]]]]]].
          destruct (H _ _ _ _ _ Hc H2 E3) as [g [v [Hg Hv]]]. exists g, v. split; auto.
        + destruct (H0 _ _ _ _ _ _ H1 H2 E1) as [g [v [Hg Hv]]]. exists g, v. split; auto.
    Qed.
  End Hole.
End Pure.

Section HoleEq.
  Variable funs : list fundef.
  Variable r : env.
  Variable x : name.
  Variable u : oid.
  Variable e0 : expr.
  Variable v : value.
  Hypothesis Hp0 : pure e0 = true.
  Hypothesis Hx : lookup r x = Some v.
  Hypothesis He0 : peval funs r e0 = PV v.

  Ltac sub_nonoof H m N :=
    let E := fresh "E" in
    assert (N : m <> OutOfFuel) by (intros E; rewrite E in H; simpl in H; congruence).

  Lemma here_eq f : eval_expr funs f r e0 <> OutOfFuel -> eval_expr funs f r (EVar u x) = eval_expr funs f r e0.
  Proof.
    intros H. rewrite (eval_pure funs e0 f r Hp0 H), He0. destruct f as [|f]; [simpl in H; congruence|].
    simpl. rewrite Hx. reflexivity.
  Qed.

  Lemma hole_eq :
    (forall e path f, covered_expr path e = true -> get_expr path e = Some e0 ->
       eval_expr funs f r e <> OutOfFuel ->
       eval_expr funs f r (put_expr path (EVar u x) e) = eval_expr funs f r e) /\
    (forall es j path f, covered_exprs j path es = true -> get_exprs j path es = Some e0 ->
       eval_args funs f r es <> OutOfFuel ->
       eval_args funs f r (put_exprs j path (EVar u x) es) = eval_args funs f r es) /\
    (forall b : block, True) /\ (forall s : stmt, True).
  Proof.
    assert (Here : forall e f, Some e = Some e0 -> eval_expr funs f r e <> OutOfFuel ->
              eval_expr funs f r (EVar u x) = eval_expr funs f r e).
    { intros e f E H. inversion E; subst. apply here_eq; auto. }
    apply syntax_mutind; auto; intros.
    - destruct path; simpl in *; [auto|discriminate].
    - destruct path; simpl in *; [auto|discriminate].
    - destruct path; simpl in *; [auto|discriminate].
    - (* EBin *) destruct path as [|i rest]; [simpl in *; auto|]. simpl in H1, H2.
      destruct f as [|f]; [simpl in H3; congruence|].
      destruct i; simpl put_expr; simpl in H3 |- *.
      + sub_nonoof H3 (eval_expr funs f r l) N1. rewrite (H _ _ H1 H2 N1). reflexivity.
      + apply andb_prop in H1. destruct H1 as [Hl Hc].
        sub_nonoof H3 (eval_expr funs f r l) N1.
        rewrite (eval_pure funs l f r Hl N1) in *. destruct (peval funs r l); simpl of_pres in *; [|reflexivity].
        rewrite !bind_done_nil in *.
        sub_nonoof H3 (eval_expr funs f r r0) N2. rewrite (H0 _ _ Hc H2 N2). reflexivity.
    - (* ECall *) destruct path as [|i rest]; [simpl in *; auto|]. simpl in H1, H2.
      destruct f0 as [|f0]; [simpl in H3; congruence|].
      destruct i; simpl put_expr; simpl in H3 |- *.
      + sub_nonoof H3 (eval_expr funs f0 r f) N1. rewrite (H _ _ H1 H2 N1). reflexivity.
      + apply andb_prop in H1. destruct H1 as [Hl Hc].
        sub_nonoof H3 (eval_expr funs f0 r f) N1.
        rewrite (eval_pure funs f f0 r Hl N1) in *. destruct (peval funs r f); simpl of_pres in *; [|reflexivity].
        rewrite !bind_done_nil in *.
        sub_nonoof H3 (eval_args funs f0 r args) N2. rewrite (H0 _ _ _ Hc H2 N2). reflexivity.
    - destruct path; simpl in *; [auto|discriminate].
    - (* EIf *) destruct path as [|i rest]; [simpl in *; auto|]. simpl in H2, H3.
      destruct i; [|discriminate].
      destruct f as [|f]; [simpl in H4; congruence|]. simpl put_expr; simpl in H4 |- *.
      sub_nonoof H4 (eval_expr funs f r c) N1. rewrite (H _ _ H2 H3 N1). reflexivity.
    - (* EDbg *) destruct path as [|i rest]; [simpl in *; auto|]. simpl in H0, H1.
      destruct f as [|f]; [simpl in H2; congruence|]. simpl put_expr; simpl in H2 |- *.
      sub_nonoof H2 (eval_expr funs f r e) N1. rewrite (H _ _ H0 H1 N1). reflexivity.
    - (* EPrint *) destruct path as [|i rest]; [simpl in *; auto|]. simpl in H0, H1.
      destruct f as [|f]; [simpl in H2; congruence|]. simpl put_expr; simpl in H2 |- *.
      sub_nonoof H2 (eval_expr funs f r e) N1. rewrite (H _ _ H0 H1 N1). reflexivity.
    - (* ECons *) simpl in H1, H2.
      destruct f as [|f]; [simpl in H3; congruence|].
      destruct j; simpl put_exprs; simpl in H3 |- *.
      + apply andb_prop in H1. destruct H1 as [Hrest Hc].
        destruct (eval_args funs f r es) as [o1 r1 vs|o1 k|] eqn:E1; [|reflexivity|reflexivity].
        destruct (pure_es_done funs _ _ _ _ _ _ Hrest E1) as [-> ->].
        rewrite !bind_done_nil in *.
        sub_nonoof H3 (eval_expr funs f r e) N1. rewrite (H _ _ Hc H2 N1). reflexivity.
      + sub_nonoof H3 (eval_args funs f r es) N1. rewrite (H0 _ _ _ H1 H2 N1). reflexivity.
  Qed.

  Lemma hole_eq_s s path f : covered_stmt path s = true -> get_stmt path s = Some e0 ->
    exec_stmt funs f r s <> OutOfFuel ->
    exec_stmt funs f r (put_stmt path (EVar u x) s) = exec_stmt funs f r s.
  Proof.
    destruct hole_eq as [He _].
    intros Hc Hg H. destruct f as [|f]; [simpl in H; congruence|].
    destruct s; simpl in Hc, Hg; try discriminate; simpl put_stmt; simpl in H |- *.
    - sub_nonoof H (eval_expr funs f r e) N1. rewrite (He _ _ _ Hc Hg N1). reflexivity.
    - sub_nonoof H (eval_expr funs f r e) N1. rewrite (He _ _ _ Hc Hg N1). reflexivity.
    - apply He; auto.
  Qed.
End HoleEq.

Lemma hole_done_s funs r e0 s path f o r1 a : pure e0 = true ->
  covered_stmt path s = true -> get_stmt path s = Some e0 ->
  exec_stmt funs f r s = Done o r1 a -> exists g v, g <= f /\ eval_expr funs g r e0 = Done [] r v.
Proof.
  intros Hp Hc Hg H. destruct (hole_done funs r e0 Hp) as [He _].
  destruct f as [|f]; [simpl in H; discriminate|].
  destruct s; simpl in Hc, Hg; try discriminate; simpl in H.
  - apply bind_done_inv in H. destruct H as [o1 [r' [a1 [o2 [E1 _]]]]].
    destruct (He _ _ _ _ _ _ Hc Hg E1) as [g [v [Hle Hv]]]. exists g, v. split; auto.
  - apply bind_done_inv in H. destruct H as [o1 [r' [a1 [o2 [E1 _]]]]].
    destruct (He _ _ _ _ _ _ Hc Hg E1) as [g [v [Hle Hv]]]. exists g, v. split; auto.
  - destruct (He _ _ _ _ _ _ Hc Hg H) as [g [v [Hle Hv]]]. exists g, v. split; auto.
Qed.

(* the occurrences of the selected expression are occurrences of the statement *)
Lemma get_occ_incl e0 :
  (forall e path, get_expr path e = Some e0 -> incl (occ_expr e0) (occ_expr e)) /\
  (forall es j path, get_exprs j path es = Some e0 -> incl (occ_expr e0) (occ_exprs es)) /\
  (forall b : block, True) /\ (forall s : stmt, True).
Proof.
  assert (Here : forall e, Some e = Some e0 -> incl (occ_expr e0) (occ_expr e)).
  { intros e E. inversion E. apply incl_refl. }
  apply syntax_mutind; auto; intros.
  - destruct path; [apply Here; simpl in * |-; assumption|simpl in *; discriminate].
  - destruct path; [apply Here; simpl in * |-; assumption|simpl in *; discriminate].
  - destruct path; [apply Here; simpl in * |-; assumption|simpl in *; discriminate].
  - destruct path as [|i rest]; [apply Here; simpl in * |-; assumption|]. simpl in *. destruct i.
    + apply incl_appl. eauto.
    + apply incl_appr. eauto.
  - destruct path as [|i rest]; [apply Here; simpl in * |-; assumption|]. simpl in *. destruct i.
    + apply incl_appl. eauto.
    + apply incl_appr. eauto.
  - destruct path; [apply Here; simpl in * |-; assumption|simpl in *; discriminate].
  - destruct path as [|i rest]; [apply Here; simpl in * |-; assumption|]. simpl in *. destruct i; [|discriminate].
    apply incl_appl. eauto.
  - destruct path as [|i rest]; [apply Here; simpl in * |-; assumption|]. simpl in *. eauto.
  - destruct path as [|i rest]; [apply Here; simpl in * |-; assumption|]. simpl in *. eauto.
  - simpl in *. discriminate.
  - simpl in *. destruct j.
    + apply incl_appl. eauto.
    + apply incl_appr. eauto.
Qed.

Lemma get_stmt_nox x s path e0 : nox x (occ_stmt s) -> get_stmt path s = Some e0 -> nox x (occ_expr e0).
Proof.
  intros Hn Hg. destruct (get_occ_incl e0) as [He _]. unfold nox in *. rewrite Forall_forall in *.
  intros ox Hin. apply Hn. destruct s; simpl in Hg |- *; try discriminate.
  - right. eapply He; eauto.
  - right. eapply He; eauto.
  - eapply He; eauto.
Qed.

(* ---------------------------------------------------------------------------------------------------------- *)
(* The main block: statements before the selected one run alike (with one more unit of fuel on the right); at the
   selected statement the new `let` evaluates e0 to the value the statement is about to compute, the statement with the
   variable in place of e0 does the same as the original, and the extra binding never matters afterwards. *)

Lemma eval_block_done_head funs f r s rest o r1 a :
  eval_block funs (S f) r (BCons s rest) = Done o r1 a ->
  exists os rs vs, exec_stmt funs f r s = Done os rs vs.
Proof.
  destruct rest as [|s2 rest]; simpl; intros H.
  - eauto.
  - apply bind_done_inv in H. destruct H as [o1 [r' [a1 [o2 [E1 _]]]]]. eauto.
Qed.

Lemma eval_block_head_eq funs f r s s' rest :
  exec_stmt funs f r s' = exec_stmt funs f r s ->
  eval_block funs (S f) r (BCons s' rest) = eval_block funs (S f) r (BCons s rest).
Proof. intros E. destruct rest; simpl; rewrite E; reflexivity. Qed.

Lemma extract_block_nonnil i path x d u bl s :
  block_nth i bl = Some s -> extract_block i path x d u bl <> BNil.
Proof.
  destruct bl as [|s0 rest]; [destruct i; simpl; intros H; discriminate H|]. intros _.
  destruct i; simpl; [destruct (get_stmt path s0)|]; discriminate.
Qed.

Section ExtractMain.
  Variable funs : list fundef.
  Variable x : name.
  Variables d u : oid.
  Variable path : list nat.
  Variable s : stmt.
  Variable e0 : expr.
  Hypothesis Hfuns : forall fd, In fd funs -> nox x (fd_params fd) /\ nox x (occ_block (fd_body fd)).
  Hypothesis Hcov : covered_stmt path s = true.
  Hypothesis Hget : get_stmt path s = Some e0.
  Hypothesis Hpure : pure e0 = true.

  Lemma extract_prefix : forall i bl f r r' o r1 a,
    wenv x r r' -> nox x (occ_block bl) -> block_nth i bl = Some s ->
    eval_block funs f r bl = Done o r1 a ->
    exists r1' a', eval_block funs (S f) r' (extract_block i path x d u bl) = Done o r1' a' /\ wv x a a'.
  Proof.
    induction i as [|i IH]; intros bl f r r' o r1 a Hr Hn Hnth Hrun;
      destruct bl as [|s0 rest]; simpl in Hnth; try discriminate;
      destruct f as [|f1]; try (simpl in Hrun; discriminate).
    - (* the selected statement *)
      inversion Hnth; subst s0. simpl extract_block. rewrite Hget.
      simpl in Hn. apply Forall_app in Hn. destruct Hn as [Hns Hnrest].
      pose proof (get_stmt_nox x s path e0 Hns Hget) as Hn0.
      destruct (eval_block_done_head _ _ _ _ _ _ _ _ Hrun) as [os [rs [vs Hs]]].
      destruct (hole_done_s funs r e0 s path f1 os rs vs Hpure Hcov Hget Hs) as [g [v [Hg Hv]]].
      (* e0 in the right environment *)
      destruct (ws_all funs x Hfuns g) as [We _].
      pose proof (We r r' e0 Hr Hn0) as W0. rewrite Hv in W0.
      destruct (eval_expr funs g r' e0) as [o' r'' v'|o' k'|] eqn:Ev'; simpl in W0; try contradiction.
      destruct W0 as [Eo [_ Hvv]]. subst o'.
      destruct (pure_done funs e0 g r' [] r'' v' Hpure Ev') as [_ [Er Hpe]]. subst r''.
      assert (Ef1 : eval_expr funs f1 r' e0 = Done [] r' v').
      { rewrite (eval_expr_mono funs g f1 r' e0 Hg); rewrite Ev'; auto. discriminate. }
      set (r2 := push_binding x d v' r').
      assert (Hlet : exec_stmt funs (S f1) r' (SLet d x e0) = Done [] r2 VUnit).
      { simpl. rewrite Ef1. reflexivity. }
      rewrite eval_block_cons by discriminate. rewrite Hlet, bind_done_nil.
      (* weakening: the original block in the environment with the extra binding *)
      destruct (ws_all funs x Hfuns (S f1)) as [_ [_ [Wb _]]].
      assert (Hr2 : wenv x r r2) by (apply wenv_ins; auto).
      assert (Hnb : nox x (occ_block (BCons s rest))) by (simpl; apply Forall_app; auto).
      pose proof (Wb r r2 (BCons s rest) Hr2 Hnb) as W1. rewrite Hrun in W1.
      destruct (eval_block funs (S f1) r2 (BCons s rest)) as [o2 r2' a2|o2 k2|] eqn:Eb; simpl in W1; try contradiction.
      destruct W1 as [Eo [_ Ha]]. subst o2.
      (* the statement with the variable does the same in that environment *)
      assert (Hnz : exec_stmt funs f1 r2 s <> OutOfFuel).
      { intros E. destruct rest; simpl in Eb; rewrite E in Eb; simpl in Eb; discriminate. }
      assert (Heq : exec_stmt funs f1 r2 (put_stmt path (EVar u x) s) = exec_stmt funs f1 r2 s).
      { apply (hole_eq_s funs r2 x u e0 v'); auto.
        - unfold r2. apply lookup_push_same.
        - unfold r2. rewrite peval_push; auto. }
      rewrite (eval_block_head_eq _ _ _ _ _ _ Heq). rewrite Eb. eauto.
    - (* a statement before it *)
      simpl in Hn. apply Forall_app in Hn. destruct Hn as [Hn0 Hnrest].
      assert (Hne : rest <> BNil) by (destruct rest; [destruct i; simpl in Hnth; discriminate Hnth|discriminate]).
      rewrite eval_block_cons in Hrun by auto.
      apply bind_done_inv in Hrun. destruct Hrun as [o1 [rm [am [o2 [E1 [E2 ->]]]]]].
      destruct (ws_all funs x Hfuns f1) as [_ [_ [_ Ws]]].
      pose proof (Ws r r' s0 Hr Hn0) as W0. rewrite E1 in W0.
      destruct (exec_stmt funs f1 r' s0) as [o1' rm' am'|o' k'|] eqn:Es'; simpl in W0; try contradiction.
      destruct W0 as [Eo [Hrm _]]. subst o1'.
      destruct (IH rest f1 rm rm' o2 r1 a Hrm Hnrest Hnth E2) as [r1' [a' [Hright Ha]]].
      simpl extract_block. rewrite eval_block_cons by (eapply extract_block_nonnil; eauto).
      rewrite (exec_stmt_mono funs f1 (S f1) r' s0) by (auto; rewrite Es'; discriminate).
      rewrite Es'. erewrite bind_done by exact Hright. eauto.
  Qed.
End ExtractMain.

Theorem extract_var_preserves_thm : forall (p : program) (i : nat) (path : list nat) (x : name) (d u : oid)
    (s : stmt) (e0 : expr) (fuel : nat) (out : list event) (v : pval),
  block_nth i (snd p) = Some s ->
  get_stmt path s = Some e0 ->
  covered_stmt path s = true ->
  pure e0 = true ->
  ~ In x (map snd (occ_prog p)) ->
  run fuel p = Some (out, ROk v) ->
  run (S fuel) (extract_var i path x d u p) = Some (out, ROk v).
Proof.
  intros [funs main] i path x d u s e0 fuel out v Hnth Hget Hcov Hpure Hfresh Hrun. simpl in Hnth.
  assert (Hall : nox x (occ_prog (funs, main))).
  { apply Forall_forall. intros [o y] Hin E. simpl in E. subst y. apply Hfresh. apply (in_map snd) in Hin. exact Hin. }
  unfold occ_prog in Hall; simpl in Hall. apply Forall_app in Hall. destruct Hall as [Hf Hm].
  assert (Hfuns : forall fd, In fd funs -> nox x (fd_params fd) /\ nox x (occ_block (fd_body fd))).
  { intros fd Hfd. unfold nox in *. rewrite Forall_forall in Hf.
    split; apply Forall_forall; intros ox Hox; apply Hf; apply in_flat_map; exists fd; split; auto;
      unfold occ_fundef; right; apply in_or_app; auto. }
  unfold run in *. cbn [fst snd] in *. unfold extract_var. cbn [fst snd].
  destruct (eval_block funs fuel [[]] main) as [o r a|o k|] eqn:E; try discriminate.
  inversion Hrun; subst.
  assert (Hr : wenv x [[]] [[]]) by (constructor; constructor).
  destruct (extract_prefix funs x d u path s e0 Hfuns Hcov Hget Hpure i main fuel [[]] [[]] out r a Hr Hm Hnth E)
    as [r1' [a' [Hright Ha]]].
  rewrite Hright. rewrite (wv_show _ _ _ Ha). reflexivity.
Qed.

(* non-vacuity (names a=0, fresh x=7):   let a = 3   println(string_repr(a + (a * 2)))   -- extract `a * 2` *)
Definition ex_extract : program :=
  ([], BCons (SLet 1 0 (EInt 3))
      (BCons (SExpr (EPrint (EBin OAdd (EVar 2 0) (EBin OMul (EVar 3 0) (EInt 2))))) BNil)).

Lemma ex_extract_ok :
  block_nth 1 (snd ex_extract) = Some (SExpr (EPrint (EBin OAdd (EVar 2 0) (EBin OMul (EVar 3 0) (EInt 2))))) /\
  get_stmt [0; 1] (SExpr (EPrint (EBin OAdd (EVar 2 0) (EBin OMul (EVar 3 0) (EInt 2))))) = Some (EBin OMul (EVar 3 0) (EInt 2)) /\
  covered_stmt [0; 1] (SExpr (EPrint (EBin OAdd (EVar 2 0) (EBin OMul (EVar 3 0) (EInt 2))))) = true /\
  pure (EBin OMul (EVar 3 0) (EInt 2)) = true /\
  ~ In 7 (map snd (occ_prog ex_extract)) /\
  extract_var 1 [0; 1] 7 10 11 ex_extract =
    ([], BCons (SLet 1 0 (EInt 3))
        (BCons (SLet 10 7 (EBin OMul (EVar 3 0) (EInt 2)))
        (BCons (SExpr (EPrint (EBin OAdd (EVar 2 0) (EVar 11 7)))) BNil))) /\
  run 10 ex_extract = Some ([EvOut (PInt 9)], ROk PUnit) /\
  run 11 (extract_var 1 [0; 1] 7 10 11 ex_extract) = Some ([EvOut (PInt 9)], ROk PUnit).
Proof.
  repeat split; try (vm_compute; reflexivity).
  vm_compute. intuition discriminate.
Qed.

(* ---------------------------------------------------------------------------------------------------------- *)
(* rename leaves the resolution table unchanged *)

Section ResolveSim.
  Variable funs : list fundef.
  Variable b : oid.
  Variable xb new : name.

  Let funs' := map (rn_fundef funs b new) funs.

  Definition sokb (yd : name * oid) : Prop := fst yd <> new /\ (snd yd = b -> fst yd = xb).
  Definition sok (fr : sframe) : Prop := Forall sokb fr.
  Definition sokS (sc : scope) : Prop := Forall sok sc.

  Definition rn_sframe (fr : sframe) : sframe := map (fun yd => (rn_bind b new (snd yd) (fst yd), snd yd)) fr.
  Definition rn_scope (sc : scope) : scope := map rn_sframe sc.

  Lemma rn_bind_neq' d y dz z : sokb (y, d) -> sokb (z, dz) -> y <> z -> rn_bind b new d y <> rn_bind b new dz z.
  Proof.
    unfold sokb, rn_bind; simpl. intros [Hy Hyb] [Hz Hzb] Hne.
    destruct (Nat.eqb_spec d b), (Nat.eqb_spec dz b); subst; auto.
    rewrite Hyb, Hzb in Hne; auto.
  Qed.

  Lemma sframe_none fr y d : sok fr -> lookup_frame_s fr y = None -> sokb (y, d) ->
    lookup_frame_s (rn_sframe fr) (rn_bind b new d y) = None.
  Proof.
    induction fr as [|[z dz] fr IH]; simpl; intros Hok Hl Hy; auto.
    inversion Hok; subst.
    destruct (Nat.eqb_spec y z) as [->|Hne]; [discriminate|].
    destruct (Nat.eqb_spec (rn_bind b new d y) (rn_bind b new dz z)) as [E|_]; auto.
    exfalso. exact (rn_bind_neq' _ _ _ _ Hy H1 Hne E).
  Qed.

  Lemma sframe_some fr y d : sok fr -> lookup_frame_s fr y = Some d ->
    sokb (y, d) /\ lookup_frame_s (rn_sframe fr) (rn_bind b new d y) = Some d.
  Proof.
    induction fr as [|[z dz] fr IH]; simpl; intros Hok Hl; [discriminate|].
    inversion Hok; subst.
    destruct (Nat.eqb_spec y z) as [->|Hne].
    - inversion Hl; subst. split; auto. rewrite Nat.eqb_refl. reflexivity.
    - destruct (IH H2 Hl) as [Hy Hl']. split; auto.
      destruct (Nat.eqb_spec (rn_bind b new d y) (rn_bind b new dz z)) as [E|_]; auto.
      exfalso. exact (rn_bind_neq' _ _ _ _ Hy H1 Hne E).
  Qed.

  Lemma sframe_none_use fr y : sok fr -> lookup_frame_s fr y = None -> y <> new ->
    lookup_frame_s (rn_sframe fr) y = None.
  Proof.
    intros Hok Hl Hy.
    assert (H : lookup_frame_s (rn_sframe fr) (rn_bind b new (S b) y) = None).
    { apply sframe_none; auto. split; simpl; auto. intros E. exfalso. clear -E. induction b; simpl in *; lia. }
    unfold rn_bind in H. replace (Nat.eqb (S b) b) with false in H; auto.
    symmetry. apply Nat.eqb_neq. lia.
  Qed.

  Lemma scope_lookup sc y : sokS sc -> y <> new ->
    match lookup_s sc y with
    | Some d => sokb (y, d) /\ lookup_s (rn_scope sc) (rn_bind b new d y) = Some d
    | None => lookup_s (rn_scope sc) y = None
    end.
  Proof.
    induction sc as [|fr sc IH]; simpl; intros Hok Hy; auto.
    inversion Hok; subst.
    destruct (lookup_frame_s fr y) as [d|] eqn:El.
    - destruct (sframe_some _ _ _ H1 El) as [Hyd Hl']. split; auto. rewrite Hl'. reflexivity.
    - specialize (IH H2 Hy). destruct (lookup_s sc y) as [d|].
      + destruct IH as [Hyd Hl']. split; auto. rewrite (sframe_none _ _ _ H1 El Hyd). exact Hl'.
      + rewrite (sframe_none_use _ _ H1 El Hy). exact IH.
  Qed.

  Definition funframe (l : list fundef) : sframe := map (fun fd => (fd_name fd, fd_id fd)) l.

  Lemma lookup_fun_frame l y : lookup_fun_id l y = lookup_frame_s (funframe l) y.
  Proof. induction l as [|fd l IH]; simpl; auto. destruct (Nat.eqb y (fd_name fd)); auto. Qed.

  Lemma funframe_rn : funframe funs' = rn_sframe (funframe funs).
  Proof. unfold funs', funframe, rn_sframe. rewrite !map_map; auto. Qed.

  Hypothesis Hfok : sok (funframe funs).

  Lemma lookup_s_snoc sc fr y :
    lookup_s (sc ++ [fr]) y = match lookup_s sc y with Some d => Some d | None => lookup_frame_s fr y end.
  Proof.
    induction sc as [|fr0 sc IH]; simpl.
    - destruct (lookup_frame_s fr y); reflexivity.
    - destruct (lookup_frame_s fr0 y); auto.
  Qed.

  Lemma resolve_as_scope l sc y : resolve_name l sc y = lookup_s (sc ++ [funframe l]) y.
  Proof. unfold resolve_name. rewrite lookup_s_snoc, lookup_fun_frame. reflexivity. Qed.

  Lemma resolve_rn sc y : sokS sc -> y <> new ->
    resolve_name funs' (rn_scope sc) (rn_use b new (resolve_name funs sc y) y) = resolve_name funs sc y.
  Proof.
    intros Hok Hy. rewrite !resolve_as_scope, funframe_rn.
    change [rn_sframe (funframe funs)] with (rn_scope [funframe funs]).
    unfold rn_scope. rewrite <- map_app. fold (rn_scope (sc ++ [funframe funs])).
    assert (HokS : sokS (sc ++ [funframe funs])).
    { apply Forall_app; split; [auto|constructor; auto]. }
    pose proof (scope_lookup _ y HokS Hy) as HL.
    destruct (lookup_s (sc ++ [funframe funs]) y) as [d|]; simpl.
    - destruct HL as [_ HL]. exact HL.
    - exact HL.
  Qed.

  (* ---- scopes commute with renaming *)

  Lemma rn_scope_push y d sc : rn_scope (push_s y d sc) = push_s (rn_bind b new d y) d (rn_scope sc).
  Proof. destruct sc; reflexivity. Qed.

  Lemma sokS_push y d sc : sokS sc -> sokb (y, d) -> sokS (push_s y d sc).
  Proof.
    intros Hok Hyd. destruct sc as [|fr sc]; simpl.
    - constructor; [constructor; [exact Hyd|constructor]|constructor].
    - inversion Hok; subst. constructor; auto. constructor; auto.
  Qed.

  Lemma params_frame_rn ps : params_frame (rn_params b new ps) = rn_sframe (params_frame ps).
  Proof.
    unfold params_frame, rn_params, rn_sframe. rewrite map_rev, !map_map. reflexivity.
  Qed.

  Lemma params_ids ps : map (fun p : oid * name => (fst p, Some (fst p))) (rn_params b new ps)
                        = map (fun p : oid * name => (fst p, Some (fst p))) ps.
  Proof. unfold rn_params. rewrite map_map. reflexivity. Qed.

  Lemma sok_params ps : ok_occs b xb new ps -> sok (params_frame ps).
  Proof.
    intros H. unfold params_frame, sok. apply Forall_rev. apply Forall_map.
    eapply Forall_impl; [|exact H]. intros [d y] [H1 H2]. split; auto.
  Qed.

  Ltac okinv :=
    repeat match goal with
           | H : ok_occs _ _ _ (_ ++ _) |- _ => apply Forall_app in H; destruct H
           | H : ok_occs _ _ _ (_ :: _) |- _ => apply Forall_cons_iff in H; destruct H
           | H : Forall _ (_ ++ _) |- _ => apply Forall_app in H; destruct H
           | H : Forall _ (_ :: _) |- _ => apply Forall_cons_iff in H; destruct H
           end.

  Lemma sokS_nil sc : sokS sc -> sokS ([] :: sc).
  Proof. intros. constructor; auto. constructor. Qed.

  Lemma res_rn :
    (forall e sc, sokS sc -> ok_occs b xb new (occ_expr e) ->
       res_expr funs' (rn_scope sc) (rn_expr funs b new sc e) = res_expr funs sc e) /\
    (forall es sc, sokS sc -> ok_occs b xb new (occ_exprs es) ->
       res_exprs funs' (rn_scope sc) (rn_exprs funs b new sc es) = res_exprs funs sc es) /\
    (forall bl sc, sokS sc -> ok_occs b xb new (occ_block bl) ->
       res_block funs' (rn_scope sc) (rn_block funs b new sc bl) = res_block funs sc bl) /\
    (forall s sc, sokS sc -> ok_occs b xb new (occ_stmt s) ->
       res_stmt funs' (rn_scope sc) (rn_stmt funs b new sc s) = res_stmt funs sc s /\
       stmt_scope (rn_stmt funs b new sc s) (rn_scope sc) = rn_scope (stmt_scope s sc) /\
       sokS (stmt_scope s sc)).
  Proof.
    apply syntax_mutind; intros; simpl in * |-; okinv; try solve [cbn [res_expr res_exprs res_block res_stmt rn_expr rn_exprs rn_block rn_stmt stmt_scope]; auto].
    - (* EVar *) cbn [res_expr res_exprs res_block res_stmt rn_expr rn_exprs rn_block rn_stmt stmt_scope]. destruct H0 as [Hy _]. simpl in Hy. rewrite resolve_rn; auto.
    - cbn [res_expr res_exprs res_block res_stmt rn_expr rn_exprs rn_block rn_stmt stmt_scope]. rewrite H, H0; auto.
    - cbn [res_expr res_exprs res_block res_stmt rn_expr rn_exprs rn_block rn_stmt stmt_scope]. rewrite H, H0; auto.
    - (* EFun *) cbn [res_expr res_exprs res_block res_stmt rn_expr rn_exprs rn_block rn_stmt stmt_scope]. rewrite params_ids, params_frame_rn.
      change (rn_sframe (params_frame ps) :: rn_scope sc) with (rn_scope (params_frame ps :: sc)).
      rewrite H; auto. constructor; auto using sok_params.
    - (* EIf *) cbn [res_expr res_exprs res_block res_stmt rn_expr rn_exprs rn_block rn_stmt stmt_scope]. change ([] :: rn_scope sc) with (rn_scope ([] :: sc)).
      rewrite H, H0, H1; auto using sokS_nil.
    - (* ECons *) cbn [res_expr res_exprs res_block res_stmt rn_expr rn_exprs rn_block rn_stmt stmt_scope]. rewrite H, H0; auto.
    - (* BCons *) rewrite rn_block_cons.
      change (res_block funs sc (BCons s b0)) with (res_stmt funs sc s ++ res_block funs (stmt_scope s sc) b0).
      change (res_block funs' (rn_scope sc) (BCons (rn_stmt funs b new sc s) (rn_block funs b new (stmt_scope s sc) b0)))
        with (res_stmt funs' (rn_scope sc) (rn_stmt funs b new sc s)
              ++ res_block funs' (stmt_scope (rn_stmt funs b new sc s) (rn_scope sc)) (rn_block funs b new (stmt_scope s sc) b0)).
      destruct (H sc H1 H2) as [E1 [E2 E3]]. rewrite E1, E2, H0; auto.
    - (* SLet *) cbn [res_expr res_exprs res_block res_stmt rn_expr rn_exprs rn_block rn_stmt stmt_scope]. repeat split.
      + rewrite H; auto.
      + rewrite rn_scope_push. reflexivity.
      + apply sokS_push; auto; try (destruct H1 as [A B]; split; auto).
    - (* SAssign *) cbn [res_expr res_exprs res_block res_stmt rn_expr rn_exprs rn_block rn_stmt stmt_scope]. repeat split; auto. destruct H1 as [Hy _]. simpl in Hy. rewrite resolve_rn, H; auto.
    - (* SWhile *) cbn [res_expr res_exprs res_block res_stmt rn_expr rn_exprs rn_block rn_stmt stmt_scope]. repeat split; auto. change ([] :: rn_scope sc) with (rn_scope ([] :: sc)).
      rewrite H, H0; auto using sokS_nil.
  Qed.
End ResolveSim.

Lemma flat_map_ext_in' {A B} (f g : A -> list B) l : (forall a, In a l -> f a = g a) -> flat_map f l = flat_map g l.
Proof.
  induction l as [|a l IH]; simpl; intros H; auto. rewrite (H a) by auto. rewrite IH; auto.
Qed.

Theorem rename_preserves_resolution_thm : forall (p : program) (b : oid) (xb new : name),
  NoDup (map fst (occ_prog p)) ->
  In (b, xb) (occ_prog p) ->
  ~ In new (map snd (occ_prog p)) ->
  res_prog (rename b new p) = res_prog p.
Proof.
  intros [funs main] b xb new Hnd Hin Hfresh.
  assert (Hok : ok_occs b xb new (occ_prog (funs, main))).
  { apply Forall_forall. intros [o x] Hox. split; simpl.
    - intros ->. apply Hfresh. apply (in_map snd) in Hox. exact Hox.
    - intros ->. eapply nodup_fst_unique; eauto. }
  unfold occ_prog in Hok; simpl in Hok. apply Forall_app in Hok. destruct Hok as [Hokf Hokm].
  assert (Hfd : forall fd, In fd funs -> okb b xb new (fd_id fd, fd_name fd) /\
            ok_occs b xb new (fd_params fd) /\ ok_occs b xb new (occ_block (fd_body fd))).
  { intros fd Hfd. unfold ok_occs in *. rewrite Forall_forall in Hokf.
    split; [|split].
    - apply Hokf. apply in_flat_map. exists fd. split; auto. left. reflexivity.
    - apply Forall_forall. intros ox Hox. apply Hokf. apply in_flat_map. exists fd. split; auto.
      right. apply in_or_app. auto.
    - apply Forall_forall. intros ox Hox. apply Hokf. apply in_flat_map. exists fd. split; auto.
      right. apply in_or_app. auto. }
  assert (Hfok : sok b xb new (funframe funs)).
  { unfold sok, funframe. apply Forall_map. apply Forall_forall. intros fd Hin'.
    destruct (Hfd fd Hin') as [[H1 H2] _]. split; auto. }
  destruct (res_rn funs b xb new Hfok) as [_ [_ [Hb _]]].
  unfold res_prog, rename. cbn [fst snd]. f_equal.
  - rewrite flat_map_map_in. apply flat_map_ext_in'. intros fd Hin'.
    destruct (Hfd fd Hin') as [_ [Hps Hbody]].
    unfold res_fundef. simpl. rewrite params_ids, params_frame_rn.
    change [rn_sframe b new (params_frame (fd_params fd))] with (rn_scope b new [params_frame (fd_params fd)]).
    rewrite Hb; auto. constructor; [|constructor]. eapply sok_params; eauto.
  - change [[]] with (rn_scope b new [[]]) at 1. apply Hb; auto. constructor; constructor.
Qed.
