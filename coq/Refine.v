(* Definitions for the refinement proof "the evaluator model (Machine.v)
   refines the reference semantics (Ref.v)": the program fragment the theorem
   covers, the parser's `value_is_used` annotation discipline, value / state
   well-formedness, finite runs of the machine, and a standalone presentation
   of one unfolding of Ref.eval (convertible with it; RefineProps.eval_unfold).

   MODEL FILE: definitions only. *)
From Coq Require Import ZArith NArith Bool List.
From Garden Require Import Base.Int64 Arith ArithSpec gen.Tables Machine Ref.
Import ListNotations.
Open Scope Z_scope.

(* ---- finite runs --------------------------------------------------------- *)
(* n steps, every one of them answering Next *)
Fixpoint run_steps (p : prog) (n : nat) (s : state) : option state :=
  match n with
  | O => Some s
  | S n' => match step p s with
            | Next s' => run_steps p n' s'
            | _ => None
            end
  end.

Definition reaches (p : prog) (a b : state) : Prop := exists n, run_steps p n a = Some b.

(* after finitely many steps the next step raises a Garden exception, having printed `o` *)
Definition fails (p : prog) (a : state) (o : list text) : Prop :=
  exists b er c, reaches p a b /\ step p b = Failed er c /\ ekind_of er = KException /\ out c = o.

(* a machine state without limits and without a pending interrupt whose
   current frame has an empty `bindings_next_block` *)
Definition cfg (t : list (estate * expr)) (vs : list value) (bs : list block) (u : bool)
           (rest : list frame) (tk : N) (o : list text) : state :=
  mkState (mkFrame t vs bs [] u :: rest) tk o false None None.

Definition fresh (l : list expr) : list (estate * expr) := map (fun e => (SNot, e)) l.

(* ---- the parser's value_is_used discipline ------------------------------- *)
(* parser.rs set_is_used_block / set_is_used_expr.  `wa e` says that the flags
   INSIDE e are what the parser computes given e's own flag:
     - in a block every expression but the last is unused, the last is used
       iff the block's value is used;
     - the branches of an `if` are used iff the `if` is used and has an `else`;
     - loop bodies are unused; function bodies are used; match case bodies are
       used iff the match is;
     - operands, conditions, right-hand sides, callees, arguments, list and
       tuple items, scrutinees, returned expressions are used;
     - FIXED RULE for parentheses: the inner expression is used iff the
       parenthesised expression is.  (The parser used to leave the inner flag
       `true`: an unused parenthesised expression leaked a
       value on the value stack; fixed in the parser by the commit "a
       parenthesized expression in statement position no longer leaves its
       value on the value stack".) *)
Definition wa_block_with (wa : expr -> bool) : bool -> list expr -> bool :=
  fix wab (u : bool) (l : list expr) : bool :=
    match l with
    | [] => true
    | [x] => Bool.eqb (eused x) u && wa x
    | x :: rest => negb (eused x) && wa x && wab u rest
    end.

Definition is_some {A} (o : option A) : bool := match o with Some _ => true | None => false end.

Fixpoint wa (e : expr) : bool :=
  let sub (x : expr) := eused x && wa x in
  match e with
  | EInt _ _ | EStr _ _ | EVar _ _ | EBreak _ | EContinue _ | EUnsupported _ => true
  | EBin _ _ l r => sub l && sub r
  | ELet _ _ x | EAssign _ _ _ x | EUpd _ _ _ _ x => sub x
  | EIf m c t el =>
      sub c && wa_block_with wa (used m && is_some el) t &&
      match el with Some eb => wa_block_with wa (used m && is_some el) eb | None => true end
  | EWhile _ c b => sub c && wa_block_with wa false b
  | EFor _ _ it b => sub it && wa_block_with wa false b
  | EReturn _ None => true
  | EReturn _ (Some x) => sub x
  | EList _ l | ETuple _ l => forallb sub l
  | ECall _ f args => sub f && forallb sub args
  | EFun _ _ body => wa_block_with wa true body
  | EParen m inner => Bool.eqb (eused inner) (used m) && wa inner
  | EMatch m sc cases => sub sc && forallb (fun c => wa_block_with wa (used m) (snd c)) cases
  end.

Definition wa_block : bool -> list expr -> bool := wa_block_with wa.
Definition wa_sub (x : expr) : bool := eused x && wa x.

(* a toplevel expression (and the whole program text): value used *)
Definition well_annotated (e : expr) : bool := wa_sub e.
Definition well_annotated_toplevel (exprs : list expr) : bool := forallb wa_sub exprs.

(* ---- the fragment -------------------------------------------------------- *)
(* `frag brk cnt e`: e is in the fragment, where a `break` (resp. `continue`)
   for an ENCLOSING loop may occur in e only if brk (resp. cnt).

   Everything of the core language is in the fragment except:
     - `break` / `continue` must be in statement position: reachable from the
       body of their loop only through the blocks of if / else / match cases
       and parentheses, never inside an operand, condition, right-hand side,
       argument, list item or scrutinee (there the interpreter leaves partial
       results on the value stack: a genuine defect);
     - integer literals are 64-bit;
     - EUnsupported is excluded. *)
Fixpoint frag (brk cnt : bool) (e : expr) : bool :=
  let op (x : expr) := frag false false x in
  match e with
  | EInt _ z => in64 z
  | EStr _ _ | EVar _ _ => true
  | EBin _ _ l r => op l && op r
  | ELet _ _ x | EAssign _ _ _ x | EUpd _ _ _ _ x => op x
  | EIf _ c t el =>
      op c && forallb (frag brk cnt) t &&
      match el with Some eb => forallb (frag brk cnt) eb | None => true end
  | EWhile _ c b => op c && forallb (frag true true) b
  | EFor _ _ it b => op it && forallb (frag true true) b
  | EBreak _ => brk
  | EContinue _ => cnt
  | EReturn _ None => true
  | EReturn _ (Some x) => op x
  | EList _ l | ETuple _ l => forallb op l
  | ECall _ f args => op f && forallb op args
  | EFun _ _ body => forallb op body
  | EParen _ inner => frag brk cnt inner
  | EMatch _ sc cases => op sc && forallb (fun c => forallb (frag brk cnt) (snd c)) cases
  | EUnsupported _ => false
  end.

Definition frag_block (brk cnt : bool) (l : list expr) : bool := forallb (frag brk cnt) l.

(* a toplevel expression / function body statement: no loop encloses it *)
Definition in_fragment (e : expr) : bool := frag false false e.

(* a function body: in the fragment and annotated as the parser does *)
Definition body_ok (body : list expr) : bool := frag_block false false body && wa_block true body.

(* ---- well-formed values, environments, programs --------------------------- *)
(* integers are 64-bit; closures carry well-formed environments and bodies *)
Fixpoint vgood (v : value) : bool :=
  match v with
  | VInt z => in64 z
  | VStr _ => true
  | VEnum _ _ _ None => true
  | VEnum _ _ _ (Some x) => vgood x
  | VList l | VTuple l => forallb vgood l
  | VClosure env _ body =>
      forallb (fun b => forallb (fun xv => vgood (snd xv)) b) env && body_ok body
  | VFun _ _ | VCtor _ _ _ | VBuiltin _ => true
  end.

Definition block_good (b : block) : bool := forallb (fun xv => vgood (snd xv)) b.
Definition env_good (bs : list block) : bool := forallb block_good bs.

Definition prog_good (p : prog) : bool :=
  block_good (globals p) && forallb (fun nf => body_ok (fbody (snd nf))) (funs p).

(* ---- one unfolding of Ref.eval, with the recursive call abstracted -------- *)
Section Step.
Variable p : prog.
Variable ev : st -> expr -> res value * st.

Definition seq_of : list expr -> st -> res value * st :=
  fix seq (body : list expr) (s : st) : res value * st :=
    match body with
    | [] => (Ok vunit, s)
    | [x] => ev s x
    | x :: rest =>
        match ev s x with
        | (Ok _, s1) => seq rest s1
        | other => other
        end
    end.

Definition block_in_of (extra : block) (body : list expr) (s : st) : res value * st :=
  match seq_of body (push_scope extra s) with
  | (r, s1) => (r, pop_scope s1)
  end.

Definition args_of : list expr -> st -> res (list value) * st :=
  fix args (l : list expr) (s : st) : res (list value) * st :=
    match l with
    | [] => (Ok [], s)
    | x :: rest =>
        match args rest s with
        | (Ok vs, s1) =>
            match ev s1 x with
            | (Ok v, s2) => (Ok (v :: vs), s2)
            | (Ctl c, s2) => (Ctl c, s2)
            | (OutOfFuel, s2) => (OutOfFuel, s2)
            | (Unsupp, s2) => (Unsupp, s2)
            end
        | other => other
        end
    end.

Definition iter_of (x : ident) (body : list expr) : list value -> st -> res value * st :=
  fix iter (items : list value) (s : st) : res value * st :=
    match items with
    | [] => (Ok vunit, s)
    | v :: rest =>
        match block_in_of (if N.eqb x underscore then [] else [(x, v)]) body s with
        | (Ok _, s2) => iter rest s2
        | (Ctl CContinue, s2) => iter rest s2
        | (Ctl CBreak, s2) => (Ok vunit, s2)
        | other => other
        end
    end.

Definition pick_of (s1 : st) (ty : ident) (idx : N) (payload : option value)
  : list (ident * (N * N) * option ident * list expr) -> res value * st :=
  fix pick (cs : list (ident * (N * N) * option ident * list expr)) : res value * st :=
    match cs with
    | [] => (Ctl (CErr ENoMatch), s1)
    | (pat, _, binder, body) :: rest =>
        if N.eqb pat underscore then block_in_of [] body s1
        else
          match lookup p s1 pat with
          | None => (Ctl (CErr EUnbound), s1)
          | Some pv =>
              let hit (t : ident) (i : N) :=
                if N.eqb ty t && N.eqb idx i then
                  match payload, binder with
                  | Some pl, Some x => block_in_of (if N.eqb x underscore then [] else [(x, pl)]) body s1
                  | None, None => block_in_of [] body s1
                  | _, _ => pick rest
                  end
                else pick rest in
              match pv with
              | VEnum t i _ _ => hit t i
              | VCtor t i _ => hit t i
              | _ => (Ctl (CErr ETypeError), s1)
              end
          end
    end.

Definition call_of (s2 : st) (vs : list value) (callee_env : env) (params : list ident) (body : list expr)
  : res value * st :=
  if Nat.eqb (length params) (length vs) then
    match seq_of body (mkSt (bind_params params vs [] :: callee_env) (printed s2)) with
    | (Ok v, s3) => (Ok v, mkSt (scopes s2) (printed s3))
    | (Ctl (CReturn v), s3) => (Ok v, mkSt (scopes s2) (printed s3))
    | (Ctl (CErr er), s3) => (Ctl (CErr er), mkSt (scopes s2) (printed s3))
    | (Ctl _, s3) => (Unsupp, mkSt (scopes s2) (printed s3))
    | (OutOfFuel, s3) => (OutOfFuel, s3)
    | (Unsupp, s3) => (Unsupp, s3)
    end
  else (Ctl (CErr EArity), s2).

Definition apply_of (s2 : st) (fv : value) (vs : list value) : res value * st :=
  match fv with
  | VClosure cenv params body => call_of s2 vs cenv params body
  | VFun name _ =>
      match assoc name (funs p) with
      | Some fd => call_of s2 vs [] (fparams fd) (fbody fd)
      | None => (Unsupp, s2)
      end
  | VBuiltin b =>
      match vs with
      | [a] =>
          match b with
          | BiPrintln => match a with VStr t => (Ok vunit, emit (t ++ [10%N]) s2) | _ => (Ctl (CErr ETypeError), s2) end
          | BiPrint => match a with VStr t => (Ok vunit, emit t s2) | _ => (Ctl (CErr ETypeError), s2) end
          | BiStringRepr => (Ok (VStr (display a)), s2)
          end
      | _ => (Ctl (CErr EArity), s2)
      end
  | VCtor ty idx name =>
      match vs with
      | [a] => (Ok (VEnum ty idx name (Some a)), s2)
      | _ => (Ctl (CErr EArity), s2)
      end
  | _ => (Ctl (CErr ETypeError), s2)
  end.

Definition lift_args {A} (r : res (list value) * st) (k : list value -> st -> res A * st) : res A * st :=
  match r with
  | (Ok vs, s1) => k vs s1
  | (Ctl c, s1) => (Ctl c, s1)
  | (OutOfFuel, s1) => (OutOfFuel, s1)
  | (Unsupp, s1) => (Unsupp, s1)
  end.

Definition eval_step (s : st) (e : expr) : res value * st :=
  match e with
  | EInt _ z => (Ok (VInt z), s)
  | EStr _ t => (Ok (VStr t), s)
  | EVar _ x =>
      match lookup p s x with
      | Some v => (Ok v, s)
      | None => (Ctl (CErr EUnbound), s)
      end
  | EParen _ inner => ev s inner
  | EBin _ o l r =>
      match ev s l with
      | (Ok lv, s1) =>
          match ev s1 r with
          | (Ok rv, s2) => (apply_binop o lv rv, s2)
          | other => other
          end
      | other => other
      end
  | ELet _ x rhs =>
      match ev s rhs with
      | (Ok v, s1) => (Ok vunit, bind x v s1)
      | other => other
      end
  | EAssign _ x _ rhs =>
      match ev s rhs with
      | (Ok v, s1) =>
          match set_existing x v (scopes s1) with
          | Some sc => (Ok vunit, mkSt sc (printed s1))
          | None => (Ctl (CErr ENotBound), s1)
          end
      | other => other
      end
  | EUpd _ u x _ rhs =>
      match ev s rhs with
      | (Ok rv, s1) =>
          match lookup p s1 x with
          | None => (Ctl (CErr ENotBound), s1)
          | Some (VInt a) =>
              match rv with
              | VInt b =>
                  match int_binop (upd_as_binop u) a b with
                  | Ok nv =>
                      match set_existing x nv (scopes s1) with
                      | Some sc => (Ok vunit, mkSt sc (printed s1))
                      | None => (Unsupp, s1)
                      end
                  | Ctl c => (Ctl c, s1)
                  | OutOfFuel => (OutOfFuel, s1)
                  | Unsupp => (Unsupp, s1)
                  end
              | _ => (Ctl (CErr ETypeError), s1)
              end
          | Some _ => (Ctl (CErr ETypeError), s1)
          end
      | other => other
      end
  | EIf _ c t el =>
      match ev s c with
      | (Ok cv, s1) =>
          match as_bool cv with
          | None => (Ctl (CErr ETypeError), s1)
          | Some true =>
              match block_in_of [] t s1 with
              | (Ok v, s2) => (Ok (match el with Some _ => v | None => vunit end), s2)
              | other => other
              end
          | Some false =>
              match el with
              | Some eb => block_in_of [] eb s1
              | None => (Ok vunit, s1)
              end
          end
      | other => other
      end
  | EWhile _ c body =>
      match ev s c with
      | (Ok cv, s1) =>
          match as_bool cv with
          | None => (Ctl (CErr ETypeError), s1)
          | Some false => (Ok vunit, s1)
          | Some true =>
              match block_in_of [] body s1 with
              | (Ok _, s2) => ev s2 e
              | (Ctl CContinue, s2) => ev s2 e
              | (Ctl CBreak, s2) => (Ok vunit, s2)
              | other => other
              end
          end
      | other => other
      end
  | EFor _ x it body =>
      match ev s it with
      | (Ok (VList items), s1) => iter_of x body items s1
      | (Ok _, s1) => (Ctl (CErr ETypeError), s1)
      | other => other
      end
  | EBreak _ => (Ctl CBreak, s)
  | EContinue _ => (Ctl CContinue, s)
  | EReturn _ None => (Ctl (CReturn vunit), s)
  | EReturn _ (Some x) =>
      match ev s x with
      | (Ok v, s1) => (Ctl (CReturn v), s1)
      | other => other
      end
  | EList _ items => lift_args (args_of items s) (fun vs s1 => (Ok (VList vs), s1))
  | ETuple _ items => lift_args (args_of items s) (fun vs s1 => (Ok (VTuple vs), s1))
  | EFun _ params body => (Ok (VClosure (scopes s) params body), s)
  | ECall _ fe actuals =>
      match ev s fe with
      | (Ok fv, s1) => lift_args (args_of actuals s1) (fun vs s2 => apply_of s2 fv vs)
      | other => other
      end
  | EMatch _ sc cases =>
      match ev s sc with
      | (Ok (VEnum ty idx _ payload), s1) => pick_of s1 ty idx payload cases
      | (Ok _, s1) => (Ctl (CErr ETypeError), s1)
      | other => other
      end
  | EUnsupported _ => (Unsupp, s)
  end.
End Step.
