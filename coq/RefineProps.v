(* The evaluator model (Machine.v) refines the reference semantics (Ref.v). *)
From Coq Require Import ZArith NArith Bool List Lia.
From Garden Require Import Base.Int64 Arith ArithSpec ArithProps ArithTables gen.Tables Machine MachineInv Ref Refine.
Import ListNotations.
Open Scope Z_scope.

Lemma eval_unfold p f s e : eval p (S f) s e = eval_step p (eval p f) s e.
Proof. reflexivity. Qed.

Ltac bools :=
  repeat match goal with
  | H : _ && _ = true |- _ => apply andb_prop in H; destruct H
  | H : Bool.eqb _ _ = true |- _ => apply eqb_prop in H
  | H : negb _ = true |- _ => apply negb_true_iff in H
  end.

(* ------------------------------------------------------------------------ *)
(* finite runs *)
Lemma reaches_refl p a : reaches p a a.
Proof. exists O. reflexivity. Qed.

Lemma reaches_step p a b c : step p a = Next b -> reaches p b c -> reaches p a c.
Proof. intros H [n R]. exists (S n). cbn [run_steps]. rewrite H. exact R. Qed.

Lemma run_steps_app p n : forall m a b c,
  run_steps p n a = Some b -> run_steps p m b = Some c -> run_steps p (n + m) a = Some c.
Proof.
  induction n as [|n IH]; intros m a b c H1 H2; cbn [run_steps Nat.add] in *.
  - inversion H1; subst. exact H2.
  - destruct (step p a); try discriminate. eapply IH; eassumption.
Qed.

Lemma reaches_trans p a b c : reaches p a b -> reaches p b c -> reaches p a c.
Proof. intros [n H1] [m H2]. exists (n + m)%nat. eapply run_steps_app; eassumption. Qed.

Lemma fails_reach p a b o : reaches p a b -> fails p b o -> fails p a o.
Proof.
  intros R (b' & er & c & R' & S & K & O). exists b', er, c.
  split; [eapply reaches_trans; eassumption|auto].
Qed.

Lemma step_cfg p es e t vs bs u rest tk o :
  step p (cfg ((es, e) :: t) vs bs u rest tk o) =
    match exec p (mkFrame t vs bs [] u) es e with
    | XOk f' pr => Next (mkState (f' :: rest) (tk + 1) (pr ++ o) false None None)
    | XCall f' callee => Next (mkState (callee :: f' :: rest) (tk + 1) o false None None)
    | XErr er => Failed er (mkState (mkFrame ((es, e) :: t) vs bs [] u :: rest) (tk + 1) o false None None)
    | XPanic => Crashed
    | XUnsupported => Unsupported
    end.
Proof. reflexivity. Qed.

(* ------------------------------------------------------------------------ *)
(* environments *)
Lemma forallb_In {A} (f : A -> bool) l x : forallb f l = true -> In x l -> f x = true.
Proof. intros H I. rewrite forallb_forall in H. auto. Qed.

Lemma assoc_In {A} x (l : list (ident * A)) v : assoc x l = Some v -> In (x, v) l.
Proof.
  induction l as [|[y w] l IH]; cbn [assoc]; [discriminate|].
  destruct (N.eqb x y) eqn:E.
  - intros H; inversion H; subst. apply N.eqb_eq in E. subst. left; reflexivity.
  - intros H. right. auto.
Qed.

Lemma assoc_good x b v : block_good b = true -> assoc x b = Some v -> vgood v = true.
Proof. intros G H. apply assoc_In in H. exact (forallb_In _ _ _ G H). Qed.

Lemma lookup_blocks_good x bs v : env_good bs = true -> lookup_blocks x bs = Some v -> vgood v = true.
Proof.
  induction bs as [|b bs IH]; cbn [lookup_blocks env_good forallb]; [discriminate|].
  intros G H. bools. destruct (assoc x b) eqn:E.
  - inversion H; subst. eapply assoc_good; eassumption.
  - auto.
Qed.

Lemma lookup_good p s x v : prog_good p = true -> env_good (scopes s) = true ->
  lookup p s x = Some v -> vgood v = true.
Proof.
  unfold lookup, prog_good. intros G E H. bools.
  destruct (lookup_blocks x (scopes s)) eqn:L.
  - inversion H; subst. eapply lookup_blocks_good; eassumption.
  - eapply assoc_good; eassumption.
Qed.

Lemma add_new_good x v bs : vgood v = true -> env_good bs = true -> env_good (add_new x v bs) = true.
Proof.
  unfold add_new. intros V G. destruct (N.eqb x underscore); [assumption|].
  destruct bs as [|b bs]; [reflexivity|]. cbn [env_good forallb block_good snd] in *. bools.
  rewrite V. cbn. unfold block_good in *. rewrite H, H0. reflexivity.
Qed.

Lemma set_assoc_good x v b : vgood v = true -> block_good b = true -> block_good (set_assoc x v b) = true.
Proof.
  intros V. induction b as [|[y w] b IH]; cbn [set_assoc]; [auto|].
  unfold block_good in *. cbn [forallb snd]. intros G. bools.
  destruct (N.eqb x y); cbn [forallb snd]; rewrite ?V, ?H, ?H0, ?IH; auto.
Qed.

Lemma set_existing_good x v : forall bs bs', vgood v = true -> env_good bs = true ->
  set_existing x v bs = Some bs' -> env_good bs' = true.
Proof.
  induction bs as [|b bs IH]; intros bs' V G H; cbn [set_existing] in H; [discriminate|].
  cbn [env_good forallb] in G. bools.
  destruct (assoc x b).
  - inversion H; subst. cbn [env_good forallb]. rewrite set_assoc_good by assumption. assumption.
  - destruct (set_existing x v bs) as [r|] eqn:E; [|discriminate]. inversion H; subst.
    cbn [env_good forallb]. rewrite H0. eapply IH; eauto.
Qed.

Lemma set_existing_none x v : forall bs, set_existing x v bs = None <-> lookup_blocks x bs = None.
Proof.
  induction bs as [|b bs IH]; cbn [set_existing lookup_blocks]; [tauto|].
  destruct (assoc x b); [split; discriminate|].
  destruct (set_existing x v bs), (lookup_blocks x bs); split; intros H; try discriminate; try reflexivity.
  - destruct IH as [_ IH]. discriminate (IH eq_refl).
  - destruct IH as [IH _]. discriminate (IH eq_refl).
Qed.

Lemma set_existing_some_indep x v w : forall bs r, set_existing x v bs = Some r -> exists r', set_existing x w bs = Some r'.
Proof.
  intros bs r H. destruct (set_existing x w bs) eqn:E; [eauto|].
  apply (set_existing_none x w) in E. apply (set_existing_none x v) in E. congruence.
Qed.

Lemma bind_params_good ps : forall vs b, forallb vgood vs = true -> block_good b = true ->
  block_good (bind_params ps vs b) = true.
Proof.
  induction ps as [|q ps IH]; intros vs b V G; cbn [bind_params]; [assumption|].
  destruct vs as [|v vs]; [assumption|]. cbn [forallb] in V. bools.
  apply IH; [assumption|]. destruct (N.eqb q underscore); [assumption|].
  unfold block_good in *. cbn [forallb snd]. rewrite H, G. reflexivity.
Qed.

Lemma bind_params_rev ps : forall vs b, bind_params ps vs b = rev (zip_params ps vs) ++ b.
Proof.
  induction ps as [|q ps IH]; intros vs b; cbn [bind_params zip_params]; [reflexivity|].
  destruct vs as [|v vs]; [reflexivity|].
  rewrite IH. destruct (N.eqb q underscore); [reflexivity|].
  cbn [rev]. rewrite <- app_assoc. reflexivity.
Qed.

Lemma param_block_eq ps vs : param_block ps vs = bind_params ps vs [].
Proof. unfold param_block. rewrite bind_params_rev, app_nil_r. reflexivity. Qed.

(* ------------------------------------------------------------------------ *)
(* arithmetic: the operator arms agree with the reference on 64-bit operands *)
Lemma arm_spec_exec o a b : in64 a = true -> in64 b = true ->
  arm_sem true (int_arm o) a b = spec_exec o a b.
Proof. intros. rewrite spec_exec_eq. now apply int_binop_spec_lemma. Qed.

Lemma upd_spec_exec u a b : in64 a = true -> in64 b = true ->
  arm_sem true (upd_arm u) a b = spec_exec (upd_as_binop u) a b.
Proof. intros. rewrite upd_spec_lemma by assumption. now apply arm_spec_exec. Qed.

Lemma spec_exec_range o a b z : in64 a = true -> in64 b = true -> spec_exec o a b = Val z -> in64 z = true.
Proof. rewrite spec_exec_eq. apply spec_in_range. Qed.

Lemma upd_spec_val u a b : exists z, spec_exec (upd_as_binop u) a b = Val z.
Proof. destruct u; cbn; eauto. Qed.

Lemma vbool_good b : vgood (vbool b) = true.
Proof. destruct b; reflexivity. Qed.

Lemma int_binop_good o a b v : in64 a = true -> in64 b = true -> int_binop o a b = Ok v -> vgood v = true.
Proof.
  unfold int_binop. intros A B H. destruct (spec_exec o a b) eqn:E; inversion H; subst.
  - cbn [vgood]. exact (spec_exec_range _ _ _ _ A B E).
  - apply vbool_good.
Qed.

Lemma apply_binop_good o l r v : vgood l = true -> vgood r = true -> apply_binop o l r = Ok v -> vgood v = true.
Proof.
  unfold apply_binop. intros L R H. destruct o.
  - destruct l; try discriminate. destruct r; try discriminate. cbn [vgood] in L, R. exact (int_binop_good _ _ _ _ L R H).
  - inversion H. apply vbool_good.
  - inversion H. apply vbool_good.
  - destruct (as_bool l), (as_bool r); inversion H. apply vbool_good.
  - destruct (as_bool l), (as_bool r); inversion H. apply vbool_good.
  - destruct l; try discriminate. destruct r; inversion H. reflexivity.
Qed.

Lemma int_binop_ctl o a b c : int_binop o a b = Ctl c -> exists k, c = CErr k.
Proof. unfold int_binop. destruct (spec_exec o a b); intros H; inversion H; eauto. Qed.

Lemma apply_binop_ctl o l r c : apply_binop o l r = Ctl c -> exists k, c = CErr k.
Proof.
  unfold apply_binop. intros H. destruct o.
  - destruct l; try (inversion H; eauto; fail). destruct r; try (inversion H; eauto; fail). eapply int_binop_ctl; eassumption.
  - discriminate.
  - discriminate.
  - destruct (as_bool l), (as_bool r); inversion H; eauto.
  - destruct (as_bool l), (as_bool r); inversion H; eauto.
  - destruct l; try (inversion H; eauto; fail). destruct r; inversion H; eauto.
Qed.

(* ------------------------------------------------------------------------ *)
(* Invariants of the reference semantics on the fragment: scope depth is
   preserved, every value is well-formed, and break / continue escape only
   where the fragment allows them. *)
Definition st_ok (s s' : st) : Prop :=
  length (scopes s') = length (scopes s) /\ env_good (scopes s') = true.

Definition res_good {A} (gv : A -> Prop) (brk cnt : bool) (r : res A) (s s' : st) : Prop :=
  match r with
  | Ok v => st_ok s s' /\ gv v
  | Ctl (CReturn v) => st_ok s s' /\ vgood v = true
  | Ctl CBreak => st_ok s s' /\ brk = true
  | Ctl CContinue => st_ok s s' /\ cnt = true
  | _ => True
  end.

Definition vg (v : value) : Prop := vgood v = true.
Definition vsg (l : list value) : Prop := forallb vgood l = true.

Definition good_at (ev : st -> expr -> res value * st) : Prop :=
  forall s e r s' brk cnt, ev s e = (r, s') -> frag brk cnt e = true -> wa e = true ->
    env_good (scopes s) = true -> res_good vg brk cnt r s s'.

Lemma st_ok_refl s : env_good (scopes s) = true -> st_ok s s.
Proof. split; auto. Qed.

Lemma st_ok_trans a b c : st_ok a b -> st_ok b c -> st_ok a c.
Proof. unfold st_ok. intros [] []. split; [congruence|assumption]. Qed.

(* a sub-result other than Ok passes through unchanged *)
Lemma res_good_pass {A B} (g1 : A -> Prop) (g2 : B -> Prop) b1 c1 b2 c2 (r : res A) (r' : res B) s0 s s' :
  res_good g1 b1 c1 r s s' -> st_ok s0 s ->
  (b1 = true -> b2 = true) -> (c1 = true -> c2 = true) ->
  match r, r' with
  | Ok _, _ => False
  | Ctl c, Ctl c' => c = c'
  | OutOfFuel, OutOfFuel => True
  | Unsupp, Unsupp => True
  | _, _ => False
  end ->
  res_good g2 b2 c2 r' s0 s'.
Proof.
  intros G S0 HB HC M. destruct r as [a|c| |], r' as [a'|c'| |]; try contradiction; cbn in *; auto.
  subst c'. destruct c; cbn in *; auto; destruct G as [G1 G2]; (split; [eapply st_ok_trans; eassumption|auto]).
Qed.

Section Good.
Variable p : prog.
Hypothesis PG : prog_good p = true.
Variable ev : st -> expr -> res value * st.
Hypothesis EV : good_at ev.

Lemma wab_cons u x y l : wa_block u (x :: y :: l) = true -> eused x = false /\ wa x = true /\ wa_block u (y :: l) = true.
Proof. unfold wa_block. cbn [wa_block_with]. intros H. bools. auto. Qed.

Lemma wab_one u x : wa_block u [x] = true -> eused x = u /\ wa x = true.
Proof. unfold wa_block. cbn [wa_block_with]. intros H. bools. auto. Qed.

Lemma seq_good body : forall s r s' brk cnt u,
  seq_of ev body s = (r, s') -> frag_block brk cnt body = true -> wa_block u body = true ->
  env_good (scopes s) = true -> res_good vg brk cnt r s s'.
Proof.
  induction body as [|x body IH]; intros s r s' brk cnt u H F W G.
  - cbn in H. inversion H; subst. cbn. split; [now apply st_ok_refl|reflexivity].
  - destruct body as [|y body].
    + cbn [seq_of] in H. cbn [frag_block forallb] in F. bools. apply wab_one in W. destruct W.
      eapply EV; eassumption.
    + change (seq_of ev (x :: y :: body) s) with
        (match ev s x with (Ok _, s1) => seq_of ev (y :: body) s1 | other => other end) in H.
      apply wab_cons in W. destruct W as (U & W1 & W2).
      unfold frag_block in F. cbn [forallb] in F. apply andb_prop in F. destruct F as [F1 F2].
      destruct (ev s x) as [rx s1] eqn:E.
      pose proof (EV _ _ _ _ _ _ E F1 W1 G) as Gx.
      destruct rx as [vx|c| |].
      * destruct Gx as [S1 _]. specialize (IH _ _ _ _ _ _ H F2 W2 (proj2 S1)).
        destruct r as [v|c| |]; cbn in *; auto.
        -- destruct IH. split; [eapply st_ok_trans; eassumption|assumption].
        -- destruct c; auto; destruct IH; (split; [eapply st_ok_trans; eassumption|assumption]).
      * inversion H; subst. exact Gx.
      * inversion H; subst. exact I.
      * inversion H; subst. exact I.
Qed.

Lemma push_pop_ok extra s s1 : st_ok (push_scope extra s) s1 -> st_ok s (pop_scope s1).
Proof.
  unfold st_ok, push_scope, pop_scope. cbn [scopes]. intros [L G].
  destruct (scopes s1) as [|b bs]; [discriminate|]. cbn [tl length] in *.
  cbn [env_good forallb] in G. bools. split; [lia|assumption].
Qed.

Lemma block_in_good extra body s r s' brk cnt u :
  block_in_of ev extra body s = (r, s') -> frag_block brk cnt body = true -> wa_block u body = true ->
  env_good (scopes s) = true -> block_good extra = true -> res_good vg brk cnt r s s'.
Proof.
  unfold block_in_of. intros H F W G GX.
  destruct (seq_of ev body (push_scope extra s)) as [r1 s1] eqn:E. inversion H; subst.
  assert (G1 : env_good (scopes (push_scope extra s)) = true).
  { unfold push_scope, env_good in *. cbn [scopes forallb]. rewrite GX, G. reflexivity. }
  pose proof (seq_good _ _ _ _ _ _ _ E F W G1) as R.
  destruct r as [v|c| |]; cbn in *; auto.
  - destruct R. split; [now apply (push_pop_ok extra)|assumption].
  - destruct c; auto; destruct R; (split; [now apply (push_pop_ok extra)|assumption]).
Qed.

Lemma args_good l : forall s r s',
  args_of ev l s = (r, s') -> forallb (frag false false) l = true -> forallb wa_sub l = true ->
  env_good (scopes s) = true -> res_good (fun vs => vsg vs /\ length vs = length l) false false r s s'.
Proof.
  induction l as [|x l IH]; intros s r s' H F W G.
  - cbn in H. inversion H; subst. cbn. split; [now apply st_ok_refl|split; reflexivity].
  - cbn [args_of] in H. fold (args_of ev) in H. cbn [forallb] in F, W.
    apply andb_prop in F. destruct F as [Fx Fl]. apply andb_prop in W. destruct W as [Wx Wl].
    unfold wa_sub in Wx. apply andb_prop in Wx. destruct Wx as [Ux Wx].
    destruct (args_of ev l s) as [rl s1] eqn:E.
    specialize (IH _ _ _ E Fl Wl G).
    destruct rl as [vs|c| |].
    + destruct IH as [S1 [V L]].
      destruct (ev s1 x) as [rx s2] eqn:E2.
      pose proof (EV _ _ _ _ _ _ E2 Fx Wx (proj2 S1)) as Gx.
      destruct rx as [v|c| |]; inversion H; subst; cbn; auto.
      * destruct Gx as [S2 V2]. split; [eapply st_ok_trans; eassumption|].
        split; [unfold vsg; cbn [forallb]; rewrite V2; exact V|cbn; congruence].
      * destruct c; cbn in *; auto; destruct Gx; (split; [eapply st_ok_trans; eassumption|assumption]).
    + inversion H; subst. destruct c; cbn in *; auto.
    + inversion H; subst. exact I.
    + inversion H; subst. exact I.
Qed.

Ltac fin :=
  cbn [res_good]; unfold st_ok, vg in *;
  repeat match goal with H : _ /\ _ |- _ => destruct H end;
  repeat split; try congruence; auto.

(* a propagated non-Ok sub-result *)
Ltac pass :=
  match goal with
  | Gx : res_good _ _ _ (Ctl ?c) _ _ |- _ => destruct c; cbn [res_good] in Gx |- *; auto; fin
  | |- res_good _ _ _ OutOfFuel _ _ => exact I
  | |- res_good _ _ _ Unsupp _ _ => exact I
  end.

Lemma iter_good x body items : forall s r s',
  iter_of ev x body items s = (r, s') -> frag_block true true body = true -> wa_block false body = true ->
  env_good (scopes s) = true -> forallb vgood items = true -> res_good vg false false r s s'.
Proof.
  induction items as [|v items IH]; intros s r s' H F W G V.
  - cbn in H. inversion H; subst. cbn. split; [now apply st_ok_refl|reflexivity].
  - cbn [iter_of] in H. fold (iter_of ev x body) in H. cbn [forallb] in V. apply andb_prop in V. destruct V as [V1 V2].
    destruct (block_in_of ev (if N.eqb x underscore then [] else [(x, v)]) body s) as [rb s2] eqn:E.
    assert (GX : block_good (if N.eqb x underscore then [] else [(x, v)]) = true).
    { destruct (N.eqb x underscore); [reflexivity|]. unfold block_good. cbn [forallb snd]. rewrite V1. reflexivity. }
    pose proof (block_in_good _ _ _ _ _ _ _ _ E F W G GX) as Gb.
    destruct rb as [vb|c| |].
    + destruct Gb as [S2 _]. specialize (IH _ _ _ H F W (proj2 S2) V2).
      destruct r as [?|c| |]; try exact I; [|destruct c]; cbn [res_good] in *; fin.
    + destruct c.
      * inversion H; subst. destruct Gb as [S2 _]. cbn. split; [assumption|reflexivity].
      * destruct Gb as [S2 _]. specialize (IH _ _ _ H F W (proj2 S2) V2).
        destruct r as [?|c| |]; try exact I; [|destruct c]; cbn [res_good] in *; fin.
      * inversion H; subst. exact Gb.
      * inversion H; subst. exact I.
    + inversion H; subst. exact I.
    + inversion H; subst. exact I.
Qed.

Lemma pick_good s1 ty idx payload brk cnt u cases : forall r s',
  pick_of p ev s1 ty idx payload cases = (r, s') ->
  forallb (fun c => forallb (frag brk cnt) (snd c)) cases = true ->
  forallb (fun c => wa_block_with wa u (snd c)) cases = true ->
  env_good (scopes s1) = true -> match payload with Some pl => vgood pl = true | None => True end ->
  res_good vg brk cnt r s1 s'.
Proof.
  induction cases as [|[[[pat ppos] binder] body] cases IH]; intros r s' H F W G P.
  - cbn in H. inversion H; subst. exact I.
  - cbn [pick_of] in H. fold (pick_of p ev s1 ty idx payload) in H.
    cbn [forallb snd] in F, W. apply andb_prop in F. destruct F as [F1 F2]. apply andb_prop in W. destruct W as [W1 W2].
    specialize (fun r s' H => IH r s' H F2 W2 G P).
    assert (B0 : forall r s', block_in_of ev [] body s1 = (r, s') -> res_good vg brk cnt r s1 s').
    { intros r0 s0 H0. eapply block_in_good; try eassumption. reflexivity. }
    destruct (N.eqb pat underscore); [auto|].
    destruct (lookup p s1 pat) as [pv|]; [|inversion H; subst; exact I].
    assert (HIT : forall t i,
      (if N.eqb ty t && N.eqb idx i
       then match payload, binder with
            | Some pl, Some x => block_in_of ev (if N.eqb x underscore then [] else [(x, pl)]) body s1
            | None, None => block_in_of ev [] body s1
            | _, _ => pick_of p ev s1 ty idx payload cases
            end
       else pick_of p ev s1 ty idx payload cases) = (r, s') -> res_good vg brk cnt r s1 s').
    { intros t i H0. destruct (N.eqb ty t && N.eqb idx i); [|auto].
      destruct payload as [pl|], binder as [x|]; auto.
      eapply block_in_good; try eassumption.
      destruct (N.eqb x underscore); [reflexivity|]. unfold block_good. cbn [forallb snd]. rewrite P. reflexivity. }
    destruct pv; try (inversion H; subst; exact I); eapply HIT; eassumption.
Qed.

Lemma call_good s2 vs cenv params body r s' :
  call_of ev s2 vs cenv params body = (r, s') -> body_ok body = true -> env_good cenv = true ->
  vsg vs -> env_good (scopes s2) = true -> res_good vg false false r s2 s'.
Proof.
  unfold call_of, body_ok. intros H B C V G. apply andb_prop in B. destruct B as [B1 B2].
  destruct (Nat.eqb (length params) (length vs)); [|inversion H; subst; exact I].
  destruct (seq_of ev body _) as [rb s3] eqn:E.
  assert (G1 : env_good (scopes (mkSt (bind_params params vs [] :: cenv) (printed s2))) = true).
  { unfold env_good in *. cbn [scopes forallb]. rewrite C, bind_params_good; auto. }
  pose proof (seq_good _ _ _ _ _ _ _ E B1 B2 G1) as R.
  destruct rb as [v|c| |]; [|destruct c|..]; inversion H; subst; cbn [res_good] in *; try exact I;
    destruct R as [_ R]; (split; [split; [reflexivity|exact G]|exact R]).
Qed.

Lemma emit_ok t s : env_good (scopes s) = true -> st_ok s (emit t s).
Proof. intros G. split; [reflexivity|exact G]. Qed.

Lemma apply_good s2 fv vs r s' :
  apply_of p ev s2 fv vs = (r, s') -> vgood fv = true -> vsg vs -> env_good (scopes s2) = true ->
  res_good vg false false r s2 s'.
Proof.
  unfold apply_of. intros H FV V G.
  destruct fv as [z|t|ty idx name pl|l|l|cenv params body|name shown|ty idx name|bi]; try (inversion H; subst; exact I).
  - cbn [vgood] in FV. apply andb_prop in FV. destruct FV as [C B]. eapply call_good; eassumption.
  - destruct (assoc name (funs p)) as [fd|] eqn:A; [|inversion H; subst; exact I].
    eapply call_good; try eassumption.
    unfold prog_good in PG. apply andb_prop in PG. destruct PG as [_ PF].
    apply assoc_In in A. exact (forallb_In _ _ _ PF A).
  - destruct vs as [|a [|b0 vs]]; try (inversion H; subst; exact I).
    inversion H; subst. cbn. split; [now apply st_ok_refl|]. unfold vg. cbn [vgood].
    unfold vsg in V. cbn [forallb] in V. apply andb_prop in V. tauto.
  - destruct vs as [|a [|b0 vs]]; try (inversion H; subst; exact I).
    destruct bi.
    + destruct a; inversion H; subst; try exact I. cbn. split; [now apply emit_ok|reflexivity].
    + destruct a; inversion H; subst; try exact I. cbn. split; [now apply emit_ok|reflexivity].
    + inversion H; subst. cbn. split; [now apply st_ok_refl|reflexivity].
Qed.

Ltac use_ev_m E Gx b c :=
  match type of E with
  | ev ?s ?x = (?r, ?s1) => assert (Gx : res_good vg b c r s s1) by (eapply EV; eassumption)
  end.
Ltac use_ev E Gx := use_ev_m E Gx false false.

Lemma res_good_trans {A} (g : A -> Prop) b c (r : res A) s s1 s' :
  st_ok s s1 -> res_good g b c r s1 s' -> res_good g b c r s s'.
Proof.
  intros S R. destruct r as [v|k| |]; [|destruct k|..]; cbn [res_good] in *; auto;
    destruct R as [R1 R2]; (split; [eapply st_ok_trans; eassumption|assumption]).
Qed.

Lemma res_good_weaken {A} (g : A -> Prop) b c (r : res A) s s' :
  res_good g false false r s s' -> res_good g b c r s s'.
Proof.
  intros R. destruct r as [v|k| |]; [|destruct k|..]; cbn [res_good] in *; auto;
    destruct R as [R1 R2]; discriminate.
Qed.

Lemma eval_step_good : good_at (eval_step p ev).
Proof.
  intros s e r s' brk cnt H F W G. pose proof F as F0. pose proof W as W0.
  destruct e as [m z|m t|m x|m o l r0|m x rhs|m x xpos rhs|m uo x xpos rhs|m c tb el|m c body|m x it body
                |m|m|m oe|m items|m items|m fe args|m params body|m inner|m sc cases|m];
    cbn [eval_step] in H; cbn [frag wa] in F, W.
  - (* EInt *) inversion H; subst. cbn [res_good]. split; [now apply st_ok_refl|exact F].
  - (* EStr *) inversion H; subst. cbn [res_good]. split; [now apply st_ok_refl|reflexivity].
  - (* EVar *) destruct (lookup p s x) eqn:L; inversion H; subst; cbn [res_good]; auto.
    split; [now apply st_ok_refl|]. eapply lookup_good; eassumption.
  - (* EBin *) bools.
    destruct (ev s l) as [r1 s1] eqn:E1. use_ev E1 G1.
    destruct r1 as [lv|k| |]; [|inversion H; subst; pass..].
    destruct G1 as [[L1 G1] V1].
    destruct (ev s1 r0) as [r2 s2] eqn:E2. use_ev E2 G2.
    destruct r2 as [rv|k| |]; [|inversion H; subst; pass..].
    destruct G2 as [[L2 G2] V2]. inversion H; subst.
    destruct (apply_binop o lv rv) eqn:A; try exact I; [|apply apply_binop_ctl in A; destruct A as [k ->]; exact I].
    cbn [res_good]. split; [split; [congruence|assumption]|]. exact (apply_binop_good _ _ _ _ V1 V2 A).
  - (* ELet *) bools.
    destruct (ev s rhs) as [r1 s1] eqn:E1. use_ev E1 G1.
    destruct r1 as [v|k| |]; [|inversion H; subst; pass..].
    destruct G1 as [[L1 G1] V1]. inversion H; subst. cbn [res_good]. unfold bind.
    split; [split; cbn [scopes]; [rewrite add_new_length; assumption|now apply add_new_good]|reflexivity].
  - (* EAssign *) bools.
    destruct (ev s rhs) as [r1 s1] eqn:E1. use_ev E1 G1.
    destruct r1 as [v|k| |]; [|inversion H; subst; pass..].
    destruct G1 as [[L1 G1] V1].
    destruct (set_existing x v (scopes s1)) as [sc|] eqn:SE; inversion H; subst; [|exact I].
    cbn [res_good]. split; [split; cbn [scopes]|reflexivity].
    + rewrite (set_existing_length _ _ _ _ SE). assumption.
    + eapply set_existing_good; eassumption.
  - (* EUpd *) bools.
    destruct (ev s rhs) as [r1 s1] eqn:E1. use_ev E1 G1.
    destruct r1 as [rv|k| |]; [|inversion H; subst; pass..].
    destruct G1 as [[L1 G1] V1].
    destruct (lookup p s1 x) as [cur|] eqn:L; [|inversion H; subst; exact I].
    pose proof (lookup_good _ _ _ _ PG G1 L) as VC.
    destruct cur as [a| | | | | | | |]; try (inversion H; subst; exact I).
    destruct rv as [b| | | | | | | |]; try (inversion H; subst; exact I).
    destruct (int_binop (upd_as_binop uo) a b) as [nv|k| |] eqn:IB; try (inversion H; subst; exact I).
    + destruct (set_existing x nv (scopes s1)) as [sc|] eqn:SE; inversion H; subst; [|exact I].
      cbn [res_good]. split; [split; cbn [scopes]|reflexivity].
      * rewrite (set_existing_length _ _ _ _ SE). assumption.
      * exact (set_existing_good _ _ _ _ (int_binop_good _ _ _ _ VC V1 IB) G1 SE).
    + inversion H; subst. apply int_binop_ctl in IB. destruct IB as [k' ->]. exact I.
  - (* EIf *) bools.
    destruct (ev s c) as [r1 s1] eqn:E1. use_ev E1 G1.
    destruct r1 as [cv|k| |]; [|inversion H; subst; pass..].
    destruct G1 as [S1 V1]. pose proof (proj2 S1) as G1.
    destruct (as_bool cv) as [[|]|]; [| |inversion H; subst; exact I].
    + destruct (block_in_of ev [] tb s1) as [rb s2] eqn:EB.
      assert (Gb : res_good vg brk cnt rb s1 s2) by (eapply block_in_good; try eassumption; reflexivity).
      apply (res_good_trans _ _ _ _ _ _ _ S1) in Gb.
      destruct rb as [v|k| |]; inversion H; subst; try exact Gb.
      destruct Gb as [Gb1 Gb2]. split; [assumption|]. destruct el; [assumption|reflexivity].
    + destruct el as [eb|].
      * eapply res_good_trans; [exact S1|]. eapply block_in_good; try eassumption; reflexivity.
      * inversion H; subst. split; [assumption|reflexivity].
  - (* EWhile *) bools.
    destruct (ev s c) as [r1 s1] eqn:E1. use_ev E1 G1.
    destruct r1 as [cv|k| |]; [|inversion H; subst; pass..].
    destruct G1 as [S1 V1]. pose proof (proj2 S1) as G1.
    destruct (as_bool cv) as [[|]|]; [| |inversion H; subst; exact I].
    + destruct (block_in_of ev [] body s1) as [rb s2] eqn:EB.
      assert (Gb : res_good vg true true rb s1 s2) by (eapply block_in_good; try eassumption; reflexivity).
      apply (res_good_trans _ _ _ _ _ _ _ S1) in Gb.
      destruct rb as [v|k| |]; [|destruct k|..].
      * destruct Gb as [Gb1 Gb2]. eapply res_good_trans; [exact Gb1|]. eapply EV; try eassumption. exact (proj2 Gb1).
      * inversion H; subst. destruct Gb as [Gb1 Gb2]. split; [assumption|reflexivity].
      * destruct Gb as [Gb1 Gb2]. eapply res_good_trans; [exact Gb1|]. eapply EV; try eassumption. exact (proj2 Gb1).
      * inversion H; subst. exact Gb.
      * inversion H; subst. exact I.
      * inversion H; subst. exact I.
      * inversion H; subst. exact I.
    + inversion H; subst. split; [assumption|reflexivity].
  - (* EFor *) bools.
    destruct (ev s it) as [r1 s1] eqn:E1. use_ev E1 G1.
    destruct r1 as [iv|k| |]; [|inversion H; subst; pass..].
    destruct G1 as [S1 V1]. pose proof (proj2 S1) as G1.
    destruct iv; try (inversion H; subst; exact I).
    eapply res_good_trans; [exact S1|]. apply res_good_weaken.
    eapply iter_good; try eassumption.
  - (* EBreak *) assert (Hr : r = Ctl CBreak /\ s' = s) by (inversion H; auto). destruct Hr as [-> ->].
    split; [now apply st_ok_refl|exact F].
  - (* EContinue *) assert (Hr : r = Ctl CContinue /\ s' = s) by (inversion H; auto). destruct Hr as [-> ->].
    split; [now apply st_ok_refl|exact F].
  - (* EReturn *) destruct oe as [x|].
    + bools. destruct (ev s x) as [r1 s1] eqn:E1. use_ev E1 G1.
      destruct r1 as [v|k| |]; [|inversion H; subst; pass..].
      inversion H; subst. exact G1.
    + inversion H; subst. split; [now apply st_ok_refl|reflexivity].
  - (* EList *) unfold lift_args in H. destruct (args_of ev items s) as [ra s1] eqn:EA.
    pose proof (args_good _ _ _ _ EA F W G) as Ga.
    destruct ra as [vs|k| |]; inversion H; subst; try exact I.
    + destruct Ga as [S1 [V1 _]]. split; [assumption|exact V1].
    + destruct k; cbn [res_good] in *; auto; destruct Ga; discriminate.
  - (* ETuple *) unfold lift_args in H. destruct (args_of ev items s) as [ra s1] eqn:EA.
    pose proof (args_good _ _ _ _ EA F W G) as Ga.
    destruct ra as [vs|k| |]; inversion H; subst; try exact I.
    + destruct Ga as [S1 [V1 _]]. split; [assumption|exact V1].
    + destruct k; cbn [res_good] in *; auto; destruct Ga; discriminate.
  - (* ECall *) bools.
    destruct (ev s fe) as [r1 s1] eqn:E1. use_ev E1 G1.
    destruct r1 as [fv|k| |]; [|inversion H; subst; pass..].
    destruct G1 as [S1 V1]. pose proof (proj2 S1) as G1.
    unfold lift_args in H. destruct (args_of ev args s1) as [ra s2] eqn:EA.
    assert (Ga : res_good (fun vs => vsg vs /\ length vs = length args) false false ra s1 s2)
      by (eapply args_good; eassumption).
    apply (res_good_trans _ _ _ _ _ _ _ S1) in Ga.
    destruct ra as [vs|k| |]; try (inversion H; subst; exact I).
    + destruct Ga as [S2 [V2 _]]. eapply res_good_trans; [exact S2|]. apply res_good_weaken.
      eapply apply_good; try eassumption. exact (proj2 S2).
    + inversion H; subst. destruct k; cbn [res_good] in *; auto; destruct Ga; discriminate.
  - (* EFun *) inversion H; subst. split; [now apply st_ok_refl|].
    unfold vg. cbn [vgood]. unfold body_ok, frag_block, wa_block.
    apply andb_true_intro. split; [exact G|]. apply andb_true_intro. split; [exact F|exact W].
  - (* EParen *) bools. eapply EV; eassumption.
  - (* EMatch *) bools.
    destruct (ev s sc) as [r1 s1] eqn:E1. use_ev E1 G1.
    destruct r1 as [sv|k| |]; [|inversion H; subst; pass..].
    destruct G1 as [S1 V1]. pose proof (proj2 S1) as G1.
    destruct sv as [ | |ty idx nm payload| | | | | |]; try (inversion H; subst; exact I).
    eapply res_good_trans; [exact S1|]. eapply pick_good; try eassumption.
    unfold vg in V1. cbn [vgood] in V1. destruct payload; [assumption|exact I].
  - (* EUnsupported *) discriminate.
Qed.

End Good.

Theorem eval_good p : prog_good p = true -> forall fuel, good_at (eval p fuel).
Proof.
  intros PG. induction fuel as [|f IH].
  - intros s e r s' brk cnt H _ _ _. cbn in H. inversion H; subst. exact I.
  - intros s e r s' brk cnt H. rewrite eval_unfold in H. revert H. apply eval_step_good; assumption.
Qed.

(* ------------------------------------------------------------------------ *)
(* machine-side helpers *)
Lemma fold_push_cfg items : forall t vs bs nb u,
  fold_left (fun acc it => push_todo acc SNot it) items (mkFrame t vs bs nb u) =
  mkFrame (rev (fresh items) ++ t) vs bs nb u.
Proof.
  induction items as [|x items IH]; intros t vs bs nb u; cbn [fold_left]; [reflexivity|].
  unfold push_todo at 2. cbn [todo vals blocks nextb uses]. rewrite IH.
  unfold fresh. cbn [map rev]. rewrite <- app_assoc. reflexivity.
Qed.

Lemma pop_n_app l : forall r, pop_n (length l) (l ++ r) = Some (l, r).
Proof. induction l as [|v l IH]; intros r; cbn [length pop_n app]; [reflexivity|]. rewrite IH. reflexivity. Qed.

Lemma eval_block_cfg t vs bs nb u ub body :
  eval_block (mkFrame t vs bs nb u) ub body =
  mkFrame (fresh body ++ t) (match body with [] => if ub then vunit :: vs else vs | _ => vs end)
          (add_all ([] :: bs) nb) [] u.
Proof. destruct body, ub; reflexivity. Qed.

Lemma add_all_binder (x : ident) (v : value) bs :
  add_all ([] :: bs) (if N.eqb x underscore then [] else [(x, v)]) =
  (if N.eqb x underscore then [] else [(x, v)]) :: bs.
Proof.
  destruct (N.eqb x underscore) eqn:E; [reflexivity|]. cbn [add_all]. unfold add_new. rewrite E. reflexivity.
Qed.

Definition inert (x : estate * expr) : Prop :=
  is_running_loop (fst x) (snd x) = false /\ entry_pops (fst x) (snd x) = false.

Lemma inert_fresh l : Forall inert (fresh l).
Proof. induction l; constructor; auto. split; reflexivity. Qed.

Lemma break_unwind_inert pre : forall t bs vs, Forall inert pre ->
  break_unwind (pre ++ t) bs vs = break_unwind t bs vs.
Proof.
  induction pre as [|[s e] pre IH]; intros t bs vs F; [reflexivity|].
  inversion F as [|? ? [R P] F']; subst. cbn [fst snd] in R, P. cbn [app break_unwind]. rewrite R, P. auto.
Qed.

Lemma continue_unwind_inert pre : forall t bs, Forall inert pre ->
  continue_unwind (pre ++ t) bs = continue_unwind t bs.
Proof.
  induction pre as [|[s e] pre IH]; intros t bs F; [reflexivity|].
  inversion F as [|? ? [R P] F']; subst. cbn [fst snd] in R, P. cbn [app continue_unwind]. rewrite R, P. auto.
Qed.

Lemma return_unwind_inert pre : forall t bs, Forall inert pre ->
  return_unwind (pre ++ t) bs = return_unwind t bs.
Proof.
  induction pre as [|[s e] pre IH]; intros t bs F; [reflexivity|].
  inversion F as [|? ? [R P] F']; subst. cbn [fst snd] in P. cbn [app return_unwind]. rewrite P. auto.
Qed.

Lemma shape2 {A} (l l0 : list A) : length l = S (length l0) -> l0 <> [] -> exists b0 b1 bs, l = b0 :: b1 :: bs.
Proof.
  intros L N. destruct l0 as [|x l0]; [contradiction|]. destruct l as [|b0 [|b1 bs]]; try discriminate. eauto.
Qed.

Lemma st_ok_nonempty s s' : st_ok s s' -> scopes s <> [] -> scopes s' <> [].
Proof. intros [L _] N E. rewrite E in L. destruct (scopes s); [contradiction|discriminate]. Qed.

Lemma nth_error_skipn_nil {A} (l : list A) k : skipn k l = [] -> nth_error l k = None.
Proof. revert l. induction k; intros [|x l] H; cbn in *; try reflexivity; [discriminate|auto]. Qed.

Lemma nth_error_skipn_cons {A} (l : list A) k v r : skipn k l = v :: r -> nth_error l k = Some v /\ skipn (S k) l = r.
Proof.
  revert l. induction k; intros [|x l] H; cbn [skipn nth_error] in *; try discriminate.
  - inversion H; subst. auto.
  - apply IHk in H. exact H.
Qed.

Lemma run_steps_done p n : forall a b v c, run_steps p n a = Some b -> step p b = Done v c -> run p (S n) a = RDone v c.
Proof.
  induction n as [|n IH]; intros a b v c R HS; cbn [run_steps] in R.
  - inversion R; subst. cbn [run]. rewrite HS. reflexivity.
  - destruct (step p a) eqn:E; try discriminate. change (run p (S (S n)) a) with
      (match step p a with Next s' => run p (S n) s' | Done v s' => RDone v s' | Failed e s' => RFailed e s'
       | Crashed => RCrashed | Unsupported => RUnsupported end).
    rewrite E. eapply IH; eassumption.
Qed.

Lemma run_steps_failed p n : forall a b er c, run_steps p n a = Some b -> step p b = Failed er c -> run p (S n) a = RFailed er c.
Proof.
  induction n as [|n IH]; intros a b er c R HS; cbn [run_steps] in R.
  - inversion R; subst. cbn [run]. rewrite HS. reflexivity.
  - destruct (step p a) eqn:E; try discriminate. change (run p (S (S n)) a) with
      (match step p a with Next s' => run p (S n) s' | Done v s' => RDone v s' | Failed e s' => RFailed e s'
       | Crashed => RCrashed | Unsupported => RUnsupported end).
    rewrite E. eapply IH; eassumption.
Qed.

(* ------------------------------------------------------------------------ *)
(* the simulation *)
Section Sim.
Variable p : prog.
Hypothesis PG : prog_good p = true.

(* what the machine does when the reference raises a control signal while the
   continuation below the current expression is t and the value stack vs *)
Definition sim_ctl (c : ctl) (s' : st) (t : list (estate * expr)) (vs : list value) (u : bool)
           (rest : list frame) (start : state) : Prop :=
  match c with
  | CErr _ => fails p start (printed s')
  | CBreak => forall t' bs' vs' lu, break_unwind t (scopes s') vs = Some (t', bs', vs', Some lu) ->
      exists tk', reaches p start (cfg t' (if lu then vunit :: vs' else vs') bs' u rest tk' (printed s'))
  | CContinue => forall t' bs', continue_unwind t (scopes s') = Some (t', bs') ->
      exists tk', reaches p start (cfg t' vs bs' u rest tk' (printed s'))
  | CReturn v => forall bs', return_unwind t (scopes s') = Some bs' ->
      exists tk' vs', reaches p start (cfg [] (v :: vs') bs' u rest tk' (printed s'))
  end.

Definition sim_res (r : res value) (s' : st) (ub : bool) (t : list (estate * expr)) (vs : list value)
           (u : bool) (rest : list frame) (start : state) : Prop :=
  match r with
  | Ok v => exists tk', reaches p start (cfg t (if ub then v :: vs else vs) (scopes s') u rest tk' (printed s'))
  | Ctl c => sim_ctl c s' t vs u rest start
  | _ => True
  end.

Lemma sim_ctl_reach c s' t vs u rest a b :
  reaches p a b -> sim_ctl c s' t vs u rest b -> sim_ctl c s' t vs u rest a.
Proof.
  intros R S. destruct c; cbn [sim_ctl] in *.
  - intros t' bs' vs' lu H. destruct (S _ _ _ _ H) as [tk' R']. exists tk'. eapply reaches_trans; eassumption.
  - intros t' bs' H. destruct (S _ _ H) as [tk' R']. exists tk'. eapply reaches_trans; eassumption.
  - intros bs' H. destruct (S _ H) as (tk' & vs' & R'). exists tk', vs'. eapply reaches_trans; eassumption.
  - eapply fails_reach; eassumption.
Qed.

Lemma sim_res_reach r s' ub t vs u rest a b :
  reaches p a b -> sim_res r s' ub t vs u rest b -> sim_res r s' ub t vs u rest a.
Proof.
  intros R S. destruct r; cbn [sim_res] in *; auto.
  - destruct S as [tk' R']. exists tk'. eapply reaches_trans; eassumption.
  - eapply sim_ctl_reach; eassumption.
Qed.

Lemma sim_res_step r s' ub t vs u rest a b :
  step p a = Next b -> sim_res r s' ub t vs u rest b -> sim_res r s' ub t vs u rest a.
Proof. intros H. apply sim_res_reach. eapply reaches_step; [eassumption|apply reaches_refl]. Qed.

(* a signal raised under a prefix of inert continuation entries, same value stack *)
Lemma sim_ctl_lift_stmt c s' pre t vs u rest a b :
  Forall inert pre -> reaches p a b ->
  sim_ctl c s' (pre ++ t) vs u rest b -> sim_ctl c s' t vs u rest a.
Proof.
  intros F R S. eapply sim_ctl_reach; [exact R|]. destruct c; cbn [sim_ctl] in *.
  - intros t' bs' vs' lu H. apply S. rewrite break_unwind_inert; assumption.
  - intros t' bs' H. apply S. rewrite continue_unwind_inert; assumption.
  - intros bs' H. apply S. rewrite return_unwind_inert; assumption.
  - exact S.
Qed.

(* ... in an operand position: the value stack holds partial results, the signal is an error or a return *)
Definition nopop (x : estate * expr) : Prop := entry_pops (fst x) (snd x) = false.

Lemma return_unwind_nopop pre : forall t bs, Forall nopop pre ->
  return_unwind (pre ++ t) bs = return_unwind t bs.
Proof.
  induction pre as [|[s e] pre IH]; intros t bs F; [reflexivity|].
  inversion F as [|? ? P F']; subst. unfold nopop in P. cbn [fst snd] in P. cbn [app return_unwind]. rewrite P. auto.
Qed.

Lemma sim_ctl_lift c s' pre t vs1 vs2 u rest a b :
  c <> CBreak -> c <> CContinue -> Forall nopop pre -> reaches p a b ->
  sim_ctl c s' (pre ++ t) vs1 u rest b -> sim_ctl c s' t vs2 u rest a.
Proof.
  intros NB NC F R S. eapply sim_ctl_reach; [exact R|]. destruct c; cbn [sim_ctl] in *; try contradiction.
  - intros bs' H. apply S. rewrite return_unwind_nopop; assumption.
  - exact S.
Qed.

Lemma res_good_nobc {A} (g : A -> Prop) c s s' :
  res_good g false false (Ctl c) s s' -> c <> CBreak /\ c <> CContinue.
Proof. destruct c; cbn; intros H; try (destruct H; discriminate); split; discriminate. Qed.

Lemma fails_now a er c o : step p a = Failed er c -> ekind_of er = KException -> out c = o -> fails p a o.
Proof. intros S K O. exists a, er, c. split; [apply reaches_refl|auto]. Qed.

Definition sim_expr_at (ev : st -> expr -> res value * st) : Prop :=
  forall s e r s' brk cnt, ev s e = (r, s') -> frag brk cnt e = true -> wa e = true ->
    env_good (scopes s) = true -> scopes s <> [] ->
  forall t vs u rest tk,
    sim_res r s' (eused e) t vs u rest (cfg ((SNot, e) :: t) vs (scopes s) u rest tk (printed s)).

(* a while loop that has been entered: its condition is about to be evaluated *)
Definition sim_while_at (ev : st -> expr -> res value * st) : Prop :=
  forall s m c body r s' brk cnt, ev s (EWhile m c body) = (r, s') ->
    frag brk cnt (EWhile m c body) = true -> wa (EWhile m c body) = true ->
    env_good (scopes s) = true -> scopes s <> [] ->
  forall t vs u rest tk,
    sim_res r s' (used m) t vs u rest
      (cfg ((SNot, c) :: (SPart BWill, EWhile m c body) :: t) vs (scopes s) u rest tk (printed s)).

Section Step.
Variable ev : st -> expr -> res value * st.
Hypothesis EV : good_at ev.
Hypothesis SV : sim_expr_at ev.
Hypothesis SW : sim_while_at ev.

Lemma seq_sim body : forall s r s1 brk cnt ub,
  seq_of ev body s = (r, s1) -> frag_block brk cnt body = true -> wa_block ub body = true ->
  env_good (scopes s) = true -> scopes s <> [] ->
  forall t vs u rest tk,
    sim_res r s1 ub t vs u rest
      (cfg (fresh body ++ t) (match body with [] => if ub then vunit :: vs else vs | _ => vs end)
           (scopes s) u rest tk (printed s)).
Proof.
  induction body as [|x body IH]; intros s r s1 brk cnt ub H F W G N t vs u rest tk.
  - cbn in H. inversion H; subst. cbn [sim_res fresh map app]. exists tk. apply reaches_refl.
  - destruct body as [|y body].
    + cbn [seq_of] in H. cbn [frag_block forallb] in F. apply andb_prop in F. destruct F as [F1 _].
      apply wab_one in W. destruct W as [U W]. subst ub.
      exact (SV _ _ _ _ _ _ H F1 W G N t vs u rest tk).
    + change (seq_of ev (x :: y :: body) s) with
        (match ev s x with (Ok _, s1) => seq_of ev (y :: body) s1 | other => other end) in H.
      apply wab_cons in W. destruct W as (U & W1 & W2).
      unfold frag_block in F. cbn [forallb] in F. apply andb_prop in F. destruct F as [F1 F2].
      destruct (ev s x) as [rx sx] eqn:E.
      pose proof (EV _ _ _ _ _ _ E F1 W1 G) as Gx.
      pose proof (SV _ _ _ _ _ _ E F1 W1 G N (fresh (y :: body) ++ t) vs u rest tk) as Sx.
      rewrite U in Sx.
      destruct rx as [vx|c| |].
      * destruct Gx as [S1 _]. destruct Sx as [tk1 R1].
        eapply sim_res_reach; [exact R1|].
        exact (IH _ _ _ _ _ _ H F2 W2 (proj2 S1) (st_ok_nonempty _ _ S1 N) t vs u rest tk1).
      * inversion H; subst. cbn [sim_res] in *.
        eapply (sim_ctl_lift_stmt _ _ (fresh (y :: body))); [apply inert_fresh|apply reaches_refl|exact Sx].
      * inversion H; subst. exact I.
      * inversion H; subst. exact I.
Qed.

Lemma args_sim l : forall s r s1,
  args_of ev l s = (r, s1) -> forallb (frag false false) l = true -> forallb wa_sub l = true ->
  env_good (scopes s) = true -> scopes s <> [] ->
  forall t vs u rest tk,
    match r with
    | Ok vl => exists tk', reaches p (cfg (rev (fresh l) ++ t) vs (scopes s) u rest tk (printed s))
                                     (cfg t (vl ++ vs) (scopes s1) u rest tk' (printed s1))
    | Ctl c => sim_ctl c s1 t vs u rest (cfg (rev (fresh l) ++ t) vs (scopes s) u rest tk (printed s))
    | _ => True
    end.
Proof.
  induction l as [|x l IH]; intros s r s1 H F W G N t vs u rest tk.
  - cbn in H. inversion H; subst. exists tk. apply reaches_refl.
  - cbn [args_of] in H. fold (args_of ev) in H. cbn [forallb] in F, W.
    apply andb_prop in F. destruct F as [Fx Fl]. apply andb_prop in W. destruct W as [Wx Wl].
    unfold wa_sub in Wx. apply andb_prop in Wx. destruct Wx as [Ux Wx].
    assert (TE : rev (fresh (x :: l)) ++ t = rev (fresh l) ++ (SNot, x) :: t).
    { unfold fresh. cbn [map rev]. rewrite <- app_assoc. reflexivity. }
    rewrite TE.
    destruct (args_of ev l s) as [rl sl] eqn:E.
    pose proof (args_good _ EV _ _ _ _ E Fl Wl G) as Gl.
    specialize (IH _ _ _ E Fl Wl G N ((SNot, x) :: t) vs u rest tk).
    destruct rl as [vl|c| |].
    + destruct Gl as [S1 [V L]]. destruct IH as [tk1 R1].
      destruct (ev sl x) as [rx s2] eqn:E2.
      pose proof (EV _ _ _ _ _ _ E2 Fx Wx (proj2 S1)) as Gx.
      pose proof (SV _ _ _ _ _ _ E2 Fx Wx (proj2 S1) (st_ok_nonempty _ _ S1 N) t (vl ++ vs) u rest tk1) as Sx.
      rewrite Ux in Sx.
      destruct rx as [v|c| |]; inversion H; subst; auto.
      * destruct Sx as [tk2 R2]. exists tk2. eapply reaches_trans; [exact R1|exact R2].
      * destruct (res_good_nobc _ _ _ _ Gx) as [NB NC].
        eapply (sim_ctl_lift _ _ []); [exact NB|exact NC|constructor|exact R1|exact Sx].
    + inversion H; subst.
      eapply (sim_ctl_lift_stmt _ _ [(SNot, x)]); [|apply reaches_refl|exact IH].
      constructor; [split; reflexivity|constructor].
    + inversion H; subst. exact I.
    + inversion H; subst. exact I.
Qed.

Definition sim_case (e : expr) : Prop :=
  forall s r s' brk cnt, eval_step p ev s e = (r, s') -> frag brk cnt e = true -> wa e = true ->
    env_good (scopes s) = true -> scopes s <> [] ->
  forall t vs u rest tk,
    sim_res r s' (eused e) t vs u rest (cfg ((SNot, e) :: t) vs (scopes s) u rest tk (printed s)).

Ltac msimp :=
  cbn [exec];
  repeat (progress (unfold push_todo, push_val, pop_val, pop_block, set_vals, set_blocks, set_todo, set_nextb;
                    cbn [todo vals blocks nextb uses app eused emeta used])).

Ltac fold_cfg :=
  repeat match goal with
  | |- context [mkState (mkFrame ?t ?vs ?bs [] ?u :: ?rest) ?tk ?o false None None] =>
      change (mkState (mkFrame t vs bs [] u :: rest) tk o false None None) with (cfg t vs bs u rest tk o)
  end.

(* one machine step; the side goal is closed by computation *)
Ltac mstep := eapply sim_res_step; [rewrite step_cfg; msimp; reflexivity|]; msimp; fold_cfg.
Ltac rstep := eapply reaches_step; [rewrite step_cfg; msimp; reflexivity|]; msimp; fold_cfg.

Ltac use_ev E Gx :=
  match type of E with
  | ev ?s ?x = (?r, ?s1) => assert (Gx : res_good vg false false r s s1) by (eapply EV; eassumption)
  end.

Lemma push_val_if_cfg (b : bool) t vs bs u v rest tk o :
  mkState (push_val_if b (mkFrame t vs bs [] u) v :: rest) tk o false None None =
  cfg t (if b then v :: vs else vs) bs u rest tk o.
Proof. destruct b; reflexivity. Qed.

Lemma sim_EInt m z : sim_case (EInt m z).
Proof.
  intros s r s' brk cnt H F W G N t vs u rest tk. cbn [eval_step] in H. inversion H; subst.
  cbn [sim_res]. exists (tk + 1)%N. rstep. msimp. rewrite push_val_if_cfg. apply reaches_refl.
Qed.

Lemma sim_EStr m x : sim_case (EStr m x).
Proof.
  intros s r s' brk cnt H F W G N t vs u rest tk. cbn [eval_step] in H. inversion H; subst.
  cbn [sim_res]. exists (tk + 1)%N. rstep. msimp. rewrite push_val_if_cfg. apply reaches_refl.
Qed.

Lemma get_var_lookup t vs bs nb u s x : bs = scopes s -> get_var p (mkFrame t vs bs nb u) x = lookup p s x.
Proof. intros ->. reflexivity. Qed.

Lemma sim_EVar m x : sim_case (EVar m x).
Proof.
  intros s r s' brk cnt H F W G N t vs u rest tk. cbn [eval_step] in H.
  destruct (lookup p s x) as [v|] eqn:L; inversion H; subst; cbn [sim_res sim_ctl].
  - exists (tk + 1)%N. eapply reaches_step.
    { rewrite step_cfg. cbn [exec]. rewrite (get_var_lookup _ _ _ _ _ s' x eq_refl), L. reflexivity. }
    msimp. rewrite push_val_if_cfg. apply reaches_refl.
  - eapply fails_now; [rewrite step_cfg; cbn [exec]; rewrite (get_var_lookup _ _ _ _ _ s' x eq_refl), L; reflexivity| |]; reflexivity.
Qed.

Lemma sim_EFun m ps body : sim_case (EFun m ps body).
Proof.
  intros s r s' brk cnt H F W G N t vs u rest tk. cbn [eval_step] in H. inversion H; subst.
  cbn [sim_res]. exists (tk + 1)%N. rstep. msimp. rewrite push_val_if_cfg. apply reaches_refl.
Qed.

Lemma sim_EContinue m : sim_case (EContinue m).
Proof.
  intros s r s' brk cnt H F W G N t vs u rest tk. cbn [eval_step] in H. inversion H; subst.
  cbn [sim_res sim_ctl]. intros t' bs' CU. exists (tk + 1)%N. eapply reaches_step.
  { rewrite step_cfg. msimp. rewrite CU. reflexivity. }
  apply reaches_refl.
Qed.

Lemma sim_EBreak m : sim_case (EBreak m).
Proof.
  intros s r s' brk cnt H F W G N t vs u rest tk. cbn [eval_step] in H. inversion H; subst.
  cbn [sim_res sim_ctl]. intros t' bs' vs' lu BU. exists (tk + 1)%N. eapply reaches_step.
  { rewrite step_cfg. msimp. rewrite BU. reflexivity. }
  msimp. rewrite push_val_if_cfg. apply reaches_refl.
Qed.

Lemma sim_EParen m inner : sim_case (EParen m inner).
Proof.
  intros s r s' brk cnt H F W G N t vs u rest tk. cbn [eval_step] in H. cbn [frag wa] in F, W.
  apply andb_prop in W. destruct W as [U W]. apply eqb_prop in U.
  mstep. change (eused (EParen m inner)) with (used m). rewrite <- U.
  exact (SV _ _ _ _ _ _ H F W G N t vs u rest (tk + 1)%N).
Qed.

Ltac inert_tac := repeat (constructor; [split; reflexivity|]); constructor.
Ltac nopop_tac := repeat (constructor; [reflexivity|]); constructor.

(* a signal from an operand sub-evaluation: passes through *)
Ltac pass_ctl G1 S1 pre :=
  match goal with
  | H : (Ctl ?c, ?sx) = (?r, ?s') |- _ =>
      inversion H; subst; cbn [sim_res] in *;
      let NB := fresh "NB" in let NC := fresh "NC" in
      destruct (res_good_nobc _ _ _ _ G1) as [NB NC];
      eapply (sim_ctl_lift _ _ pre); [exact NB|exact NC|nopop_tac|apply reaches_refl|exact S1]
  end.
Ltac pass_triv :=
  match goal with
  | H : (OutOfFuel, _) = (_, _) |- _ => inversion H; subst; exact I
  | H : (Unsupp, _) = (_, _) |- _ => inversion H; subst; exact I
  end.

Lemma binop_agree t lv rv vs bs u m o lp rp :
  vgood lv = true -> vgood rv = true ->
  match apply_binop o lv rv with
  | Ok v => eval_binop (mkFrame t (rv :: lv :: vs) bs [] u) m o lp rp = XOk (push_val_if (used m) (mkFrame t vs bs [] u) v) []
  | Ctl _ => exists pos, eval_binop (mkFrame t (rv :: lv :: vs) bs [] u) m o lp rp = exn pos
  | _ => True
  end.
Proof.
  intros VL VR. unfold eval_binop, apply_binop. cbn [vals set_vals todo blocks nextb uses]. destruct o.
  - destruct lv; cbn [int_of]; eauto. destruct rv; cbn [int_of]; eauto.
    cbn [vgood] in VL, VR. rewrite arm_spec_exec by assumption. unfold int_binop.
    destruct (spec_exec o z z0); eauto.
  - reflexivity.
  - reflexivity.
  - destruct (as_bool lv); eauto. destruct (as_bool rv); eauto.
  - destruct (as_bool lv); eauto. destruct (as_bool rv); eauto.
  - destruct lv; cbn [str_of]; eauto. destruct rv; cbn [str_of]; eauto.
Qed.

Lemma sim_EBin m o l r0 : sim_case (EBin m o l r0).
Proof.
  intros s r s' brk cnt H F W G N t vs u rest tk. cbn [eval_step] in H. cbn [frag wa] in F, W.
  apply andb_prop in F. destruct F as [Fl Fr]. apply andb_prop in W. destruct W as [Wl Wr].
  apply andb_prop in Wl. destruct Wl as [Ul Wl]. apply andb_prop in Wr. destruct Wr as [Ur Wr].
  set (e := EBin m o l r0) in *. mstep.
  destruct (ev s l) as [r1 s1] eqn:E1. use_ev E1 G1.
  pose proof (SV _ _ _ _ _ _ E1 Fl Wl G N ((SNot, r0) :: (SDone, e) :: t) vs u rest (tk + 1)%N) as S1. rewrite Ul in S1.
  destruct r1 as [lv|c| |]; [|pass_ctl G1 S1 [(SNot, r0); (SDone, e)]|pass_triv..].
  destruct G1 as [St1 V1]. destruct S1 as [tk1 R1]. eapply sim_res_reach; [exact R1|]. clear R1.
  pose proof (proj2 St1) as Gs1.
  destruct (ev s1 r0) as [r2 s2] eqn:E2. use_ev E2 G2.
  pose proof (SV _ _ _ _ _ _ E2 Fr Wr Gs1 (st_ok_nonempty _ _ St1 N) ((SDone, e) :: t) (lv :: vs) u rest tk1) as S2.
  rewrite Ur in S2.
  destruct r2 as [rv|c| |]; [|pass_ctl G2 S2 [(SDone, e)]|pass_triv..].
  destruct G2 as [St2 V2]. destruct S2 as [tk2 R2]. eapply sim_res_reach; [exact R2|]. clear R2.
  inversion H; subst.
  pose proof (binop_agree t lv rv vs (scopes s') u m o (epos l) (epos r0) V1 V2) as BA.
  destruct (apply_binop o lv rv) as [v|c| |] eqn:A; cbn [sim_res]; auto.
  - exists (tk2 + 1)%N. eapply reaches_step; [rewrite step_cfg; unfold e; cbn [exec]; rewrite BA; reflexivity|].
    msimp. rewrite push_val_if_cfg. apply reaches_refl.
  - apply apply_binop_ctl in A. destruct A as [k ->]. destruct BA as [pos BA]. cbn [sim_ctl].
    eapply fails_now; [rewrite step_cfg; unfold e; cbn [exec]; rewrite BA; reflexivity| |]; reflexivity.
Qed.

Lemma sim_ELet m x rhs : sim_case (ELet m x rhs).
Proof.
  intros s r s' brk cnt H F W G N t vs u rest tk. cbn [eval_step] in H. cbn [frag wa] in F, W.
  apply andb_prop in W. destruct W as [U W].
  set (e := ELet m x rhs) in *. mstep.
  destruct (ev s rhs) as [r1 s1] eqn:E1. use_ev E1 G1.
  pose proof (SV _ _ _ _ _ _ E1 F W G N ((SDone, e) :: t) vs u rest (tk + 1)%N) as S1. rewrite U in S1.
  destruct r1 as [v|c| |]; [|pass_ctl G1 S1 [(SDone, e)]|pass_triv..].
  destruct S1 as [tk1 R1]. eapply sim_res_reach; [exact R1|]. clear R1.
  inversion H; subst. cbn [sim_res]. exists (tk1 + 1)%N. rstep.
  msimp. rewrite push_val_if_cfg. apply reaches_refl.
Qed.

Lemma sim_EAssign m x xpos rhs : sim_case (EAssign m x xpos rhs).
Proof.
  intros s r s' brk cnt H F W G N t vs u rest tk. cbn [eval_step] in H. cbn [frag wa] in F, W.
  apply andb_prop in W. destruct W as [U W].
  set (e := EAssign m x xpos rhs) in *. mstep.
  destruct (ev s rhs) as [r1 s1] eqn:E1. use_ev E1 G1.
  pose proof (SV _ _ _ _ _ _ E1 F W G N ((SDone, e) :: t) vs u rest (tk + 1)%N) as S1. rewrite U in S1.
  destruct r1 as [v|c| |]; [|pass_ctl G1 S1 [(SDone, e)]|pass_triv..].
  destruct S1 as [tk1 R1]. eapply sim_res_reach; [exact R1|]. clear R1.
  destruct (set_existing x v (scopes s1)) as [sc|] eqn:SE; inversion H; subst; cbn [sim_res sim_ctl].
  - destruct (lookup_blocks x (scopes s1)) eqn:LB; [|apply (set_existing_none x v) in LB; congruence].
    exists (tk1 + 1)%N. eapply reaches_step.
    { rewrite step_cfg. unfold e. msimp. rewrite LB, SE. reflexivity. }
    msimp. rewrite push_val_if_cfg. apply reaches_refl.
  - apply set_existing_none in SE.
    eapply fails_now; [rewrite step_cfg; unfold e; msimp; rewrite SE; reflexivity| |]; reflexivity.
Qed.

Lemma sim_EUpd m uo x xpos rhs : sim_case (EUpd m uo x xpos rhs).
Proof.
  intros s r s' brk cnt H F W G N t vs u rest tk. cbn [eval_step] in H. cbn [frag wa] in F, W.
  apply andb_prop in W. destruct W as [U W].
  set (e := EUpd m uo x xpos rhs) in *. mstep.
  destruct (ev s rhs) as [r1 s1] eqn:E1. use_ev E1 G1.
  pose proof (SV _ _ _ _ _ _ E1 F W G N ((SDone, e) :: t) vs u rest (tk + 1)%N) as S1. rewrite U in S1.
  destruct r1 as [rv|c| |]; [|pass_ctl G1 S1 [(SDone, e)]|pass_triv..].
  destruct S1 as [tk1 R1]. eapply sim_res_reach; [exact R1|]. clear R1.
  destruct G1 as [St1 V1].
  assert (GV : get_var p (mkFrame t (rv :: vs) (scopes s1) [] u) x = lookup p s1 x) by reflexivity.
  destruct (lookup p s1 x) as [cur|] eqn:L.
  2: { inversion H; subst. cbn [sim_res sim_ctl].
       eapply fails_now; [rewrite step_cfg; unfold e; msimp; rewrite GV; reflexivity| |]; reflexivity. }
  pose proof (lookup_good _ _ _ _ PG (proj2 St1) L) as VC.
  destruct cur as [a| | | | | | | |];
    try (inversion H; subst; cbn [sim_res sim_ctl];
         eapply fails_now; [rewrite step_cfg; unfold e; msimp; rewrite GV; reflexivity| |]; reflexivity).
  destruct rv as [b| | | | | | | |];
    try (inversion H; subst; cbn [sim_res sim_ctl];
         eapply fails_now; [rewrite step_cfg; unfold e; msimp; rewrite GV; reflexivity| |]; reflexivity).
  unfold vg in V1. cbn [vgood] in VC, V1.
  unfold int_binop in H. destruct (upd_spec_val uo a b) as [z SZ]. rewrite SZ in H.
  destruct (set_existing x (VInt z) (scopes s1)) as [sc|] eqn:SE; inversion H; subst; cbn [sim_res]; try exact I.
  exists (tk1 + 1)%N. eapply reaches_step.
  { rewrite step_cfg. unfold e. msimp. rewrite GV. cbn [int_of]. rewrite upd_spec_exec by assumption. rewrite SZ, SE. reflexivity. }
  msimp. rewrite push_val_if_cfg. apply reaches_refl.
Qed.

Lemma sim_EReturn m oe : sim_case (EReturn m oe).
Proof.
  intros s r s' brk cnt H F W G N t vs u rest tk. cbn [eval_step] in H. cbn [frag wa] in F, W.
  set (e := EReturn m oe) in *. destruct oe as [x|].
  - apply andb_prop in W. destruct W as [U W]. mstep.
    destruct (ev s x) as [r1 s1] eqn:E1. use_ev E1 G1.
    pose proof (SV _ _ _ _ _ _ E1 F W G N ((SDone, e) :: t) vs u rest (tk + 1)%N) as S1. rewrite U in S1.
    destruct r1 as [v|c| |]; [|pass_ctl G1 S1 [(SDone, e)]|pass_triv..].
    destruct S1 as [tk1 R1]. eapply sim_res_reach; [exact R1|]. clear R1.
    inversion H; subst. cbn [sim_res sim_ctl]. intros bs' RU. exists (tk1 + 1)%N, vs.
    eapply reaches_step; [rewrite step_cfg; unfold e; msimp; rewrite RU; reflexivity|]. apply reaches_refl.
  - inversion H; subst. cbn [sim_res sim_ctl]. intros bs' RU. exists (tk + 1 + 1)%N, vs.
    rstep. eapply reaches_step; [rewrite step_cfg; unfold e; msimp; rewrite RU; reflexivity|]. apply reaches_refl.
Qed.

Lemma sim_EList m items : sim_case (EList m items).
Proof.
  intros s r s' brk cnt H F W G N t vs u rest tk. cbn [eval_step] in H. cbn [frag wa] in F, W.
  eapply sim_res_step. { rewrite step_cfg. cbn [exec]. reflexivity. }
  change (push_todo (mkFrame t vs (scopes s) [] u) SDone (EList m items)) with (mkFrame ((SDone, EList m items) :: t) vs (scopes s) [] u).
  rewrite fold_push_cfg. cbn [app]. fold_cfg. set (e := EList m items) in *.
  unfold lift_args in H. destruct (args_of ev items s) as [ra s1] eqn:EA.
  pose proof (args_good _ EV _ _ _ _ EA F W G) as Ga.
  pose proof (args_sim _ _ _ _ EA F W G N ((SDone, e) :: t) vs u rest (tk + 1)%N) as Sa.
  destruct ra as [vl|c| |]; inversion H; subst; cbn [sim_res]; try exact I.
  - destruct Sa as [tk1 R1]. destruct Ga as [_ [_ L]]. exists (tk1 + 1)%N.
    eapply reaches_trans; [exact R1|]. eapply reaches_step.
    { rewrite step_cfg. unfold e. cbn [exec vals]. rewrite <- L, pop_n_app. reflexivity. }
    msimp. rewrite push_val_if_cfg. apply reaches_refl.
  - eapply (sim_ctl_lift_stmt _ _ [(SDone, e)]); [inert_tac|apply reaches_refl|exact Sa].
Qed.

Lemma sim_ETuple m items : sim_case (ETuple m items).
Proof.
  intros s r s' brk cnt H F W G N t vs u rest tk. cbn [eval_step] in H. cbn [frag wa] in F, W.
  eapply sim_res_step. { rewrite step_cfg. cbn [exec]. reflexivity. }
  change (push_todo (mkFrame t vs (scopes s) [] u) SDone (ETuple m items)) with (mkFrame ((SDone, ETuple m items) :: t) vs (scopes s) [] u).
  rewrite fold_push_cfg. cbn [app]. fold_cfg. set (e := ETuple m items) in *.
  unfold lift_args in H. destruct (args_of ev items s) as [ra s1] eqn:EA.
  pose proof (args_good _ EV _ _ _ _ EA F W G) as Ga.
  pose proof (args_sim _ _ _ _ EA F W G N ((SDone, e) :: t) vs u rest (tk + 1)%N) as Sa.
  destruct ra as [vl|c| |]; inversion H; subst; cbn [sim_res]; try exact I.
  - destruct Sa as [tk1 R1]. destruct Ga as [_ [_ L]]. exists (tk1 + 1)%N.
    eapply reaches_trans; [exact R1|]. eapply reaches_step.
    { rewrite step_cfg. unfold e. cbn [exec vals]. rewrite <- L, pop_n_app. reflexivity. }
    msimp. rewrite push_val_if_cfg. apply reaches_refl.
  - eapply (sim_ctl_lift_stmt _ _ [(SDone, e)]); [inert_tac|apply reaches_refl|exact Sa].
Qed.

Lemma sim_ctl_pop c s1 es e0 t vs u rest start b0 b1 bs :
  entry_pops es e0 = true -> is_running_loop es e0 = false -> scopes s1 = b0 :: b1 :: bs ->
  sim_ctl c s1 ((es, e0) :: t) vs u rest start -> sim_ctl c (pop_scope s1) t vs u rest start.
Proof.
  intros P R E S. destruct c; cbn [sim_ctl] in *; unfold pop_scope; cbn [scopes printed].
  - intros t' bs' vs' lu H. apply S. cbn [break_unwind]. rewrite R, P, E. rewrite E in H. cbn [pop_block_list]. exact H.
  - intros t' bs' H. apply S. cbn [continue_unwind]. rewrite R, P, E. rewrite E in H. cbn [pop_block_list]. exact H.
  - intros bs' H. apply S. cbn [return_unwind]. rewrite P, E. rewrite E in H. cbn [pop_block_list]. exact H.
  - exact S.
Qed.

(* a block entered by eval_block whose owner entry (es, e0) pops the block in one step *)
Lemma block_sim extra body s r s' brk cnt ub es e0 (pv : list value -> list value) :
  block_in_of ev extra body s = (r, s') -> frag_block brk cnt body = true -> wa_block ub body = true ->
  env_good (scopes s) = true -> block_good extra = true -> scopes s <> [] ->
  entry_pops es e0 = true -> is_running_loop es e0 = false ->
  forall t vs u rest,
  (forall vs' b0 b1 bs tk o,
     step p (cfg ((es, e0) :: t) vs' (b0 :: b1 :: bs) u rest tk o) = Next (cfg t (pv vs') (b1 :: bs) u rest (tk + 1) o)) ->
  forall tk,
  match r with
  | Ok v => exists tk',
      reaches p (cfg (fresh body ++ (es, e0) :: t) (match body with [] => if ub then vunit :: vs else vs | _ => vs end)
                     (extra :: scopes s) u rest tk (printed s))
                (cfg t (pv (if ub then v :: vs else vs)) (scopes s') u rest tk' (printed s'))
  | Ctl c => sim_ctl c s' t vs u rest
               (cfg (fresh body ++ (es, e0) :: t) (match body with [] => if ub then vunit :: vs else vs | _ => vs end)
                    (extra :: scopes s) u rest tk (printed s))
  | _ => True
  end.
Proof.
  unfold block_in_of. intros H F W G GX N P R t vs u rest HS tk.
  destruct (seq_of ev body (push_scope extra s)) as [rb s1] eqn:E. inversion H; subst. clear H.
  assert (G1 : env_good (scopes (push_scope extra s)) = true).
  { unfold push_scope, env_good in *. cbn [scopes forallb]. rewrite GX, G. reflexivity. }
  assert (N1 : scopes (push_scope extra s) <> []) by discriminate.
  pose proof (seq_good _ EV _ _ _ _ _ _ _ E F W G1) as Gb.
  pose proof (seq_sim _ _ _ _ _ _ _ E F W G1 N1 ((es, e0) :: t) vs u rest tk) as Sb.
  change (scopes (push_scope extra s)) with (extra :: scopes s) in Sb.
  change (printed (push_scope extra s)) with (printed s) in Sb.
  destruct r as [v|c| |]; auto.
  - destruct Gb as [[L _] _]. cbn [push_scope scopes length] in L.
    destruct (shape2 _ _ L N) as (b0 & b1 & bs & SH).
    destruct Sb as [tk1 R1]. exists (tk1 + 1)%N. eapply reaches_trans; [exact R1|].
    rewrite SH. eapply reaches_step; [apply HS|]. unfold pop_scope. cbn [scopes printed]. rewrite SH. apply reaches_refl.
  - cbn [sim_res] in Sb.
    destruct c as [| |rv|k]; [| | |exact Sb];
      (destruct Gb as [[L _] _]; cbn [push_scope scopes length] in L;
       destruct (shape2 _ _ L N) as (b0 & b1 & bs & SH);
       eapply sim_ctl_pop; eassumption).
Qed.


Lemma if_done_step m c tb el t u rest vs' b0 b1 bs tk o :
  step p (cfg ((SDone, EIf m c tb el) :: t) vs' (b0 :: b1 :: bs) u rest tk o) =
  Next (cfg t (if used m && (match el with None => true | Some _ => false end) then vunit :: vs' else vs')
            (b1 :: bs) u rest (tk + 1) o).
Proof. rewrite step_cfg. msimp. rewrite push_val_if_cfg. reflexivity. Qed.

Lemma sim_EIf m c tb el : sim_case (EIf m c tb el).
Proof.
  intros s r s' brk cnt H F W G N t vs u rest tk. cbn [eval_step] in H. cbn [frag wa] in F, W.
  apply andb_prop in F. destruct F as [F Fe]. apply andb_prop in F. destruct F as [Fc Ft].
  apply andb_prop in W. destruct W as [W We]. apply andb_prop in W. destruct W as [Wc Wt].
  apply andb_prop in Wc. destruct Wc as [Uc Wc].
  set (e := EIf m c tb el) in *. mstep.
  destruct (ev s c) as [r1 s1] eqn:E1. use_ev E1 G1.
  pose proof (SV _ _ _ _ _ _ E1 Fc Wc G N ((SPart BWill, e) :: t) vs u rest (tk + 1)%N) as S1. rewrite Uc in S1.
  destruct r1 as [cv|k| |]; [|pass_ctl G1 S1 [(SPart BWill, e)]|pass_triv..].
  destruct G1 as [St1 V1]. destruct S1 as [tk1 R1]. eapply sim_res_reach; [exact R1|]. clear R1.
  pose proof (proj2 St1) as Gs1. pose proof (st_ok_nonempty _ _ St1 N) as N1.
  destruct (as_bool cv) as [[|]|] eqn:AB.
  - (* then *)
    eapply sim_res_step.
    { rewrite step_cfg. unfold e. msimp. rewrite AB. rewrite eval_block_cfg. reflexivity. }
    cbn [add_all app]. fold_cfg. fold e.
    pose proof (block_sim [] tb s1) as BS.
    destruct (block_in_of ev [] tb s1) as [rb s2] eqn:EB.
    specialize (BS _ _ _ _ _ (SDone) e _ eq_refl Ft Wt Gs1 eq_refl N1 eq_refl eq_refl t vs u rest
                   (if_done_step m c tb el t u rest) (tk1 + 1)%N).
    destruct rb as [v|k| |]; inversion H; subst; cbn [sim_res]; auto.
    destruct BS as [tk2 R2]. exists tk2. eapply reaches_trans; [exact R2|].
    unfold e, eused, emeta. destruct el, (used m); cbn; apply reaches_refl.
  - (* else *)
    destruct el as [eb|].
    + eapply sim_res_step.
      { rewrite step_cfg. unfold e. msimp. rewrite AB. rewrite eval_block_cfg. reflexivity. }
      cbn [add_all app]. fold_cfg. fold e.
      pose proof (block_sim [] eb s1 _ _ _ _ _ (SDone) e _ H Fe We Gs1 eq_refl N1 eq_refl eq_refl t vs u rest
                     (if_done_step m c tb (Some eb) t u rest) (tk1 + 1)%N) as BS.
      destruct r as [v|k| |]; cbn [sim_res]; auto.
      destruct BS as [tk2 R2]. exists tk2. eapply reaches_trans; [exact R2|].
      unfold e, eused, emeta. destruct (used m); cbn; apply reaches_refl.
    + inversion H; subst. cbn [sim_res].
      destruct (scopes s') as [|b1 bs] eqn:SH; [contradiction|].
      exists (tk1 + 1 + 1)%N. eapply reaches_step.
      { rewrite step_cfg. unfold e. msimp. rewrite AB. reflexivity. }
      msimp. fold_cfg. eapply reaches_step; [apply if_done_step|].
      unfold e, eused, emeta. destruct (used m); cbn; apply reaches_refl.
  - inversion H; subst. cbn [sim_res sim_ctl].
    eapply fails_now; [rewrite step_cfg; unfold e; msimp; rewrite AB; reflexivity| |]; reflexivity.
Qed.

Lemma step_ret v vs' bs um t vs bs2 u rest tk o :
  step p (cfg [] (v :: vs') bs um (mkFrame t vs bs2 [] u :: rest) tk o) =
  Next (cfg t (if um then v :: vs else vs) bs2 u rest tk o).
Proof. destruct um; reflexivity. Qed.

Lemma call_sim s2 vl cenv params body r s' um :
  call_of ev s2 vl cenv params body = (r, s') -> Nat.eqb (length params) (length vl) = true ->
  body_ok body = true -> env_good cenv = true -> vsg vl ->
  forall t vs u rest tk,
  sim_res r s' um t vs u rest
    (cfg (fresh body) [vunit] (param_block params vl :: cenv) um (mkFrame t vs (scopes s2) [] u :: rest) tk (printed s2)).
Proof.
  unfold call_of, body_ok. intros H LE B C V t vs u rest tk. rewrite LE in H.
  apply andb_prop in B. destruct B as [B1 B2]. rewrite param_block_eq.
  set (s0 := mkSt (bind_params params vl [] :: cenv) (printed s2)) in *.
  destruct (seq_of ev body s0) as [rb s3] eqn:E.
  assert (G0 : env_good (scopes s0) = true).
  { unfold s0, env_good in *. cbn [scopes forallb]. rewrite C, bind_params_good; auto. }
  assert (N0 : scopes s0 <> []) by discriminate.
  assert (FIN : forall v vs' tk1,
    reaches p (cfg [] (v :: vs') (scopes s3) um (mkFrame t vs (scopes s2) [] u :: rest) tk1 (printed s3))
              (cfg t (if um then v :: vs else vs) (scopes s2) u rest tk1 (printed s3))).
  { intros v vs' tk1. eapply reaches_step; [apply step_ret|apply reaches_refl]. }
  assert (SB : exists vs0, sim_res rb s3 true [] vs0 um (mkFrame t vs (scopes s2) [] u :: rest)
                 (cfg (fresh body) [vunit] (scopes s0) um (mkFrame t vs (scopes s2) [] u :: rest) tk (printed s0))).
  { destruct body as [|x body].
    - exists []. exact (seq_sim _ _ _ _ _ _ _ E B1 B2 G0 N0 [] [] um _ tk).
    - exists [vunit]. pose proof (seq_sim _ _ _ _ _ _ _ E B1 B2 G0 N0 [] [vunit] um (mkFrame t vs (scopes s2) [] u :: rest) tk) as X.
      rewrite app_nil_r in X. exact X. }
  destruct SB as [vs0 SB]. change (scopes s0) with (bind_params params vl [] :: cenv) in SB.
  change (printed s0) with (printed s2) in SB.
  destruct rb as [v|c| |]; [|destruct c as [| |v|k]|..]; inversion H; subst; cbn [sim_res sim_ctl scopes printed] in *; auto.
  - destruct SB as [tk1 R1]. exists tk1. eapply reaches_trans; [exact R1|apply FIN].
  - destruct (SB _ eq_refl) as (tk1 & vs' & R1). exists tk1. eapply reaches_trans; [exact R1|apply FIN].
Qed.

Lemma arity_err_exn (n expected : nat) args cpos :
  exists pos, (if Nat.ltb expected n then exn (nth_pos args expected cpos) else exn cpos) = exn pos.
Proof. destruct (Nat.ltb expected n); eauto. Qed.

Lemma apply_sim m fe args s2 fv vl r s' :
  apply_of p ev s2 fv vl = (r, s') -> vgood fv = true -> vsg vl -> length vl = length args ->
  forall t vs u rest tk,
  sim_res r s' (used m) t vs u rest
    (cfg ((SDone, ECall m fe args) :: t) (vl ++ fv :: vs) (scopes s2) u rest tk (printed s2)).
Proof.
  intros H VF V L t vs u rest tk.
  assert (ST : step p (cfg ((SDone, ECall m fe args) :: t) (vl ++ fv :: vs) (scopes s2) u rest tk (printed s2)) =
    match eval_call p (mkFrame t (vl ++ fv :: vs) (scopes s2) [] u) m args with
    | XOk f' pr => Next (mkState (f' :: rest) (tk + 1) (pr ++ printed s2) false None None)
    | XCall f' callee => Next (mkState (callee :: f' :: rest) (tk + 1) (printed s2) false None None)
    | XErr er => Failed er (mkState (mkFrame ((SDone, ECall m fe args) :: t) (vl ++ fv :: vs) (scopes s2) [] u :: rest) (tk + 1) (printed s2) false None None)
    | XPanic => Crashed
    | XUnsupported => Unsupported
    end) by (rewrite step_cfg; reflexivity).
  unfold eval_call in ST. cbn [vals] in ST. rewrite <- L, pop_n_app in ST. unfold set_vals in ST. cbn [todo vals blocks nextb uses] in ST.
  unfold apply_of in H.
  destruct fv as [z|x|ty idx name pl|l|l|cenv params body|name shown|ty idx name|bi];
    try (inversion H; subst; cbn [sim_res sim_ctl]; eapply fails_now; [exact ST| |]; reflexivity).
  - (* closure *)
    cbn [vgood] in VF. apply andb_prop in VF. destruct VF as [C B].
    destruct (Nat.eqb (length params) (length vl)) eqn:LE.
    + eapply sim_res_step; [exact ST|]. eapply call_sim; eassumption.
    + unfold call_of in H. rewrite LE in H. inversion H; subst. cbn [sim_res sim_ctl].
      eapply fails_now; [exact ST| |]; reflexivity.
  - (* named function *)
    destruct (assoc name (funs p)) as [fd|] eqn:A; [|inversion H; subst; exact I].
    assert (B : body_ok (fbody fd) = true).
    { unfold prog_good in PG. apply andb_prop in PG. destruct PG as [_ PF].
      apply assoc_In in A. exact (forallb_In _ _ _ PF A). }
    destruct (Nat.eqb (length (fparams fd)) (length vl)) eqn:LE.
    + eapply sim_res_step; [exact ST|]. eapply call_sim; try eassumption; reflexivity.
    + unfold call_of in H. rewrite LE in H. inversion H; subst. cbn [sim_res sim_ctl].
      destruct (arity_err_exn (length vl) (length (fparams fd)) args (pstart m, pend m)) as [pos AE].
      rewrite AE in ST. eapply fails_now; [exact ST| |]; reflexivity.
  - (* constructor *)
    destruct vl as [|a [|a2 vl]]; cbn [length Nat.eqb] in ST.
    + destruct (arity_err_exn 0 1 args (pstart m, pend m)) as [pos AE]. rewrite AE in ST.
      inversion H; subst. eapply fails_now; [exact ST| |]; reflexivity.
    + inversion H; subst. cbn [sim_res]. exists (tk + 1)%N. eapply reaches_step; [exact ST|].
      cbn [app]. rewrite push_val_if_cfg. apply reaches_refl.
    + destruct (arity_err_exn (S (S (length vl))) 1 args (pstart m, pend m)) as [pos AE]. rewrite AE in ST.
      inversion H; subst. eapply fails_now; [exact ST| |]; reflexivity.
  - (* builtin *)
    destruct vl as [|a [|a2 vl]]; cbn [length Nat.eqb] in ST.
    + destruct (arity_err_exn 0 1 args (pstart m, pend m)) as [pos AE]. rewrite AE in ST.
      inversion H; subst. eapply fails_now; [exact ST| |]; reflexivity.
    + destruct bi.
      * destruct a; cbn [str_of] in ST; inversion H; subst; cbn [sim_res sim_ctl];
          try (eapply fails_now; [exact ST| |]; reflexivity).
        exists (tk + 1)%N. eapply reaches_step; [exact ST|]. cbn [app]. rewrite push_val_if_cfg. apply reaches_refl.
      * destruct a; cbn [str_of] in ST; inversion H; subst; cbn [sim_res sim_ctl];
          try (eapply fails_now; [exact ST| |]; reflexivity).
        exists (tk + 1)%N. eapply reaches_step; [exact ST|]. cbn [app]. rewrite push_val_if_cfg. apply reaches_refl.
      * inversion H; subst. cbn [sim_res]. exists (tk + 1)%N. eapply reaches_step; [exact ST|].
        cbn [app]. rewrite push_val_if_cfg. apply reaches_refl.
    + destruct (arity_err_exn (S (S (length vl))) 1 args (pstart m, pend m)) as [pos AE]. rewrite AE in ST.
      inversion H; subst. eapply fails_now; [exact ST| |]; reflexivity.
Qed.

Lemma sim_ECall m fe args : sim_case (ECall m fe args).
Proof.
  intros s r s' brk cnt H F W G N t vs u rest tk. cbn [eval_step] in H. cbn [frag wa] in F, W.
  apply andb_prop in F. destruct F as [Ff Fa]. apply andb_prop in W. destruct W as [Wf Wa].
  apply andb_prop in Wf. destruct Wf as [Uf Wf].
  set (e := ECall m fe args) in *. mstep.
  destruct (ev s fe) as [r1 s1] eqn:E1. use_ev E1 G1.
  pose proof (SV _ _ _ _ _ _ E1 Ff Wf G N ((SPart BNot, e) :: t) vs u rest (tk + 1)%N) as S1. rewrite Uf in S1.
  destruct r1 as [fv|k| |]; [|pass_ctl G1 S1 [(SPart BNot, e)]|pass_triv..].
  destruct G1 as [St1 V1]. destruct S1 as [tk1 R1]. eapply sim_res_reach; [exact R1|]. clear R1.
  pose proof (proj2 St1) as Gs1. pose proof (st_ok_nonempty _ _ St1 N) as N1.
  eapply sim_res_step. { rewrite step_cfg. unfold e. cbn [exec]. reflexivity. }
  change (push_todo (mkFrame t (fv :: vs) (scopes s1) [] u) SDone (ECall m fe args))
    with (mkFrame ((SDone, ECall m fe args) :: t) (fv :: vs) (scopes s1) [] u).
  rewrite fold_push_cfg. cbn [app]. fold_cfg. fold e.
  unfold lift_args in H. destruct (args_of ev args s1) as [ra s2] eqn:EA.
  pose proof (args_good _ EV _ _ _ _ EA Fa Wa Gs1) as Ga.
  pose proof (args_sim _ _ _ _ EA Fa Wa Gs1 N1 ((SDone, e) :: t) (fv :: vs) u rest (tk1 + 1)%N) as Sa.
  destruct ra as [vl|k| |]; [| |pass_triv..].
  - destruct Ga as [St2 [V2 L]]. destruct Sa as [tk2 R2]. eapply sim_res_reach; [exact R2|].
    eapply apply_sim; eassumption.
  - inversion H; subst. cbn [sim_res].
    destruct (res_good_nobc _ _ _ _ Ga) as [NB NC].
    eapply (sim_ctl_lift _ _ [(SDone, e)]); [exact NB|exact NC|nopop_tac|apply reaches_refl|exact Sa].
Qed.

Lemma while_entered m c body s r s' brk cnt :
  eval_step p ev s (EWhile m c body) = (r, s') ->
  frag brk cnt (EWhile m c body) = true -> wa (EWhile m c body) = true ->
  env_good (scopes s) = true -> scopes s <> [] ->
  forall t vs u rest tk,
    sim_res r s' (used m) t vs u rest
      (cfg ((SNot, c) :: (SPart BWill, EWhile m c body) :: t) vs (scopes s) u rest tk (printed s)).
Proof.
  intros H F0 W0 G N t vs u rest tk. pose proof F0 as F. pose proof W0 as W.
  cbn [eval_step] in H. cbn [frag wa] in F, W.
  apply andb_prop in F. destruct F as [Fc Fb]. apply andb_prop in W. destruct W as [Wc Wb].
  apply andb_prop in Wc. destruct Wc as [Uc Wc].
  set (e := EWhile m c body) in *.
  destruct (ev s c) as [r1 s1] eqn:E1. use_ev E1 G1.
  pose proof (SV _ _ _ _ _ _ E1 Fc Wc G N ((SPart BWill, e) :: t) vs u rest tk) as S1. rewrite Uc in S1.
  destruct r1 as [cv|k| |]; [|pass_ctl G1 S1 [(SPart BWill, e)]|pass_triv..].
  destruct G1 as [St1 V1]. destruct S1 as [tk1 R1]. eapply sim_res_reach; [exact R1|]. clear R1.
  pose proof (proj2 St1) as Gs1. pose proof (st_ok_nonempty _ _ St1 N) as N1.
  destruct (as_bool cv) as [[|]|] eqn:AB.
  - (* run the body *)
    eapply sim_res_step.
    { rewrite step_cfg. unfold e. msimp. rewrite AB. rewrite eval_block_cfg. reflexivity. }
    cbn [add_all app]. fold_cfg. fold e.
    unfold block_in_of in H. destruct (seq_of ev body (push_scope [] s1)) as [rb s1b] eqn:EB.
    assert (Gp : env_good (scopes (push_scope [] s1)) = true) by exact Gs1.
    assert (Np : scopes (push_scope [] s1) <> []) by discriminate.
    pose proof (seq_good _ EV _ _ _ _ _ _ _ EB Fb Wb Gp) as Gb.
    pose proof (seq_sim _ _ _ _ _ _ _ EB Fb Wb Gp Np ((SPart BDoneRun, e) :: t) vs u rest (tk1 + 1)%N) as Sb.
    change (scopes (push_scope [] s1)) with ([] :: scopes s1) in Sb.
    change (printed (push_scope [] s1)) with (printed s1) in Sb.
    assert (AGAIN : forall b0 b1 bs, scopes s1b = b0 :: b1 :: bs -> env_good (scopes s1b) = true ->
              ev (pop_scope s1b) e = (r, s') -> forall tkx,
              sim_res r s' (used m) t vs u rest
                (cfg ((SPart BDoneRun, e) :: t) vs (scopes s1b) u rest tkx (printed s1b))).
    { intros b0 b1 bs SH GB HE tkx. rewrite SH. mstep.
      assert (SHp : scopes (pop_scope s1b) = b1 :: bs) by (unfold pop_scope; cbn [scopes]; rewrite SH; reflexivity).
      rewrite <- SHp. change (printed s1b) with (printed (pop_scope s1b)).
      eapply SW; try eassumption.
      - rewrite SHp. rewrite SH in GB. unfold env_good in *. cbn [forallb] in GB. apply andb_prop in GB. tauto.
      - rewrite SHp. discriminate. }
    destruct rb as [v|k| |]; [|destruct k as [| |rv|k]|..].
    + destruct Gb as [[L GB] _]. cbn [push_scope scopes length] in L.
      destruct (shape2 _ _ L N1) as (b0 & b1 & bs & SH).
      destruct Sb as [tk2 R2]. eapply sim_res_reach; [exact R2|]. eapply AGAIN; eassumption.
    + (* break *)
      destruct Gb as [[L GB] _]. cbn [push_scope scopes length] in L.
      destruct (shape2 _ _ L N1) as (b0 & b1 & bs & SH).
      inversion H; subst. cbn [sim_res sim_ctl] in *. rewrite SH in Sb.
      destruct (Sb _ _ _ _ eq_refl) as [tk2 R2]. exists (tk2 + 1)%N.
      eapply reaches_trans; [exact R2|]. rstep.
      unfold pop_scope. cbn [scopes printed]. rewrite SH. apply reaches_refl.
    + (* continue *)
      destruct Gb as [[L GB] _]. cbn [push_scope scopes length] in L.
      destruct (shape2 _ _ L N1) as (b0 & b1 & bs & SH).
      cbn [sim_res sim_ctl] in Sb. destruct (Sb _ _ eq_refl) as [tk2 R2].
      eapply sim_res_reach; [exact R2|]. eapply AGAIN; eassumption.
    + (* return *)
      destruct Gb as [[L GB] _]. cbn [push_scope scopes length] in L.
      destruct (shape2 _ _ L N1) as (b0 & b1 & bs & SH).
      inversion H; subst. cbn [sim_res sim_ctl] in *. intros bs' RU. apply Sb.
      unfold pop_scope in RU. cbn [scopes] in RU. rewrite SH in *. cbn [tl] in RU. exact RU.
    + inversion H; subst. exact Sb.
    + inversion H; subst. exact I.
    + inversion H; subst. exact I.
  - (* done *)
    inversion H; subst. cbn [sim_res]. exists (tk1 + 1 + 1)%N. eapply reaches_step.
    { rewrite step_cfg. unfold e. msimp. rewrite AB. reflexivity. }
    msimp. rewrite push_val_if_cfg. rstep. apply reaches_refl.
  - inversion H; subst. cbn [sim_res sim_ctl].
    eapply fails_now; [rewrite step_cfg; unfold e; msimp; rewrite AB; reflexivity| |]; reflexivity.
Qed.

Lemma sim_EWhile m c body : sim_case (EWhile m c body).
Proof.
  intros s r s' brk cnt H F W G N t vs u rest tk. mstep.
  eapply while_entered; eassumption.
Qed.

Lemma for_iter m x it body all : forall items k s r s',
  iter_of ev x body items s = (r, s') -> skipn k all = items ->
  frag_block true true body = true -> wa_block false body = true ->
  env_good (scopes s) = true -> scopes s <> [] -> forallb vgood items = true ->
  forall t vs u rest tk,
    sim_res r s' (used m) t vs u rest
      (cfg ((SPart BWill, EFor m x it body) :: t) (VList all :: VInt (Z.of_nat k) :: vs) (scopes s) u rest tk (printed s)).
Proof.
  set (e := EFor m x it body).
  induction items as [|v items IH]; intros k s r s' H SK Fb Wb G N V t vs u rest tk.
  - cbn in H. inversion H; subst. apply nth_error_skipn_nil in SK.
    cbn [sim_res]. destruct (scopes s') as [|b1 bs] eqn:SH; [contradiction|].
    exists (tk + 1 + 1)%N. eapply reaches_step.
    { rewrite step_cfg. unfold e. msimp. rewrite Nat2Z.id, SK. reflexivity. }
    msimp. rewrite push_val_if_cfg. rstep. apply reaches_refl.
  - cbn [iter_of] in H. fold (iter_of ev x body) in H.
    apply nth_error_skipn_cons in SK. destruct SK as [NE SK].
    cbn [forallb] in V. apply andb_prop in V. destruct V as [V1 V2].
    match type of H with context [block_in_of ev ?ex body s] => set (extra := ex) in * end.
    assert (GX : block_good extra = true).
    { unfold extra. destruct (N.eqb x underscore); [reflexivity|]. unfold block_good. cbn [forallb snd]. rewrite V1. reflexivity. }
    eapply sim_res_step.
    { rewrite step_cfg. unfold e. msimp. rewrite Nat2Z.id, NE. rewrite eval_block_cfg. fold extra. unfold extra. rewrite add_all_binder. reflexivity. }
    cbn [app]. fold_cfg. fold e. fold extra.
    unfold block_in_of in H. destruct (seq_of ev body (push_scope extra s)) as [rb s1b] eqn:EB.
    assert (Gp : env_good (scopes (push_scope extra s)) = true).
    { unfold push_scope, env_good in *. cbn [scopes forallb]. rewrite GX, G. reflexivity. }
    assert (Np : scopes (push_scope extra s) <> []) by discriminate.
    pose proof (seq_good _ EV _ _ _ _ _ _ _ EB Fb Wb Gp) as Gb.
    pose proof (seq_sim _ _ _ _ _ _ _ EB Fb Wb Gp Np ((SPart BDoneRun, e) :: t)
                  (VList all :: VInt (Z.of_nat k + 1) :: vs) u rest (tk + 1)%N) as Sb.
    change (scopes (push_scope extra s)) with (extra :: scopes s) in Sb.
    change (printed (push_scope extra s)) with (printed s) in Sb.
    assert (AGAIN : forall b0 b1 bs, scopes s1b = b0 :: b1 :: bs -> env_good (scopes s1b) = true ->
              iter_of ev x body items (pop_scope s1b) = (r, s') -> forall tkx,
              sim_res r s' (used m) t vs u rest
                (cfg ((SPart BDoneRun, e) :: t) (VList all :: VInt (Z.of_nat k + 1) :: vs) (scopes s1b) u rest tkx (printed s1b))).
    { intros b0 b1 bs SH GB HE tkx. rewrite SH. mstep.
      assert (SHp : scopes (pop_scope s1b) = b1 :: bs) by (unfold pop_scope; cbn [scopes]; rewrite SH; reflexivity).
      rewrite <- SHp. change (printed s1b) with (printed (pop_scope s1b)).
      replace (Z.of_nat k + 1) with (Z.of_nat (S k)) by lia.
      eapply IH; try eassumption.
      - rewrite SHp. rewrite SH in GB. unfold env_good in *. cbn [forallb] in GB. apply andb_prop in GB. tauto.
      - rewrite SHp. discriminate. }
    destruct rb as [w|c| |]; [|destruct c as [| |rv|c]|..].
    + destruct Gb as [[L GB] _]. cbn [push_scope scopes length] in L.
      destruct (shape2 _ _ L N) as (b0 & b1 & bs & SH).
      destruct Sb as [tk2 R2]. eapply sim_res_reach; [exact R2|]. eapply AGAIN; eassumption.
    + (* break *)
      destruct Gb as [[L GB] _]. cbn [push_scope scopes length] in L.
      destruct (shape2 _ _ L N) as (b0 & b1 & bs & SH).
      inversion H; subst. cbn [sim_res sim_ctl] in *. rewrite SH in Sb.
      destruct (Sb _ _ _ _ eq_refl) as [tk2 R2]. exists (tk2 + 1)%N.
      eapply reaches_trans; [exact R2|]. rstep.
      unfold pop_scope. cbn [scopes printed]. rewrite SH. apply reaches_refl.
    + (* continue *)
      destruct Gb as [[L GB] _]. cbn [push_scope scopes length] in L.
      destruct (shape2 _ _ L N) as (b0 & b1 & bs & SH).
      cbn [sim_res sim_ctl] in Sb. destruct (Sb _ _ eq_refl) as [tk2 R2].
      eapply sim_res_reach; [exact R2|]. eapply AGAIN; eassumption.
    + (* return *)
      destruct Gb as [[L GB] _]. cbn [push_scope scopes length] in L.
      destruct (shape2 _ _ L N) as (b0 & b1 & bs & SH).
      inversion H; subst. cbn [sim_res sim_ctl] in *. intros bs' RU. apply Sb.
      unfold pop_scope in RU. cbn [scopes] in RU. rewrite SH in *. cbn [tl] in RU. exact RU.
    + inversion H; subst. exact Sb.
    + inversion H; subst. exact I.
    + inversion H; subst. exact I.
Qed.

Lemma sim_EFor m x it body : sim_case (EFor m x it body).
Proof.
  intros s r s' brk cnt H F W G N t vs u rest tk. cbn [eval_step] in H. cbn [frag wa] in F, W.
  apply andb_prop in F. destruct F as [Fi Fb]. apply andb_prop in W. destruct W as [Wi Wb].
  apply andb_prop in Wi. destruct Wi as [Ui Wi].
  set (e := EFor m x it body) in *. mstep.
  destruct (ev s it) as [r1 s1] eqn:E1. use_ev E1 G1.
  pose proof (SV _ _ _ _ _ _ E1 Fi Wi G N ((SPart BWill, e) :: t) (VInt 0 :: vs) u rest (tk + 1)%N) as S1. rewrite Ui in S1.
  destruct r1 as [iv|k| |]; [|pass_ctl G1 S1 [(SPart BWill, e)]|pass_triv..].
  destruct G1 as [St1 V1]. destruct S1 as [tk1 R1]. eapply sim_res_reach; [exact R1|]. clear R1.
  pose proof (proj2 St1) as Gs1. pose proof (st_ok_nonempty _ _ St1 N) as N1.
  destruct iv as [ | | |items| | | | | ];
    try (inversion H; subst; cbn [sim_res sim_ctl];
         eapply fails_now; [rewrite step_cfg; unfold e; msimp; reflexivity| |]; reflexivity).
  change (VInt 0) with (VInt (Z.of_nat 0)).
  eapply (for_iter m x it body items items 0%nat); try eassumption; reflexivity.
Qed.

Lemma match_agree s1 ty idx payload um spos t vs u brk cnt : forall cases r s',
  pick_of p ev s1 ty idx payload cases = (r, s') ->
  forallb (fun c => forallb (frag brk cnt) (snd c)) cases = true ->
  forallb (fun c => wa_block_with wa um (snd c)) cases = true ->
  match payload with Some pl => vgood pl = true | None => True end ->
  (exists extra body,
     match_cases p (mkFrame t vs (scopes s1) [] u) um spos ty idx payload cases =
       XOk (mkFrame (fresh body ++ t) (match body with [] => if um then vunit :: vs else vs | _ => vs end)
                    (extra :: scopes s1) [] u) [] /\
     block_in_of ev extra body s1 = (r, s') /\ block_good extra = true /\
     frag_block brk cnt body = true /\ wa_block um body = true) \/
  (exists pos k, match_cases p (mkFrame t vs (scopes s1) [] u) um spos ty idx payload cases = exn pos /\
     r = Ctl (CErr k) /\ s' = s1).
Proof.
  induction cases as [|[[[pat ppos] binder] body] cases IH]; intros r s' H F W P.
  - cbn in H. inversion H; subst. right. cbn [match_cases]. eauto.
  - cbn [pick_of] in H. fold (pick_of p ev s1 ty idx payload) in H. cbn [match_cases].
    cbn [forallb snd] in F, W. apply andb_prop in F. destruct F as [F1 F2]. apply andb_prop in W. destruct W as [W1 W2].
    specialize (fun r s' H => IH r s' H F2 W2 P).
    assert (B0 : forall r s', block_in_of ev [] body s1 = (r, s') ->
      exists extra body0,
        XOk (eval_block (mkFrame t vs (scopes s1) [] u) um body) [] =
          XOk (mkFrame (fresh body0 ++ t) (match body0 with [] => if um then vunit :: vs else vs | _ => vs end)
                       (extra :: scopes s1) [] u) [] /\
        block_in_of ev extra body0 s1 = (r, s') /\ block_good extra = true /\
        frag_block brk cnt body0 = true /\ wa_block um body0 = true).
    { intros r0 s0 H0. exists [], body. rewrite eval_block_cfg. cbn [add_all]. auto. }
    destruct (N.eqb pat underscore); [left; auto|].
    change (get_var p (mkFrame t vs (scopes s1) [] u) pat) with (lookup p s1 pat).
    destruct (lookup p s1 pat) as [pv|]; [|inversion H; subst; right; eauto].
    assert (HIT : forall tt ii,
      (if N.eqb ty tt && N.eqb idx ii
       then match payload, binder with
            | Some pl, Some x => block_in_of ev (if N.eqb x underscore then [] else [(x, pl)]) body s1
            | None, None => block_in_of ev [] body s1
            | _, _ => pick_of p ev s1 ty idx payload cases
            end
       else pick_of p ev s1 ty idx payload cases) = (r, s') ->
      (exists extra body0,
         (if N.eqb ty tt && N.eqb idx ii
          then match payload, binder with
               | Some pl, Some x =>
                   XOk (eval_block (set_nextb (mkFrame t vs (scopes s1) [] u) (if N.eqb x underscore then [] else [(x, pl)])) um body) []
               | None, None => XOk (eval_block (set_nextb (mkFrame t vs (scopes s1) [] u) []) um body) []
               | _, _ => match_cases p (mkFrame t vs (scopes s1) [] u) um spos ty idx payload cases
               end
          else match_cases p (mkFrame t vs (scopes s1) [] u) um spos ty idx payload cases) =
           XOk (mkFrame (fresh body0 ++ t) (match body0 with [] => if um then vunit :: vs else vs | _ => vs end)
                        (extra :: scopes s1) [] u) [] /\
         block_in_of ev extra body0 s1 = (r, s') /\ block_good extra = true /\
         frag_block brk cnt body0 = true /\ wa_block um body0 = true) \/
      (exists pos k,
         (if N.eqb ty tt && N.eqb idx ii
          then match payload, binder with
               | Some pl, Some x =>
                   XOk (eval_block (set_nextb (mkFrame t vs (scopes s1) [] u) (if N.eqb x underscore then [] else [(x, pl)])) um body) []
               | None, None => XOk (eval_block (set_nextb (mkFrame t vs (scopes s1) [] u) []) um body) []
               | _, _ => match_cases p (mkFrame t vs (scopes s1) [] u) um spos ty idx payload cases
               end
          else match_cases p (mkFrame t vs (scopes s1) [] u) um spos ty idx payload cases) = exn pos /\
         r = Ctl (CErr k) /\ s' = s1)).
    { intros tt ii H0. destruct (N.eqb ty tt && N.eqb idx ii); [|auto].
      destruct payload as [pl|], binder as [x|]; cbn beta iota in *; auto.
      left. exists (if N.eqb x underscore then [] else [(x, pl)]), body.
        unfold set_nextb. cbn [todo vals blocks nextb uses]. rewrite eval_block_cfg, add_all_binder.
        repeat split; auto. destruct (N.eqb x underscore); [reflexivity|]. unfold block_good. cbn [forallb snd]. rewrite P. reflexivity.
    }
    destruct pv; try (inversion H; subst; right; eauto; fail); eapply HIT; eassumption.
Qed.

Lemma match_done_step m sc cases t u rest vs' b0 b1 bs tk o :
  step p (cfg ((SDone, EMatch m sc cases) :: t) vs' (b0 :: b1 :: bs) u rest tk o) =
  Next (cfg t ((fun x => x) vs') (b1 :: bs) u rest (tk + 1) o).
Proof. reflexivity. Qed.

Lemma sim_EMatch m sc cases : sim_case (EMatch m sc cases).
Proof.
  intros s r s' brk cnt H F W G N t vs u rest tk. cbn [eval_step] in H. cbn [frag wa] in F, W.
  apply andb_prop in F. destruct F as [Fs Fc]. apply andb_prop in W. destruct W as [Ws Wc].
  apply andb_prop in Ws. destruct Ws as [Us Ws].
  set (e := EMatch m sc cases) in *. mstep.
  destruct (ev s sc) as [r1 s1] eqn:E1. use_ev E1 G1.
  pose proof (SV _ _ _ _ _ _ E1 Fs Ws G N ((SPart BWill, e) :: t) vs u rest (tk + 1)%N) as S1. rewrite Us in S1.
  destruct r1 as [sv|k| |]; [|pass_ctl G1 S1 [(SPart BWill, e)]|pass_triv..].
  destruct G1 as [St1 V1]. destruct S1 as [tk1 R1]. eapply sim_res_reach; [exact R1|]. clear R1.
  pose proof (proj2 St1) as Gs1. pose proof (st_ok_nonempty _ _ St1 N) as N1.
  destruct sv as [ | |ty idx nm payload| | | | | | ];
    try (inversion H; subst; cbn [sim_res sim_ctl];
         eapply fails_now; [rewrite step_cfg; unfold e; msimp; reflexivity| |]; reflexivity).
  assert (P : match payload with Some pl => vgood pl = true | None => True end).
  { unfold vg in V1. cbn [vgood] in V1. destruct payload; [assumption|exact I]. }
  destruct (match_agree s1 ty idx payload (used m) (epos sc) ((SDone, e) :: t) vs u brk cnt cases r s' H Fc Wc P)
    as [(extra & body & MC & BI & GX & Fb & Wb)|(pos & k & MC & -> & ->)].
  - eapply sim_res_step. { rewrite step_cfg. unfold e. msimp. fold e. rewrite MC. reflexivity. }
    cbn [app]. fold_cfg.
    pose proof (block_sim extra body s1 _ _ _ _ _ SDone e (fun x => x) BI Fb Wb Gs1 GX N1 eq_refl eq_refl t vs u rest
                  (match_done_step m sc cases t u rest) (tk1 + 1)%N) as BS.
    destruct r as [v|c| |]; cbn [sim_res]; auto.
  - cbn [sim_res sim_ctl].
    eapply fails_now; [rewrite step_cfg; unfold e; msimp; fold e; rewrite MC; reflexivity| |]; reflexivity.
Qed.

Theorem sim_step : sim_expr_at (eval_step p ev) /\ sim_while_at (eval_step p ev).
Proof.
  split.
  - intros s e. destruct e.
    + apply sim_EInt. + apply sim_EStr. + apply sim_EVar. + apply sim_EBin. + apply sim_ELet.
    + apply sim_EAssign. + apply sim_EUpd. + apply sim_EIf. + apply sim_EWhile. + apply sim_EFor.
    + apply sim_EBreak. + apply sim_EContinue. + apply sim_EReturn. + apply sim_EList. + apply sim_ETuple.
    + apply sim_ECall. + apply sim_EFun. + apply sim_EParen. + apply sim_EMatch.
    + intros r s' brk cnt H F. discriminate.
  - intros s m c body r s' brk cnt H F W G N t vs u rest tk. eapply while_entered; eassumption.
Qed.

End Step.
End Sim.

(* ------------------------------------------------------------------------ *)
(* all fuels *)
Theorem sim_all p : prog_good p = true ->
  forall fuel, sim_expr_at p (eval p fuel) /\ sim_while_at p (eval p fuel).
Proof.
  intros PG. induction fuel as [|f [IH1 IH2]].
  - split.
    + intros s e r s' brk cnt H. cbn in H. inversion H; subst. intros; exact I.
    + intros s m c body r s' brk cnt H. cbn in H. inversion H; subst. intros; exact I.
  - pose proof (sim_step p PG (eval p f) (eval_good p PG f) IH1 IH2) as [S1 S2]. split.
    + intros s e r s' brk cnt H. rewrite eval_unfold in H. revert H. apply S1.
    + intros s m c body r s' brk cnt H. rewrite eval_unfold in H. revert H. apply S2.
Qed.

Lemma state_is_cfg st f rest t e :
  stack st = f :: rest -> todo f = (SNot, e) :: t -> nextb f = [] ->
  interrupted st = false -> tick_limit st = None -> stack_limit st = None ->
  st = cfg ((SNot, e) :: t) (vals f) (blocks f) (uses f) rest (ticks st) (out st).
Proof.
  destruct st as [stk tk o i tl sl], f as [td vs bs nb u]. cbn. intros. subst. reflexivity.
Qed.

(* The machine simulates the reference semantics, expression by expression:
   normal completion. *)
Theorem exec_refines_eval_partial : forall p fuel s e v s' brk cnt,
  prog_good p = true -> eval p fuel s e = (Ok v, s') ->
  frag brk cnt e = true -> wa e = true -> env_good (scopes s) = true -> scopes s <> [] ->
  forall st f rest t,
    stack st = f :: rest -> todo f = (SNot, e) :: t -> blocks f = scopes s -> nextb f = [] ->
    out st = printed s -> interrupted st = false -> tick_limit st = None -> stack_limit st = None ->
  exists n st',
    run_steps p n st = Some st' /\
    stack st' = mkFrame t (if eused e then v :: vals f else vals f) (scopes s') [] (uses f) :: rest /\
    out st' = printed s' /\ interrupted st' = false /\ tick_limit st' = None /\ stack_limit st' = None.
Proof.
  intros p fuel s e v s' brk cnt PG H F W G N st f rest t ST TD BL NB OU IN TL SL.
  rewrite (state_is_cfg _ _ _ _ _ ST TD NB IN TL SL), BL, OU.
  destruct (sim_all p PG fuel) as [SE _].
  destruct (SE _ _ _ _ _ _ H F W G N t (vals f) (uses f) rest (ticks st)) as [tk' [n R]].
  exists n, (cfg t (if eused e then v :: vals f else vals f) (scopes s') (uses f) rest tk' (printed s')).
  split; [exact R|]. cbn. auto 10.
Qed.

(* ... and runtime errors *)
Theorem exec_refines_eval_error_partial : forall p fuel s e k s' brk cnt,
  prog_good p = true -> eval p fuel s e = (Ctl (CErr k), s') ->
  frag brk cnt e = true -> wa e = true -> env_good (scopes s) = true -> scopes s <> [] ->
  forall st f rest t,
    stack st = f :: rest -> todo f = (SNot, e) :: t -> blocks f = scopes s -> nextb f = [] ->
    out st = printed s -> interrupted st = false -> tick_limit st = None -> stack_limit st = None ->
  exists n st1 er st2,
    run_steps p n st = Some st1 /\ step p st1 = Failed er st2 /\ ekind_of er = KException /\ out st2 = printed s'.
Proof.
  intros p fuel s e k s' brk cnt PG H F W G N st f rest t ST TD BL NB OU IN TL SL.
  rewrite (state_is_cfg _ _ _ _ _ ST TD NB IN TL SL), BL, OU.
  destruct (sim_all p PG fuel) as [SE _].
  destruct (SE _ _ _ _ _ _ H F W G N t (vals f) (uses f) rest (ticks st)) as (st1 & er & st2 & [n R] & FS & K & O).
  exists n, st1, er, st2. auto.
Qed.

(* ------------------------------------------------------------------------ *)
(* whole programs *)
Lemma return_unwind_fresh l bs : return_unwind (fresh l) bs = Some bs.
Proof. induction l as [|x l IH]; [reflexivity|]. cbn [fresh map return_unwind entry_pops]. exact IH. Qed.

Lemma toplevel_sim p (PG : prog_good p = true) fuel : forall exprs s r s' vs,
  run_toplevel p fuel s exprs = (r, s') -> exprs <> [] ->
  forallb (frag false false) exprs = true -> forallb wa_sub exprs = true ->
  env_good (scopes s) = true -> scopes s <> [] ->
  forall tk,
  match r with
  | Ok v => exists tk' vs' bs', reaches p (cfg (fresh exprs) vs (scopes s) true [] tk (printed s))
                                       (cfg [] (v :: vs') bs' true [] tk' (printed s'))
  | Ctl (CReturn v) => exists tk' vs' bs', reaches p (cfg (fresh exprs) vs (scopes s) true [] tk (printed s))
                                       (cfg [] (v :: vs') bs' true [] tk' (printed s'))
  | Ctl (CErr _) => fails p (cfg (fresh exprs) vs (scopes s) true [] tk (printed s)) (printed s')
  | _ => True
  end.
Proof.
  destruct (sim_all p PG fuel) as [SE _]. pose proof (eval_good p PG fuel) as EV.
  induction exprs as [|x exprs IH]; intros s r s' vs H NE F W G N tk; [contradiction|].
  cbn [forallb] in F, W. apply andb_prop in F. destruct F as [Fx Fl]. apply andb_prop in W. destruct W as [Wx Wl].
  unfold wa_sub in Wx. apply andb_prop in Wx. destruct Wx as [Ux Wx].
  destruct exprs as [|y exprs].
  - cbn [run_toplevel] in H.
    pose proof (SE _ _ _ _ _ _ H Fx Wx G N [] vs true [] tk) as S1. rewrite Ux in S1.
    destruct r as [v|c| |]; auto. 
    + destruct S1 as [tk1 R1]. eauto.
    + destruct c; auto. cbn [sim_res sim_ctl] in S1. destruct (S1 _ eq_refl) as (tk1 & vs' & R1). eauto.
  - change (run_toplevel p fuel s (x :: y :: exprs)) with
      (match eval p fuel s x with (Ok _, s1) => run_toplevel p fuel s1 (y :: exprs) | other => other end) in H.
    destruct (eval p fuel s x) as [rx s1] eqn:E.
    pose proof (EV _ _ _ _ _ _ E Fx Wx G) as Gx.
    pose proof (SE _ _ _ _ _ _ E Fx Wx G N (fresh (y :: exprs)) vs true [] tk) as S1. rewrite Ux in S1.
    destruct rx as [v|c| |].
    + destruct Gx as [St1 _]. destruct S1 as [tk1 R1].
      assert (NE1 : y :: exprs <> []) by discriminate.
      specialize (IH _ _ _ (v :: vs) H NE1 Fl Wl (proj2 St1) (st_ok_nonempty _ _ St1 N) tk1).
      destruct r as [w|c| |]; auto.
      * destruct IH as (tk2 & vs' & bs' & R2). exists tk2, vs', bs'. eapply reaches_trans; eassumption.
      * destruct c; auto.
        -- destruct IH as (tk2 & vs' & bs' & R2). exists tk2, vs', bs'. eapply reaches_trans; eassumption.
        -- eapply fails_reach; eassumption.
    + inversion H; subst. destruct c; auto.
      cbn [sim_res sim_ctl] in S1. destruct (S1 _ (return_unwind_fresh _ _)) as (tk1 & vs' & R1). eauto.
    + inversion H; subst. exact I.
    + inversion H; subst. exact I.
Qed.

Lemma step_done p v vs' bs tk o :
  step p (cfg [] (v :: vs') bs true [] tk o) = Done v (mkState [mkFrame [] vs' bs [] true] tk o false None None).
Proof. reflexivity. Qed.

(* A whole program: `garden run` on the machine ends as the reference says,
   with the same value (or a runtime error) and the same printed output. *)
Theorem machine_refines_ref_partial : forall p fuel exprs r s',
  prog_good p = true ->
  forallb in_fragment exprs = true -> well_annotated_toplevel exprs = true ->
  ref_run p fuel exprs = (r, s') ->
  match r with
  | Ok v => exists n st', run p n (init_state exprs None None) = RDone v st' /\ out st' = printed s'
  | Ctl (CErr _) => exists n er st', run p n (init_state exprs None None) = RFailed er st' /\
                                     ekind_of er = KException /\ out st' = printed s'
  | _ => True
  end.
Proof.
  intros p fuel exprs r s' PG F W H. unfold ref_run in H.
  change (init_state exprs None None) with (cfg (fresh exprs) [vunit] [[]] true [] 0%N []).
  destruct exprs as [|x exprs].
  - cbn in H. inversion H; subst. exists 1%nat. eexists. split; reflexivity.
  - destruct (run_toplevel p fuel {| scopes := [[]]; printed := [] |} (x :: exprs)) as [r0 s0] eqn:E.
    assert (NE : x :: exprs <> []) by discriminate.
    assert (N0 : scopes {| scopes := [[]]; printed := [] |} <> []) by discriminate.
    pose proof (toplevel_sim p PG fuel _ _ _ _ [vunit] E NE F W eq_refl N0 0%N) as T.
    cbn [scopes printed] in T.
    assert (OKC : forall v, (exists tk' vs' bs', reaches p (cfg (fresh (x :: exprs)) [vunit] [[]] true [] 0%N [])
                                       (cfg [] (v :: vs') bs' true [] tk' (printed s0))) ->
              exists n st', run p n (cfg (fresh (x :: exprs)) [vunit] [[]] true [] 0%N []) = RDone v st' /\ out st' = printed s0).
    { intros v (tk' & vs' & bs' & [n R]). exists (S n). eexists. split.
      - eapply run_steps_done; [exact R|apply step_done].
      - reflexivity. }
    destruct r0 as [v|c| |]; [|destruct c as [| |v|k]|..]; inversion H; subst; auto.
    destruct T as (st1 & er & st2 & [n R] & FS & K & O).
    exists (S n), er, st2. split; [eapply run_steps_failed; eassumption|auto].
Qed.

(* ------------------------------------------------------------------------ *)
(* a finished run stays finished whatever the fuel: with the refinement this
   gives crash-freedom, for every fuel, of all programs of the fragment on
   which the reference terminates *)
Lemma run_done_stable p n : forall a v s, run p n a = RDone v s ->
  forall m, run p m a = RDone v s \/ exists s', run p m a = ROutOfFuel s'.
Proof.
  induction n as [|n IH]; intros a v s H m; cbn [run] in H; [discriminate|].
  destruct m as [|m]; [right; eexists; reflexivity|]. cbn [run].
  destruct (step p a) as [a'|v' a'|e a'| |]; try discriminate.
  - eapply IH; eassumption.
  - left. exact H.
Qed.

Lemma run_failed_stable p n : forall a e s, run p n a = RFailed e s ->
  forall m, run p m a = RFailed e s \/ exists s', run p m a = ROutOfFuel s'.
Proof.
  induction n as [|n IH]; intros a e s H m; cbn [run] in H; [discriminate|].
  destruct m as [|m]; [right; eexists; reflexivity|]. cbn [run].
  destruct (step p a) as [a'|v' a'|e' a'| |]; try discriminate.
  - eapply IH; eassumption.
  - left. exact H.
Qed.

Theorem run_never_crashes_when_ref_terminates : forall p fuel exprs r s',
  prog_good p = true ->
  forallb in_fragment exprs = true -> well_annotated_toplevel exprs = true ->
  ref_run p fuel exprs = (r, s') ->
  (exists v, r = Ok v) \/ (exists k, r = Ctl (CErr k)) ->
  forall n, run p n (init_state exprs None None) <> RCrashed /\
            run p n (init_state exprs None None) <> RUnsupported.
Proof.
  intros p fuel exprs r s' PG F W H T n.
  pose proof (machine_refines_ref_partial p fuel exprs r s' PG F W H) as M.
  destruct T as [[v ->]|[k ->]].
  - destruct M as (m & st' & R & _). destruct (run_done_stable _ _ _ _ _ R n) as [E|[s2 E]]; rewrite E; split; discriminate.
  - destruct M as (m & er & st' & R & _). destruct (run_failed_stable _ _ _ _ _ R n) as [E|[s2 E]]; rewrite E; split; discriminate.
Qed.
