(* C11: incremental session input equals running it as one program -- the
   GENERAL theorem, obtained from the refinement of the reference semantics
   (RefineProps.v): request by request the session model computes what Ref.v
   computes from the scopes the previous request left, and Ref.v threads its
   state through a concatenation of inputs. *)
From Coq Require Import ZArith NArith Bool List Lia.
From Garden Require Import Base.Int64 Arith ArithSpec gen.Tables Machine MachineInv MachineSession Session Ref Refine RefineProps.
Import ListNotations.
Open Scope nat_scope.

(* ------------------------------------------------------------------------ *)
(* the reference semantics, one input after the other *)
Fixpoint ref_incremental (p : prog) (fuel : nat) (s : st) (reqs : list (list expr)) : option (list value * st) :=
  match reqs with
  | [] => Some ([], s)
  | r :: rs =>
      match run_toplevel p fuel s r with
      | (Ok v, s1) =>
          match ref_incremental p fuel s1 rs with
          | Some (l, s2) => Some (v :: l, s2)
          | None => None
          end
      | _ => None
      end
  end.

Lemma run_toplevel_app p fuel e1 : forall s v1 s1 e2,
  run_toplevel p fuel s e1 = (Ok v1, s1) -> e2 <> [] ->
  run_toplevel p fuel s (e1 ++ e2) = run_toplevel p fuel s1 e2.
Proof.
  induction e1 as [|x e1 IH]; intros s v1 s1 e2 H NE.
  - cbn in H. inversion H; subst. reflexivity.
  - destruct e1 as [|y e1].
    + cbn [run_toplevel] in H. destruct e2 as [|z e2]; [contradiction|].
      cbn [app run_toplevel]. rewrite H. reflexivity.
    + change (run_toplevel p fuel s (x :: y :: e1)) with
        (match eval p fuel s x with (Ok _, s1) => run_toplevel p fuel s1 (y :: e1) | other => other end) in H.
      change (run_toplevel p fuel s ((x :: y :: e1) ++ e2)) with
        (match eval p fuel s x with (Ok _, s1) => run_toplevel p fuel s1 ((y :: e1) ++ e2) | other => other end).
      destruct (eval p fuel s x) as [[w|c| |] sx]; try discriminate.
      eapply IH; eassumption.
Qed.

Lemma ref_incremental_length p fuel : forall reqs s l s', ref_incremental p fuel s reqs = Some (l, s') -> length l = length reqs.
Proof.
  induction reqs as [|r rs IH]; intros s l s' H; cbn [ref_incremental] in H.
  - inversion H; reflexivity.
  - destruct (run_toplevel p fuel s r) as [[v|c| |] s1]; try discriminate.
    destruct (ref_incremental p fuel s1 rs) as [[l2 s2]|] eqn:E; [|discriminate].
    inversion H; subst. cbn. f_equal. eapply IH; eassumption.
Qed.

Lemma concat_nonempty {A} (rs : list (list A)) : rs <> [] -> Forall (fun r => r <> []) rs -> concat rs <> [].
Proof.
  intros N F. destruct rs as [|r rs]; [contradiction|]. inversion F; subst.
  cbn. destruct r; [contradiction|discriminate].
Qed.

(* Ref: running the inputs one after the other = running their concatenation *)
Theorem ref_incremental_eq_batch p fuel d : forall reqs s l s',
  ref_incremental p fuel s reqs = Some (l, s') -> reqs <> [] -> Forall (fun r => r <> []) reqs ->
  run_toplevel p fuel s (concat reqs) = (Ok (last l d), s').
Proof.
  induction reqs as [|r rs IH]; intros s l s' H N F; [contradiction|].
  cbn [ref_incremental] in H. inversion F as [|? ? Nr Frs]; subst.
  destruct (run_toplevel p fuel s r) as [[v|c| |] s1] eqn:E; try discriminate.
  destruct (ref_incremental p fuel s1 rs) as [[l2 s2]|] eqn:E2; [|discriminate].
  inversion H; subst. cbn [concat].
  destruct rs as [|r2 rs].
  - cbn in E2. inversion E2; subst. cbn. rewrite app_nil_r. exact E.
  - assert (N2 : r2 :: rs <> []) by discriminate.
    rewrite (run_toplevel_app _ _ _ _ _ _ _ E (concat_nonempty _ N2 Frs)).
    rewrite (IH _ _ _ E2 N2 Frs).
    pose proof (ref_incremental_length _ _ _ _ _ _ E2) as L. destruct l2; [discriminate|]. reflexivity.
Qed.

(* ------------------------------------------------------------------------ *)
(* one request on the machine: the installed expressions run to completion *)
Lemma toplevel_sim_ok p (PG : prog_good p = true) fuel : forall exprs s v s' vs,
  run_toplevel p fuel s exprs = (Ok v, s') -> exprs <> [] ->
  forallb (frag false false) exprs = true -> forallb wa_sub exprs = true ->
  env_good (scopes s) = true -> scopes s <> [] ->
  st_ok s s' /\
  forall tk, exists tk' vs',
    reaches p (cfg (fresh exprs) vs (scopes s) true [] tk (printed s))
              (cfg [] (v :: vs') (scopes s') true [] tk' (printed s')).
Proof.
  destruct (sim_all p PG fuel) as [SE _]. pose proof (eval_good p PG fuel) as EV.
  induction exprs as [|x exprs IH]; intros s v s' vs H NE F W G N; [contradiction|].
  cbn [forallb] in F, W. apply andb_prop in F. destruct F as [Fx Fl]. apply andb_prop in W. destruct W as [Wx Wl].
  unfold wa_sub in Wx. apply andb_prop in Wx. destruct Wx as [Ux Wx].
  destruct exprs as [|y exprs].
  - cbn [run_toplevel] in H.
    pose proof (EV _ _ _ _ _ _ H Fx Wx G) as [St _]. split; [exact St|]. intros tk.
    pose proof (SE _ _ _ _ _ _ H Fx Wx G N [] vs true [] tk) as S1. rewrite Ux in S1.
    destruct S1 as [tk1 R1]. eauto.
  - change (run_toplevel p fuel s (x :: y :: exprs)) with
      (match eval p fuel s x with (Ok _, s1) => run_toplevel p fuel s1 (y :: exprs) | other => other end) in H.
    destruct (eval p fuel s x) as [rx s1] eqn:E.
    pose proof (EV _ _ _ _ _ _ E Fx Wx G) as Gx.
    destruct rx as [w|c| |]; try discriminate.
    destruct Gx as [St1 _].
    assert (NE1 : y :: exprs <> []) by discriminate.
    destruct (IH _ _ _ (w :: vs) H NE1 Fl Wl (proj2 St1) (st_ok_nonempty _ _ St1 N)) as [St2 R2].
    split; [eapply st_ok_trans; eassumption|]. intros tk.
    pose proof (SE _ _ _ _ _ _ E Fx Wx G N (fresh (y :: exprs)) vs true [] tk) as S1. rewrite Ux in S1.
    destruct S1 as [tk1 R1]. destruct (R2 tk1) as (tk2 & vs' & R3).
    exists tk2, vs'. eapply reaches_trans; eassumption.
Qed.

(* determinism of finite runs *)
Definition stuck (p : prog) (s : state) : Prop := forall x, step p s <> Next x.

Lemma run_steps_det p n : forall m a b c,
  run_steps p n a = Some b -> run_steps p m a = Some c -> stuck p b -> stuck p c -> b = c.
Proof.
  induction n as [|n IH]; intros m a b c H1 H2 SB SC; cbn [run_steps] in H1.
  - inversion H1; subst. destruct m; cbn [run_steps] in H2; [inversion H2; reflexivity|].
    destruct (step p b) eqn:E; try discriminate. exfalso. eapply SB; eassumption.
  - destruct (step p a) eqn:E; try discriminate.
    destruct m; cbn [run_steps] in H2.
    + inversion H2; subst. exfalso. eapply SC; eassumption.
    + rewrite E in H2. eapply IH; eassumption.
Qed.

Lemma idle_stuck p s : idle s = true -> stuck p s.
Proof.
  unfold idle, stuck, step. intros I x H.
  destruct (stack s) as [|f [|g rest]]; try discriminate.
  destruct (todo f); [|discriminate]. destruct (vals f); discriminate.
Qed.

Lemma done_stuck p s v s' : step p s = Done v s' -> stuck p s.
Proof. intros H x H2. congruence. Qed.

(* ------------------------------------------------------------------------ *)
(* `caller_uses_value` of a frame never changes, and a called frame gets the
   flag of the call expression *)
Lemma pvi_uses b f v : uses (push_val_if b f v) = uses f.
Proof. destruct b; reflexivity. Qed.

Lemma eval_block_uses f u body : uses (eval_block f u body) = uses f.
Proof. unfold eval_block. destruct body; rewrite ?pvi_uses; reflexivity. Qed.

Lemma fold_push_uses items : forall f, uses (fold_left (fun acc it => push_todo acc SNot it) items f) = uses f.
Proof. induction items as [|i items IH]; intros f; cbn [fold_left]; [reflexivity|]. rewrite IH. reflexivity. Qed.

Ltac usimp :=
  cbn [uses push_todo push_val set_vals set_blocks set_todo set_nextb] in *;
  rewrite ?pvi_uses, ?eval_block_uses, ?fold_push_uses in *;
  cbn [uses push_todo push_val set_vals set_blocks set_todo set_nextb] in *.

Lemma eval_binop_uses f m o lp rp f' out : eval_binop f m o lp rp = XOk f' out -> uses f' = uses f.
Proof. unfold eval_binop. intros H. repeat break_match H; inversion H; subst; usimp; reflexivity. Qed.

Lemma eval_call_ok_uses p f m args f' out : eval_call p f m args = XOk f' out -> uses f' = uses f.
Proof. unfold eval_call. intros H. repeat break_match H; inversion H; subst; usimp; reflexivity. Qed.

Lemma eval_call_call_uses p f m args f' callee :
  eval_call p f m args = XCall f' callee -> uses f' = uses f /\ uses callee = used m.
Proof. unfold eval_call. intros H. repeat break_match H; inversion H; subst; usimp; split; reflexivity. Qed.

Lemma match_cases_uses p cases : forall f u sp ty idx pl f' out,
  match_cases p f u sp ty idx pl cases = XOk f' out -> uses f' = uses f.
Proof.
  induction cases as [|[[[pat ppos] binder] body] cs IH]; intros f u sp ty idx pl f' out H;
    cbn [match_cases] in H; [discriminate|].
  destruct (N.eqb pat underscore).
  { inversion H; subst. now rewrite eval_block_uses. }
  destruct (get_var p f pat) as [pv|]; [|discriminate].
  destruct pv; try discriminate;
    (destruct (N.eqb ty ty0 && N.eqb idx idx0); [|eapply IH; eassumption];
     destruct pl, binder; try (eapply IH; eassumption);
     inversion H; subst; rewrite eval_block_uses; reflexivity).
Qed.

Lemma exec_uses p f s e f' out : exec p f s e = XOk f' out -> uses f' = uses f.
Proof.
  intros H.
  destruct e; destruct s as [|[]|]; cbn [exec] in H;
    try discriminate;
    try (inversion H; subst; usimp; reflexivity);
    try (eapply eval_binop_uses; eassumption);
    try (eapply eval_call_ok_uses; eassumption);
    unfold pop_val, pop_block in H; cbn [todo blocks vals push_todo push_val set_vals set_blocks set_todo set_nextb] in H.
  all: try (repeat break_match H; inversion H; subst; usimp; reflexivity).
  all: destruct (vals f) as [|v vs]; try discriminate; destruct v; try discriminate;
    apply match_cases_uses in H; usimp; exact H.
Qed.

Lemma exec_call_uses p f s e f' callee :
  exec p f s e = XCall f' callee -> uses f' = uses f /\ uses callee = eused e.
Proof.
  intros H.
  destruct e; destruct s as [|[]|]; cbn [exec] in H;
    try discriminate;
    try (exfalso; eapply eval_binop_not_call; eassumption);
    try (apply eval_call_call_uses in H; exact H);
    unfold pop_val, pop_block in H; cbn [todo blocks vals push_todo push_val set_vals set_blocks set_todo set_nextb] in H.
  all: try (repeat break_match H; discriminate).
  all: destruct (vals f) as [|v vs]; try discriminate; destruct v; try discriminate;
    exfalso; eapply match_cases_not_call; eassumption.
Qed.

(* the frame at depth d (counted from the bottom) has caller_uses_value = um *)
Definition marks (um : bool) (d : nat) (st : list frame) : Prop :=
  exists upper f lower, st = upper ++ f :: lower /\ length (f :: lower) = d /\ uses f = um.

Lemma marks_top um d f rest : marks um d (f :: rest) -> d = length (f :: rest) -> uses f = um.
Proof.
  intros (upper & g & lower & E & L & U) D. destruct upper as [|h upper].
  - cbn in E. injection E as -> ->. exact U.
  - exfalso. apply (f_equal (@length frame)) in E. rewrite app_length in E. cbn [length] in *. lia.
Qed.

Lemma step_marks p s s' um d :
  step p s = Next s' -> marks um d (stack s) ->
  (d = length (stack s) -> exists f rest, stack s = f :: rest /\ todo f <> []) ->
  marks um d (stack s').
Proof.
  unfold step. intros H (upper & g & lower & E & <- & <-) SIDE.
  destruct (stack s) as [|f0 rest] eqn:ES; [discriminate|].
  destruct (todo f0) as [|[es e] t] eqn:ET.
  - destruct rest as [|caller rest']; [destruct (vals f0); discriminate|].
    destruct (vals f0) as [|v vs]; [discriminate|]. inversion H; subst s'. cbn [stack].
    destruct upper as [|h upper].
    + exfalso. cbn [app] in E. injection E as <- <-.
      destruct (SIDE eq_refl) as (f1 & r1 & E1 & N1). injection E1 as <- <-. congruence.
    + cbn [app] in E. injection E as <- E. destruct upper as [|h2 upper].
      * cbn [app] in E. injection E as <- <-. exists [], (push_val_if (uses f0) caller v), rest'.
        split; [reflexivity|]. split; [reflexivity|]. rewrite pvi_uses. reflexivity.
      * cbn [app] in E. injection E as <- ->. exists (push_val_if (uses f0) caller v :: upper), g, lower.
        split; [reflexivity|]. split; reflexivity.
  - destruct (interrupted s); [discriminate|].
    destruct (opt_le _ _); [discriminate|]. destruct (opt_lt _ _); [discriminate|].
    destruct (exec p (set_todo f0 t) es e) as [f' pr|f' callee| | |] eqn:EX; try discriminate; inversion H; subst s'; cbn [stack].
    + apply exec_uses in EX. cbn [uses set_todo] in EX. destruct upper as [|h upper]; cbn [app] in E.
      * injection E as <- <-. exists [], f', rest. split; [reflexivity|]. split; [reflexivity|exact EX].
      * injection E as <- ->. exists (f' :: upper), g, lower. split; [reflexivity|]. split; reflexivity.
    + apply exec_call_uses in EX. destruct EX as [EX _]. cbn [uses set_todo] in EX.
      destruct upper as [|h upper]; cbn [app] in E.
      * injection E as <- <-. exists [callee], f', rest. split; [reflexivity|]. split; [reflexivity|exact EX].
      * injection E as <- ->. exists (callee :: f' :: upper), g, lower. split; [reflexivity|]. split; reflexivity.
Qed.

Lemma step_grows p s s' f rest es e t :
  step p s = Next s' -> stack s = f :: rest -> todo f = (es, e) :: t ->
  length (stack s) < length (stack s') ->
  exists callee r, stack s' = callee :: r /\ uses callee = eused e.
Proof.
  unfold step. intros H ES ET LT. rewrite ES, ET in H.
  destruct (interrupted s); [discriminate|].
  destruct (opt_le _ _); [discriminate|]. destruct (opt_lt _ _); [discriminate|].
  destruct (exec p (set_todo f t) es e) as [f' pr|f' callee| | |] eqn:EX; try discriminate; inversion H; subst; unfold with_stack in *; cbn [stack] in *.
  - rewrite ES in LT. cbn [length] in LT. lia.
  - apply exec_call_uses in EX. destruct EX as [_ EX]. eauto.
Qed.

Lemma meta_eqb_used a b : meta_eqb a b = true -> used a = used b.
Proof. unfold meta_eqb. intros H. apply andb_prop in H. destruct H as [H _]. apply andb_prop in H. destruct H as [H _]. now apply eqb_prop. Qed.

Definition stopped_at (p : prog) (s : state) (v : value) (s' : state) : Prop :=
  (exists n s_pre, run_steps p n s = Some s_pre /\ step p s_pre = Next s' /\
     exists f' rest, stack s' = f' :: rest /\ (vals f' = [] \/ exists vs, vals f' = v :: vs)) \/
  (exists n s_pre, run_steps p n s = Some s_pre /\ step p s_pre = Done v s').

Lemma stopped_at_step p s s1 v s' : step p s = Next s1 -> stopped_at p s1 v s' -> stopped_at p s v s'.
Proof.
  intros ST [(n & sp & R & S1 & X)|(n & sp & R & S1)]; [left|right]; exists (S n), sp;
    (split; [cbn [run_steps]; rewrite ST; exact R|auto]).
Qed.

(* what an answer of the session's eval loop means in terms of machine steps *)
Lemma eval_loop_sound p stop (US : used stop = true) : forall fuel calld s v s',
  eval_loop true p fuel (Some stop) calld s = RDone v s' ->
  match calld with Some d => marks true d (stack s) | None => True end ->
  stopped_at p s v s'.
Proof.
  induction fuel as [|n IH]; intros calld s v s' H M; cbn [eval_loop] in H; [discriminate|].
  destruct (stack s) as [|f rest] eqn:ES; [discriminate|].
  assert (GEN : forall calld',
     match step p s with
     | Next s1 => eval_loop true p n (Some stop) calld' s1
     | Done v0 s1 => RDone v0 s1
     | Failed e s1 => RFailed e s1
     | Crashed => RCrashed
     | Unsupported => RUnsupported
     end = RDone v s' ->
     (forall s1, step p s = Next s1 -> match calld' with Some d => marks true d (stack s1) | None => True end) ->
     stopped_at p s v s').
  { intros calld' H0 M0. destruct (step p s) as [s1|v0 s1|? ?| |] eqn:ST; try discriminate.
    - eapply stopped_at_step; [exact ST|]. eapply IH; [exact H0|]. apply M0. reflexivity.
    - inversion H0; subst. right. exists O, s. split; [reflexivity|exact ST]. }
  destruct (todo f) as [|[es e] t] eqn:ET.
  - destruct rest as [|caller rest'].
    + apply (GEN calld); [destruct calld; exact H|].
      intros s1 ST. exfalso. unfold step in ST. rewrite ES, ET in ST. destruct (vals f); discriminate.
    + destruct calld as [d|].
      * destruct (Nat.eqb d (length (f :: caller :: rest'))) eqn:DE.
        -- apply Nat.eqb_eq in DE. pose proof (marks_top _ _ _ _ M DE) as UF.
           destruct (vals f) as [|v0 vs0] eqn:EV; [discriminate|]. inversion H; subst.
           left. exists O, s. split; [reflexivity|]. split.
           { unfold step. rewrite ES, ET, EV. reflexivity. }
           rewrite UF. cbn. eexists. eexists. split; [reflexivity|]. right. eexists. reflexivity.
        -- apply (GEN (Some d)); [exact H|]. intros s1 ST. eapply step_marks; [exact ST|rewrite ES; exact M|].
           intros D. rewrite ES in D. apply Nat.eqb_neq in DE. contradiction.
      * apply (GEN None); [exact H|]. intros; exact I.
  - destruct (step p s) as [s1|v0 s1|? ?| |] eqn:ST; try discriminate.
    + set (is_stop := meta_eqb (emeta e) stop) in *.
      assert (MK : forall d, marks true d (stack s) -> marks true d (stack s1)).
      { intros d Md. eapply step_marks; [exact ST|exact Md|]. intros _. exists f, rest. split; [exact ES|congruence]. }
      destruct (is_stop && Nat.eqb (length (stack s1)) (length (f :: rest)) && finishes es e) eqn:A.
      * destruct (stack s1) as [|f' r] eqn:ES1; [discriminate|].
        destruct (vals f') as [|v1 vs1] eqn:EV; inversion H; subst; left; exists O, s;
          (split; [reflexivity|]); (split; [exact ST|]); exists f', r; (split; [exact ES1|]); [left|right]; eauto.
      * destruct (is_stop && Nat.ltb (length (f :: rest)) (length (stack s1))) eqn:B.
        -- apply andb_prop in B. destruct B as [B1 B2]. apply Nat.ltb_lt in B2.
           eapply stopped_at_step; [exact ST|]. eapply IH; [exact H|].
           rewrite <- ES in B2.
           destruct (step_grows _ _ _ _ _ _ _ _ ST ES ET B2) as (callee & r & E1 & U1).
           rewrite E1. exists [], callee, r. split; [reflexivity|]. split; [reflexivity|].
           rewrite U1. unfold is_stop in B1. apply meta_eqb_used in B1. unfold eused. congruence.
        -- eapply stopped_at_step; [exact ST|]. eapply IH; [exact H|].
           destruct calld; [apply MK; rewrite ES; exact M|exact I].
    + inversion H; subst. right. exists O, s. split; [reflexivity|exact ST].
Qed.

(* ------------------------------------------------------------------------ *)
(* sessions *)
(* a history of run requests every one of which is answered with a value and
   leaves nothing pending; the values, in order *)
Fixpoint session_values (hfuel : nat) (p : prog) (s : state) (reqs : list (list expr)) : option (state * list value) :=
  match reqs with
  | [] => Some (s, [])
  | r :: rs =>
      match handle all_fixes hfuel p s (RRun r) with
      | (s1, RespValue v) =>
          if idle s1 then
            match session_values hfuel p s1 rs with
            | Some (s2, l) => Some (s2, v :: l)
            | None => None
            end
          else None
      | _ => None
      end
  end.

Lemma session_values_history hfuel p : forall reqs s s2 l,
  session_values hfuel p s reqs = Some (s2, l) ->
  run_history all_fixes hfuel p s (map RRun reqs) = (s2, map RespValue l).
Proof.
  induction reqs as [|r rs IH]; intros s s2 l H; cbn [session_values] in H.
  - inversion H; subst. reflexivity.
  - cbn [map run_history]. destruct (handle all_fixes hfuel p s (RRun r)) as [s1 a].
    destruct a; try discriminate. destruct (idle s1); [|discriminate].
    destruct (session_values hfuel p s1 rs) as [[s3 l3]|] eqn:E; [|discriminate].
    inversion H; subst. rewrite (IH _ _ _ E). reflexivity.
Qed.

Lemma last_used (d : expr) : forall r, forallb wa_sub r = true -> r <> [] -> eused (last r d) = true.
Proof.
  induction r as [|x r IH]; intros W N; [contradiction|].
  cbn [forallb] in W. apply andb_prop in W. destruct W as [Wx Wr].
  destruct r as [|y r]; [unfold wa_sub in Wx; apply andb_prop in Wx; exact (proj1 Wx)|].
  change (last (x :: y :: r) d) with (last (y :: r) d). apply IH; [exact Wr|discriminate].
Qed.

Lemma run_steps_snoc p n a b c : run_steps p n a = Some b -> step p b = Next c -> run_steps p (n + 1) a = Some c.
Proof. intros R S. eapply run_steps_app; [exact R|]. cbn [run_steps]. rewrite S. reflexivity. Qed.

(* one request: the session answers with the reference's value and leaves the
   reference's scopes and output *)
Lemma request_matches_ref p (PG : prog_good p = true) rfuel hfuel r sref v sref' vs tk S1 w :
  run_toplevel p rfuel sref r = (Ok v, sref') -> r <> [] ->
  forallb in_fragment r = true -> well_annotated_toplevel r = true ->
  env_good (scopes sref) = true -> scopes sref <> [] ->
  handle all_fixes hfuel p (cfg [] vs (scopes sref) true [] tk (printed sref)) (RRun r) = (S1, RespValue w) ->
  idle S1 = true ->
  w = v /\ st_ok sref sref' /\ exists vs' tk', S1 = cfg [] vs' (scopes sref') true [] tk' (printed sref').
Proof.
  intros HR NE F W G N HH ID.
  destruct (toplevel_sim_ok p PG rfuel r sref v sref' vs HR NE F W G N) as [ST RE].
  destruct (RE tk) as (tkF & vsF & [m RF]). clear RE.
  set (FIN := cfg [] (v :: vsF) (scopes sref') true [] tkF (printed sref')) in *.
  assert (SF : stuck p FIN) by (apply idle_stuck; reflexivity).
  cbn [handle] in HH. destruct r as [|x r']; [contradiction|].
  set (r := x :: r') in *.
  change (install (cfg [] vs (scopes sref) true [] tk (printed sref)) r)
    with (Some (cfg (fresh r) vs (scopes sref) true [] tk (printed sref))) in HH.
  cbn [fx_call all_fixes] in HH. unfold Session.eval in HH.
  change (idle (cfg (fresh r) vs (scopes sref) true [] tk (printed sref))) with false in HH.
  cbn iota in HH.
  set (stopm := emeta (last r (EUnsupported {| used := true; pstart := 0; pend := 0 |}))) in *.
  assert (US : used stopm = true) by (apply (last_used _ r W); discriminate).
  destruct (eval_loop true p hfuel (Some stopm) None (cfg (fresh r) vs (scopes sref) true [] tk (printed sref)))
    as [v0 s0|? ?| | |?] eqn:EL; cbn [respond] in HH; inversion HH; subst. clear HH.
  destruct (eval_loop_sound p stopm US _ _ _ _ _ EL I) as [(n & sp & R & S1' & f' & rest & ES & VV)|(n & sp & R & S1')].
  - pose proof (run_steps_snoc _ _ _ _ _ R S1') as R1.
    pose proof (run_steps_det _ _ _ _ _ _ R1 RF (idle_stuck p _ ID) SF) as EQ. subst S1.
    unfold FIN in ES. cbn [cfg stack] in ES. inversion ES; subst. cbn [vals] in VV.
    destruct VV as [VV|[vs0 VV]]; [discriminate|]. inversion VV; subst.
    split; [reflexivity|]. split; [exact ST|]. eexists. eexists. reflexivity.
  - pose proof (run_steps_det _ _ _ _ _ _ R RF (done_stuck _ _ _ _ S1') SF) as EQ. subst sp.
    unfold FIN in S1'. rewrite step_done in S1'. inversion S1'; subst.
    split; [reflexivity|]. split; [exact ST|]. exists vsF, tkF. reflexivity.
Qed.

Definition input_ok (r : list expr) : Prop :=
  r <> [] /\ forallb in_fragment r = true /\ well_annotated_toplevel r = true.

Lemma session_matches_ref p (PG : prog_good p = true) rfuel hfuel : forall reqs sref lref sref' vs tk S' l,
  ref_incremental p rfuel sref reqs = Some (lref, sref') -> Forall input_ok reqs ->
  env_good (scopes sref) = true -> scopes sref <> [] ->
  session_values hfuel p (cfg [] vs (scopes sref) true [] tk (printed sref)) reqs = Some (S', l) ->
  l = lref /\ out S' = printed sref'.
Proof.
  induction reqs as [|r rs IH]; intros sref lref sref' vs tk S' l HR FA G N HS.
  - cbn in HR, HS. inversion HR; subst. inversion HS; subst. split; reflexivity.
  - cbn [ref_incremental] in HR. cbn [session_values] in HS. inversion FA as [|? ? [NE [F W]] FA']; subst.
    destruct (run_toplevel p rfuel sref r) as [[v|c| |] s1] eqn:E; try discriminate.
    destruct (ref_incremental p rfuel s1 rs) as [[l2 s2]|] eqn:E2; [|discriminate]. inversion HR; subst.
    destruct (handle all_fixes hfuel p (cfg [] vs (scopes sref) true [] tk (printed sref)) (RRun r)) as [S1 a] eqn:HH.
    destruct a as [w| | | | | |]; try discriminate.
    destruct (idle S1) eqn:ID; [|discriminate].
    destruct (session_values hfuel p S1 rs) as [[S2 l3]|] eqn:E3; [|discriminate]. inversion HS; subst.
    destruct (request_matches_ref p PG rfuel hfuel r sref v s1 vs tk S1 w E NE F W G N HH ID) as (-> & ST & vs' & tk' & ->).
    destruct (IH _ _ _ _ _ _ _ E2 FA' (proj2 ST) (st_ok_nonempty _ _ ST N) E3) as [-> O].
    split; [reflexivity|exact O].
Qed.

Lemma forallb_concat {A} (f : A -> bool) (ls : list (list A)) :
  Forall (fun l => forallb f l = true) ls -> forallb f (concat ls) = true.
Proof. induction 1 as [|l ls H _ IH]; [reflexivity|]. cbn [concat]. rewrite forallb_app, H, IH. reflexivity. Qed.

(* C11, general: for every history of run requests in the fragment whose
   inputs the reference semantics evaluates without error, if the session
   answers every request with a value and is left idle -- request by request
   and for the concatenated input -- then the values of the incremental run
   are the reference's, the batch run gives the last of them, and both runs
   print the same output. *)
Theorem incremental_eq_batch p rfuel hfuel hfuel' reqs lref sref s_inc l_inc s_bat l_bat :
  prog_good p = true -> reqs <> [] -> Forall input_ok reqs ->
  ref_incremental p rfuel (mkSt [[]] []) reqs = Some (lref, sref) ->
  session_values hfuel p Session.fresh reqs = Some (s_inc, l_inc) ->
  session_values hfuel' p Session.fresh [concat reqs] = Some (s_bat, l_bat) ->
  l_inc = lref /\ l_bat = [last lref vunit] /\ last l_inc vunit = last l_bat vunit /\ out s_inc = out s_bat.
Proof.
  intros PG NE FA HR HI HB.
  change Session.fresh with (cfg [] [vunit] (scopes (mkSt [[]] [])) true [] 0%N (printed (mkSt [[]] []))) in HI, HB.
  assert (N0 : scopes (mkSt [[]] []) <> []) by discriminate.
  destruct (session_matches_ref p PG rfuel hfuel _ _ _ _ _ _ _ _ HR FA eq_refl N0 HI) as [-> OI].
  assert (FN : Forall (fun r : list expr => r <> []) reqs).
  { eapply Forall_impl; [|exact FA]. intros r [X _]. exact X. }
  pose proof (ref_incremental_eq_batch p rfuel vunit _ _ _ _ HR NE FN) as HC.
  assert (HRB : ref_incremental p rfuel (mkSt [[]] []) [concat reqs] = Some ([last lref vunit], sref)).
  { cbn [ref_incremental]. rewrite HC. reflexivity. }
  assert (FB : Forall input_ok [concat reqs]).
  { constructor; [|constructor]. split; [apply concat_nonempty; assumption|]. split.
    - apply forallb_concat. eapply Forall_impl; [|exact FA]. intros r (_ & X & _). exact X.
    - unfold well_annotated_toplevel. apply forallb_concat. eapply Forall_impl; [|exact FA]. intros r (_ & _ & X). exact X. }
  destruct (session_matches_ref p PG rfuel hfuel' _ _ _ _ _ _ _ _ HRB FB eq_refl N0 HB) as [-> OB].
  repeat split. congruence.
Qed.
