(* Sandbox.v -- MODEL (definitions only; proofs are in SandboxProps.v).

   Row types of the built-in table that tools/gen_builtins.py regenerates from
   the Rust source on every run (coq/gen/Builtins.v), the hand-audited
   classification of which built-ins can touch files / processes / stdin, and
   the decidable conditions the properties C02 (built-in argument part), C24
   and C25 (limits part) are stated with.

   Mirrors: src/eval.rs `eval_built_in_call`, `eval_built_in_method_call`,
   `check_arity`, the `eval` loop; src/sandboxed_playground.rs;
   src/test_runner.rs `sandboxed_tests_summary`. *)
From Coq Require Import NArith List String Bool.
Import ListNotations.
Open Scope string_scope.
Open Scope N_scope.

(* ------------------------------------------------------------------ *)
(* Rows (one per enum variant; produced by the translator)             *)

Inductive kind := KFunction | KMethod.
Inductive use_what := UValue | UPosition.          (* arg_values[i] | arg_positions[i] *)
Inductive effect_cat := EFile | EProcess | EStdin | ECwd.

(* The first `check_arity(name, receiver_value, receiver_pos, N, arg_positions, arg_values)` of an arm. *)
Record arity_check := {
  a_expected : option N;    (* the literal N; None = not a literal / unexpected argument list *)
  a_off : N;                (* offset of the call inside the arm *)
  a_toplevel : bool;        (* the call is a top-level statement of the arm (brace depth 1) *)
  a_propagated : bool;      (* written `check_arity(...)?;` : an arity error leaves the arm *)
  a_unique : bool           (* the arm contains exactly one check_arity call *)
}.

(* One `arg_values[i]` / `arg_positions[i]` in an arm. *)
Record index_use := {
  u_what : use_what;
  u_index : option N;       (* None = the index is not an integer literal *)
  u_off : N
}.

(* The first test of `env.enforce_sandbox` in an arm. *)
Record guard := {
  g_off : N;
  g_first_stmt : bool;        (* the arm body begins with `if env.enforce_sandbox {` *)
  g_toplevel_if : bool;       (* it is `if env.enforce_sandbox { .. }` at brace depth 1 *)
  g_returns_forbidden : bool  (* that block ends with `return Err((.., EvalError::ForbiddenInSandbox(..)));`, no else *)
}.

(* The first textually effectful Rust call in an arm (translator's pattern list). *)
Record effect_call := {
  e_off : N;
  e_cat : effect_cat;
  e_callee : string
}.

Record row := {
  r_kind : kind;
  r_variant : string;            (* Rust enum variant, e.g. "FsWriteFile", "StringSubstring" *)
  r_ns : string;                 (* functions: namespace file ("__fs.gdn"); methods: receiver type ("String") *)
  r_name : string;               (* Garden-level name ("write_file", "substring") *)
  r_decl_params : option N;      (* parameters of the Garden-side declaration (without `this`) *)
  r_arity : option arity_check;
  r_uses : list index_use;
  r_guard : option guard;
  r_effect : option effect_call;
  r_helper_effect : option string; (* first effectful call reached through free helper functions
                                      called from the arm, with the call chain; None = none found *)
  r_std_paths : list string;     (* every `std::..` path named in the arm *)
  r_block_arm : bool;            (* the arm is a `{ .. }` block *)
  r_shared_arm : bool            (* the arm pattern lists several variants *)
}.

(* Where sandboxed mode is switched on. *)
Record limits := {
  l_file : string;
  l_tick_limit : option N;         (* `env.tick_limit = Some(N);` *)
  l_stack_limit : option N;        (* `env.stack_limit = Some(N);` *)
  l_enforce_sandbox : option bool; (* `env.enforce_sandbox = true;` *)
  l_set_before_eval : bool;        (* all three assignments precede the first eval_* call of that function *)
  l_assigned_once : bool
}.

(* Shape facts about `fn eval` (the interpreter loop) and about writes to the counters. *)
Record loop_facts := {
  loop_pop_then_incr : bool;                 (* `exprs_to_eval.pop()` is immediately followed by `env.ticks += 1;` *)
  loop_tick_check_ge : bool;                 (* `if env.ticks >= tick_limit { .. return Err(ReachedTickLimit` *)
  loop_incr_before_tick_check : bool;
  loop_tick_check_before_eval_expr : bool;
  loop_stack_check_gt : bool;                (* `if env.stack.0.len() > limit { .. return Err(ReachedStackLimit` *)
  loop_stack_check_before_eval_expr : bool;
  loop_single_eval_expr_call : bool;
  ticks_only_incremented : bool;             (* the only writes to `ticks` in src/ are `+= 1`, and `= 0` inside fn eval_tests
                                                (a fresh budget per test: finitely many tests per run) *)
  limits_assigned_only_in_entry_points : bool
}.

(* Shape facts about `check_arity` and the two call sites that build the argument vectors. *)
Record arity_fn_facts := {
  ca_len_test : bool;              (* `if arg_values.len() != expected {` guards the whole error path, `Ok(())` follows *)
  ca_index_only_when_longer : bool;(* the only indexing is `arg_positions[expected]` under `arg_values.len() > expected` *)
  call_pushes_pairwise : bool;     (* eval_call: one `arg_values.push` and one `arg_positions.push` per argument *)
  method_call_pushes_pairwise : bool
}.

(* ------------------------------------------------------------------ *)
(* The hand-audited classification (C24).                              *)

Inductive audit :=
  | Effectful      (* can create/modify/delete/read files, query the file system at a caller-chosen
                      path, start a process or read stdin: MUST refuse in sandboxed mode *)
  | NoOsEffect.    (* works on values and interpreter state only *)

(* Keyed by the Rust variant NAME: a built-in added to either enum is not in
   this list, `classify` answers None and `all_kinds_classified` fails until
   someone audits it. *)
Definition audited : list (kind * string * audit) := [
  (KFunction, "PreludeDbg", NoOsEffect);
  (KFunction, "PreludeEprint", NoOsEffect);            (* writes to stderr: output, not one of the property's effects *)
  (KFunction, "PreludeEprintln", NoOsEffect);
  (KFunction, "PreludePrint", NoOsEffect);
  (KFunction, "PreludePrintln", NoOsEffect);
  (KFunction, "PreludeReadLine", Effectful);           (* reads standard input *)
  (KFunction, "PreludeShellArguments", NoOsEffect);    (* env.cli_args *)
  (KFunction, "PreludeStringRepr", NoOsEffect);
  (KFunction, "PreludeThrow", NoOsEffect);
  (KFunction, "ShellGetEnv", NoOsEffect);              (* reads an environment variable: not files/processes/stdin *)
  (KFunction, "ShellIsTty", NoOsEffect);               (* isatty(stdout) *)
  (KFunction, "ShellRun", Effectful);                  (* starts a process *)
  (KFunction, "FsCopyFile", Effectful);
  (KFunction, "FsCreateDir", Effectful);
  (KFunction, "FsListDirectory", Effectful);
  (KFunction, "FsReadFile", Effectful);
  (KFunction, "FsReadFileBytes", Effectful);
  (KFunction, "FsRemoveDir", Effectful);
  (KFunction, "FsRemoveFile", Effectful);
  (KFunction, "FsSetWorkingDirectory", NoOsEffect);    (* assigns env.working_directory only (no chdir) *)
  (KFunction, "FsWorkingDirectory", NoOsEffect);       (* reads env.working_directory only *)
  (KFunction, "FsWriteBytes", Effectful);
  (KFunction, "FsWriteFile", Effectful);
  (KFunction, "RandomRandomInt", NoOsEffect);
  (KFunction, "ReflectBuiltInFiles", NoOsEffect);
  (KFunction, "ReflectCheckSnippet", Effectful);       (* checking the snippet loads its imports from disk
                                                           (check_snippet > .. > read_src > std::fs::read):
                                                           reads / probes files at caller-chosen paths *)
  (KFunction, "ReflectDocComment", NoOsEffect);
  (KFunction, "ReflectDocCommentForMethod", NoOsEffect);
  (KFunction, "ReflectDocCommentForType", NoOsEffect);
  (KFunction, "ReflectKeywords", NoOsEffect);
  (KFunction, "ReflectLex", NoOsEffect);
  (KFunction, "ReflectMethodsForType", NoOsEffect);
  (KFunction, "ReflectNamespaceFunctions", NoOsEffect);
  (KFunction, "ReflectPreludeTypes", NoOsEffect);
  (KFunction, "ReflectSourceFile", NoOsEffect);        (* see benign_effect_calls *)
  (KFunction, "ReflectSourceForFun", NoOsEffect);
  (KFunction, "ReflectSourceForMethod", NoOsEffect);
  (KFunction, "ReflectSourceForType", NoOsEffect);
  (KFunction, "TimeUnixtime", NoOsEffect);
  (KMethod, "DictGet", NoOsEffect);
  (KMethod, "DictItems", NoOsEffect);
  (KMethod, "DictRemove", NoOsEffect);
  (KMethod, "DictSet", NoOsEffect);
  (KMethod, "FloatCeil", NoOsEffect);
  (KMethod, "FloatFloor", NoOsEffect);
  (KMethod, "IntAsFloat", NoOsEffect);
  (KMethod, "ListAppend", NoOsEffect);
  (KMethod, "ListContains", NoOsEffect);
  (KMethod, "ListGet", NoOsEffect);
  (KMethod, "ListLen", NoOsEffect);
  (KMethod, "ListSlice", NoOsEffect);
  (KMethod, "PathExists", Effectful);                  (* probes the file system at a caller-chosen path *)
  (KMethod, "PathInfo", Effectful);
  (KMethod, "StringAsInt", NoOsEffect);
  (KMethod, "StringChars", NoOsEffect);
  (KMethod, "StringIndexOf", NoOsEffect);
  (KMethod, "StringJoin", NoOsEffect);
  (KMethod, "StringLen", NoOsEffect);
  (KMethod, "StringLines", NoOsEffect);
  (KMethod, "StringStartsWith", NoOsEffect);
  (KMethod, "StringEndsWith", NoOsEffect);
  (KMethod, "StringSubstring", NoOsEffect)
].

(* Effect-pattern matches that the audit accepts in a NoOsEffect arm, per variant.
   ReflectSourceFile: `std::fs::canonicalize(position.path)` resolves the path of the
   program's OWN source file (no caller-chosen path, no content read, nothing written). *)
Definition benign_effect_calls : list (string * string) := [
  ("ReflectSourceFile", "std::fs::canonicalize")
].

(* `std::` paths that may be named in a NoOsEffect arm. *)
Definition harmless_std_paths : list string := [
  "std::env::var";               (* ShellGetEnv *)
  "std::io::IsTerminal"; "std::io::stdout";       (* ShellIsTty *)
  "std::time::SystemTime::now"; "std::time::UNIX_EPOCH"   (* TimeUnixtime *)
].

Definition kind_eqb (a b : kind) : bool :=
  match a, b with KFunction, KFunction => true | KMethod, KMethod => true | _, _ => false end.

Fixpoint lookup_audit (k : kind) (v : string) (l : list (kind * string * audit)) : option audit :=
  match l with
  | [] => None
  | (k', v', a) :: t => if kind_eqb k k' && String.eqb v v' then Some a else lookup_audit k v t
  end.

Definition classify (r : row) : option audit := lookup_audit (r_kind r) (r_variant r) audited.

Definition classified (r : row) : bool :=
  match classify r with Some _ => true | None => false end.

Definition effectful (r : row) : bool :=
  match classify r with Some Effectful => true | _ => false end.

Definition mem_string (s : string) (l : list string) : bool := existsb (String.eqb s) l.

Definition mem_pair (a b : string) (l : list (string * string)) : bool :=
  existsb (fun p => String.eqb a (fst p) && String.eqb b (snd p)) l.

(* ------------------------------------------------------------------ *)
(* C24: the sandbox test comes before any effect.                      *)

(* The test must be a top-level `if` that returns ForbiddenInSandbox, and either the
   very first statement of the arm or (textually) before the first effectful call. *)
Definition guarded_before_effect (r : row) : bool :=
  r_block_arm r && negb (r_shared_arm r) &&
  match r_guard r with
  | None => false
  | Some g =>
      g_toplevel_if g && g_returns_forbidden g &&
      (g_first_stmt g ||
       match r_effect r with
       | Some e => g_off g <? e_off e
       | None => false            (* effect not located textually: only "first statement" is accepted *)
       end)
  end.

Definition sandbox_guarded (r : row) : bool :=
  if effectful r then guarded_before_effect r else true.

(* A NoOsEffect arm contains no effect-pattern match (except the audited benign ones),
   reaches none through helper functions, and names no `std::` path outside the harmless list. *)
Definition no_unaudited_effect (r : row) : bool :=
  match r_effect r with
  | None => true
  | Some e => mem_pair (r_variant r) (e_callee e) benign_effect_calls
  end &&
  match r_helper_effect r with None => true | Some _ => false end &&
  forallb (fun p => mem_string p harmless_std_paths || mem_pair (r_variant r) p benign_effect_calls)
          (r_std_paths r).

(* Abstract reading of a row as the order of the two events that matter. *)
Inductive action := AGuard | AEffect (c : effect_cat) | AOther.
Inductive arm_end := Finished | Forbidden.

Fixpoint run_arm (sandbox : bool) (acts : list action) : list effect_cat * arm_end :=
  match acts with
  | [] => ([], Finished)
  | AGuard :: t => if sandbox then ([], Forbidden) else run_arm sandbox t
  | AEffect c :: t => let '(es, o) := run_arm sandbox t in (c :: es, o)
  | AOther :: t => run_arm sandbox t
  end.

Definition arm_actions (r : row) : list action :=
  match r_guard r, r_effect r with
  | None, None => [AOther]
  | None, Some e => [AOther; AEffect (e_cat e)]
  | Some g, None =>
      if g_toplevel_if g && g_returns_forbidden g then [AGuard; AOther] else [AOther]
  | Some g, Some e =>
      if g_toplevel_if g && g_returns_forbidden g then
        if g_first_stmt g || (g_off g <? e_off e) then [AGuard; AEffect (e_cat e)]
        else [AEffect (e_cat e); AGuard]
      else [AOther; AEffect (e_cat e)]
  end.

(* ------------------------------------------------------------------ *)
(* C02 (built-in argument part): every literal index is below the checked arity. *)

Definition use_guarded (a : arity_check) (n : N) (u : index_use) : bool :=
  match u_index u with
  | Some i => (i <? n) && (a_off a <? u_off u)
  | None => false
  end.

Definition index_guarded (r : row) : bool :=
  match r_arity r with
  | None => match r_uses r with [] => true | _ => false end
  | Some a =>
      match a_expected a with
      | None => match r_uses r with [] => true | _ => false end
      | Some n => a_toplevel a && a_propagated a && forallb (use_guarded a n) (r_uses r)
      end
  end.

(* The arity an arm checks is the number of parameters the Garden-side stub declares. *)
Definition arity_matches_declaration (r : row) : bool :=
  match r_arity r, r_decl_params r with
  | Some a, Some d => match a_expected a with Some n => n =? d | None => false end
  | _, _ => false
  end.

(* Model of `check_arity` over the two argument vectors (elements abstracted). *)
Inductive arity_result := ArityOk | ArityErr | ArityPanic.

Definition check_arity_model {P V : Type} (expected : nat) (positions : list P) (values : list V) : arity_result :=
  if Nat.eqb (List.length values) expected then ArityOk
  else if Nat.ltb expected (List.length values)
       then match nth_error positions expected with Some _ => ArityErr | None => ArityPanic end
       else ArityErr.

(* ------------------------------------------------------------------ *)
(* C25 (limits part).                                                   *)

Definition limits_ok (l : limits) : bool :=
  match l_tick_limit l, l_stack_limit l, l_enforce_sandbox l with
  | Some t, Some s, Some true => (0 <? t) && (0 <? s) && l_set_before_eval l && l_assigned_once l
  | _, _, _ => false
  end.

Definition loop_ok (f : loop_facts) : bool :=
  loop_pop_then_incr f && loop_tick_check_ge f && loop_incr_before_tick_check f &&
  loop_tick_check_before_eval_expr f && loop_stack_check_gt f && loop_stack_check_before_eval_expr f &&
  loop_single_eval_expr_call f && ticks_only_incremented f && limits_assigned_only_in_entry_points f.

Definition arity_fn_ok (f : arity_fn_facts) : bool :=
  ca_len_test f && ca_index_only_when_longer f && call_pushes_pairwise f && method_call_pushes_pairwise f.
