(* SandboxProps.v -- proofs about the generated built-in table (gen/Builtins.v)
   and the small abstract lemmas that give the table conditions their meaning.

   The table is finite and, by the translator's self-check, has exactly one row
   per variant of BuiltInFunctionKind / BuiltInMethodKind; the `forallb .. = true`
   facts are decided by vm_compute and lifted to `forall row, In row table -> ..`
   with forallb_forall.  These are the lemmas a source edit breaks. *)
From Coq Require Import NArith List String Bool Lia Arith.
From Garden Require Import Sandbox gen.Builtins.
Import ListNotations.
Open Scope string_scope.
Open Scope nat_scope.

(* ------------------------------------------------------------------ *)
(* Table-level facts (re-checked against the current source on every run) *)

Lemma all_kinds_classified_b : forallb classified builtin_table = true.
Proof. vm_compute. reflexivity. Qed.

Lemma all_kinds_classified_lemma : forall r, In r builtin_table -> classified r = true.
Proof. apply forallb_forall. exact all_kinds_classified_b. Qed.

Lemma sandbox_guarded_b : forallb sandbox_guarded builtin_table = true.
Proof. vm_compute. reflexivity. Qed.

Lemma effectful_guarded_lemma :
  forall r, In r builtin_table -> effectful r = true -> guarded_before_effect r = true.
Proof.
  intros r Hin He.
  pose proof (proj1 (forallb_forall sandbox_guarded builtin_table) sandbox_guarded_b r Hin) as H.
  unfold sandbox_guarded in H. rewrite He in H. exact H.
Qed.

Lemma no_unaudited_effect_b :
  forallb (fun r => effectful r || no_unaudited_effect r) builtin_table = true.
Proof. vm_compute. reflexivity. Qed.

Lemma pure_rows_have_no_effect_call_lemma :
  forall r, In r builtin_table -> effectful r = false -> no_unaudited_effect r = true.
Proof.
  intros r Hin He.
  pose proof (proj1 (forallb_forall _ builtin_table) no_unaudited_effect_b r Hin) as H.
  cbv beta in H. rewrite He in H. exact H.
Qed.

(* The audit list and the table name exactly the same built-ins, each once. *)
Definition table_keys : list (kind * string) := map (fun r => (r_kind r, r_variant r)) builtin_table.
Definition audit_keys : list (kind * string) := map (fun p => (fst (fst p), snd (fst p))) audited.

Definition key_eqb (a b : kind * string) : bool := kind_eqb (fst a) (fst b) && String.eqb (snd a) (snd b).

Fixpoint nodup_keys (l : list (kind * string)) : bool :=
  match l with
  | [] => true
  | k :: t => negb (existsb (key_eqb k) t) && nodup_keys t
  end.

Lemma audit_matches_table_lemma :
  nodup_keys table_keys = true /\ nodup_keys audit_keys = true /\
  forallb (fun k => existsb (key_eqb k) table_keys) audit_keys = true /\
  N.of_nat (List.length function_rows) = function_variant_count /\
  N.of_nat (List.length method_rows) = method_variant_count /\
  function_match_tail_is_ok = true /\ method_match_tail_is_ok = true.
Proof. vm_compute. repeat split; reflexivity. Qed.

(* Sandboxed mode is switched on (with limits) in both entry points, before evaluation. *)
Lemma sandbox_limits_set_b : forallb limits_ok sandbox_entry_points = true.
Proof. vm_compute. reflexivity. Qed.

Lemma sandbox_limits_set_lemma :
  forall l, In l sandbox_entry_points ->
  exists t s, l_tick_limit l = Some t /\ (0 < t)%N /\ l_stack_limit l = Some s /\ (0 < s)%N /\
              l_enforce_sandbox l = Some true /\ l_set_before_eval l = true.
Proof.
  intros l Hin.
  pose proof (proj1 (forallb_forall limits_ok sandbox_entry_points) sandbox_limits_set_b l Hin) as H.
  unfold limits_ok in H.
  destruct (l_tick_limit l) as [t|]; [|discriminate].
  destruct (l_stack_limit l) as [s|]; [|discriminate].
  destruct (l_enforce_sandbox l) as [[|]|]; try discriminate.
  apply andb_prop in H; destruct H as [H _].
  apply andb_prop in H; destruct H as [H Hb].
  apply andb_prop in H; destruct H as [Ht Hs].
  exists t, s. repeat split; auto; now apply N.ltb_lt.
Qed.

Lemma entry_points_are_the_two_sandbox_commands :
  map l_file sandbox_entry_points = ["sandboxed_playground.rs"; "test_runner.rs"].
Proof. vm_compute. reflexivity. Qed.

Lemma eval_loop_shape_lemma : loop_ok eval_loop = true.
Proof. vm_compute. reflexivity. Qed.

Lemma arity_fn_shape_lemma : arity_fn_ok arity_fn = true.
Proof. vm_compute. reflexivity. Qed.

(* ------------------------------------------------------------------ *)
(* C02: literal indices are below the checked arity                     *)

Lemma index_guarded_b : forallb index_guarded builtin_table = true.
Proof. vm_compute. reflexivity. Qed.

Lemma builtin_index_guard_lemma : forall r, In r builtin_table -> index_guarded r = true.
Proof. apply forallb_forall. exact index_guarded_b. Qed.

Lemma index_guarded_meaning :
  forall r u, index_guarded r = true -> In u (r_uses r) ->
  exists a n i, r_arity r = Some a /\ a_expected a = Some n /\ a_toplevel a = true /\ a_propagated a = true /\
                u_index u = Some i /\ (i < n)%N /\ (a_off a < u_off u)%N.
Proof.
  intros r u H Hu. unfold index_guarded in H.
  destruct (r_arity r) as [a|].
  - destruct (a_expected a) as [n|] eqn:En.
    + apply andb_prop in H; destruct H as [H Hall].
      apply andb_prop in H; destruct H as [Ht Hp].
      pose proof (proj1 (forallb_forall _ _) Hall u Hu) as Hg.
      unfold use_guarded in Hg. destruct (u_index u) as [i|] eqn:Ei; [|discriminate].
      apply andb_prop in Hg; destruct Hg as [H1 H2].
      exists a, n, i. repeat split; auto; now apply N.ltb_lt.
    + destruct (r_uses r); [contradiction|discriminate].
  - destruct (r_uses r); [contradiction|discriminate].
Qed.

Lemma builtin_index_guard_meaning_lemma :
  forall r u, In r builtin_table -> In u (r_uses r) ->
  exists a n i, r_arity r = Some a /\ a_expected a = Some n /\ a_toplevel a = true /\ a_propagated a = true /\
                u_index u = Some i /\ (i < n)%N /\ (a_off a < u_off u)%N.
Proof. intros r u Hr Hu. apply index_guarded_meaning; auto. now apply builtin_index_guard_lemma. Qed.

Lemma arity_matches_declaration_b : forallb arity_matches_declaration builtin_table = true.
Proof. vm_compute. reflexivity. Qed.

Lemma arity_matches_declaration_lemma :
  forall r, In r builtin_table -> arity_matches_declaration r = true.
Proof. apply forallb_forall. exact arity_matches_declaration_b. Qed.

(* The model of check_arity: it never indexes out of bounds when the two vectors have
   the same length (which both call sites guarantee: arity_fn_shape_lemma), and after
   it succeeds every index below the expected arity is in bounds in both vectors. *)
Lemma check_arity_no_panic :
  forall (P V : Type) expected (ps : list P) (vs : list V),
  List.length ps = List.length vs -> check_arity_model expected ps vs <> ArityPanic.
Proof.
  intros P V expected ps vs Hlen. unfold check_arity_model.
  destruct (Nat.eqb (List.length vs) expected); [discriminate|].
  destruct (Nat.ltb expected (List.length vs)) eqn:Hlt; [|discriminate].
  apply Nat.ltb_lt in Hlt. rewrite <- Hlen in Hlt.
  destruct (nth_error ps expected) eqn:Hn; [discriminate|].
  apply nth_error_None in Hn. lia.
Qed.

Lemma index_after_check_in_bounds :
  forall (P V : Type) expected (ps : list P) (vs : list V) i,
  List.length ps = List.length vs -> check_arity_model expected ps vs = ArityOk -> i < expected ->
  nth_error vs i <> None /\ nth_error ps i <> None.
Proof.
  intros P V expected ps vs i Hlen Hok Hi. unfold check_arity_model in Hok.
  destruct (Nat.eqb (List.length vs) expected) eqn:He.
  - apply Nat.eqb_eq in He. split; apply nth_error_Some; lia.
  - destruct (Nat.ltb expected (List.length vs)); [destruct (nth_error ps expected)|]; discriminate.
Qed.

(* Every literal index of every arm is in bounds at run time: table + check_arity model. *)
Lemma builtin_literal_index_in_bounds_lemma :
  forall r u, In r builtin_table -> In u (r_uses r) ->
  exists n i, u_index u = Some i /\
    forall (P V : Type) (ps : list P) (vs : list V),
      List.length ps = List.length vs -> check_arity_model (N.to_nat n) ps vs = ArityOk ->
      nth_error vs (N.to_nat i) <> None /\ nth_error ps (N.to_nat i) <> None.
Proof.
  intros r u Hr Hu.
  destruct (builtin_index_guard_meaning_lemma r u Hr Hu) as (a & n & i & _ & _ & _ & _ & Hi & Hlt & _).
  exists n, i. split; [exact Hi|].
  intros P V ps vs Hlen Hok. apply (index_after_check_in_bounds P V (N.to_nat n)); auto. lia.
Qed.

(* ------------------------------------------------------------------ *)
(* C24: meaning of guarded_before_effect on the abstract arm            *)

Lemma guarded_arm_emits_nothing :
  forall r, guarded_before_effect r = true -> run_arm true (arm_actions r) = ([], Forbidden).
Proof.
  intros r H. unfold guarded_before_effect in H.
  apply andb_prop in H; destruct H as [_ H].
  unfold arm_actions.
  destruct (r_guard r) as [g|]; [|discriminate].
  apply andb_prop in H; destruct H as [H Hord].
  rewrite H.
  destruct (r_effect r) as [e|].
  - rewrite Hord. reflexivity.
  - reflexivity.
Qed.

Lemma sandboxed_effectful_arm_emits_nothing_lemma :
  forall r, In r builtin_table -> effectful r = true -> run_arm true (arm_actions r) = ([], Forbidden).
Proof. intros r Hin He. apply guarded_arm_emits_nothing. now apply effectful_guarded_lemma. Qed.

(* In general: whatever precedes the guard, if it contains no effect, a sandboxed run
   of the arm emits no effect and ends with the sandbox refusal. *)
Fixpoint no_effect (acts : list action) : bool :=
  match acts with
  | [] => true
  | AEffect _ :: _ => false
  | AGuard :: t => no_effect t
  | AOther :: t => no_effect t
  end.

Lemma guard_before_effects_refuses :
  forall pre post, no_effect pre = true -> run_arm true (pre ++ AGuard :: post) = ([], Forbidden).
Proof.
  induction pre as [|a pre IH]; intros post H; cbn [app run_arm].
  - reflexivity.
  - destruct a; cbn [no_effect] in H; cbn [run_arm]; try discriminate; auto.
Qed.

(* ------------------------------------------------------------------ *)
(* C25: a tick-counted machine with a limit halts within the limit      *)

Section TickBound.
  Variable state : Type.
  Variable step : state -> option state.     (* None = the run has ended (value, error or limit error) *)
  Variable ticks : state -> nat.
  Variable limit : nat.
  Hypothesis step_ticks : forall s s', step s = Some s' -> ticks s' = S (ticks s).
  Hypothesis limit_stops : forall s, limit <= ticks s -> step s = None.

  Fixpoint iter (k : nat) (s : state) : option state :=
    match k with
    | 0 => Some s
    | S k' => match step s with Some s' => iter k' s' | None => None end
    end.

  (* the run from s ends after at most n steps *)
  Definition halts_within (n : nat) (s : state) : Prop :=
    exists k s', k <= n /\ iter k s = Some s' /\ step s' = None.

  Lemma ticks_bound_terminates_aux :
    forall n s, limit - ticks s <= n -> halts_within n s.
  Proof.
    induction n as [|n IH]; intros s Hn.
    - exists 0, s. repeat split; auto. apply limit_stops. lia.
    - destruct (step s) as [s'|] eqn:Hs.
      + pose proof (step_ticks s s' Hs) as Ht.
        destruct (IH s') as (k & s'' & Hk & Hit & Hend); [lia|].
        exists (S k), s''. repeat split; [lia| |exact Hend].
        cbn [iter]. rewrite Hs. exact Hit.
      + exists 0, s. repeat split; auto. lia.
  Qed.

  Lemma ticks_bound_terminates_sec : forall s, halts_within (limit - ticks s) s.
  Proof. intros s. now apply ticks_bound_terminates_aux. Qed.

  (* and no run is longer than that *)
  Lemma no_run_longer_than_limit_sec :
    forall k s s', iter k s = Some s' -> k <= limit - ticks s \/ k = 0.
  Proof.
    induction k as [|k IH]; intros s s' H; [now right|left].
    cbn [iter] in H. destruct (step s) as [s1|] eqn:Hs; [|discriminate].
    pose proof (step_ticks s s1 Hs) as Ht.
    assert (Hlt : ticks s < limit).
    { destruct (le_lt_dec limit (ticks s)) as [Hle|]; auto. rewrite (limit_stops s Hle) in Hs. discriminate. }
    destruct (IH s1 s' H) as [Hk|Hk]; lia.
  Qed.
End TickBound.

(* The interpreter loop refined: a step either evaluates one expression (ticks + 1,
   may push at most one frame) or pops a finished frame (no tick, depth - 1).  With
   potential 2 * (limit - ticks) + depth every step decreases the potential, so a
   run takes at most 2 * limit + depth steps. *)
Section TickAndFrameBound.
  Variable state : Type.
  Variable step : state -> option state.
  Variable ticks : state -> nat.
  Variable depth : state -> nat.
  Variable limit : nat.
  Hypothesis step_kind : forall s s', step s = Some s' ->
    (ticks s' = S (ticks s) /\ depth s' <= S (depth s) /\ ticks s' < limit) \/
    (ticks s' = ticks s /\ S (depth s') = depth s).

  Definition potential (s : state) : nat := 2 * (limit - ticks s) + depth s.

  Lemma step_decreases_potential :
    forall s s', ticks s <= limit -> step s = Some s' -> potential s' < potential s /\ ticks s' <= limit.
  Proof.
    intros s s' Hle H. unfold potential. destruct (step_kind s s' H) as [(Ht & Hd & Hl)|(Ht & Hd)]; lia.
  Qed.

  Lemma run_length_bounded_sec :
    forall k s s', ticks s <= limit -> iter state step k s = Some s' -> k <= potential s.
  Proof.
    induction k as [|k IH]; intros s s' Hle H; [lia|].
    cbn [iter] in H. destruct (step s) as [s1|] eqn:Hs; [|discriminate].
    destruct (step_decreases_potential s s1 Hle Hs) as [Hp Hle1].
    pose proof (IH s1 s' Hle1 H). lia.
  Qed.
End TickAndFrameBound.

(* Non-vacuity of the section hypotheses: a counter machine. *)
Definition counter_step (limit : nat) (s : nat) : option nat := if Nat.ltb s limit then Some (S s) else None.

Lemma counter_machine_instance :
  forall limit, halts_within nat (counter_step limit) (limit - 0) 0.
Proof.
  intros limit. apply (ticks_bound_terminates_sec nat (counter_step limit) (fun s => s) limit).
  - intros s s' H. unfold counter_step in H. destruct (Nat.ltb s limit); inversion H; reflexivity.
  - intros s H. unfold counter_step. destruct (Nat.ltb s limit) eqn:E; auto. apply Nat.ltb_lt in E. lia.
Qed.

(* ------------------------------------------------------------------ *)
(* Statements pinned in Properties/C24.v whose proofs are longer than `exact` *)

Lemma sandbox_enforced_in_entry_points_lemma :
  map l_file sandbox_entry_points = ["sandboxed_playground.rs"; "test_runner.rs"] /\
  forall l, In l sandbox_entry_points -> l_enforce_sandbox l = Some true /\ l_set_before_eval l = true.
Proof.
  split; [exact entry_points_are_the_two_sandbox_commands|].
  intros l Hin. destruct (sandbox_limits_set_lemma l Hin) as (t & s & _ & _ & _ & _ & He & Hb). now split.
Qed.

Lemma effectful_rows_exist_lemma :
  exists r1 r2 r3, In r1 builtin_table /\ r_variant r1 = "FsWriteFile" /\ effectful r1 = true /\
                   guarded_before_effect r1 = true /\
                   In r2 builtin_table /\ r_variant r2 = "PreludeReadLine" /\ effectful r2 = true /\
                   In r3 builtin_table /\ r_variant r3 = "PreludePrintln" /\ effectful r3 = false /\
                   guarded_before_effect r3 = false.
Proof.
  pose (find_v := fun v => find (fun r => String.eqb (r_variant r) v) builtin_table).
  destruct (find_v "FsWriteFile") as [r1|] eqn:E1; [|vm_compute in E1; discriminate].
  destruct (find_v "PreludeReadLine") as [r2|] eqn:E2; [|vm_compute in E2; discriminate].
  destruct (find_v "PreludePrintln") as [r3|] eqn:E3; [|vm_compute in E3; discriminate].
  exists r1, r2, r3.
  pose proof (find_some _ _ E1) as [I1 _]. pose proof (find_some _ _ E2) as [I2 _].
  pose proof (find_some _ _ E3) as [I3 _].
  vm_compute in E1, E2, E3. inversion E1; inversion E2; inversion E3; subst.
  repeat split; auto.
Qed.

Lemma index_guard_nonvacuous_lemma :
  (exists r, In r builtin_table /\ r_variant r = "StringSubstring" /\
             (exists a, r_arity r = Some a /\ a_expected a = Some 2%N) /\
             existsb (fun u => match u_index u with Some 1%N => true | _ => false end) (r_uses r) = true) /\
  index_guarded {| r_kind := KMethod; r_variant := "StringSubstring"; r_ns := "String"; r_name := "substring";
                   r_decl_params := Some 2%N;
                   r_arity := Some {| a_expected := Some 2%N; a_off := 14%N; a_toplevel := true;
                                      a_propagated := true; a_unique := true |};
                   r_uses := [ {| u_what := UPosition; u_index := Some 2%N; u_off := 1500%N |} ];
                   r_guard := None; r_effect := None; r_helper_effect := None; r_std_paths := [];
                   r_block_arm := true; r_shared_arm := false |} = false.
Proof.
  split; [|vm_compute; reflexivity].
  destruct (find (fun r => String.eqb (r_variant r) "StringSubstring") builtin_table) as [r|] eqn:E;
    [|vm_compute in E; discriminate].
  exists r. pose proof (find_some _ _ E) as [I _]. split; [exact I|].
  vm_compute in E. inversion E; subst. split; [reflexivity|]. split; [eexists; split; reflexivity|reflexivity].
Qed.
