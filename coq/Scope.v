(* MODEL (definitions only): a small expression language that is a sub-language of Garden, with UNIQUE OCCURRENCE IDS
   on every binder and every use; lexical resolution as Garden's type checker computes it (`id_to_def_pos`,
   src/checks/type_checker.rs: LocalBindings is a stack of blocks; `let` adds to the innermost block AFTER its right-hand
   side was checked; blocks of if/while and closure bodies push a block; closure parameters live in the block of the
   closure body; a name that is not a local resolves to the top-level function of that name); and a big-step, fuelled
   reference semantics with environments as lists of blocks (src/eval.rs: Bindings.block_bindings; closures capture a
   COPY of the current blocks; a call of a top-level function starts from its parameters only; `&&`/`||` do not
   short-circuit; call arguments are evaluated right to left, after the callee).

   Garden source form of each construct (the Python printer in tools/props/C19.py prints exactly this):
     EInt 3 -> 3        EBool true -> True       EVar u x -> x        EBin op l r -> l op (r)
     ECall f [a;b] -> f(a, b)      EFun [p] body -> fun(p) { body }      EIf c t e -> if c { t } else { e }
     EDbg e -> dbg(e)    EPrint e -> println(string_repr(e))
     SLet b x e -> let x = e       SAssign u x e -> x = e       SWhile c b -> while c { b }
     top-level:  fun f(p, q) { body }   followed by the main statements.

   The runtime environment carries, next to each name, the occurrence id of the binder that created the binding. It is
   a ghost annotation: no evaluation rule reads it (lookup and assignment go by name only). *)
From Coq Require Import List ZArith Bool Arith.
Import ListNotations.

Definition name := nat.
Definition oid := nat.

Inductive binop := OAdd | OSub | OMul | OLt | OLe | OGt | OGe | OEq | ONe | OAnd | OOr.

Inductive expr :=
| EInt (z : Z)
| EBool (b : bool)
| EVar (u : oid) (x : name)
| EBin (op : binop) (l r : expr)
| ECall (f : expr) (args : exprs)
| EFun (ps : list (oid * name)) (body : block)
| EIf (c : expr) (t e : block)
| EDbg (e : expr)
| EPrint (e : expr)
with exprs := ENil | ECons (e : expr) (es : exprs)
with block := BNil | BCons (s : stmt) (b : block)
with stmt :=
| SLet (b : oid) (x : name) (e : expr)
| SAssign (u : oid) (x : name) (e : expr)
| SExpr (e : expr)
| SWhile (c : expr) (body : block).

Scheme expr_mind := Induction for expr Sort Prop
with exprs_mind := Induction for exprs Sort Prop
with block_mind := Induction for block Sort Prop
with stmt_mind := Induction for stmt Sort Prop.
Combined Scheme syntax_mutind from expr_mind, exprs_mind, block_mind, stmt_mind.

(* fun f(ps) { body } *)
Record fundef := { fd_name : name; fd_id : oid; fd_params : list (oid * name); fd_body : block }.
Definition program := (list fundef * block)%type.

(* ------------------------------------------------------------------------------------------------------------ *)
(* Static scopes and resolution *)

Definition sframe := list (name * oid).
Definition scope := list sframe.

Fixpoint lookup_frame_s (fr : sframe) (x : name) : option oid :=
  match fr with
  | [] => None
  | (y, d) :: r => if Nat.eqb x y then Some d else lookup_frame_s r x
  end.

Fixpoint lookup_s (sc : scope) (x : name) : option oid :=
  match sc with
  | [] => None
  | fr :: r => match lookup_frame_s fr x with Some d => Some d | None => lookup_s r x end
  end.

Definition params_frame (ps : list (oid * name)) : sframe := rev (map (fun p => (snd p, fst p)) ps).

(* adding a binding to the innermost block *)
Definition push_s (x : name) (d : oid) (sc : scope) : scope :=
  match sc with
  | [] => [[(x, d)]]
  | fr :: r => ((x, d) :: fr) :: r
  end.

Definition stmt_scope (s : stmt) (sc : scope) : scope :=
  match s with
  | SLet b x _ => push_s x b sc
  | _ => sc
  end.

Fixpoint lookup_fun_id (funs : list fundef) (x : name) : option oid :=
  match funs with
  | [] => None
  | fd :: r => if Nat.eqb x (fd_name fd) then Some (fd_id fd) else lookup_fun_id r x
  end.

(* what a use of name x refers to at a point where the local scope is sc *)
Definition resolve_name (funs : list fundef) (sc : scope) (x : name) : option oid :=
  match lookup_s sc x with
  | Some d => Some d
  | None => lookup_fun_id funs x
  end.

(* the resolution table, one entry per occurrence in source order: (occurrence id, id of the binder it refers to).
   A binder refers to itself (as in id_to_def_pos, where set_binding maps the binder's own symbol id to its position);
   an unbound use has None. *)
Section Resolution.
  Variable funs : list fundef.

  Fixpoint res_expr (sc : scope) (e : expr) : list (oid * option oid) :=
    match e with
    | EInt _ | EBool _ => []
    | EVar u x => [(u, resolve_name funs sc x)]
    | EBin _ l r => res_expr sc l ++ res_expr sc r
    | ECall f args => res_expr sc f ++ res_exprs sc args
    | EFun ps body => map (fun p => (fst p, Some (fst p))) ps ++ res_block (params_frame ps :: sc) body
    | EIf c t e => res_expr sc c ++ res_block ([] :: sc) t ++ res_block ([] :: sc) e
    | EDbg e => res_expr sc e
    | EPrint e => res_expr sc e
    end
  with res_exprs (sc : scope) (es : exprs) : list (oid * option oid) :=
    match es with
    | ENil => []
    | ECons e r => res_expr sc e ++ res_exprs sc r
    end
  with res_block (sc : scope) (b : block) : list (oid * option oid) :=
    match b with
    | BNil => []
    | BCons s r => res_stmt sc s ++ res_block (stmt_scope s sc) r
    end
  with res_stmt (sc : scope) (s : stmt) : list (oid * option oid) :=
    match s with
    | SLet d _ e => (d, Some d) :: res_expr sc e
    | SAssign u x e => (u, resolve_name funs sc x) :: res_expr sc e
    | SExpr e => res_expr sc e
    | SWhile c body => res_expr sc c ++ res_block ([] :: sc) body
    end.
End Resolution.

Definition res_fundef (funs : list fundef) (fd : fundef) : list (oid * option oid) :=
  (fd_id fd, Some (fd_id fd)) :: map (fun p => (fst p, Some (fst p))) (fd_params fd)
  ++ res_block funs [params_frame (fd_params fd)] (fd_body fd).

Definition res_prog (p : program) : list (oid * option oid) :=
  flat_map (res_fundef (fst p)) (fst p) ++ res_block (fst p) [[]] (snd p).

Fixpoint assoc_oid {A} (l : list (oid * A)) (u : oid) : option A :=
  match l with
  | [] => None
  | (k, v) :: r => if Nat.eqb u k then Some v else assoc_oid r u
  end.

(* resolve p u = Some b : the occurrence u refers to the binder b (resolve p b = Some b for a binder).
   None: u is not an occurrence of p, or it is an unbound use. *)
Definition resolve (p : program) (u : oid) : option oid :=
  match assoc_oid (res_prog p) u with
  | Some r => r
  | None => None
  end.

(* ------------------------------------------------------------------------------------------------------------ *)
(* Occurrences: every (id, name) pair in source order, binders and uses *)

Fixpoint occ_expr (e : expr) : list (oid * name) :=
  match e with
  | EInt _ | EBool _ => []
  | EVar u x => [(u, x)]
  | EBin _ l r => occ_expr l ++ occ_expr r
  | ECall f args => occ_expr f ++ occ_exprs args
  | EFun ps body => ps ++ occ_block body
  | EIf c t e => occ_expr c ++ occ_block t ++ occ_block e
  | EDbg e => occ_expr e
  | EPrint e => occ_expr e
  end
with occ_exprs (es : exprs) : list (oid * name) :=
  match es with
  | ENil => []
  | ECons e r => occ_expr e ++ occ_exprs r
  end
with occ_block (b : block) : list (oid * name) :=
  match b with
  | BNil => []
  | BCons s r => occ_stmt s ++ occ_block r
  end
with occ_stmt (s : stmt) : list (oid * name) :=
  match s with
  | SLet b x e => (b, x) :: occ_expr e
  | SAssign u x e => (u, x) :: occ_expr e
  | SExpr e => occ_expr e
  | SWhile c body => occ_expr c ++ occ_block body
  end.

Definition occ_fundef (fd : fundef) : list (oid * name) :=
  (fd_id fd, fd_name fd) :: fd_params fd ++ occ_block (fd_body fd).

Definition occ_prog (p : program) : list (oid * name) :=
  flat_map occ_fundef (fst p) ++ occ_block (snd p).

(* ------------------------------------------------------------------------------------------------------------ *)
(* Values, environments, outcomes *)

Inductive value :=
| VInt (z : Z)
| VBool (b : bool)
| VUnit
| VFun (f : name)
| VClo (env : list (list (name * oid * value))) (ps : list (oid * name)) (body : block).

Definition frame := list (name * oid * value).
Definition env := list frame.

(* what string_repr shows, as far as the model distinguishes it *)
Inductive pval := PInt (z : Z) | PBool (b : bool) | PUnit | PFun (f : name) | PClosure.

Definition show (v : value) : pval :=
  match v with
  | VInt z => PInt z
  | VBool b => PBool b
  | VUnit => PUnit
  | VFun f => PFun f
  | VClo _ _ _ => PClosure
  end.

(* EvOut: a line on stdout (println); EvDbg: a line on stderr (dbg) *)
Inductive event := EvOut (s : pval) | EvDbg (s : pval).

Inductive err := ErrUnbound | ErrType | ErrArity | ErrNotFun.

Inductive outcome (A : Type) :=
| Done (out : list event) (r : env) (a : A)
| Fail (out : list event) (k : err)
| OutOfFuel.
Arguments Done {A}.
Arguments Fail {A}.
Arguments OutOfFuel {A}.

Definition bind {A B} (m : outcome A) (k : env -> A -> outcome B) : outcome B :=
  match m with
  | Done o r a =>
      match k r a with
      | Done o' r' b => Done (o ++ o') r' b
      | Fail o' e => Fail (o ++ o') e
      | OutOfFuel => OutOfFuel
      end
  | Fail o e => Fail o e
  | OutOfFuel => OutOfFuel
  end.

Fixpoint lookup_frame (fr : frame) (x : name) : option value :=
  match fr with
  | [] => None
  | (y, _, v) :: r => if Nat.eqb x y then Some v else lookup_frame r x
  end.

Fixpoint lookup (r : env) (x : name) : option value :=
  match r with
  | [] => None
  | fr :: r' => match lookup_frame fr x with Some v => Some v | None => lookup r' x end
  end.

(* `let`: add to the innermost block *)
Definition push_binding (x : name) (d : oid) (v : value) (r : env) : env :=
  match r with
  | [] => [[(x, d, v)]]
  | fr :: r' => ((x, d, v) :: fr) :: r'
  end.

(* assignment: overwrite the innermost binding of that name *)
Fixpoint assign_frame (fr : frame) (x : name) (v : value) : option frame :=
  match fr with
  | [] => None
  | (y, d, w) :: r =>
      if Nat.eqb x y then Some ((y, d, v) :: r)
      else match assign_frame r x v with Some r' => Some ((y, d, w) :: r') | None => None end
  end.

Fixpoint assign (r : env) (x : name) (v : value) : option env :=
  match r with
  | [] => None
  | fr :: r' =>
      match assign_frame fr x v with
      | Some fr' => Some (fr' :: r')
      | None => match assign r' x v with Some r'' => Some (fr :: r'') | None => None end
      end
  end.

Fixpoint bind_params (ps : list (oid * name)) (vs : list value) (acc : frame) : frame :=
  match ps, vs with
  | (d, x) :: ps', v :: vs' => bind_params ps' vs' ((x, d, v) :: acc)
  | _, _ => acc
  end.

Fixpoint find_fun (funs : list fundef) (x : name) : option fundef :=
  match funs with
  | [] => None
  | fd :: r => if Nat.eqb x (fd_name fd) then Some fd else find_fun r x
  end.

Definition int_binop (op : binop) (x y : Z) : option value :=
  match op with
  | OAdd => Some (VInt (x + y))
  | OSub => Some (VInt (x - y))
  | OMul => Some (VInt (x * y))
  | OLt => Some (VBool (Z.ltb x y))
  | OLe => Some (VBool (Z.leb x y))
  | OGt => Some (VBool (Z.ltb y x))
  | OGe => Some (VBool (Z.leb y x))
  | OEq => Some (VBool (Z.eqb x y))
  | ONe => Some (VBool (negb (Z.eqb x y)))
  | OAnd | OOr => None
  end.

Definition bool_binop (op : binop) (x y : bool) : option value :=
  match op with
  | OEq => Some (VBool (Bool.eqb x y))
  | ONe => Some (VBool (negb (Bool.eqb x y)))
  | OAnd => Some (VBool (andb x y))
  | OOr => Some (VBool (orb x y))
  | _ => None
  end.

Definition eval_binop (op : binop) (a b : value) : option value :=
  match a with
  | VInt x => match b with VInt y => int_binop op x y | _ => None end
  | VBool x => match b with VBool y => bool_binop op x y | _ => None end
  | _ => None
  end.

(* ------------------------------------------------------------------------------------------------------------ *)
(* Big-step reference semantics. Fuel bounds the nesting depth of the evaluation (OutOfFuel is a distinguished
   outcome, never confused with a result). *)

Section Semantics.
  Variable funs : list fundef.

  Fixpoint eval_expr (fuel : nat) (r : env) (e : expr) {struct fuel} : outcome value :=
    match fuel with
    | O => OutOfFuel
    | S f =>
        match e with
        | EInt z => Done [] r (VInt z)
        | EBool b => Done [] r (VBool b)
        | EVar _ x =>
            match lookup r x with
            | Some v => Done [] r v
            | None => match find_fun funs x with
                      | Some _ => Done [] r (VFun x)
                      | None => Fail [] ErrUnbound
                      end
            end
        | EBin op l rr =>
            bind (eval_expr f r l) (fun r1 a =>
            bind (eval_expr f r1 rr) (fun r2 b =>
            match eval_binop op a b with
            | Some v => Done [] r2 v
            | None => Fail [] ErrType
            end))
        | ECall fe args =>
            bind (eval_expr f r fe) (fun r1 vf =>
            bind (eval_args f r1 args) (fun r2 vs =>
            match vf with
            | VClo cenv ps body =>
                if Nat.eqb (length ps) (length vs)
                then bind (eval_block f (bind_params ps vs [] :: cenv) body) (fun _ v => Done [] r2 v)
                else Fail [] ErrArity
            | VFun g =>
                match find_fun funs g with
                | Some fd =>
                    if Nat.eqb (length (fd_params fd)) (length vs)
                    then bind (eval_block f [bind_params (fd_params fd) vs []] (fd_body fd)) (fun _ v => Done [] r2 v)
                    else Fail [] ErrArity
                | None => Fail [] ErrUnbound
                end
            | _ => Fail [] ErrNotFun
            end))
        | EFun ps body => Done [] r (VClo r ps body)
        | EIf c t e =>
            bind (eval_expr f r c) (fun r1 vc =>
            match vc with
            | VBool true => bind (eval_block f ([] :: r1) t) (fun r2 v => Done [] (tl r2) v)
            | VBool false => bind (eval_block f ([] :: r1) e) (fun r2 v => Done [] (tl r2) v)
            | _ => Fail [] ErrType
            end)
        | EDbg e1 => bind (eval_expr f r e1) (fun r1 v => Done [EvDbg (show v)] r1 v)
        | EPrint e1 => bind (eval_expr f r e1) (fun r1 v => Done [EvOut (show v)] r1 VUnit)
        end
    end
  (* arguments are evaluated right to left; the list of values is in source order *)
  with eval_args (fuel : nat) (r : env) (es : exprs) {struct fuel} : outcome (list value) :=
    match fuel with
    | O => OutOfFuel
    | S f =>
        match es with
        | ENil => Done [] r []
        | ECons e rest =>
            bind (eval_args f r rest) (fun r1 vs =>
            bind (eval_expr f r1 e) (fun r2 v => Done [] r2 (v :: vs)))
        end
    end
  (* a block's value is the value of its last statement *)
  with eval_block (fuel : nat) (r : env) (b : block) {struct fuel} : outcome value :=
    match fuel with
    | O => OutOfFuel
    | S f =>
        match b with
        | BNil => Done [] r VUnit
        | BCons s BNil => exec_stmt f r s
        | BCons s rest => bind (exec_stmt f r s) (fun r1 _ => eval_block f r1 rest)
        end
    end
  with exec_stmt (fuel : nat) (r : env) (s : stmt) {struct fuel} : outcome value :=
    match fuel with
    | O => OutOfFuel
    | S f =>
        match s with
        | SLet d x e => bind (eval_expr f r e) (fun r1 v => Done [] (push_binding x d v r1) VUnit)
        | SAssign _ x e =>
            bind (eval_expr f r e) (fun r1 v =>
            match assign r1 x v with
            | Some r2 => Done [] r2 VUnit
            | None => Fail [] ErrUnbound
            end)
        | SExpr e => eval_expr f r e
        | SWhile c body =>
            bind (eval_expr f r c) (fun r1 vc =>
            match vc with
            | VBool true =>
                bind (eval_block f ([] :: r1) body) (fun r2 _ => exec_stmt f (tl r2) (SWhile c body))
            | VBool false => Done [] r1 VUnit
            | _ => Fail [] ErrType
            end)
        end
    end.
End Semantics.

Inductive result := ROk (v : pval) | RErr (k : err).

(* run: None = out of fuel; otherwise everything printed (stdout and stderr events, in order) and how it ended *)
Definition run (fuel : nat) (p : program) : option (list event * result) :=
  match eval_block (fst p) fuel [[]] (snd p) with
  | Done o _ v => Some (o, ROk (show v))
  | Fail o k => Some (o, RErr k)
  | OutOfFuel => None
  end.

Definition stdout_of (o : list event) : list pval :=
  flat_map (fun ev => match ev with EvOut s => [s] | EvDbg _ => [] end) o.
Definition stderr_of (o : list event) : list pval :=
  flat_map (fun ev => match ev with EvDbg s => [s] | EvOut _ => [] end) o.
