(* PROOFS: basic facts about scopes, environments and the reference semantics of Scope.v. *)
From Coq Require Import List ZArith Bool Arith Lia.
Import ListNotations.
Require Import Garden.Scope.

Definition scope_of_frame (fr : frame) : sframe := map (fun e => (fst (fst e), snd (fst e))) fr.
Definition scope_of (r : env) : scope := map scope_of_frame r.

Fixpoint block_scope (bl : block) (sc : scope) : scope :=
  match bl with
  | BNil => sc
  | BCons s r => block_scope r (stmt_scope s sc)
  end.

Lemma tl_push_s x d sc fr : tl (push_s x d (fr :: sc)) = sc.
Proof. reflexivity. Qed.

Lemma stmt_scope_cons s fr sc : exists fr', stmt_scope s (fr :: sc) = fr' :: sc.
Proof. destruct s; simpl; eauto. Qed.

Lemma block_scope_cons bl : forall fr sc, exists fr', block_scope bl (fr :: sc) = fr' :: sc.
Proof.
  induction bl as [|s r IH]; intros fr sc; simpl; eauto.
  destruct (stmt_scope_cons s fr sc) as [fr' ->]. apply IH.
Qed.

Lemma tl_block_scope bl fr sc : tl (block_scope bl (fr :: sc)) = sc.
Proof. destruct (block_scope_cons bl fr sc) as [fr' ->]. reflexivity. Qed.

Lemma scope_of_tl r : scope_of (tl r) = tl (scope_of r).
Proof. destruct r; reflexivity. Qed.

Lemma scope_of_push x d v r : scope_of (push_binding x d v r) = push_s x d (scope_of r).
Proof. destruct r; reflexivity. Qed.


(* ---------------------------------------------------------------------------------------------------------- *)
(* More fuel never changes an outcome that was not OutOfFuel *)

Lemma bind_cong {A B} (m m2 : outcome A) (k k2 : env -> A -> outcome B) :
  (m <> OutOfFuel -> m2 = m) ->
  (forall r a, k r a <> OutOfFuel -> k2 r a = k r a) ->
  bind m k <> OutOfFuel -> bind m2 k2 = bind m k.
Proof.
  intros Hm Hk H. destruct m as [o r a|o e|]; simpl in *.
  - rewrite Hm by discriminate. simpl. rewrite Hk; auto.
    intros E. rewrite E in H. congruence.
  - rewrite Hm by discriminate. reflexivity.
  - congruence.
Qed.

Ltac mono_step :=
  match goal with
  | H : bind ?m ?k <> OutOfFuel |- bind ?m2 ?k2 = bind ?m ?k =>
      apply (bind_cong m m2 k k2);
      [ solve [auto] | let r := fresh "r" in let a := fresh "a" in let Hk := fresh "Hk" in
                       intros r a Hk; cbv beta in Hk |- * | exact H ]
  | |- ?x = ?x => reflexivity
  | H : match ?v with _ => _ end <> OutOfFuel |- _ => destruct v; try reflexivity; try (exfalso; apply H; reflexivity)
  | H : (if ?c then _ else _) <> OutOfFuel |- _ => destruct c; try reflexivity
  end.

Section Mono.
  Variable funs : list fundef.

  Definition mono_at f :=
    (forall r e, eval_expr funs f r e <> OutOfFuel -> eval_expr funs (S f) r e = eval_expr funs f r e) /\
    (forall r es, eval_args funs f r es <> OutOfFuel -> eval_args funs (S f) r es = eval_args funs f r es) /\
    (forall r bl, eval_block funs f r bl <> OutOfFuel -> eval_block funs (S f) r bl = eval_block funs f r bl) /\
    (forall r s, exec_stmt funs f r s <> OutOfFuel -> exec_stmt funs (S f) r s = exec_stmt funs f r s).

  Lemma eval_mono_step : forall f, mono_at f.
  Proof.
    induction f as [|f [IHe [IHa [IHb IHs]]]].
    { repeat split; intros r x H; simpl in H; congruence. }
    assert (G : forall f1, f1 = S f -> 
      (forall r e, eval_expr funs (S f) r e <> OutOfFuel -> eval_expr funs (S f1) r e = eval_expr funs (S f) r e) /\
      (forall r es, eval_args funs (S f) r es <> OutOfFuel -> eval_args funs (S f1) r es = eval_args funs (S f) r es) /\
      (forall r bl, eval_block funs (S f) r bl <> OutOfFuel -> eval_block funs (S f1) r bl = eval_block funs (S f) r bl) /\
      (forall r s, exec_stmt funs (S f) r s <> OutOfFuel -> exec_stmt funs (S f1) r s = exec_stmt funs (S f) r s)).
    { intros f1 Ef1. rewrite <- Ef1 in IHe, IHa, IHb, IHs.
      repeat split.
      - intros r e H. destruct e; simpl in H |- *; repeat mono_step.
      - intros r es H. destruct es; simpl in H |- *; repeat mono_step.
      - intros r bl H. destruct bl as [|s [|s2 rest]]; simpl in H |- *; repeat mono_step; auto.
      - intros r s H. destruct s; simpl in H |- *; repeat mono_step; auto. }
    exact (G (S f) eq_refl).
  Qed.

  Lemma eval_block_mono f f' r bl :
    f <= f' -> eval_block funs f r bl <> OutOfFuel -> eval_block funs f' r bl = eval_block funs f r bl.
  Proof.
    induction 1 as [|f' Hle IH]; auto. intros H.
    destruct (eval_mono_step f') as [_ [_ [Hb _]]]. rewrite Hb; rewrite IH; auto.
  Qed.
End Mono.
