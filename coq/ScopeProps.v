(* PROOFS: basic facts about scopes, environments and the reference semantics of Scope.v. *)
From Coq Require Import List ZArith Bool Arith Lia.
Import ListNotations.
Require Import Garden.Scope.

Definition scope_of_frame (fr : frame) : sframe := map (fun e => (fst (fst e), snd (fst e))) fr.
Definition scope_of (r : env) : scope := map scope_of_frame r.

Fixpoint block_scope (bl : block) (sc : scope) : scope :=
  match bl with
  | BNil => sc
  | BCons s r => block_scope r (stmt_scope s sc)
  end.

Lemma tl_push_s x d sc fr : tl (push_s x d (fr :: sc)) = sc.
Proof. reflexivity. Qed.

Lemma stmt_scope_cons s fr sc : exists fr', stmt_scope s (fr :: sc) = fr' :: sc.
Proof. destruct s; simpl; eauto. Qed.

Lemma block_scope_cons bl : forall fr sc, exists fr', block_scope bl (fr :: sc) = fr' :: sc.
Proof.
  induction bl as [|s r IH]; intros fr sc; simpl; eauto.
  destruct (stmt_scope_cons s fr sc) as [fr' ->]. apply IH.
Qed.

Lemma tl_block_scope bl fr sc : tl (block_scope bl (fr :: sc)) = sc.
Proof. destruct (block_scope_cons bl fr sc) as [fr' ->]. reflexivity. Qed.

Lemma scope_of_tl r : scope_of (tl r) = tl (scope_of r).
Proof. destruct r; reflexivity. Qed.

Lemma scope_of_push x d v r : scope_of (push_binding x d v r) = push_s x d (scope_of r).
Proof. destruct r; reflexivity. Qed.

