(* Model of garden's JSON session over the evaluator model (src/json_session.rs:
   `handle_run_request`, `handle_run_eval_request`, `eval_to_response`;
   src/commands.rs: `run_command` for :resume :abort :skip :replace
   :forget_local and the inspection commands; src/eval.rs: `eval` with
   `stop_at_expr_id`, `eval_toplevel_exprs`, `eval_toplevel_exprs_then_stop`,
   `skip_current_expr`).

   MODEL FILE: definitions only.

   The session state is the evaluator state (Machine.state: the stack of frames
   with pending expressions, value stacks and binding blocks).  The program
   (`prog`: functions, enum constructors, prelude values) is STATIC in this
   model: definitions are loaded before the history starts and never change
   (`:forget`, redefinition, tests, namespaces, eval_up_to and load requests are
   outside the model).  "An evaluation is pending" is not a stored flag in
   garden either: it is `negb (idle s)` below.

   One request = one call of `handle` = exactly one response.  Where the Rust
   code would panic (an `expect`/`unwrap`/`unreachable!` reached on the eval
   thread, after which the session is dead) the model answers `SessionPanic`. *)
From Coq Require Import ZArith NArith Bool List.
From Garden Require Import Base.Int64 Arith gen.Tables Machine MachineSession.
Import ListNotations.
Open Scope nat_scope.

Inductive request :=
| RRun (exprs : list expr)          (* {"method":"run","input":"e1 e2 ..."} : toplevel expressions *)
| RResume                           (* :resume *)
| RAbort                            (* :abort *)
| RSkip                             (* :skip *)
| RReplace (e : expr)               (* :replace e *)
| RForgetLocal (x : ident)          (* :forget_local x *)
| RInspect.                         (* :fvalues :fstmts :locals :stack :doc :help ... : no state change *)

Inductive response :=
| RespValue (v : value)             (* evaluate / Ok *)
| RespNoValue                       (* evaluate / Ok(None): a run request without expressions *)
| RespError (e : err)               (* evaluate / Err *)
| RespCommand                       (* run_command with a message *)
| RespUnsupported                   (* outside the modelled fragment *)
| RespOutOfFuel                     (* the model's fuel ran out (a long or endless evaluation) *)
| SessionPanic.                     (* the eval thread panics: the session is dead *)

(* `eval` returns Unit at once in this situation *)
Definition idle (s : state) : bool :=
  match stack s with
  | [f] => match todo f with [] => true | _ => false end
  | _ => false
  end.
Definition pending (s : state) : bool := negb (idle s).

(* Syntax ids are modelled by (value_is_used, start offset, end offset) of the
   expression: two different expressions of one request never share them. *)
Definition meta_eqb (a b : meta) : bool :=
  Bool.eqb (used a) (used b) && N.eqb (pstart a) (pstart b) && N.eqb (pend a) (pend b).

(* after this step on this entry, is `expr_state.done_subexpressions()` true? *)
Definition finishes (es : estate) (e : expr) : bool :=
  match e with
  | EInt _ _ | EStr _ _ | EVar _ _ | EFun _ _ _ | EBreak _ | EContinue _ => true
  | EParen _ _ => false
  | _ => match es with SDone => true | _ => false end
  end.

(* "__ERROR: no expressions evaluated. This is a bug." *)
Definition no_value_text : text :=
  [95; 95; 69; 82; 82; 79; 82]%N.

Definition set_stack (s : state) (st : list frame) : state :=
  mkState st (ticks s) (out s) (interrupted s) (tick_limit s) (stack_limit s).

(* The loop of `eval` with `env.stop_at_expr_id = stop`.
   `fixed_call_stop`: stopping at a call leaves the value on the caller's
   value stack (fix 7); before that fix the value was only returned.
   `calld`: depth of the frame called by the stop expression, once it has
   been called. *)
Fixpoint eval_loop (fcs : bool) (p : prog) (fuel : nat) (stop : option meta) (calld : option nat) (s : state)
  : run_result :=
  match fuel with
  | O => ROutOfFuel s
  | S n =>
      match stack s with
      | [] => RCrashed
      | f :: rest =>
          match todo f with
          | [] =>
              match rest, calld with
              | caller :: rest', Some d =>
                  if Nat.eqb d (length (stack s)) then
                    (* caller_expr_id == stop_at_expr_id: pop the frame and return its value *)
                    match vals f with
                    | v :: _ =>
                        let caller' := if fcs then push_val_if (uses f) caller v else caller in
                        RDone v (set_stack s (caller' :: rest'))
                    | [] => RCrashed
                    end
                  else
                    match step p s with
                    | Next s' => eval_loop fcs p n stop calld s'
                    | Done v s' => RDone v s'
                    | Failed e s' => RFailed e s'
                    | Crashed => RCrashed
                    | Unsupported => RUnsupported
                    end
              | _, _ =>
                  match step p s with
                  | Next s' => eval_loop fcs p n stop calld s'
                  | Done v s' => RDone v s'
                  | Failed e s' => RFailed e s'
                  | Crashed => RCrashed
                  | Unsupported => RUnsupported
                  end
              end
          | (es, e) :: _ =>
              match step p s with
              | Next s' =>
                  let is_stop := match stop with Some m => meta_eqb (emeta e) m | None => false end in
                  if is_stop && Nat.eqb (length (stack s')) (length (stack s)) && finishes es e then
                    match stack s' with
                    | f' :: _ =>
                        match vals f' with
                        | v :: _ => RDone v s'
                        | [] => RDone (VStr no_value_text) s'
                        end
                    | [] => RCrashed
                    end
                  else if is_stop && Nat.ltb (length (stack s)) (length (stack s')) then
                    eval_loop fcs p n stop (Some (length (stack s'))) s'
                  else eval_loop fcs p n stop calld s'
              | Done v s' => RDone v s'
              | Failed e s' => RFailed e s'
              | Crashed => RCrashed
              | Unsupported => RUnsupported
              end
          end
      end
  end.

(* `eval` *)
Definition eval (fcs : bool) (p : prog) (fuel : nat) (stop : option meta) (s : state) : run_result :=
  if idle s then RDone vunit s else eval_loop fcs p fuel stop None s.

(* eval_toplevel_exprs: the expressions REPLACE the pending expressions of the
   CURRENT stack frame (the innermost one when an evaluation is stopped inside
   a call). *)
Definition install (s : state) (exprs : list expr) : option state :=
  match stack s with
  | [] => None
  | f :: rest => Some (set_stack s (set_todo f (map (fun e => (SNot, e)) exprs) :: rest))
  end.

Definition respond (s0 : state) (r : run_result) : state * response :=
  match r with
  | RDone v s => (s, RespValue v)
  | RFailed e s => (s, RespError e)
  | RCrashed => (s0, SessionPanic)
  | RUnsupported => (s0, RespUnsupported)
  | ROutOfFuel s => (s, RespOutOfFuel)
  end.

Fixpoint remove_var (x : ident) (b : block) : block :=
  match b with
  | [] => []
  | (y, v) :: b' => if N.eqb x y then remove_var x b' else (y, v) :: remove_var x b'
  end.

(* The two repairs made to the code are switches of the model, so that the
   behaviour before them can be stated too:
     fx_skip : `:skip` with nothing pending answers with a message (fix 1) and a
               skipped expression whose value is used leaves Unit (fix 2);
     fx_call : stopping at a call leaves its value on the value stack (fix 7). *)
Record fixes := { fx_skip : bool; fx_call : bool }.
Definition all_fixes : fixes := {| fx_skip := true; fx_call := true |}.
Definition no_fixes : fixes := {| fx_skip := false; fx_call := false |}.

Definition handle (fx : fixes) (fuel : nat) (p : prog) (s : state) (r : request) : state * response :=
  match r with
  | RRun exprs =>
      match exprs with
      | [] => (s, RespNoValue)
      | _ =>
          match install s exprs with
          | None => (s, SessionPanic)          (* "Stack should always be non-empty." *)
          | Some s1 => respond s (eval (fx_call fx) p fuel (Some (emeta (last exprs (EUnsupported {| used := true; pstart := 0; pend := 0 |})))) s1)
          end
      end
  | RResume => respond s (eval (fx_call fx) p fuel None s)
  | RAbort => (abort s, RespCommand)
  | RSkip =>
      match stack s with
      | [] => (s, SessionPanic)
      | f :: rest =>
          match todo f with
          | [] => if fx_skip fx then (s, RespCommand)
                  else (s, SessionPanic)       (* "Tried to skip an expression, but none in this frame." *)
          | (_, e) :: t =>
              let f1 := set_todo f t in
              let f2 := if fx_skip fx && eused e then push_val f1 vunit else f1 in
              respond s (eval (fx_call fx) p fuel None (set_stack s (f2 :: rest)))
          end
      end
  | RReplace e =>
      match stack s with
      | [] => (s, SessionPanic)
      | f :: rest =>
          let f1 := push_todo (set_vals f (tl (vals f))) SNot e in
          respond s (eval (fx_call fx) p fuel None (set_stack s (f1 :: rest)))
      end
  | RForgetLocal x =>
      match stack s with
      | [] => (s, SessionPanic)                (* "Should always have at least one frame" *)
      | f :: rest => (set_stack s (set_blocks f (map (remove_var x) (blocks f)) :: rest), RespCommand)
      end
  | RInspect => (s, RespCommand)
  end.

(* a history *)
Fixpoint run_history (fx : fixes) (fuel : nat) (p : prog) (s : state) (rs : list request) : state * list response :=
  match rs with
  | [] => (s, [])
  | r :: rs' =>
      let '(s1, a) := handle fx fuel p s r in
      match a with
      | SessionPanic => (s1, [SessionPanic])   (* nothing answers the later requests *)
      | _ => let '(s2, l) := run_history fx fuel p s1 rs' in (s2, a :: l)
      end
  end.

(* the state of a fresh session *)
Definition fresh : state := init_state [] None None.

(* ------------------------------------------------------------------------ *)
(* Static well-formedness of syntax trees in the structured fragment: the
   value_is_used flags are as the parser sets them (parser.rs
   `set_is_used_expr` / `set_is_used_block`), and the expression uses no
   for/break/continue/closure literal (return and match are in). *)
Definition is_some {A} (o : option A) : bool := match o with Some _ => true | None => false end.

Fixpoint wf (e : expr) : bool :=
  let fix all_used (l : list expr) : bool :=
    match l with
    | [] => true
    | x :: l' => eused x && wf x && all_used l'
    end in
  let fix stmts (u : bool) (l : list expr) : bool :=
    match l with
    | [] => true
    | x :: l' =>
        match l' with
        | [] => Bool.eqb (eused x) u && wf x
        | _ :: _ => negb (eused x) && wf x && stmts u l'
        end
    end in
  match e with
  | EInt _ _ | EStr _ _ | EVar _ _ => true
  | EBin _ _ l r => eused l && wf l && eused r && wf r
  | ELet _ _ r | EAssign _ _ _ r | EUpd _ _ _ _ r => eused r && wf r
  | EIf m c t el =>
      eused c && wf c && stmts (used m && is_some el) t &&
      match el with Some b => stmts (used m) b | None => true end
  | EWhile _ c b => eused c && wf c && stmts false b
  | EList _ l | ETuple _ l => all_used l
  | ECall _ f args => eused f && wf f && all_used args
  | EParen m inner => Bool.eqb (eused inner) (used m) && wf inner
  | EReturn _ None => true
  | EReturn _ (Some x) => eused x && wf x
  | EMatch m sc cases =>
      eused sc && wf sc &&
      (fix all_cases (l : list (ident * (N * N) * option ident * list expr)) : bool :=
         match l with
         | [] => true
         | c :: l' => stmts (used m) (snd c) && all_cases l'
         end) cases
  | _ => false
  end.

Fixpoint wf_all_used (l : list expr) : bool :=
  match l with
  | [] => true
  | x :: l' => eused x && wf x && wf_all_used l'
  end.

Fixpoint wf_stmts (u : bool) (l : list expr) : bool :=
  match l with
  | [] => true
  | x :: l' =>
      match l' with
      | [] => Bool.eqb (eused x) u && wf x
      | _ :: _ => negb (eused x) && wf x && wf_stmts u l'
      end
  end.

Definition wf_prog (p : prog) : bool :=
  forallb (fun nf => wf_stmts true (fbody (snd nf))) (funs p).

Definition wf_request (r : request) : bool :=
  match r with
  | RRun exprs => wf_all_used exprs
  | RReplace e => eused e && wf e
  | _ => true
  end.

(* values without closures (the fragment has no closure literals) *)
Fixpoint closure_free (v : value) : bool :=
  let fix all (l : list value) : bool :=
    match l with
    | [] => true
    | x :: l' => closure_free x && all l'
    end in
  match v with
  | VInt _ | VStr _ | VFun _ _ | VCtor _ _ _ | VBuiltin _ => true
  | VEnum _ _ _ None => true
  | VEnum _ _ _ (Some pl) => closure_free pl
  | VList l | VTuple l => all l
  | VClosure _ _ _ => false
  end.

Definition globals_ok (p : prog) : bool := forallb (fun xv => closure_free (snd xv)) (globals p).

(* No namespace value is an Int (they are functions, constructors, enum values
   and built-ins): `x += 1` on a name that is not a local variable fails with a
   type error before it reaches Bindings::set_existing. *)
Definition globals_noint (p : prog) : bool :=
  forallb (fun xv => match snd xv with VInt _ => false | _ => true end) (globals p).
