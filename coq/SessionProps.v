(* Proofs about the session model: one response per request, in order (C09);
   the session layer never panics by itself; the value-stack / binding-block
   discipline survives every session command (C09); toplevel lets persist and
   incremental input equals batch input (C11). *)
From Coq Require Import ZArith NArith Bool List Lia.
From Garden Require Import Base.Int64 Arith gen.Tables Machine MachineInv MachineSession MachineSessionProps Session.
Import ListNotations.
Open Scope nat_scope.

(* ------------------------------------------------------------------------ *)
(* One response per request, in order *)
Lemma handle_total fx fuel p s r : exists s' a, handle fx fuel p s r = (s', a).
Proof. destruct (handle fx fuel p s r) as [s' a]. eauto. Qed.

Lemma run_history_cons fx fuel p s r rs :
  run_history fx fuel p s (r :: rs) =
  let '(s1, a) := handle fx fuel p s r in
  match a with
  | SessionPanic => (s1, [SessionPanic])
  | _ => let '(s2, l) := run_history fx fuel p s1 rs in (s2, a :: l)
  end.
Proof. reflexivity. Qed.

Lemma run_history_length fx fuel p : forall rs s, length (snd (run_history fx fuel p s rs)) <= length rs.
Proof.
  induction rs as [|r rs IH]; intros s; cbn [run_history]; [cbn; lia|].
  destruct (handle fx fuel p s r) as [s1 a].
  specialize (IH s1). destruct (run_history fx fuel p s1 rs) as [s2 l].
  destruct a; cbn in *; lia.
Qed.

(* while nothing panicked, the i-th response is the answer to the i-th request
   in the state left by the requests before it *)
Lemma responses_in_order_lemma fx fuel p : forall rs1 s r rs2 s1 l1,
  run_history fx fuel p s rs1 = (s1, l1) -> ~ In SessionPanic l1 ->
  length l1 = length rs1 /\
  exists s2 l2, run_history fx fuel p s (rs1 ++ r :: rs2) = (s2, l1 ++ snd (handle fx fuel p s1 r) :: l2).
Proof.
  induction rs1 as [|r1 rs1 IH]; intros s r rs2 s1 l1 H NP.
  - cbn in H. inversion H; subst. split; [reflexivity|]. cbn [app run_history].
    destruct (handle fx fuel p s1 r) as [sa a]. cbn [snd].
    destruct a; try (destruct (run_history fx fuel p sa rs2) as [s2 l]; eauto); eauto.
  - cbn [run_history] in H. cbn [app run_history].
    destruct (handle fx fuel p s r1) as [sa a].
    destruct (run_history fx fuel p sa rs1) as [sb lb] eqn:E.
    assert (A : a <> SessionPanic -> l1 = a :: lb /\ s1 = sb).
    { intros NA. destruct a; try contradiction; inversion H; auto. }
    destruct a; try (destruct (A ltac:(discriminate)) as [-> ->];
      destruct (IH sa r rs2 sb lb E ltac:(intros I; apply NP; right; exact I)) as (L & s2 & l2 & R);
      rewrite R; split; [cbn; lia|]; eexists; eexists; reflexivity).
    inversion H; subst. exfalso. apply NP. left. reflexivity.
Qed.

(* ------------------------------------------------------------------------ *)
(* The session layer by itself never panics (with the repaired :skip): the
   only way to a SessionPanic is an evaluator crash inside `eval`. *)
Lemma respond_panic s0 r s' : respond s0 r = (s', SessionPanic) -> r = RCrashed.
Proof. destruct r; cbn; intros H; inversion H; reflexivity. Qed.

Lemma handle_session_layer_no_panic_lemma fuel p s r s' :
  stack s <> [] -> handle all_fixes fuel p s r = (s', SessionPanic) ->
  exists stop s1, stack s1 <> [] /\ eval true p fuel stop s1 = RCrashed.
Proof.
  intros NE H. destruct r; cbn [handle all_fixes fx_skip fx_call] in H.
  - destruct exprs as [|e0 exprs]; [discriminate|].
    unfold install in H. destruct (stack s) as [|f rest] eqn:ES; [contradiction|].
    apply respond_panic in H. eexists; eexists; split; [|exact H]. cbn. discriminate.
  - apply respond_panic in H. eauto.
  - discriminate.
  - destruct (stack s) as [|f rest] eqn:ES; [contradiction|].
    destruct (todo f) as [|[es e] t]; [discriminate|].
    apply respond_panic in H. eexists; eexists; split; [|exact H]. cbn. discriminate.
  - destruct (stack s) as [|f rest] eqn:ES; [contradiction|].
    apply respond_panic in H. eexists; eexists; split; [|exact H]. cbn. discriminate.
  - destruct (stack s) as [|f rest]; [contradiction|discriminate].
  - discriminate.
Qed.

(* ------------------------------------------------------------------------ *)
(* Value-stack discipline.  Every pending entry (state, expression) consumes a
   number of values from the value stack and produces 0 or 1. *)
Definition uu (e : expr) : nat := if eused e then 1 else 0.

Definition eff (s : estate) (e : expr) : option (nat * nat) :=
  match e with
  | EInt _ _ | EStr _ _ | EVar _ _ | EParen _ _ => Some (0, uu e)
  | EBin _ _ _ _ => match s with SDone => Some (2, uu e) | _ => Some (0, uu e) end
  | ELet _ _ _ | EAssign _ _ _ _ | EUpd _ _ _ _ _ => match s with SDone => Some (1, uu e) | _ => Some (0, uu e) end
  | EIf m _ _ el =>
      match s with
      | SNot => Some (0, uu e)
      | SPart _ => Some (1, uu e)
      | SDone => Some (0, if used m && negb (is_some el) then 1 else 0)
      end
  | EWhile _ _ _ =>
      match s with
      | SNot => Some (0, uu e)
      | SPart BWill => Some (1, uu e)
      | SPart BDoneRun => Some (0, uu e)
      | SPart BNot => None
      | SDone => Some (0, 0)
      end
  | EList _ l | ETuple _ l => match s with SDone => Some (length l, uu e) | _ => Some (0, uu e) end
  | ECall _ _ args =>
      match s with
      | SNot => Some (0, uu e)
      | SPart _ => Some (1, uu e)
      | SDone => Some (S (length args), uu e)
      end
  | EReturn _ _ => match s with SDone => Some (1, uu e) | _ => Some (0, uu e) end
  | EMatch _ _ _ =>
      match s with
      | SNot => Some (0, uu e)
      | SPart _ => Some (1, uu e)
      | SDone => Some (0, 0)
      end
  | _ => None
  end.

Fixpoint sim (t : list (estate * expr)) (n : nat) : option nat :=
  match t with
  | [] => Some n
  | (s, e) :: t' =>
      match eff s e with
      | None => None
      | Some (c, pr) => if Nat.leb c n then sim t' (n - c + pr) else None
      end
  end.

Lemma sim_mono t : forall n n' k, n <= n' -> sim t n = Some k -> exists k', sim t n' = Some k' /\ k <= k'.
Proof.
  induction t as [|[s e] t IH]; intros n n' k L H; cbn [sim] in *.
  - inversion H; subst. eauto.
  - destruct (eff s e) as [[c pr]|]; [|discriminate].
    destruct (Nat.leb c n) eqn:C; [|discriminate]. apply Nat.leb_le in C.
    assert (C' : Nat.leb c n' = true) by (apply Nat.leb_le; lia). rewrite C'.
    eapply IH; [|exact H]. lia.
Qed.

Lemma eff_prod_le s e c pr : eff s e = Some (c, pr) -> pr <= uu e.
Proof.
  unfold eff, uu, eused. destruct e; destruct s as [|[]|]; intros H; inversion H; subst; try lia;
    cbn [emeta]; destruct (used m); cbn; try lia; destruct (negb _); lia.
Qed.

Lemma eff_fresh e : wf e = true -> eff SNot e = Some (0, uu e).
Proof. destruct e; cbn; intros H; try discriminate; reflexivity. Qed.

Lemma sim_fresh exprs : forall n, wf_all_used exprs = true ->
  sim (map (fun e => (SNot, e)) exprs) n = Some (n + length exprs).
Proof.
  induction exprs as [|e exprs IH]; intros n H; cbn [map sim length].
  - f_equal. lia.
  - cbn [wf_all_used] in H. apply andb_prop in H. destruct H as [H H2]. apply andb_prop in H. destruct H as [U W].
    rewrite (eff_fresh _ W). cbn [Nat.leb]. rewrite IH by assumption. f_equal. unfold uu. rewrite U. lia.
Qed.

Definition cfv (v : value) : Prop := closure_free v = true.
Definition cfb (b : block) : Prop := Forall (fun xv => cfv (snd xv)) b.

(* the invariant of one frame; `exempt`: an idle toplevel frame may have an
   empty value stack; `inc`: 1 when the frame above will push its result here *)
Definition frame_ok (exempt : bool) (inc : nat) (f : frame) : Prop :=
  Forall (fun x => wf (snd x) = true) (todo f) /\
  (exists n, sim (todo f) (length (vals f) + inc) = Some n /\ ((exempt = true /\ todo f = []) \/ 1 <= n)) /\
  1 + MachineInv.pending (todo f) <= length (blocks f) /\
  Forall cfv (vals f) /\ Forall cfb (blocks f) /\ cfb (nextb f).

Definition binc (b : bool) : nat := if b then 1 else 0.

Fixpoint callers_ok (u : bool) (rest : list frame) : Prop :=
  match rest with
  | [] => True
  | g :: rest' => frame_ok false (binc u) g /\ callers_ok (uses g) rest'
  end.

(* between requests *)
Definition stack_ok (st : list frame) : Prop :=
  match st with
  | [] => False
  | [f] => frame_ok true 0 f
  | f :: rest => frame_ok false 0 f /\ callers_ok (uses f) rest
  end.

(* inside the loop of `eval` *)
Definition stack_run (st : list frame) : Prop :=
  match st with
  | [] => False
  | f :: rest => frame_ok false 0 f /\ callers_ok (uses f) rest
  end.

Lemma frame_ok_weaken inc f : frame_ok false inc f -> frame_ok true inc f.
Proof.
  intros (W & (n & S & C) & R). split; [assumption|]. split; [|assumption].
  exists n. split; [assumption|]. destruct C as [[? _]|C]; [discriminate|right; assumption].
Qed.

Lemma stack_run_ok st : stack_run st -> stack_ok st.
Proof.
  destruct st as [|f [|g rest]]; cbn; auto. intros [H _]. now apply frame_ok_weaken.
Qed.

Lemma stack_ok_run s : stack_ok (stack s) -> idle s = false -> stack_run (stack s).
Proof.
  unfold idle. destruct (stack s) as [|f [|g rest]]; cbn; auto.
  intros (W & (n & S & C) & R) I. split; [|exact Logic.I].
  split; [assumption|]. split; [|assumption]. exists n. split; [assumption|].
  destruct C as [[_ E]|C]; [rewrite E in I; discriminate|right; assumption].
Qed.

(* What the evaluator has to guarantee (the machine-level part of "evaluation
   never crashes", property C02): from a state that satisfies the discipline, one
   iteration of the eval loop does not crash and keeps the discipline. *)
Definition evaluator_keeps_discipline (p : prog) : Prop :=
  forall s, stack_run (stack s) ->
    match step p s with
    | Next s' => stack_run (stack s')
    | Done v s' => stack_ok (stack s')
    | Failed _ _ => True
    | Crashed => False
    | Unsupported => True
    end.

Definition result_ok (r : run_result) : Prop :=
  match r with
  | RDone _ s' | RFailed _ s' | ROutOfFuel s' => stack_ok (stack s')
  | RCrashed => False
  | RUnsupported => True
  end.

Lemma callers_push u caller rest v :
  cfv v -> callers_ok u (caller :: rest) -> frame_ok false 0 (push_val_if u caller v) /\ callers_ok (uses caller) rest.
Proof.
  intros CV [F C]. split; [|destruct u; exact C].
  destruct F as (W & (n & S & Cn) & B & V & R).
  destruct u; cbn [push_val_if binc] in *.
  - split; [exact W|]. split; [|split; [exact B|split; [constructor; assumption|exact R]]].
    exists n. cbn [push_val vals todo length]. split; [|exact Cn].
    rewrite <- S. f_equal. lia.
  - split; [exact W|]. split; [|split; [exact B|split; [exact V|exact R]]].
    exists n. auto.
Qed.

Lemma push_val_if_uses b f v : uses (push_val_if b f v) = uses f.
Proof. destruct b; reflexivity. Qed.

Lemma eval_loop_ok p (EK : evaluator_keeps_discipline p) : forall fuel stop calld s,
  stack_run (stack s) -> result_ok (eval_loop true p fuel stop calld s).
Proof.
  induction fuel as [|fuel IH]; intros stop calld s R; cbn [eval_loop].
  - cbn. now apply stack_run_ok.
  - pose proof (EK s R) as ST.
    destruct (stack s) as [|f rest] eqn:ES; [exact R|].
    assert (GEN : result_ok match step p s with
                            | Next s' => eval_loop true p fuel stop calld s'
                            | Done v s' => RDone v s'
                            | Failed e s' => RFailed e s'
                            | Crashed => RCrashed
                            | Unsupported => RUnsupported
                            end).
    { destruct (step p s) as [s'|v s'|e s'| |] eqn:E; cbn; auto.
      - apply step_failed_restores in E. destruct E as (-> & _). rewrite ES. now apply stack_run_ok. }
    destruct (todo f) as [|[es e] t] eqn:ET.
    + destruct rest as [|caller rest']; [exact GEN|].
      destruct calld as [d|]; [|exact GEN].
      destruct (Nat.eqb d (length (f :: caller :: rest'))); [|exact GEN].
      destruct R as [F C].
      destruct F as (W & (n & S & Cn) & B & V & RR).
      rewrite ET in S. cbn [sim] in S. inversion S; subst n.
      destruct Cn as [[? _]|Cn]; [discriminate|].
      destruct (vals f) as [|v vs] eqn:EV; [cbn in Cn; lia|].
      cbn [result_ok set_stack stack]. apply stack_run_ok. cbn [stack_run].
      destruct (callers_push (uses f) caller rest' v ltac:(now inversion V) C) as [F1 C1].
      split; [exact F1|]. rewrite push_val_if_uses. exact C1.
    + destruct (step p s) as [s'|v s'|e0 s'| |] eqn:E; try exact GEN.
      destruct (_ && _ && _).
      * destruct (stack s') as [|f' r'] eqn:ES'; [exact ST|].
        destruct (vals f'); cbn [result_ok]; rewrite ES'; now apply stack_run_ok.
      * destruct (_ && _); apply IH; exact ST.
Qed.

Lemma eval_ok p (EK : evaluator_keeps_discipline p) fuel stop s :
  stack_ok (stack s) -> result_ok (eval true p fuel stop s).
Proof.
  intros O. unfold eval. destruct (idle s) eqn:I; [exact O|].
  apply eval_loop_ok; [exact EK|]. now apply stack_ok_run.
Qed.

Lemma respond_ok s0 r : stack_ok (stack s0) -> result_ok r ->
  stack_ok (stack (fst (respond s0 r))) /\ snd (respond s0 r) <> SessionPanic.
Proof. destruct r; cbn; intros O R; try contradiction; split; auto; discriminate. Qed.

(* ---- the session commands keep the discipline --------------------------- *)
Lemma stack_ok_head f rest : stack_ok (f :: rest) ->
  frame_ok (match rest with [] => true | _ => false end) 0 f /\ callers_ok (uses f) rest.
Proof. destruct rest; cbn; [intros H; split; [exact H|exact Logic.I]|auto]. Qed.

Lemma stack_ok_build f f' rest :
  uses f' = uses f -> callers_ok (uses f) rest -> frame_ok false 0 f' -> stack_ok (f' :: rest).
Proof.
  intros U C F. destruct rest as [|g rest]; cbn.
  - now apply frame_ok_weaken.
  - split; [exact F|]. rewrite U. exact C.
Qed.

Lemma pending_fresh_map exprs : MachineInv.pending (map (fun e => (SNot, e)) exprs) = 0.
Proof. apply pending_fresh. Qed.

Lemma wf_all_used_forall exprs : wf_all_used exprs = true -> Forall (fun x : estate * expr => wf (snd x) = true) (map (fun e => (SNot, e)) exprs).
Proof.
  induction exprs as [|e exprs IH]; cbn [wf_all_used map]; intros H; [constructor|].
  apply andb_prop in H. destruct H as [H H2]. apply andb_prop in H. destruct H as [_ W].
  constructor; [exact W|now apply IH].
Qed.

Lemma install_ok f rest exprs ex :
  stack_ok (f :: rest) -> wf_all_used (ex :: exprs) = true ->
  stack_ok (set_todo f (map (fun e => (SNot, e)) (ex :: exprs)) :: rest).
Proof.
  intros O W. apply stack_ok_head in O. destruct O as [F C].
  apply (stack_ok_build f); [reflexivity|exact C|].
  destruct F as (_ & _ & B & V & R).
  split; [now apply wf_all_used_forall|]. split; [|split; [|split; [exact V|exact R]]].
  - exists (length (vals f) + 0 + length (ex :: exprs)). cbn [set_todo todo vals].
    split; [now apply sim_fresh|right; cbn; lia].
  - cbn [set_todo todo blocks]. rewrite pending_fresh_map. lia.
Qed.

Lemma skip_ok f rest es e t :
  stack_ok (f :: rest) -> todo f = (es, e) :: t ->
  stack_ok ((if eused e then push_val (set_todo f t) vunit else set_todo f t) :: rest).
Proof.
  intros O ET. apply stack_ok_head in O. destruct O as [F C].
  destruct F as (W & (n & S & Cn) & B & V & R).
  rewrite ET in *. cbn [sim] in S.
  destruct (eff es e) as [[c pr]|] eqn:EF; [|discriminate].
  destruct (Nat.leb c (length (vals f) + 0)) eqn:L; [|discriminate]. apply Nat.leb_le in L.
  pose proof (eff_prod_le _ _ _ _ EF) as PL.
  destruct Cn as [[_ ?]|Cn]; [discriminate|].
  inversion W as [|x l Wx Wt]; subst.
  assert (PB : 1 + MachineInv.pending t <= length (blocks f)) by (cbn [MachineInv.pending] in B; lia).
  assert (LE : length (vals f) + 0 - c + pr <= length (vals f) + uu e) by lia.
  destruct (sim_mono t _ _ _ LE S) as (k' & S' & K).
  apply (stack_ok_build f).
  - destruct (eused e); reflexivity.
  - exact C.
  - unfold uu in S'. unfold frame_ok. destruct (eused e); cbn [push_val set_todo todo vals blocks nextb length].
    + split; [exact Wt|]. split; [|split; [exact PB|split; [constructor; [reflexivity|exact V]|exact R]]].
      exists k'. split; [rewrite <- S'; f_equal; lia|right; lia].
    + split; [exact Wt|]. split; [|split; [exact PB|split; [exact V|exact R]]].
      exists k'. split; [rewrite <- S'; f_equal; lia|right; lia].
Qed.

Lemma Forall_tl {A} (P : A -> Prop) l : Forall P l -> Forall P (tl l).
Proof. destruct l; cbn; intros H; [constructor|now inversion H]. Qed.

Lemma replace_ok f rest e :
  stack_ok (f :: rest) -> eused e = true -> wf e = true ->
  stack_ok (push_todo (set_vals f (tl (vals f))) SNot e :: rest).
Proof.
  intros O U WE. apply stack_ok_head in O. destruct O as [F C].
  destruct F as (W & (n & S & Cn) & B & V & R).
  apply (stack_ok_build f); [reflexivity|exact C|].
  unfold frame_ok. cbn [push_todo set_vals todo vals blocks nextb].
  split; [constructor; [exact WE|exact W]|].
  split; [|split; [|split; [now apply Forall_tl|exact R]]].
  - cbn [sim]. rewrite (eff_fresh _ WE). cbn [Nat.leb]. unfold uu. rewrite U.
    assert (LE : length (vals f) + 0 <= length (tl (vals f)) + 0 - 0 + 1) by (destruct (vals f); cbn; lia).
    destruct (sim_mono (todo f) _ _ _ LE S) as (k' & S' & K).
    exists k'. split; [exact S'|].
    destruct Cn as [[_ E]|Cn]; [|right; lia].
    rewrite E in S'. cbn in S'. inversion S'; subst. right. lia.
  - cbn [MachineInv.pending]. unfold pops. cbn [fst snd entry_pops]. lia.
Qed.

Lemma truncate_last_sub {A} (P : A -> Prop) l : Forall P l -> Forall P (truncate_last l).
Proof.
  intros H. unfold truncate_last. destruct (rev l) as [|x r] eqn:E; [constructor|].
  constructor; [|constructor]. rewrite Forall_forall in H. apply H. apply in_rev. rewrite E. left. reflexivity.
Qed.

Lemma truncate_last_len {A} (l : list A) : l <> [] -> length (truncate_last l) = 1.
Proof.
  intros NE. unfold truncate_last. destruct (rev l) eqn:E; [|reflexivity].
  apply (f_equal (@rev A)) in E. rewrite rev_involutive in E. contradiction.
Qed.

Lemma callers_last u rest f : callers_ok u rest -> last_frame rest = Some f -> exists ex inc, frame_ok ex inc f.
Proof.
  revert u. induction rest as [|g rest IH]; intros u C L; [discriminate|].
  destruct C as [F C]. cbn [last_frame] in L. destruct rest as [|g2 rest2].
  - inversion L; subst. eauto.
  - eapply IH; eassumption.
Qed.

Lemma stack_ok_last st f : stack_ok st -> last_frame st = Some f -> exists ex inc, frame_ok ex inc f.
Proof.
  destruct st as [|f0 [|g rest]]; cbn [stack_ok last_frame]; intros O L; [contradiction| |].
  - inversion L; subst. eauto.
  - destruct O as [_ C]. eapply callers_last; eassumption.
Qed.

Lemma abort_ok s : stack_ok (stack s) -> stack_ok (stack (abort s)).
Proof.
  intros O. unfold abort. destruct (last_frame (stack s)) as [f|] eqn:L; [|exact O].
  destruct (stack_ok_last _ _ O L) as (ex & inc & W & _ & B & V & BB & _).
  cbn [stack stack_ok]. unfold frame_ok, abort_frame. cbn [todo blocks vals nextb MachineInv.pending].
  split; [constructor|].
  split; [exists (length (truncate_last (vals f)) + 0); cbn; auto|].
  split; [rewrite truncate_last_len; [lia|destruct (blocks f); [cbn in B; lia|discriminate]]|].
  split; [now apply truncate_last_sub|]. split; [now apply truncate_last_sub|constructor].
Qed.

Lemma remove_var_cf x b : cfb b -> cfb (remove_var x b).
Proof.
  unfold cfb. induction b as [|[y v] b IH]; cbn [remove_var]; intros H; [constructor|].
  inversion H; subst. destruct (N.eqb x y); [now apply IH|constructor; [assumption|now apply IH]].
Qed.

Lemma forget_ok f rest x :
  stack_ok (f :: rest) -> stack_ok (set_blocks f (map (remove_var x) (blocks f)) :: rest).
Proof.
  intros O. apply stack_ok_head in O. destruct O as [F C].
  destruct F as (W & SS & B & V & BB & R).
  assert (K : forall ex, frame_ok ex 0 f -> frame_ok ex 0 (set_blocks f (map (remove_var x) (blocks f)))).
  { intros ex (W' & S' & B' & V' & BB' & R'). unfold frame_ok. cbn [set_blocks todo vals blocks nextb].
    split; [exact W'|]. split; [exact S'|]. split; [rewrite map_length; exact B'|].
    split; [exact V'|]. split; [|exact R'].
    clear -BB'. induction BB'; cbn; constructor; [now apply remove_var_cf|assumption]. }
  destruct rest as [|g rest]; cbn [stack_ok].
  - apply K. split; [exact W|]. split; [exact SS|]. auto.
  - split; [|exact C]. apply K. split; [exact W|]. split; [exact SS|]. auto.
Qed.

Lemma set_stack_stack s st : stack (set_stack s st) = st.
Proof. reflexivity. Qed.

Theorem handle_keeps_discipline p (EK : evaluator_keeps_discipline p) fuel s r :
  stack_ok (stack s) -> wf_request r = true ->
  stack_ok (stack (fst (handle all_fixes fuel p s r))) /\ snd (handle all_fixes fuel p s r) <> SessionPanic.
Proof.
  intros O WR. destruct r; cbn [handle all_fixes fx_skip fx_call wf_request] in *.
  - destruct exprs as [|e0 exprs]; [cbn; split; [exact O|discriminate]|].
    unfold install. destruct (stack s) as [|f rest] eqn:ES; [contradiction|].
    apply respond_ok; [rewrite ES; exact O|]. apply eval_ok; [exact EK|].
    rewrite set_stack_stack. now apply install_ok.
  - apply respond_ok; [exact O|]. now apply eval_ok.
  - cbn. split; [now apply abort_ok|discriminate].
  - destruct (stack s) as [|f rest] eqn:ES; [contradiction|].
    destruct (todo f) as [|[es e] t] eqn:ET; [cbn; rewrite ES; split; [exact O|discriminate]|].
    apply respond_ok; [rewrite ES; exact O|]. apply eval_ok; [exact EK|].
    rewrite set_stack_stack. cbn [andb]. eapply skip_ok; eassumption.
  - destruct (stack s) as [|f rest] eqn:ES; [contradiction|].
    apply andb_prop in WR. destruct WR as [U W].
    apply respond_ok; [rewrite ES; exact O|]. apply eval_ok; [exact EK|].
    rewrite set_stack_stack. now apply replace_ok.
  - destruct (stack s) as [|f rest] eqn:ES; [contradiction|].
    cbn. split; [now apply forget_ok|discriminate].
  - cbn. split; [exact O|discriminate].
Qed.

(* states reachable from a fresh session through well-formed requests *)
Inductive reachable (fuel : nat) (p : prog) : state -> Prop :=
| reach_fresh : reachable fuel p fresh
| reach_handle s r : reachable fuel p s -> wf_request r = true ->
    reachable fuel p (fst (handle all_fixes fuel p s r)).

Lemma fresh_ok : stack_ok (stack fresh).
Proof.
  cbn. split; [constructor|]. split; [exists 1; cbn; auto|].
  cbn. split; [lia|]. split; [repeat constructor|]. split; [repeat constructor|constructor].
Qed.

Theorem handle_no_panic_partial_lemma fuel p (EK : evaluator_keeps_discipline p) s :
  reachable fuel p s -> forall r, wf_request r = true -> snd (handle all_fixes fuel p s r) <> SessionPanic.
Proof.
  intros R. assert (O : stack_ok (stack s)).
  { induction R as [|s r R IH W]; [exact fresh_ok|]. now apply handle_keeps_discipline. }
  intros r W. now apply handle_keeps_discipline.
Qed.

(* ------------------------------------------------------------------------ *)
(* C11: what persists between requests *)

(* `run` requests never touch the binding blocks or the value stack when they
   install their expressions: everything a request finds is what the previous
   one left. *)
Lemma install_keeps_scope s exprs s2 :
  install s exprs = Some s2 ->
  exists f rest, stack s = f :: rest /\
    stack s2 = set_todo f (map (fun e => (SNot, e)) exprs) :: rest /\
    out s2 = out s /\ ticks s2 = ticks s.
Proof.
  unfold install. destruct (stack s) as [|f rest]; [discriminate|].
  intros H. inversion H; subst. exists f, rest. cbn. auto.
Qed.

(* A toplevel `let x = e` whose right-hand side has been evaluated binds x in
   the toplevel block, and every later request (which only replaces the pending
   expressions) sees it. *)
Theorem toplevel_lets_persist_lemma p s f t m x rhs v vs b bs :
  stack s = [f] -> todo f = (SDone, ELet m x rhs) :: t -> vals f = v :: vs -> blocks f = b :: bs ->
  N.eqb x underscore = false ->
  interrupted s = false -> tick_limit s = None -> stack_limit s = None ->
  exists s' f', step p s = Next s' /\ stack s' = [f'] /\ blocks f' = ((x, v) :: b) :: bs /\
    forall exprs s2, install s' exprs = Some s2 ->
      exists f2, stack s2 = [f2] /\ blocks f2 = ((x, v) :: b) :: bs /\ get_var p f2 x = Some v.
Proof.
  intros ES ET EV EB NX I TL SL. unfold step. rewrite ES, ET, I, TL, SL. cbn [opt_le opt_lt].
  cbn [exec]. unfold pop_val. cbn [set_todo vals]. rewrite EV.
  change (blocks (set_vals (set_todo f t) vs)) with (blocks f). rewrite EB.
  unfold add_new. rewrite NX.
  eexists. eexists. split; [reflexivity|]. cbn [with_stack stack]. split; [reflexivity|].
  assert (BL : forall u, blocks (push_val_if u (set_blocks (set_vals (set_todo f t) vs) (((x, v) :: b) :: bs)) vunit) = ((x, v) :: b) :: bs).
  { intros u. destruct u; reflexivity. }
  split; [apply BL|].
  intros exprs s2 H. unfold install in H. cbn [stack] in H. inversion H; subst.
  eexists. split; [reflexivity|].
  assert (BL2 : blocks (set_todo (push_val_if (used m) (set_blocks (set_vals (set_todo f t) vs) (((x, v) :: b) :: bs)) vunit)
                         (map (fun e => (SNot, e)) exprs)) = ((x, v) :: b) :: bs).
  { cbn [set_todo blocks]. apply BL. }
  split; [exact BL2|].
  unfold get_var. rewrite BL2. cbn [lookup_blocks assoc]. rewrite N.eqb_refl. reflexivity.
Qed.
