(* MODEL (definitions only) of the test loop of garden:
     src/eval.rs        eval_tests, push_test_stackframe
     src/env.rs         Stack::pop_to_toplevel
     src/test_runner.rs run_tests_in_files (name filter, summary, exit status), describe_tests
   A test body is an abstract transformer of the interpreter state.  The record
   [Env] lists every piece of interpreter state that is still there when the next
   test starts; [View] is the part of it that evaluation of a test body can read. *)
From Coq Require Import List Bool NArith Arith.
Import ListNotations.

Inductive EvalError :=
  | Interrupted | Exception | AssertionFailed | ReachedTickLimit | ReachedStackLimit | ForbiddenInSandbox.

(* A stack frame, as far as the loop cares: sizes of evalled_values,
   bindings.block_bindings and exprs_to_eval, and caller_pos. *)
Record Frame := { f_values : nat; f_blocks : nat; f_exprs : nat; f_caller_pos : option N }.

Definition fresh_toplevel : Frame := {| f_values := 1; f_blocks := 1; f_exprs := 0; f_caller_pos := None |}.
(* push_test_stackframe: evalled_values = [unit], Bindings::default(), caller_pos None *)
Definition test_frame (nexprs : nat) : Frame := {| f_values := 1; f_blocks := 1; f_exprs := nexprs; f_caller_pos := None |}.

Record Env := {
  e_defs : N;                  (* namespaces + env.types + env.tests + vfs: an abstract identifier of the loaded
                                  definitions. No expression form writes them while a test runs. *)
  e_wd : N;                    (* env.working_directory (fs::set_working_directory writes, fs::working_directory reads) *)
  e_ticks : N;                 (* env.ticks *)
  e_tick_limit : option N;     (* env.tick_limit: None for `garden test`, Some 100000 for `sandboxed-test` *)
  e_prev_calls : list N;       (* env.prev_call_args / prev_method_call_args: written by every call, read by eval-up-to only *)
  e_ids : N;                   (* env.id_gen *)
  e_stack : list Frame         (* env.stack, bottom (top level) first *)
}.

(* What evaluating a test body can read. *)
Record View := {
  v_defs : N;
  v_wd : N;
  v_budget : option N;         (* ticks left before ReachedTickLimit *)
  v_toplevel_exprs : nat       (* exprs_to_eval of the top-level frame: `eval` goes on with them when the test frame is done *)
}.

Definition view (e : Env) : View :=
  {| v_defs := e_defs e;
     v_wd := e_wd e;
     v_budget := match e_tick_limit e with None => None | Some l => Some (l - e_ticks e)%N end;
     v_toplevel_exprs := match e_stack e with f :: _ => f_exprs f | [] => 0 end |}.

(* What evaluating a test body does. *)
Record Effect := {
  x_result : option EvalError;     (* None = eval returned Ok *)
  x_ticks : N;                     (* steps taken *)
  x_wd : N;                        (* working directory afterwards *)
  x_calls : list N;                (* calls recorded *)
  x_ids : N;                       (* ids generated (reflect::check_snippet parses) *)
  x_frames : list Frame;           (* on error: the frames left above the top-level frame, test frame first *)
  x_top_values : nat               (* on error: values left on the top-level frame's value stack beyond the initial one *)
}.

Definition Body := Env -> Effect.

Record Test := { t_name : list N; t_body : Body; t_nexprs : nat }.

(* The hypothesis of independence, stated on the body: its effect is a function of the view. *)
Definition reads_only_view (b : Body) : Prop := forall e1 e2, view e1 = view e2 -> b e1 = b e2.
Definition never_interrupted (b : Body) : Prop := forall e, x_result (b e) <> Some Interrupted.

(* Shape of the loop; the current values are regenerated from eval.rs (gen/TestRunnerGen.v). *)
Record LoopShape := {
  ls_reset_ticks : bool;           (* `env.ticks = 0;` before each test *)
  ls_restore_wd : bool;            (* working_directory saved before / restored after each test *)
  ls_pop_to_toplevel : bool;       (* `env.stack.pop_to_toplevel()` after each test *)
  ls_break_on_interrupt : bool     (* `if matches!(e, Interrupted) { break; }` *)
}.

Definition set_ticks (e : Env) (t : N) : Env :=
  {| e_defs := e_defs e; e_wd := e_wd e; e_ticks := t; e_tick_limit := e_tick_limit e;
     e_prev_calls := e_prev_calls e; e_ids := e_ids e; e_stack := e_stack e |}.
Definition set_wd (e : Env) (w : N) : Env :=
  {| e_defs := e_defs e; e_wd := w; e_ticks := e_ticks e; e_tick_limit := e_tick_limit e;
     e_prev_calls := e_prev_calls e; e_ids := e_ids e; e_stack := e_stack e |}.
Definition set_stack (e : Env) (s : list Frame) : Env :=
  {| e_defs := e_defs e; e_wd := e_wd e; e_ticks := e_ticks e; e_tick_limit := e_tick_limit e;
     e_prev_calls := e_prev_calls e; e_ids := e_ids e; e_stack := s |}.

(* Stack::pop_to_toplevel *)
Definition pop_to_toplevel (s : list Frame) : list Frame :=
  match s with
  | [] => []
  | f :: _ => [ {| f_values := Nat.min 1 (f_values f); f_blocks := Nat.min 1 (f_blocks f);
                   f_exprs := f_exprs f; f_caller_pos := f_caller_pos f |} ]
  end.

(* State after `eval` returned, given the effect of the body. *)
Definition after_eval (e : Env) (x : Effect) : Env :=
  {| e_defs := e_defs e;
     e_wd := x_wd x;
     e_ticks := (e_ticks e + x_ticks x)%N;
     e_tick_limit := e_tick_limit e;
     e_prev_calls := x_calls x ++ e_prev_calls e;
     e_ids := (e_ids e + x_ids x)%N;
     e_stack := match x_result x, e_stack e with
                | None, s => firstn 1 s        (* the test frame was popped, its value pushed and popped again *)
                | Some _, f :: _ =>
                    {| f_values := f_values f + x_top_values x; f_blocks := f_blocks f;
                       f_exprs := f_exprs f; f_caller_pos := f_caller_pos f |} :: x_frames x
                | Some _, [] => x_frames x
                end |}.

Definition Verdict := (list N * option EvalError * option N)%type.   (* name, error, test_body_err_pos *)

(* One iteration of the `for test in test_defs` loop. Returns the verdict, the state, and whether the loop breaks. *)
Definition run_one (sh : LoopShape) (e : Env) (t : Test) : Verdict * Env * bool :=
  let e1 := if ls_reset_ticks sh then set_ticks e 0 else e in
  let saved_wd := e_wd e1 in
  let e2 := set_stack e1 (e_stack e1 ++ [test_frame (t_nexprs t)]) in
  let x := t_body t e2 in
  let e3 := after_eval e2 x in
  let e4 := if ls_restore_wd sh then set_wd e3 saved_wd else e3 in
  let pos := match x_result x with
             | None => None
             | Some _ => match nth_error (e_stack e4) 2 with Some f => f_caller_pos f | None => None end
             end in
  let v : Verdict := (t_name t, x_result x, pos) in
  match x_result x with
  | Some Interrupted =>
      if ls_break_on_interrupt sh then (v, e4, true)
      else (v, if ls_pop_to_toplevel sh then set_stack e4 (pop_to_toplevel (e_stack e4)) else e4, false)
  | _ => (v, if ls_pop_to_toplevel sh then set_stack e4 (pop_to_toplevel (e_stack e4)) else e4, false)
  end.

Fixpoint eval_tests (sh : LoopShape) (e : Env) (ts : list Test) : list Verdict * Env :=
  match ts with
  | [] => ([], e)
  | t :: rest =>
      match run_one sh e t with
      | (v, e', true) => ([v], e')
      | (v, e', false) => let (vs, e'') := eval_tests sh e' rest in (v :: vs, e'')
      end
  end.

Definition verdicts (r : list Verdict * Env) : list Verdict := fst r.
Definition verdict_alone (sh : LoopShape) (e : Env) (t : Test) : list Verdict := verdicts (eval_tests sh e [t]).

(* ---- run_tests_in_files / describe_tests --------------------------------------------------- *)
Definition failed (v : Verdict) : bool := match snd (fst v) with Some _ => true | None => false end.
Definition count_failed (vs : list Verdict) : nat := length (filter failed vs).

Inductive Summary :=
  | NoTestsFound
  | RanOneItPassed
  | RanAllPassed (total : nat)
  | RanMixed (total passed failed_ : nat).

Definition describe (vs : list Verdict) : list (list N) * Summary :=
  let total := length vs in
  let nfailed := count_failed vs in
  let npassed := total - nfailed in
  if (npassed =? 0) && (nfailed =? 0) then ([], NoTestsFound)
  else (map (fun v => fst (fst v)) (filter failed vs),
        let total' := npassed + nfailed in
        if (nfailed =? 0) && (total' =? 1) then RanOneItPassed
        else if nfailed =? 0 then RanAllPassed total'
        else RanMixed total' npassed nfailed).

Definition summary_total (s : Summary) : nat :=
  match s with NoTestsFound => 0 | RanOneItPassed => 1 | RanAllPassed n => n | RanMixed n _ _ => n end.
Definition summary_failed (s : Summary) : nat :=
  match s with RanMixed _ _ f => f | _ => 0 end.
Definition summary_passed (s : Summary) : nat :=
  match s with NoTestsFound => 0 | RanOneItPassed => 1 | RanAllPassed n => n | RanMixed _ p _ => p end.

(* `if tests_failed > 0 { std::process::exit(1); }`; falling off main is exit status 0.
   [exit_if_failed_positive] is regenerated from test_runner.rs. *)
Definition exit_code (exit_if_failed_positive : bool) (vs : list Verdict) : nat :=
  if exit_if_failed_positive then (if 0 <? count_failed vs then 1 else 0) else 0.

(* name_contains: `ti.name_sym.name.text.contains(&name_contains)` *)
Fixpoint prefix_of (p s : list N) : bool :=
  match p, s with
  | [], _ => true
  | _ :: _, [] => false
  | a :: p', b :: s' => N.eqb a b && prefix_of p' s'
  end.
Fixpoint contains (s p : list N) : bool :=
  prefix_of p s || match s with [] => false | _ :: s' => contains s' p end.

Definition select (name_contains : list N) (all : list Test) : list Test :=
  filter (fun t => contains (t_name t) name_contains) all.

Definition run_tests_in_files (sh : LoopShape) (exit_flag : bool) (e : Env) (all : list Test) (name_contains : list N)
  : list Verdict * (list (list N) * Summary) * nat :=
  let vs := verdicts (eval_tests sh e (select name_contains all)) in
  (vs, describe vs, exit_code exit_flag vs).

(* Env::new *)
Definition initial_env (defs wd : N) (limit : option N) : Env :=
  {| e_defs := defs; e_wd := wd; e_ticks := 0; e_tick_limit := limit; e_prev_calls := []; e_ids := 0;
     e_stack := [fresh_toplevel] |}.

(* ---- a small concrete language of test bodies (used by the differential check) ------------- *)
Inductive Op :=
  | OPass (arg : N)                         (* assert(add1(n) == n + 1) *)
  | OFail                                   (* a failing assert *)
  | OThrow (depth values blocks : nat)      (* exception `depth` calls deep, with pending values / binding blocks *)
  | OSetWd (w : N)
  | OAssertWd (w : N)
  | OSpin (n : N)                           (* a terminating loop of n iterations *)
  | OForever                                (* while True {} *)
  | ONop.

Definition op_cost (o : Op) : N :=
  match o with
  | OPass _ => 12 | OFail => 12 | OThrow d _ _ => 6 + 14 * N.of_nat d | OSetWd _ => 6 | OAssertWd _ => 10
  | OSpin n => 20 + 9 * n | OForever => 0 | ONop => 3
  end%N.

Record OpState := { os_wd : N; os_used : N; os_calls : list N }.

Definition call_frames (d : nat) : list Frame :=
  map (fun i => {| f_values := 1; f_blocks := 2; f_exprs := 1; f_caller_pos := Some (N.of_nat i) |}) (seq 0 d).

Definition stop (st : OpState) (err : option EvalError) (frames : list Frame) : Effect :=
  {| x_result := err; x_ticks := os_used st; x_wd := os_wd st; x_calls := os_calls st; x_ids := 0;
     x_frames := frames; x_top_values := 0 |}.

Fixpoint run_ops (budget : option N) (st : OpState) (ops : list Op) : Effect :=
  match ops with
  | [] => stop st None []
  | o :: rest =>
      let used' := (os_used st + op_cost o)%N in
      let over := match budget with Some b => (b <=? used')%N | None => false end in
      match o with
      | OForever =>
          match budget with
          | Some b => stop {| os_wd := os_wd st; os_used := b; os_calls := os_calls st |} (Some ReachedTickLimit)
                           [test_frame (length rest)]
          | None => stop st (Some Interrupted) [test_frame (length rest)]    (* only Ctrl-C ends it *)
          end
      | _ =>
        if over then stop {| os_wd := os_wd st; os_used := match budget with Some b => b | None => used' end;
                             os_calls := os_calls st |} (Some ReachedTickLimit) [test_frame (length rest)]
        else
          let st' := {| os_wd := os_wd st; os_used := used'; os_calls := os_calls st |} in
          match o with
          | OPass a => run_ops budget {| os_wd := os_wd st; os_used := used'; os_calls := a :: os_calls st |} rest
          | OFail => stop st' (Some AssertionFailed) [test_frame (length rest)]
          | OThrow d v b =>
              stop st' (Some Exception)
                   ({| f_values := 1 + v; f_blocks := 1 + b; f_exprs := length rest; f_caller_pos := None |} :: call_frames d)
          | OSetWd w => run_ops budget {| os_wd := w; os_used := used'; os_calls := os_calls st |} rest
          | OAssertWd w => if N.eqb (os_wd st) w then run_ops budget st' rest
                           else stop st' (Some AssertionFailed) [test_frame (length rest)]
          | OSpin _ | ONop | OForever => run_ops budget st' rest
          end
      end
  end.

Definition body_of_ops (ops : list Op) : Body :=
  fun e => run_ops (v_budget (view e)) {| os_wd := v_wd (view e); os_used := 0; os_calls := [] |} ops.

Definition test_of_ops (name : list N) (ops : list Op) : Test :=
  {| t_name := name; t_body := body_of_ops ops; t_nexprs := length ops |}.

(* The loop as it was before the fixes (no tick reset, no working-directory restore). *)
Definition shape_unfixed : LoopShape :=
  {| ls_reset_ticks := false; ls_restore_wd := false; ls_pop_to_toplevel := true; ls_break_on_interrupt := true |}.
Definition shape_fixed : LoopShape :=
  {| ls_reset_ticks := true; ls_restore_wd := true; ls_pop_to_toplevel := true; ls_break_on_interrupt := true |}.
