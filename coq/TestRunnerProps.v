(* Proofs about the model of the test loop (TestRunner.v). *)
From Coq Require Import List Bool NArith Arith Lia.
Import ListNotations.
From Garden Require Import TestRunner.

Definition shape_isolates (sh : LoopShape) : Prop :=
  ls_reset_ticks sh = true /\ ls_restore_wd sh = true /\ ls_pop_to_toplevel sh = true.

(* The top-level state `garden test` / `sandboxed-test` start the loop in: one frame, nothing pending. *)
Definition at_toplevel (e : Env) : Prop := exists f, e_stack e = [f].

Definition loop_inv (e0 e : Env) : Prop :=
  e_defs e = e_defs e0 /\ e_wd e = e_wd e0 /\ e_tick_limit e = e_tick_limit e0 /\
  exists f f0, e_stack e = [f] /\ e_stack e0 = [f0] /\ f_exprs f = f_exprs f0.

Lemma loop_inv_refl : forall e, at_toplevel e -> loop_inv e e.
Proof. intros e [f Hf]. repeat split; auto. exists f, f. auto. Qed.

Definition body_input (e : Env) (t : Test) : Env :=
  set_stack (set_ticks e 0) (e_stack (set_ticks e 0) ++ [test_frame (t_nexprs t)]).

Lemma body_input_view : forall e0 e t, loop_inv e0 e -> view (body_input e t) = view (body_input e0 t).
Proof.
  intros e0 e t (Hd & Hw & Hl & f & f0 & Hs & Hs0 & Hx).
  unfold view, body_input, set_stack, set_ticks; cbn.
  rewrite Hd, Hw, Hl, Hs, Hs0. cbn. rewrite Hx. reflexivity.
Qed.

Lemma run_one_isolated : forall sh e0 e t,
  shape_isolates sh -> loop_inv e0 e -> reads_only_view (t_body t) -> never_interrupted (t_body t) ->
  exists v e', run_one sh e t = (v, e', false) /\ loop_inv e0 e' /\
               exists e0' b, run_one sh e0 t = (v, e0', b).
Proof.
  intros sh e0 e t (Hr & Hw & Hp) Hinv Hread Hni.
  pose proof (body_input_view e0 e t Hinv) as Hview.
  pose proof (Hread _ _ Hview) as Hx.
  destruct Hinv as (Hd & Hwd & Hl & f & f0 & Hs & Hs0 & Hfx).
  unfold run_one. rewrite Hr, Hw, Hp.
  fold (body_input e t). fold (body_input e0 t).
  rewrite Hx.
  set (x := t_body t (body_input e0 t)) in *.
  assert (Hnot : x_result x <> Some Interrupted) by apply Hni.
  assert (Hpos : forall w w0,
     match nth_error (e_stack (set_wd (after_eval (body_input e t) x) w)) 2 with Some g => f_caller_pos g | None => None end =
     match nth_error (e_stack (set_wd (after_eval (body_input e0 t) x) w0)) 2 with Some g => f_caller_pos g | None => None end).
  { intros w w0. unfold set_wd, after_eval, body_input, set_stack, set_ticks; cbn. rewrite Hs, Hs0; cbn.
    destruct (x_result x); reflexivity. }
  assert (Hinv' : loop_inv e0 (set_stack (set_wd (after_eval (body_input e t) x) (e_wd (set_ticks e 0)))
                                 (pop_to_toplevel (e_stack (set_wd (after_eval (body_input e t) x) (e_wd (set_ticks e 0))))))).
  { unfold loop_inv, set_stack, set_wd, after_eval, body_input, set_ticks; cbn. rewrite Hs; cbn.
    repeat split; auto.
    destruct (x_result x); cbn; eexists; exists f0; repeat split; eauto. }
  destruct (x_result x) as [[]|] eqn:Hres; try congruence;
    (eexists; eexists; split; [reflexivity|]; split; [exact Hinv'|]);
    (eexists; eexists; first [reflexivity | rewrite (Hpos _ (e_wd (set_ticks e0 0))); reflexivity]).
Qed.

Lemma eval_tests_single : forall sh e t, verdict_alone sh e t = [fst (fst (run_one sh e t))].
Proof.
  intros. unfold verdict_alone, verdicts. cbn. destruct (run_one sh e t) as [[v e'] b]. destruct b; reflexivity.
Qed.

Lemma verdict_independent_inv : forall sh e0 ts e,
  shape_isolates sh -> loop_inv e0 e ->
  Forall (fun t => reads_only_view (t_body t) /\ never_interrupted (t_body t)) ts ->
  verdicts (eval_tests sh e ts) = flat_map (verdict_alone sh e0) ts.
Proof.
  intros sh e0 ts. induction ts as [|t ts IH]; intros e Hsh Hinv Hall.
  - reflexivity.
  - inversion Hall as [|? ? [Hr Hn] Hrest]; subst.
    destruct (run_one_isolated sh e0 e t Hsh Hinv Hr Hn) as (v & e' & Hrun & Hinv' & e0' & b & Hrun0).
    cbn [eval_tests flat_map]. rewrite Hrun.
    rewrite eval_tests_single, Hrun0. cbn [fst app].
    specialize (IH e' Hsh Hinv' Hrest). unfold verdicts in *.
    destruct (eval_tests sh e' ts) as [vs e'']. cbn in *. now rewrite IH.
Qed.

Theorem verdict_independent_lemma : forall sh e ts,
  shape_isolates sh -> at_toplevel e ->
  Forall (fun t => reads_only_view (t_body t) /\ never_interrupted (t_body t)) ts ->
  verdicts (eval_tests sh e ts) = flat_map (verdict_alone sh e) ts.
Proof. intros. apply verdict_independent_inv; auto using loop_inv_refl. Qed.

(* any filter, any permutation: instances of the above *)
Lemma Forall_filter : forall A (P : A -> Prop) f l, Forall P l -> Forall P (filter f l).
Proof. intros A P f l H. induction H; cbn; auto. destruct (f x); auto. Qed.

Theorem verdict_independent_filtered_lemma : forall sh e all name_contains,
  shape_isolates sh -> at_toplevel e ->
  Forall (fun t => reads_only_view (t_body t) /\ never_interrupted (t_body t)) all ->
  verdicts (eval_tests sh e (select name_contains all)) = flat_map (verdict_alone sh e) (select name_contains all).
Proof. intros. apply verdict_independent_lemma; auto. apply Forall_filter; auto. Qed.

(* the interpreter is left at a clean top level, whatever the tests did *)
Theorem loop_leaves_toplevel_lemma : forall sh e ts,
  shape_isolates sh -> at_toplevel e ->
  Forall (fun t => reads_only_view (t_body t) /\ never_interrupted (t_body t)) ts ->
  loop_inv e (snd (eval_tests sh e ts)).
Proof.
  intros sh e0 ts Hsh Htop Hall.
  assert (G : forall e, loop_inv e0 e -> loop_inv e0 (snd (eval_tests sh e ts))).
  { induction Hall as [|t ts [Hr Hn] Hrest IH]; intros e Hinv; cbn; auto.
    destruct (run_one_isolated sh e0 e t Hsh Hinv Hr Hn) as (v & e' & Hrun & Hinv' & _).
    rewrite Hrun. specialize (IH e' Hinv'). destruct (eval_tests sh e' ts); cbn in *; auto. }
  apply G, loop_inv_refl, Htop.
Qed.

(* ---- the DSL bodies satisfy the hypothesis ---- *)
Lemma body_of_ops_reads_only_view : forall ops, reads_only_view (body_of_ops ops).
Proof. intros ops e1 e2 H. unfold body_of_ops. now rewrite H. Qed.

(* ---- exit status and summary ---- *)
Lemma count_failed_pos : forall vs, 0 < count_failed vs <-> exists v, In v vs /\ failed v = true.
Proof.
  intros vs. unfold count_failed. split.
  - intros H. destruct (filter failed vs) as [|v l] eqn:E; [cbn in H; lia|].
    exists v. apply filter_In. rewrite E. now left.
  - intros (v & Hin & Hf). assert (In v (filter failed vs)) by (apply filter_In; auto).
    destruct (filter failed vs); [contradiction|cbn; lia].
Qed.

Theorem exit_honest_lemma : forall vs,
  (exit_code true vs = 1 <-> exists v, In v vs /\ failed v = true) /\
  (exit_code true vs = 0 <-> forall v, In v vs -> failed v = false) /\
  (exit_code true vs = 0 \/ exit_code true vs = 1).
Proof.
  intros vs. unfold exit_code. destruct (0 <? count_failed vs) eqn:E.
  - apply Nat.ltb_lt in E. pose proof (proj1 (count_failed_pos vs) E) as (v & Hin & Hf).
    repeat split; auto; try discriminate.
    + intros _. exists v; auto.
    + intros H. rewrite (H v Hin) in Hf. discriminate.
  - apply Nat.ltb_ge in E. assert (Hnone : forall v, In v vs -> failed v = false).
    { intros v Hin. destruct (failed v) eqn:Hf; auto. exfalso.
      assert (0 < count_failed vs) by (apply count_failed_pos; eauto). lia. }
    repeat split; auto; try discriminate.
    + intros (v & Hin & Hf). rewrite (Hnone v Hin) in Hf. discriminate.
Qed.

Lemma count_failed_le : forall vs, count_failed vs <= length vs.
Proof.
  intros vs. unfold count_failed. induction vs as [|v vs IH]; cbn; auto.
  destruct (failed v); cbn; lia.
Qed.

Theorem summary_counts_lemma : forall vs,
  let '(lines, s) := describe vs in
  summary_total s = length vs /\
  summary_failed s = count_failed vs /\
  summary_passed s = length vs - count_failed vs /\
  summary_passed s + summary_failed s = summary_total s /\
  lines = map (fun v => fst (fst v)) (filter failed vs) /\
  length lines = summary_failed s.
Proof.
  intros vs. unfold describe. pose proof (count_failed_le vs) as Hle.
  assert (Hcf : count_failed vs = length (filter failed vs)) by reflexivity.
  remember (length vs) as n. remember (count_failed vs) as k.
  destruct ((n - k =? 0) && (k =? 0)) eqn:E0.
  - apply andb_true_iff in E0 as [A B]. apply Nat.eqb_eq in A, B.
    assert (n = 0) by lia.
    assert (Hf : filter failed vs = []) by (destruct (filter failed vs); [reflexivity | cbn in Hcf; lia]).
    rewrite Hf. cbn [summary_total summary_failed summary_passed length map].
    repeat split; try reflexivity; try lia; try (unfold Verdict in *; rewrite <- Hcf; lia); try (change (length (filter failed vs)) with (count_failed vs); lia).
  - destruct (k =? 0) eqn:Ek.
    + apply Nat.eqb_eq in Ek. cbn [andb].
      destruct (n - k + k =? 1) eqn:E1.
      * apply Nat.eqb_eq in E1. cbn [summary_total summary_failed summary_passed]. rewrite map_length.
        repeat split; try reflexivity; try lia; try (unfold Verdict in *; rewrite <- Hcf; lia); try (change (length (filter failed vs)) with (count_failed vs); lia).

      * cbn [summary_total summary_failed summary_passed]. rewrite map_length. repeat split; try reflexivity; try lia; try (unfold Verdict in *; rewrite <- Hcf; lia); try (change (length (filter failed vs)) with (count_failed vs); lia).
    + apply Nat.eqb_neq in Ek. cbn [andb]. cbn [summary_total summary_failed summary_passed]. rewrite map_length.
      repeat split; try reflexivity; try lia; try (unfold Verdict in *; rewrite <- Hcf; lia); try (change (length (filter failed vs)) with (count_failed vs); lia).
Qed.

(* ---- the unfixed loop violates independence (witnesses, by computation) ---- *)
Definition wd_tests : list Test :=
  [ test_of_ops [1%N] [OSetWd 7];  test_of_ops [2%N] [OAssertWd 7] ].
Definition tick_tests : list Test :=
  [ test_of_ops [1%N] [OForever];  test_of_ops [2%N] [OPass 1] ].

Lemma unfixed_wd_leak :
  verdicts (eval_tests shape_unfixed (initial_env 0 0 None) wd_tests)
  <> flat_map (verdict_alone shape_unfixed (initial_env 0 0 None)) wd_tests.
Proof. vm_compute. discriminate. Qed.

Lemma unfixed_tick_budget_shared :
  verdicts (eval_tests shape_unfixed (initial_env 0 0 (Some 100000%N)) tick_tests)
  <> flat_map (verdict_alone shape_unfixed (initial_env 0 0 (Some 100000%N))) tick_tests.
Proof. vm_compute. discriminate. Qed.

Theorem unfixed_loop_refuted_lemma :
  exists e ts, at_toplevel e /\
    Forall (fun t => reads_only_view (t_body t)) ts /\
    Forall (fun t => x_result (t_body t e) <> Some Interrupted) ts /\
    verdicts (eval_tests shape_unfixed e ts) <> flat_map (verdict_alone shape_unfixed e) ts.
Proof.
  exists (initial_env 0 0 None), wd_tests. split; [eexists; reflexivity|]. split.
  - repeat constructor; apply body_of_ops_reads_only_view.
  - split; [repeat constructor; vm_compute; discriminate | exact unfixed_wd_leak].
Qed.

(* a body that peeks at state outside the view breaks independence even in the fixed loop:
   the hypothesis is needed *)
Definition peeking_body : Body := fun e =>
  {| x_result := if (e_ids e =? 0)%N then None else Some AssertionFailed; x_ticks := 1; x_wd := e_wd e;
     x_calls := []; x_ids := 1; x_frames := [test_frame 0]; x_top_values := 0 |}.
Lemma hypothesis_needed :
  let ts := [ {| t_name := [1%N]; t_body := peeking_body; t_nexprs := 1 |};
              {| t_name := [2%N]; t_body := peeking_body; t_nexprs := 1 |} ] in
  ~ reads_only_view peeking_body /\
  verdicts (eval_tests shape_fixed (initial_env 0 0 None) ts) <> flat_map (verdict_alone shape_fixed (initial_env 0 0 None)) ts.
Proof.
  split.
  - intros H. specialize (H (initial_env 0 0 None)
       {| e_defs := 0; e_wd := 0; e_ticks := 0; e_tick_limit := None; e_prev_calls := []; e_ids := 1; e_stack := [fresh_toplevel] |}
       eq_refl). vm_compute in H. discriminate.
  - vm_compute. discriminate.
Qed.

(* non-vacuity: a mixed file under the fixed loop *)
Definition mixed_tests : list Test :=
  [ test_of_ops [1%N] [OSetWd 7; OPass 1];  test_of_ops [2%N] [OAssertWd 7];
    test_of_ops [3%N] [OThrow 3 2 1];       test_of_ops [4%N] [OPass 2; OFail];  test_of_ops [1%N; 2%N] [OPass 3] ].
Lemma mixed_example :
  run_tests_in_files shape_fixed true (initial_env 0 0 None) mixed_tests [] =
  ( [ ([1%N], None, None); ([2%N], Some AssertionFailed, None); ([3%N], Some Exception, Some 0%N);
      ([4%N], Some AssertionFailed, None); ([1%N; 2%N], None, None) ],
    ( [ [2%N]; [3%N]; [4%N] ], RanMixed 5 2 3 ), 1 )
  /\ run_tests_in_files shape_fixed true (initial_env 0 0 None) mixed_tests [1%N] =
  ( [ ([1%N], None, None); ([1%N; 2%N], None, None) ], ( [], RanAllPassed 2 ), 0 ).
Proof. vm_compute. split; reflexivity. Qed.

Lemma mixed_tests_satisfy_hypotheses :
  Forall (fun t => reads_only_view (t_body t) /\ never_interrupted (t_body t)) mixed_tests.
Proof.
  repeat constructor; try apply body_of_ops_reads_only_view;
    intros e; unfold t_body, test_of_ops, body_of_ops; cbn [run_ops];
    destruct (v_budget (view e)) as [b|]; cbn;
    repeat match goal with |- context [if ?c then _ else _] => destruct c; cbn end; discriminate.
Qed.
