(* Ties the theorems about the test loop to the loop shape regenerated from the Rust source
   (gen/TestRunnerGen.v). These lemmas stop compiling when eval_tests no longer resets the tick
   counter / restores the working directory / pops to the top level, or when run_tests_in_files
   no longer exits with status 1 exactly when a verdict carries an error. *)
From Coq Require Import List Bool NArith Arith.
Import ListNotations.
From Garden Require Import TestRunner TestRunnerProps gen.TestRunnerGen.

Lemma loop_shape_isolates : shape_isolates loop_shape.
Proof. repeat split; reflexivity. Qed.

Lemma exit_flag_ok : exit_if_failed_positive = true /\ filter_is_contains = true /\ describe_shape_ok = true.
Proof. repeat split; reflexivity. Qed.

Definition body_ok (t : Test) : Prop := reads_only_view (t_body t) /\ never_interrupted (t_body t).

Lemma verdict_independent_tied : forall e ts,
  at_toplevel e -> Forall body_ok ts ->
  verdicts (eval_tests loop_shape e ts) = flat_map (verdict_alone loop_shape e) ts.
Proof. intros. apply verdict_independent_lemma; auto using loop_shape_isolates. Qed.

Lemma verdict_independent_filtered_tied : forall e all name_contains,
  at_toplevel e -> Forall body_ok all ->
  verdicts (eval_tests loop_shape e (select name_contains all))
  = flat_map (verdict_alone loop_shape e) (select name_contains all).
Proof. intros. apply verdict_independent_filtered_lemma; auto using loop_shape_isolates. Qed.

Lemma loop_leaves_toplevel_tied : forall e ts,
  at_toplevel e -> Forall body_ok ts -> loop_inv e (snd (eval_tests loop_shape e ts)).
Proof. intros. apply loop_leaves_toplevel_lemma; auto using loop_shape_isolates. Qed.

Lemma exit_honest_tied : forall vs,
  (exit_code exit_if_failed_positive vs = 1 <-> exists v, In v vs /\ failed v = true) /\
  (exit_code exit_if_failed_positive vs = 0 <-> forall v, In v vs -> failed v = false) /\
  (exit_code exit_if_failed_positive vs = 0 \/ exit_code exit_if_failed_positive vs = 1).
Proof. replace exit_if_failed_positive with true by (symmetry; apply exit_flag_ok). apply exit_honest_lemma. Qed.
