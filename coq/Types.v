(* Types.v -- MODEL (definitions only) of garden's static/runtime types:
     src/garden_type.rs           : enum Type, Type::is_no_value, is_subtype
     src/checks/type_checker.rs   : unify, unify_all and the fall-backs of their call sites
   Proofs are in TypesProps.v; pinned statements in Properties/C14.v, C15.v.

   What is erased.  `Type::Fun` carries `name_sym : Option<Symbol>` and
   `type_params : Vec<TypeName>`; `Type::Error` carries `internal_reason` and
   `inferred_type`.  `is_subtype` never looks at them; the derived `==` on
   `Type` (used by `unify`) compares them.  They are modelled by one opaque
   tag (an N) that only `ty_eqb` inspects: tag 0 is what the verification
   hook builds (`name_sym: None, type_params: vec![]`, reason "verif"). *)
From Coq Require Import List Bool Arith NArith Ascii String.
Import ListNotations.

(* `TypeName.text` as its UTF-8 bytes.  (Coq's `string` is deliberately not used in
   anything that is extracted: its OCaml name would shadow OCaml's own `string`.) *)
Definition tname := list N.
Fixpoint name_eqb (a b : tname) : bool :=
  match a, b with
  | [], [] => true
  | x :: xs, y :: ys => N.eqb x y && name_eqb xs ys
  | _, _ => false
  end.
(* only used under `Eval compute`, so that constants are literal byte lists *)
Definition nm (s : string) : tname := map N_of_ascii (list_ascii_of_string s).
Definition n_NoValue : tname := Eval compute in nm "NoValue".
Definition n_Unit : tname := Eval compute in nm "Unit".
Definition n_Bool : tname := Eval compute in nm "Bool".
Definition n_Int : tname := Eval compute in nm "Int".
Definition n_String : tname := Eval compute in nm "String".
Definition n_List : tname := Eval compute in nm "List".
Definition n_Dict : tname := Eval compute in nm "Dict".
Definition n_Option : tname := Eval compute in nm "Option".
Definition n_Result : tname := Eval compute in nm "Result".

Inductive kind := KEnum | KStruct.

Inductive ty :=
| TAny
| TTuple (items : list ty)
| TFun (tag : N) (params : list ty) (ret : ty)
| TUser (k : kind) (name : tname) (args : list ty)
| TParam (name : tname)
| TErr (tag : N).

Definition kind_eqb (a b : kind) : bool :=
  match a, b with KEnum, KEnum | KStruct, KStruct => true | _, _ => false end.

(* Type::is_no_value: any user-defined type NAMED n_NoValue (kind and arguments ignored). *)
Definition is_no_value (t : ty) : bool :=
  match t with TUser _ n _ => name_eqb n n_NoValue | _ => false end.
Definition is_err (t : ty) : bool := match t with TErr _ => true | _ => false end.
Definition is_any (t : ty) : bool := match t with TAny => true | _ => false end.

Definition no_value : ty := TUser KEnum n_NoValue [].
Definition t_unit : ty := TUser KEnum n_Unit [].
Definition t_bool : ty := TUser KEnum n_Bool [].
Definition t_int : ty := TUser KStruct n_Int [].
Definition t_string : ty := TUser KStruct n_String [].
Definition t_list (t : ty) : ty := TUser KStruct n_List [t].
Definition t_dict (t : ty) : ty := TUser KStruct n_Dict [t].

(* ---- ty_size measure (fuel bound for is_subtype) ---------------------------- *)
Fixpoint ty_size (t : ty) : nat :=
  match t with
  | TAny | TParam _ | TErr _ => 1
  | TTuple l => S (fold_right (fun x acc => ty_size x + acc) 0 l)
  | TFun _ ps r => S (fold_right (fun x acc => ty_size x + acc) 0 ps + ty_size r)
  | TUser _ _ args => S (fold_right (fun x acc => ty_size x + acc) 0 args)
  end.
Definition ty_lsize (l : list ty) : nat := fold_right (fun x acc => ty_size x + acc) 0 l.

(* ---- is_subtype ----------------------------------------------------------- *)
(* `lhs.iter().zip(rhs).all(..)` / `for (l, r) in lhs.iter().zip(rhs) { if !.. { return false } }`:
   zip stops at the shorter list; the first `false` ends the loop.  `None` = the recursive
   call ran out of fuel. *)
Fixpoint all2o (rec : ty -> ty -> option bool) (l1 l2 : list ty) : option bool :=
  match l1, l2 with
  | x :: xs, y :: ys =>
      match rec x y with
      | Some true => all2o rec xs ys
      | r => r
      end
  | _, _ => Some true
  end.

(* One unfolding of `is_subtype(lhs, rhs)`, arm by arm in the order of the Rust `match`;
   `rec` stands for the recursive calls. *)
Definition sub_step (rec : ty -> ty -> option bool) (a b : ty) : option bool :=
  match b with
  | TAny => Some true                                        (* (_, Type::Any) => true *)
  | _ =>
    if is_no_value a then Some true else                     (* (_, _) if lhs.is_no_value() *)
    match a, b with
    | TErr _, _ => Some true                                 (* (Type::Error, _) *)
    | _, TErr _ => Some true                                 (* (_, Type::Error) *)
    | TParam x, TParam y => Some (name_eqb x y)
    | TParam _, _ => Some false
    | TTuple l1, TTuple l2 =>
        if Nat.eqb (List.length l1) (List.length l2) then all2o rec l1 l2 else Some false
    | TTuple _, _ => Some false
    | TFun _ p1 r1, TFun _ p2 r2 =>
        if negb (Nat.eqb (List.length p1) (List.length p2)) then Some false else
        match all2o (fun l r => rec r l) p1 p2 with          (* is_subtype(rhs_param, lhs_param) *)
        | Some true => rec r1 r2
        | r => r
        end
    | TFun _ _ _, _ => Some false
    | TUser _ n1 a1, TUser _ n2 a2 =>                        (* kind: _ on both sides *)
        if negb (name_eqb n1 n2) then Some false else all2o rec a1 a2   (* zip: NO length test *)
    | TUser _ _ _, _ => Some false
    | TAny, _ => Some false
    end
  end.

Fixpoint is_subtype_fuel (fuel : nat) (a b : ty) : option bool :=
  match fuel with
  | O => None
  | S f => sub_step (is_subtype_fuel f) a b
  end.

(* The executable subtype test.  `ty_size a + ty_size b` is always enough fuel
   (TypesProps.sub_fuel_enough), so the `None` branch is dead. *)
Definition is_subtype (a b : ty) : bool :=
  match is_subtype_fuel (ty_size a + ty_size b) a b with Some r => r | None => false end.

(* is_subtype_not_error *)
Definition is_subtype_not_error (a b : ty) : bool := negb (is_err a) && is_subtype a b.

(* ---- derived `==` on Type -------------------------------------------------- *)
Fixpoint ty_eqb (a b : ty) : bool :=
  let fix go (l1 l2 : list ty) : bool :=
    match l1, l2 with
    | [], [] => true
    | x :: xs, y :: ys => ty_eqb x y && go xs ys
    | _, _ => false
    end in
  match a, b with
  | TAny, TAny => true
  | TTuple l1, TTuple l2 => go l1 l2
  | TFun t1 p1 r1, TFun t2 p2 r2 => N.eqb t1 t2 && go p1 p2 && ty_eqb r1 r2
  | TUser k1 n1 a1, TUser k2 n2 a2 => kind_eqb k1 k2 && name_eqb n1 n2 && go a1 a2
  | TParam x, TParam y => name_eqb x y
  | TErr t1, TErr t2 => N.eqb t1 t2
  | _, _ => false
  end.

(* ---- unify ------------------------------------------------------------------ *)
Fixpoint unify (a b : ty) {struct a} : option ty :=
  if is_any a || is_any b then Some TAny else
  if is_no_value a || is_err a then Some b else
  if is_no_value b || is_err b then Some a else
  if ty_eqb a b then Some a else
  match a, b with
  | TUser k1 n1 a1, TUser k2 n2 a2 =>
      if negb (kind_eqb k1 k2) || negb (name_eqb n1 n2) || negb (Nat.eqb (List.length a1) (List.length a2))
      then None else
      match (fix go (l1 l2 : list ty) : option (list ty) :=
               match l1, l2 with
               | x :: xs, y :: ys =>
                   match unify x y with                       (* unify(arg_1, arg_2)? *)
                   | None => None
                   | Some u => match go xs ys with None => None | Some us => Some (u :: us) end
                   end
               | _, _ => Some []
               end) a1 a2 with
      | None => None
      | Some us => Some (TUser k1 n1 us)
      end
  | _, _ => None
  end.

(* unify_all: fold from Type::no_value(), stop at the first failure. *)
Fixpoint unify_all_from (acc : ty) (ts : list ty) : option ty :=
  match ts with
  | [] => Some acc
  | t :: ts' => match unify acc t with None => None | Some u => unify_all_from u ts' end
  end.
Definition unify_all (ts : list ty) : option ty := unify_all_from no_value ts.

(* ---- the call sites (type_checker.rs) -------------------------------------- *)
(* list / dict literal (infer): Err => diagnostic + Type::Any *)
Definition site_list (items : list ty) : ty :=
  t_list (match unify_all items with Some t => t | None => TAny end).
Definition site_dict (values : list ty) : ty :=
  t_dict (match unify_all values with Some t => t | None => TAny end).
(* list literal checked against List<T>: unify_all(..).unwrap_or(Type::error(..)) *)
Definition site_check_list (items : list ty) : ty :=
  t_list (match unify_all items with Some t => t | None => TErr 1 end).
(* if/else, try/catch: None => diagnostic + Type::error(..) *)
Definition site_branches (t1 t2 : ty) : ty :=
  match unify t1 t2 with Some t => t | None => TErr 1 end.
(* match: with expected type Any as if/else; otherwise falls back to the expected type *)
Definition site_match (expected : ty) (cases : list ty) : ty :=
  match expected with
  | TAny => match unify_all cases with Some t => t | None => TErr 1 end
  | _ => match unify_all cases with
         | Some t => if is_no_value t then expected else t
         | None => expected
         end
  end.

(* ---- well-formedness -------------------------------------------------------- *)
(* A signature gives every type name its number of type parameters.  A type is
   well-formed when every user-defined type in it is applied to exactly that
   many arguments (tuples and functions have any arity). *)
Definition sig := tname -> nat.
Fixpoint ty_wf (Sg : sig) (t : ty) : bool :=
  match t with
  | TAny | TParam _ | TErr _ => true
  | TTuple l => forallb (ty_wf Sg) l
  | TFun _ ps r => forallb (ty_wf Sg) ps && ty_wf Sg r
  | TUser _ n args => Nat.eqb (List.length args) (Sg n) && forallb (ty_wf Sg) args
  end.
(* No checker error anywhere inside. *)
Fixpoint ty_no_err (t : ty) : bool :=
  match t with
  | TErr _ => false
  | TAny | TParam _ => true
  | TTuple l => forallb ty_no_err l
  | TFun _ ps r => forallb ty_no_err ps && ty_no_err r
  | TUser _ _ args => forallb ty_no_err args
  end.
Definition ty_ok (Sg : sig) (t : ty) : bool := ty_wf Sg t && ty_no_err t.

(* The prelude's arities, used by examples and by the drivers' generator. *)
Definition prelude_sig : sig := fun n =>
  if name_eqb n n_List then 1 else if name_eqb n n_Dict then 1 else
  if name_eqb n n_Option then 1 else if name_eqb n n_Result then 2 else 0.
