(* TypesProps.v -- proofs about the model in Types.v (C14, C15). *)
From Coq Require Import List Bool Arith NArith String Lia.
From Garden Require Import Types.
Import ListNotations.
Open Scope string_scope.

Arguments is_no_value : simpl never.

(* ---- names ------------------------------------------------------------------ *)
Lemma name_eqb_eq a b : name_eqb a b = true <-> a = b.
Proof.
  revert b; induction a as [|x a IH]; intros [|y b]; cbn; split; try discriminate; try reflexivity.
  - intros H. apply andb_true_iff in H as [H1 H2]. apply N.eqb_eq in H1. apply IH in H2. congruence.
  - intros H. injection H as -> ->. rewrite N.eqb_refl. apply IH. reflexivity.
Qed.
Lemma name_eqb_refl a : name_eqb a a = true.
Proof. apply name_eqb_eq. reflexivity. Qed.
Lemma name_eqb_neq a b : name_eqb a b = false <-> a <> b.
Proof. rewrite <- name_eqb_eq. destruct (name_eqb a b); split; congruence. Qed.

(* ---- sizes ------------------------------------------------------------------ *)
Lemma size_pos t : 0 < ty_size t.
Proof. destruct t; cbn; lia. Qed.

Lemma in_lsize x l : In x l -> ty_size x <= ty_lsize l.
Proof.
  induction l as [|y l IH]; cbn; [tauto|].
  intros [->|H]; [lia|]. apply IH in H. unfold ty_lsize in H. lia.
Qed.

Lemma size_tuple l : ty_size (TTuple l) = S (ty_lsize l). Proof. reflexivity. Qed.
Lemma size_fun t ps r : ty_size (TFun t ps r) = S (ty_lsize ps + ty_size r). Proof. reflexivity. Qed.
Lemma size_user k n l : ty_size (TUser k n l) = S (ty_lsize l). Proof. reflexivity. Qed.

(* ---- zip-all ---------------------------------------------------------------- *)
(* boolean zip-all with truncation: what all2o computes once fuel is enough *)
Fixpoint all2 (f : ty -> ty -> bool) (l1 l2 : list ty) : bool :=
  match l1, l2 with
  | x :: xs, y :: ys => f x y && all2 f xs ys
  | _, _ => true
  end.

Lemma all2o_ext r1 r2 l1 l2 :
  (forall x y, In x l1 -> In y l2 -> r1 x y = r2 x y) -> all2o r1 l1 l2 = all2o r2 l1 l2.
Proof.
  revert l2; induction l1 as [|x xs IH]; intros [|y ys] H; cbn; try reflexivity.
  rewrite (H x y) by (cbn; auto). destruct (r2 x y) as [[|]|]; try reflexivity.
  apply IH. intros; apply H; cbn; auto.
Qed.

Lemma all2o_pure f l1 l2 : all2o (fun x y => Some (f x y)) l1 l2 = Some (all2 f l1 l2).
Proof.
  revert l2; induction l1 as [|x xs IH]; intros [|y ys]; cbn; try reflexivity.
  destruct (f x y); cbn; [apply IH | reflexivity].
Qed.

Lemma all2o_some r l1 l2 :
  (forall x y, In x l1 -> In y l2 -> r x y <> None) -> all2o r l1 l2 <> None.
Proof.
  revert l2; induction l1 as [|x xs IH]; intros [|y ys] H; cbn; try discriminate.
  pose proof (H x y (or_introl eq_refl) (or_introl eq_refl)) as Hxy.
  destruct (r x y) as [[|]|]; try discriminate; [|congruence].
  apply IH. intros; apply H; cbn; auto.
Qed.

(* ---- one unfolding of is_subtype, boolean form ------------------------------- *)
Definition sub_stepb (rec : ty -> ty -> bool) (a b : ty) : bool :=
  match b with
  | TAny => true
  | _ =>
    if is_no_value a then true else
    match a, b with
    | TErr _, _ => true
    | _, TErr _ => true
    | TParam x, TParam y => name_eqb x y
    | TParam _, _ => false
    | TTuple l1, TTuple l2 => Nat.eqb (List.length l1) (List.length l2) && all2 rec l1 l2
    | TTuple _, _ => false
    | TFun _ p1 r1, TFun _ p2 r2 =>
        Nat.eqb (List.length p1) (List.length p2) && all2 (fun l r => rec r l) p1 p2 && rec r1 r2
    | TFun _ _ _, _ => false
    | TUser _ n1 a1, TUser _ n2 a2 => name_eqb n1 n2 && all2 rec a1 a2
    | TUser _ _ _, _ => false
    | TAny, _ => false
    end
  end.

Lemma sub_step_pure f a b : sub_step (fun x y => Some (f x y)) a b = Some (sub_stepb f a b).
Proof.
  unfold sub_step, sub_stepb.
  destruct b; try reflexivity; destruct (is_no_value a); try reflexivity; destruct a; try reflexivity;
    repeat rewrite all2o_pure;
    repeat match goal with |- context[Nat.eqb ?x ?y] => destruct (Nat.eqb x y) end;
    repeat match goal with |- context[name_eqb ?x ?y] => destruct (name_eqb x y) end;
    cbn; try reflexivity.
  - destruct (all2 _ _ _); reflexivity.
Qed.

Lemma sub_step_ext r1 r2 a b :
  (forall x y, ty_size x + ty_size y < ty_size a + ty_size b -> r1 x y = r2 x y) ->
  sub_step r1 a b = sub_step r2 a b.
Proof.
  intros H. unfold sub_step.
  destruct b; try reflexivity; destruct (is_no_value a); try reflexivity; destruct a; try reflexivity.
  all: repeat match goal with |- context[Nat.eqb ?x ?y] => destruct (Nat.eqb x y) end;
       repeat match goal with |- context[name_eqb ?x ?y] => destruct (name_eqb x y) end;
       cbn [negb]; try reflexivity.
  - apply all2o_ext. intros x y Hx Hy. apply H. apply in_lsize in Hx, Hy. rewrite !size_tuple. lia.
  - rewrite (all2o_ext (fun l r => r1 r l) (fun l r => r2 r l)).
    + destruct (all2o _ _ _) as [[|]|]; try reflexivity. apply H. rewrite !size_fun. lia.
    + intros x y Hx Hy. apply H. apply in_lsize in Hx, Hy. rewrite !size_fun. lia.
  - apply all2o_ext. intros x y Hx Hy. apply H. apply in_lsize in Hx, Hy. rewrite !size_user. lia.
Qed.

Lemma sub_step_some r a b :
  (forall x y, ty_size x + ty_size y < ty_size a + ty_size b -> r x y <> None) -> sub_step r a b <> None.
Proof.
  intros H. unfold sub_step.
  destruct b; try discriminate; destruct (is_no_value a); try discriminate; destruct a; try discriminate.
  all: repeat match goal with |- context[Nat.eqb ?x ?y] => destruct (Nat.eqb x y) end;
       repeat match goal with |- context[name_eqb ?x ?y] => destruct (name_eqb x y) end;
       cbn [negb]; try discriminate.
  - apply all2o_some. intros x y Hx Hy. apply H. apply in_lsize in Hx, Hy. rewrite !size_tuple. lia.
  - pose proof (all2o_some (fun l r0 => r r0 l) params0 params) as Hs.
    destruct (all2o _ _ _) as [[|]|]; try discriminate.
    + apply H. rewrite !size_fun. lia.
    + apply Hs. intros x y Hx Hy. apply H. apply in_lsize in Hx, Hy. rewrite !size_fun. lia.
  - apply all2o_some. intros x y Hx Hy. apply H. apply in_lsize in Hx, Hy. rewrite !size_user. lia.
Qed.

(* ---- fuel is irrelevant once it covers ty_size a + ty_size b ----------------------- *)
Lemma sub_fuel_indep : forall n m a b,
  ty_size a + ty_size b <= n -> ty_size a + ty_size b <= m -> is_subtype_fuel n a b = is_subtype_fuel m a b.
Proof.
  induction n as [|n IH]; intros m a b Hn Hm.
  - pose proof (size_pos a); lia.
  - destruct m as [|m]; [pose proof (size_pos a); lia|].
    cbn [is_subtype_fuel]. apply sub_step_ext. intros x y Hxy. apply IH; lia.
Qed.

Lemma sub_fuel_some : forall n a b, ty_size a + ty_size b <= n -> is_subtype_fuel n a b <> None.
Proof.
  induction n as [|n IH]; intros a b Hn.
  - pose proof (size_pos a); lia.
  - cbn [is_subtype_fuel]. apply sub_step_some. intros x y Hxy. apply IH; lia.
Qed.

(* fuel_enough: the fuelled mirror never runs out of fuel from ty_size a + ty_size b on,
   and its answer is `is_subtype a b`. *)
Lemma sub_fuel_enough_lemma n a b : ty_size a + ty_size b <= n -> is_subtype_fuel n a b = Some (is_subtype a b).
Proof.
  intros Hn. unfold is_subtype.
  rewrite (sub_fuel_indep n (ty_size a + ty_size b) a b Hn (le_n _)).
  pose proof (sub_fuel_some (ty_size a + ty_size b) a b (le_n _)) as Hs.
  destruct (is_subtype_fuel (ty_size a + ty_size b) a b); congruence.
Qed.

(* The characteristic equation: `is_subtype` is a fixed point of one unfolding of is_subtype. *)
Lemma sub_unfold a b : is_subtype a b = sub_stepb is_subtype a b.
Proof.
  pose proof (sub_fuel_enough_lemma (S (ty_size a + ty_size b)) a b (le_S _ _ (le_n _))) as H.
  cbn [is_subtype_fuel] in H.
  rewrite (sub_step_ext _ (fun x y => Some (is_subtype x y))) in H.
  - rewrite sub_step_pure in H. congruence.
  - intros x y Hxy. apply sub_fuel_enough_lemma. lia.
Qed.

(* ---- simple equations ---------------------------------------------------------- *)
Lemma sub_any_r a : is_subtype a TAny = true.
Proof. rewrite sub_unfold. reflexivity. Qed.

Lemma sub_novalue_l a b : is_no_value a = true -> is_subtype a b = true.
Proof. intros H. rewrite sub_unfold. unfold sub_stepb. rewrite H. destruct b; reflexivity. Qed.

Lemma sub_err_l t b : is_subtype (TErr t) b = true.
Proof. rewrite sub_unfold. destruct b; reflexivity. Qed.

Lemma sub_err_r a t : is_subtype a (TErr t) = true.
Proof. rewrite sub_unfold. unfold sub_stepb. destruct (is_no_value a); [reflexivity|]. destruct a; reflexivity. Qed.

Lemma sub_tuple l1 l2 :
  is_subtype (TTuple l1) (TTuple l2) = Nat.eqb (List.length l1) (List.length l2) && all2 is_subtype l1 l2.
Proof. rewrite sub_unfold. reflexivity. Qed.

Lemma sub_fun t1 p1 r1 t2 p2 r2 :
  is_subtype (TFun t1 p1 r1) (TFun t2 p2 r2) =
  Nat.eqb (List.length p1) (List.length p2) && all2 (fun l r => is_subtype r l) p1 p2 && is_subtype r1 r2.
Proof. rewrite sub_unfold. reflexivity. Qed.

Lemma sub_user k1 n1 a1 k2 n2 a2 :
  is_subtype (TUser k1 n1 a1) (TUser k2 n2 a2) =
  if is_no_value (TUser k1 n1 a1) then true else name_eqb n1 n2 && all2 is_subtype a1 a2.
Proof. rewrite sub_unfold. reflexivity. Qed.

Lemma sub_param x y : is_subtype (TParam x) (TParam y) = name_eqb x y.
Proof. rewrite sub_unfold. reflexivity. Qed.

(* ---- all2 toolbox ---------------------------------------------------------------- *)
Lemma all2_refl (f : ty -> ty -> bool) l : (forall x, In x l -> f x x = true) -> all2 f l l = true.
Proof.
  induction l as [|x l IH]; intros H; cbn; [reflexivity|].
  rewrite H by (cbn; auto). apply IH. intros; apply H; cbn; auto.
Qed.

Lemma all2_Forall2 (f : ty -> ty -> bool) l1 l2 :
  List.length l1 = List.length l2 ->
  (all2 f l1 l2 = true <-> Forall2 (fun x y => f x y = true) l1 l2).
Proof.
  revert l2; induction l1 as [|x xs IH]; intros [|y ys] Hl; cbn in *; try discriminate.
  - split; constructor.
  - rewrite andb_true_iff, IH by lia. split.
    + intros [? ?]; constructor; assumption.
    + intros H; inversion H; subst; auto.
Qed.

Lemma Forall2_all2 (f : ty -> ty -> bool) l1 l2 :
  Forall2 (fun x y => f x y = true) l1 l2 -> all2 f l1 l2 = true.
Proof. induction 1; cbn; [reflexivity|]. rewrite H. assumption. Qed.

Lemma Forall2_length' {A B} (R : A -> B -> Prop) l1 l2 : Forall2 R l1 l2 -> List.length l1 = List.length l2.
Proof. induction 1; cbn; congruence. Qed.

Lemma all2_trans (R1 R2 R3 : ty -> ty -> bool) l1 l2 l3 :
  (forall x y z, In x l1 -> In y l2 -> In z l3 -> R1 x y = true -> R2 y z = true -> R3 x z = true) ->
  List.length l1 = List.length l2 -> List.length l2 = List.length l3 ->
  all2 R1 l1 l2 = true -> all2 R2 l2 l3 = true -> all2 R3 l1 l3 = true.
Proof.
  revert l2 l3; induction l1 as [|x xs IH]; intros [|y ys] [|z zs] H L1 L2 H1 H2; cbn in *; try discriminate; try reflexivity.
  apply andb_true_iff in H1 as [H1 H1'], H2 as [H2 H2'].
  rewrite (H x y z) by auto. cbn. apply (IH ys zs); auto. intros; eapply H; eauto.
Qed.

Lemma forallb_In (f : ty -> bool) l x : forallb f l = true -> In x l -> f x = true.
Proof. intros H Hx. rewrite forallb_forall in H. auto. Qed.

(* ---- C14: reflexivity (holds for EVERY type, well-formed or not) ----------------- *)
Lemma sub_refl_size : forall n a, ty_size a <= n -> is_subtype a a = true.
Proof.
  induction n as [|n IH]; intros a Hn; [pose proof (size_pos a); lia|].
  destruct a.
  - apply sub_any_r.
  - rewrite sub_tuple, Nat.eqb_refl. cbn. apply all2_refl.
    intros x Hx. apply IH. apply in_lsize in Hx. rewrite size_tuple in Hn. lia.
  - rewrite sub_fun, Nat.eqb_refl. rewrite size_fun in Hn. cbn. rewrite IH by lia. rewrite andb_true_r.
    apply (all2_refl (fun l r => is_subtype r l)). intros x Hx. apply IH. apply in_lsize in Hx. lia.
  - rewrite sub_user. destruct (is_no_value _); [reflexivity|]. rewrite name_eqb_refl. cbn.
    apply all2_refl. intros x Hx. apply IH. apply in_lsize in Hx. rewrite size_user in Hn. lia.
  - rewrite sub_param. apply name_eqb_refl.
  - apply sub_err_l.
Qed.

Lemma sub_refl_lemma a : is_subtype a a = true.
Proof. apply (sub_refl_size (ty_size a)). lia. Qed.

(* ---- inversion of `is_subtype a b = true` by the head of a ---------------------------- *)
Lemma is_err_true t : is_err t = true -> exists g, t = TErr g.
Proof. destruct t; try discriminate; eauto. Qed.

Lemma no_err_not_err t : ty_no_err t = true -> is_err t = true -> False.
Proof. destruct t; cbn; congruence. Qed.

Lemma sub_any_l_inv c : is_subtype TAny c = true -> c = TAny \/ is_err c = true.
Proof. rewrite sub_unfold. destruct c; cbn; auto; discriminate. Qed.

Lemma sub_above_top a c : is_subtype TAny c = true -> is_subtype a c = true.
Proof.
  intros H. apply sub_any_l_inv in H as [->|H]; [apply sub_any_r|].
  apply is_err_true in H as [g ->]. apply sub_err_r.
Qed.

Lemma sub_param_l_inv x b : is_subtype (TParam x) b = true -> b = TAny \/ is_err b = true \/ b = TParam x.
Proof.
  rewrite sub_unfold. destruct b; cbn; auto; try discriminate.
  intros H. apply name_eqb_eq in H. subst; auto.
Qed.

Lemma sub_tuple_l_inv l1 b : is_subtype (TTuple l1) b = true ->
  b = TAny \/ is_err b = true \/
  exists l2, b = TTuple l2 /\ List.length l1 = List.length l2 /\ all2 is_subtype l1 l2 = true.
Proof.
  rewrite sub_unfold. destruct b; cbn; auto; try discriminate.
  intros H. apply andb_true_iff in H as [H1 H2]. apply Nat.eqb_eq in H1. eauto 8.
Qed.

Lemma sub_fun_l_inv t1 p1 r1 b : is_subtype (TFun t1 p1 r1) b = true ->
  b = TAny \/ is_err b = true \/
  exists t2 p2 r2, b = TFun t2 p2 r2 /\ List.length p1 = List.length p2 /\
                   all2 (fun l r => is_subtype r l) p1 p2 = true /\ is_subtype r1 r2 = true.
Proof.
  rewrite sub_unfold. destruct b; cbn; auto; try discriminate.
  intros H. apply andb_true_iff in H as [H H3]. apply andb_true_iff in H as [H1 H2].
  apply Nat.eqb_eq in H1. right; right. eauto 10.
Qed.

Lemma sub_user_l_inv k1 n a1 b : is_no_value (TUser k1 n a1) = false -> is_subtype (TUser k1 n a1) b = true ->
  b = TAny \/ is_err b = true \/
  exists k2 a2, b = TUser k2 n a2 /\ all2 is_subtype a1 a2 = true.
Proof.
  intros Hnv. rewrite sub_unfold. unfold sub_stepb. rewrite Hnv.
  destruct b; cbn; auto; try discriminate.
  intros H. apply andb_true_iff in H as [H1 H2]. apply name_eqb_eq in H1. subst. eauto 8.
Qed.

Lemma is_no_value_name k1 k2 n a1 a2 : is_no_value (TUser k1 n a1) = is_no_value (TUser k2 n a2).
Proof. reflexivity. Qed.

(* ---- C14: transitivity ------------------------------------------------------------ *)
(* ty_wf: every user-defined name is applied to the signature's number of arguments, so the
   `zip` in the UserDefined arm never truncates.  ty_no_err is needed on the MIDDLE type only
   (Error is both above and below everything). *)
Lemma sub_trans_size (Sg : sig) : forall n a b c,
  ty_size a + ty_size b + ty_size c <= n ->
  ty_wf Sg a = true -> ty_wf Sg b = true -> ty_wf Sg c = true -> ty_no_err b = true ->
  is_subtype a b = true -> is_subtype b c = true -> is_subtype a c = true.
Proof.
  induction n as [|n IH]; intros a b c Hn Wa Wb Wc Nb Hab Hbc; [pose proof (size_pos a); lia|].
  destruct (is_no_value a) eqn:Ea; [apply sub_novalue_l; assumption|].
  destruct a as [|l1|t1 p1 r1|k1 n1 a1|x|g].
  - (* Any *) apply sub_any_l_inv in Hab as [->|He]; [assumption|]. destruct (no_err_not_err _ Nb He).
  - (* Tuple *)
    apply sub_tuple_l_inv in Hab as [->|[He|(l2 & -> & L12 & H12)]];
      [apply sub_above_top; assumption | destruct (no_err_not_err _ Nb He) |].
    apply sub_tuple_l_inv in Hbc as [->|[He|(l3 & -> & L23 & H23)]];
      [apply sub_any_r | apply is_err_true in He as [g ->]; apply sub_err_r |].
    rewrite sub_tuple. replace (List.length l1) with (List.length l3) by congruence.
    rewrite Nat.eqb_refl. cbn [andb].
    cbn [ty_wf ty_no_err] in Wa, Wb, Wc, Nb. rewrite !size_tuple in Hn.
    apply (all2_trans is_subtype is_subtype is_subtype l1 l2 l3); auto.
    intros x y z Hx Hy Hz Hxy Hyz.
    apply (IH x y z); eauto using forallb_In.
    apply in_lsize in Hx, Hy, Hz. lia.
  - (* Fun *)
    apply sub_fun_l_inv in Hab as [->|[He|(t2 & p2 & r2 & -> & L12 & H12 & R12)]];
      [apply sub_above_top; assumption | destruct (no_err_not_err _ Nb He) |].
    apply sub_fun_l_inv in Hbc as [->|[He|(t3 & p3 & r3 & -> & L23 & H23 & R23)]];
      [apply sub_any_r | apply is_err_true in He as [g ->]; apply sub_err_r |].
    rewrite sub_fun. replace (List.length p1) with (List.length p3) by congruence.
    rewrite Nat.eqb_refl. cbn [andb].
    cbn [ty_wf ty_no_err] in Wa, Wb, Wc, Nb. rewrite !size_fun in Hn.
    apply andb_true_iff in Wa as [Wa Wa'], Wb as [Wb Wb'], Wc as [Wc Wc'], Nb as [Nb Nb'].
    apply andb_true_iff; split.
    + apply (all2_trans (fun l r => is_subtype r l) (fun l r => is_subtype r l) (fun l r => is_subtype r l) p1 p2 p3); auto.
      intros x y z Hx Hy Hz Hyx Hzy.
      apply (IH z y x); eauto using forallb_In.
      apply in_lsize in Hx, Hy, Hz. lia.
    + apply (IH r1 r2 r3); auto. lia.
  - (* User *)
    apply sub_user_l_inv in Hab as [->|[He|(k2 & a2 & -> & H12)]];
      [apply sub_above_top; assumption | destruct (no_err_not_err _ Nb He) | | assumption].
    rewrite (is_no_value_name k1 k2 n1 a1 a2) in Ea.
    apply sub_user_l_inv in Hbc as [->|[He|(k3 & a3 & -> & H23)]];
      [apply sub_any_r | apply is_err_true in He as [g ->]; apply sub_err_r | | assumption].
    rewrite sub_user. rewrite (is_no_value_name k1 k2 n1 a1 a2), Ea. rewrite name_eqb_refl. cbn [andb].
    cbn [ty_wf ty_no_err] in Wa, Wb, Wc, Nb. rewrite !size_user in Hn.
    apply andb_true_iff in Wa as [La Wa], Wb as [Lb Wb], Wc as [Lc Wc].
    apply Nat.eqb_eq in La, Lb, Lc.
    apply (all2_trans is_subtype is_subtype is_subtype a1 a2 a3); try congruence.
    intros x y z Hx Hy Hz Hxy Hyz.
    apply (IH x y z); eauto using forallb_In.
    apply in_lsize in Hx, Hy, Hz. lia.
  - (* Param *)
    apply sub_param_l_inv in Hab as [->|[He| ->]];
      [apply sub_above_top; assumption | destruct (no_err_not_err _ Nb He) | assumption].
  - apply sub_err_l.
Qed.

Lemma sub_trans_lemma (Sg : sig) a b c :
  ty_wf Sg a = true -> ty_wf Sg b = true -> ty_wf Sg c = true -> ty_no_err b = true ->
  is_subtype a b = true -> is_subtype b c = true -> is_subtype a c = true.
Proof. apply (sub_trans_size Sg (ty_size a + ty_size b + ty_size c)). lia. Qed.

(* ---- C14: top, bottom, variance ---------------------------------------------------- *)
Lemma any_top_lemma a : is_subtype a TAny = true.
Proof. apply sub_any_r. Qed.

(* ... and nothing else is above Any (Error aside) *)
Lemma any_top_strict_lemma b : ty_no_err b = true -> is_subtype TAny b = true -> b = TAny.
Proof. intros N H. apply sub_any_l_inv in H as [->|H]; [reflexivity|destruct (no_err_not_err _ N H)]. Qed.

Lemma novalue_bottom_lemma b : is_subtype no_value b = true.
Proof. apply sub_novalue_l. reflexivity. Qed.

(* ... and only NoValue-named types are below NoValue (Error aside) *)
Lemma novalue_bottom_strict_lemma a : ty_no_err a = true -> is_subtype a no_value = true -> is_no_value a = true.
Proof.
  intros N H. destruct (is_no_value a) eqn:E; [reflexivity|]. exfalso.
  destruct a.
  - apply sub_any_l_inv in H as [H|H]; discriminate.
  - apply sub_tuple_l_inv in H as [H|[H|(l2 & H & _)]]; discriminate.
  - apply sub_fun_l_inv in H as [H|[H|(? & ? & ? & H & _)]]; discriminate.
  - apply sub_user_l_inv in H as [H|[H|(? & ? & H & _)]]; try discriminate; [|assumption].
    unfold no_value in H. injection H as _ Hn _. subst name. discriminate.
  - apply sub_param_l_inv in H as [H|[H|H]]; discriminate.
  - discriminate.
Qed.

Lemma tuple_covariant_lemma l1 l2 :
  is_subtype (TTuple l1) (TTuple l2) = true <-> Forall2 (fun x y => is_subtype x y = true) l1 l2.
Proof.
  rewrite sub_tuple, andb_true_iff, Nat.eqb_eq. split.
  - intros [L H]. apply all2_Forall2; assumption.
  - intros H. split; [eapply Forall2_length'; eassumption | apply Forall2_all2; assumption].
Qed.

Lemma user_covariant_lemma k1 k2 n a1 a2 :
  Forall2 (fun x y => is_subtype x y = true) a1 a2 -> is_subtype (TUser k1 n a1) (TUser k2 n a2) = true.
Proof.
  intros H. rewrite sub_user. destruct (is_no_value _); [reflexivity|].
  rewrite name_eqb_refl. apply Forall2_all2; assumption.
Qed.

(* converse: on equal arities (well-formedness) a non-bottom user type is below another
   only if the names agree and the arguments are pointwise below *)
Lemma user_covariant_inv_lemma k1 k2 n1 n2 a1 a2 :
  n1 <> n_NoValue -> List.length a1 = List.length a2 ->
  is_subtype (TUser k1 n1 a1) (TUser k2 n2 a2) = true ->
  n1 = n2 /\ Forall2 (fun x y => is_subtype x y = true) a1 a2.
Proof.
  intros Hn L H. rewrite sub_user in H.
  replace (is_no_value (TUser k1 n1 a1)) with false in H
    by (symmetry; unfold is_no_value; apply name_eqb_neq; assumption).
  apply andb_true_iff in H as [H1 H2]. apply name_eqb_eq in H1.
  split; [assumption | apply all2_Forall2; assumption].
Qed.

Lemma fun_contra_co_lemma t1 p1 r1 t2 p2 r2 :
  is_subtype (TFun t1 p1 r1) (TFun t2 p2 r2) = true <->
  Forall2 (fun x y => is_subtype y x = true) p1 p2 /\ is_subtype r1 r2 = true.
Proof.
  rewrite sub_fun, !andb_true_iff, Nat.eqb_eq. split.
  - intros [[L H] R]. split; [|assumption]. apply (all2_Forall2 (fun l r => is_subtype r l)); assumption.
  - intros [H R]. repeat split; [eapply Forall2_length'; eassumption | | assumption].
    apply (Forall2_all2 (fun l r => is_subtype r l)); assumption.
Qed.

(* Without well-formedness transitivity FAILS (zip truncation in the UserDefined arm): *)
Definition foo (args : list ty) := TUser KStruct (nm "Foo") args.
Lemma sub_trans_needs_wf_lemma :
  let a := foo [t_int; t_string] in let b := foo [t_int] in let c := foo [t_int; t_bool] in
  ty_no_err a = true /\ ty_no_err b = true /\ ty_no_err c = true /\
  is_subtype a b = true /\ is_subtype b c = true /\ is_subtype a c = false.
Proof. vm_compute. repeat split. Qed.

(* ... and with an Error in the middle it fails too: Int <: _ <: String. *)
Lemma sub_trans_needs_no_err_lemma :
  is_subtype t_int (TErr 0) = true /\ is_subtype (TErr 0) t_string = true /\ is_subtype t_int t_string = false.
Proof. vm_compute. repeat split. Qed.

(* ==================================================================================== *)
(* C15: unify                                                                            *)

Fixpoint eqb_list (f : ty -> ty -> bool) (l1 l2 : list ty) : bool :=
  match l1, l2 with
  | [], [] => true
  | x :: xs, y :: ys => f x y && eqb_list f xs ys
  | _, _ => false
  end.

Fixpoint map2o (f : ty -> ty -> option ty) (l1 l2 : list ty) : option (list ty) :=
  match l1, l2 with
  | x :: xs, y :: ys =>
      match f x y with
      | None => None
      | Some u => match map2o f xs ys with None => None | Some us => Some (u :: us) end
      end
  | _, _ => Some []
  end.

Lemma ty_eqb_go l1 l2 :
  (fix go (l1 l2 : list ty) : bool :=
     match l1, l2 with
     | [], [] => true
     | x :: xs, y :: ys => ty_eqb x y && go xs ys
     | _, _ => false
     end) l1 l2 = eqb_list ty_eqb l1 l2.
Proof. revert l2; induction l1 as [|x xs IH]; intros [|y ys]; cbn; try reflexivity. rewrite IH. reflexivity. Qed.

Lemma ty_eqb_unfold a b : ty_eqb a b =
  match a, b with
  | TAny, TAny => true
  | TTuple l1, TTuple l2 => eqb_list ty_eqb l1 l2
  | TFun t1 p1 r1, TFun t2 p2 r2 => N.eqb t1 t2 && eqb_list ty_eqb p1 p2 && ty_eqb r1 r2
  | TUser k1 n1 a1, TUser k2 n2 a2 => kind_eqb k1 k2 && name_eqb n1 n2 && eqb_list ty_eqb a1 a2
  | TParam x, TParam y => name_eqb x y
  | TErr t1, TErr t2 => N.eqb t1 t2
  | _, _ => false
  end.
Proof.
  destruct a, b; try reflexivity; cbn [ty_eqb].
  - apply ty_eqb_go.
  - rewrite <- ty_eqb_go. reflexivity.
  - rewrite <- ty_eqb_go. reflexivity.
Qed.

Lemma eqb_list_eq (f : ty -> ty -> bool) l1 l2 :
  (forall x y, In x l1 -> f x y = true -> x = y) -> eqb_list f l1 l2 = true -> l1 = l2.
Proof.
  revert l2; induction l1 as [|x xs IH]; intros [|y ys] H E; cbn in E; try discriminate; [reflexivity|].
  apply andb_true_iff in E as [E1 E2]. f_equal; [apply H; cbn; auto|]. apply IH; auto. intros; apply H; cbn; auto.
Qed.

Lemma eqb_list_refl (f : ty -> ty -> bool) l : (forall x, In x l -> f x x = true) -> eqb_list f l l = true.
Proof. induction l as [|x l IH]; intros H; cbn; [reflexivity|]. rewrite H by (cbn; auto). apply IH. intros; apply H; cbn; auto. Qed.

Lemma kind_eqb_eq a b : kind_eqb a b = true -> a = b.
Proof. destruct a, b; cbn; congruence. Qed.
Lemma kind_eqb_refl a : kind_eqb a a = true.
Proof. destruct a; reflexivity. Qed.

Lemma ty_eqb_eq_size : forall n a b, ty_size a <= n -> ty_eqb a b = true -> a = b.
Proof.
  induction n as [|n IH]; intros a b Hn E; [pose proof (size_pos a); lia|].
  rewrite ty_eqb_unfold in E. destruct a, b; try discriminate.
  - reflexivity.
  - f_equal. eapply eqb_list_eq; [|eassumption]. intros x y Hx. apply IH.
    apply in_lsize in Hx. rewrite size_tuple in Hn. lia.
  - rewrite size_fun in Hn. apply andb_true_iff in E as [E E3]. apply andb_true_iff in E as [E1 E2].
    apply N.eqb_eq in E1. apply IH in E3; [|lia]. subst. f_equal.
    eapply eqb_list_eq; [|eassumption]. intros x y Hx. apply IH. apply in_lsize in Hx. lia.
  - rewrite size_user in Hn. apply andb_true_iff in E as [E E3]. apply andb_true_iff in E as [E1 E2].
    apply kind_eqb_eq in E1. apply name_eqb_eq in E2. subst. f_equal.
    eapply eqb_list_eq; [|eassumption]. intros x y Hx. apply IH. apply in_lsize in Hx. lia.
  - apply name_eqb_eq in E. congruence.
  - apply N.eqb_eq in E. congruence.
Qed.

Lemma ty_eqb_eq a b : ty_eqb a b = true -> a = b.
Proof. apply (ty_eqb_eq_size (ty_size a)). lia. Qed.

Lemma ty_eqb_refl_size : forall n a, ty_size a <= n -> ty_eqb a a = true.
Proof.
  induction n as [|n IH]; intros a Hn; [pose proof (size_pos a); lia|].
  rewrite ty_eqb_unfold. destruct a.
  - reflexivity.
  - apply eqb_list_refl. intros x Hx. apply IH. apply in_lsize in Hx. rewrite size_tuple in Hn. lia.
  - rewrite size_fun in Hn. rewrite N.eqb_refl, IH by lia. rewrite andb_true_r. cbn.
    apply eqb_list_refl. intros x Hx. apply IH. apply in_lsize in Hx. lia.
  - rewrite size_user in Hn. rewrite kind_eqb_refl, name_eqb_refl. cbn.
    apply eqb_list_refl. intros x Hx. apply IH. apply in_lsize in Hx. lia.
  - apply name_eqb_refl.
  - apply N.eqb_refl.
Qed.

Lemma ty_eqb_refl a : ty_eqb a a = true.
Proof. apply (ty_eqb_refl_size (ty_size a)). lia. Qed.

(* the derived `==` is equality *)
Lemma ty_eqb_spec a b : ty_eqb a b = true <-> a = b.
Proof. split; [apply ty_eqb_eq | intros ->; apply ty_eqb_refl]. Qed.

(* ---- unfolding unify ---------------------------------------------------------------- *)
Lemma unify_go l1 l2 :
  (fix go (l1 l2 : list ty) : option (list ty) :=
     match l1, l2 with
     | x :: xs, y :: ys =>
         match unify x y with
         | None => None
         | Some u => match go xs ys with None => None | Some us => Some (u :: us) end
         end
     | _, _ => Some []
     end) l1 l2 = map2o unify l1 l2.
Proof. revert l2; induction l1 as [|x xs IH]; intros [|y ys]; cbn; try reflexivity. rewrite IH. reflexivity. Qed.

Definition unify_body (a b : ty) : option ty :=
  if is_any a || is_any b then Some TAny else
  if is_no_value a || is_err a then Some b else
  if is_no_value b || is_err b then Some a else
  if ty_eqb a b then Some a else
  match a, b with
  | TUser k1 n1 a1, TUser k2 n2 a2 =>
      if negb (kind_eqb k1 k2) || negb (name_eqb n1 n2) || negb (Nat.eqb (List.length a1) (List.length a2))
      then None else
      match map2o unify a1 a2 with
      | None => None
      | Some us => Some (TUser k1 n1 us)
      end
  | _, _ => None
  end.

Lemma unify_unfold a b : unify a b = unify_body a b.
Proof.
  unfold unify_body. destruct a; try reflexivity.
  destruct b; try reflexivity.
  cbn [unify]. rewrite unify_go. reflexivity.
Qed.

(* ---- map2o toolbox ------------------------------------------------------------------- *)
Lemma map2o_upper (f : ty -> ty -> option ty) l1 l2 us :
  (forall x y u, In x l1 -> f x y = Some u -> is_subtype x u = true /\ is_subtype y u = true) ->
  map2o f l1 l2 = Some us -> all2 is_subtype l1 us = true /\ all2 is_subtype l2 us = true.
Proof.
  revert l2 us; induction l1 as [|x xs IH]; intros [|y ys] us H E; cbn in E; try (injection E as <-; split; reflexivity).
  destruct (f x y) as [u|] eqn:Eu; [|discriminate].
  destruct (map2o f xs ys) as [us'|] eqn:Em; [|discriminate]. injection E as <-.
  destruct (H x y u (or_introl eq_refl) Eu) as [H1 H2].
  destruct (IH ys us') as [I1 I2]; [intros; eapply H; cbn; eauto | assumption|].
  cbn. rewrite H1, H2, I1, I2. split; reflexivity.
Qed.

Lemma map2o_length (f : ty -> ty -> option ty) l1 l2 us :
  List.length l1 = List.length l2 -> map2o f l1 l2 = Some us -> List.length us = List.length l1.
Proof.
  revert l2 us; induction l1 as [|x xs IH]; intros [|y ys] us L E; cbn in *; try discriminate.
  - injection E as <-. reflexivity.
  - destruct (f x y); [|discriminate]. destruct (map2o f xs ys) eqn:Em; [|discriminate]. injection E as <-.
    cbn. f_equal. eapply IH; [|eassumption]. lia.
Qed.

Lemma map2o_forallb (P : ty -> bool) (f : ty -> ty -> option ty) l1 l2 us :
  (forall x y u, In x l1 -> f x y = Some u -> P x = true -> P y = true -> P u = true) ->
  forallb P l1 = true -> forallb P l2 = true -> map2o f l1 l2 = Some us -> forallb P us = true.
Proof.
  revert l2 us; induction l1 as [|x xs IH]; intros [|y ys] us H P1 P2 E; cbn in *; try (injection E as <-; reflexivity).
  destruct (f x y) as [u|] eqn:Eu; [|discriminate]. destruct (map2o f xs ys) as [us'|] eqn:Em; [|discriminate].
  injection E as <-. apply andb_true_iff in P1 as [Px P1], P2 as [Py P2]. cbn.
  rewrite (H x y u) by auto. cbn. eapply IH; eauto.
Qed.

Lemma map2o_idem (f : ty -> ty -> option ty) l :
  (forall x, In x l -> f x x = Some x) -> map2o f l l = Some l.
Proof. induction l as [|x l IH]; intros H; cbn; [reflexivity|]. rewrite H by (cbn; auto). rewrite IH; [reflexivity|]. intros; apply H; cbn; auto. Qed.

(* ---- C15: unify returns an upper bound (for ALL types, no hypothesis needed) -------- *)
Lemma unify_upper_size : forall n a b c, ty_size a <= n ->
  unify a b = Some c -> is_subtype a c = true /\ is_subtype b c = true.
Proof.
  induction n as [|n IH]; intros a b c Hn E; [pose proof (size_pos a); lia|].
  rewrite unify_unfold in E. unfold unify_body in E.
  destruct (is_any a || is_any b) eqn:E1.
  { injection E as <-. split; apply sub_any_r. }
  destruct (is_no_value a || is_err a) eqn:E2.
  { injection E as <-. split; [|apply sub_refl_lemma].
    apply orb_true_iff in E2 as [E2|E2]; [apply sub_novalue_l; assumption|].
    apply is_err_true in E2 as [g ->]. apply sub_err_l. }
  destruct (is_no_value b || is_err b) eqn:E3.
  { injection E as <-. split; [apply sub_refl_lemma|].
    apply orb_true_iff in E3 as [E3|E3]; [apply sub_novalue_l; assumption|].
    apply is_err_true in E3 as [g ->]. apply sub_err_l. }
  destruct (ty_eqb a b) eqn:E4.
  { injection E as <-. apply ty_eqb_eq in E4. subst b. split; apply sub_refl_lemma. }
  destruct a as [| | |k1 n1 a1| |]; try discriminate. destruct b as [| | |k2 n2 a2| |]; try discriminate.
  destruct (negb (kind_eqb k1 k2) || negb (name_eqb n1 n2) || negb (Nat.eqb (List.length a1) (List.length a2))) eqn:E5;
    [discriminate|].
  apply orb_false_iff in E5 as [E5 E7]. apply orb_false_iff in E5 as [E5 E6].
  apply negb_false_iff in E5, E6, E7. apply name_eqb_eq in E6. subst n2.
  destruct (map2o unify a1 a2) as [us|] eqn:Em; [|discriminate]. injection E as <-.
  apply orb_false_iff in E2 as [E2 _], E3 as [E3 _].
  rewrite size_user in Hn.
  destruct (map2o_upper unify a1 a2 us) as [U1 U2]; [|assumption|].
  { intros x y u Hx Hu. apply (IH x y u); [|assumption]. apply in_lsize in Hx. lia. }
  rewrite !sub_user, E2, E3, name_eqb_refl, U1, U2. split; reflexivity.
Qed.

Lemma unify_upper_lemma a b c : unify a b = Some c -> is_subtype a c = true /\ is_subtype b c = true.
Proof. apply (unify_upper_size (ty_size a)). lia. Qed.

(* ---- C15: combining equal types returns that type ------------------------------------ *)
Lemma unify_idem_lemma a : unify a a = Some a.
Proof.
  rewrite unify_unfold. unfold unify_body.
  destruct (is_any a) eqn:E1; [destruct a; try discriminate; reflexivity|]. cbn [orb].
  destruct (is_no_value a || is_err a); [reflexivity|].
  rewrite ty_eqb_refl. reflexivity.
Qed.

(* ---- unify preserves well-formedness and error-freedom --------------------------------- *)
Lemma unify_wf_size (Sg : sig) : forall n a b c, ty_size a <= n ->
  ty_wf Sg a = true -> ty_wf Sg b = true -> unify a b = Some c -> ty_wf Sg c = true.
Proof.
  induction n as [|n IH]; intros a b c Hn Wa Wb E; [pose proof (size_pos a); lia|].
  rewrite unify_unfold in E. unfold unify_body in E.
  destruct (is_any a || is_any b); [injection E as <-; reflexivity|].
  destruct (is_no_value a || is_err a); [injection E as <-; assumption|].
  destruct (is_no_value b || is_err b); [injection E as <-; assumption|].
  destruct (ty_eqb a b); [injection E as <-; assumption|].
  destruct a as [| | |k1 n1 a1| |]; try discriminate. destruct b as [| | |k2 n2 a2| |]; try discriminate.
  destruct (negb (kind_eqb k1 k2) || negb (name_eqb n1 n2) || negb (Nat.eqb (List.length a1) (List.length a2))) eqn:E5;
    [discriminate|].
  apply orb_false_iff in E5 as [E5 E7]. apply negb_false_iff in E7. apply Nat.eqb_eq in E7.
  destruct (map2o unify a1 a2) as [us|] eqn:Em; [|discriminate]. injection E as <-.
  cbn [ty_wf] in *. apply andb_true_iff in Wa as [La Wa], Wb as [Lb Wb].
  rewrite (map2o_length _ _ _ _ E7 Em), La. cbn [andb]. rewrite size_user in Hn.
  eapply (map2o_forallb (ty_wf Sg) unify a1 a2); eauto.
  intros x y u Hx Hu Px Py. apply (IH x y u); auto. apply in_lsize in Hx. lia.
Qed.

Lemma unify_no_err_size : forall n a b c, ty_size a <= n ->
  ty_no_err a = true -> ty_no_err b = true -> unify a b = Some c -> ty_no_err c = true.
Proof.
  induction n as [|n IH]; intros a b c Hn Wa Wb E; [pose proof (size_pos a); lia|].
  rewrite unify_unfold in E. unfold unify_body in E.
  destruct (is_any a || is_any b); [injection E as <-; reflexivity|].
  destruct (is_no_value a || is_err a); [injection E as <-; assumption|].
  destruct (is_no_value b || is_err b); [injection E as <-; assumption|].
  destruct (ty_eqb a b); [injection E as <-; assumption|].
  destruct a as [| | |k1 n1 a1| |]; try discriminate. destruct b as [| | |k2 n2 a2| |]; try discriminate.
  destruct (negb (kind_eqb k1 k2) || negb (name_eqb n1 n2) || negb (Nat.eqb (List.length a1) (List.length a2)));
    [discriminate|].
  destruct (map2o unify a1 a2) as [us|] eqn:Em; [|discriminate]. injection E as <-.
  cbn [ty_no_err] in *. rewrite size_user in Hn.
  eapply (map2o_forallb ty_no_err unify a1 a2); eauto.
  intros x y u Hx Hu Px Py. apply (IH x y u); auto. apply in_lsize in Hx. lia.
Qed.

Lemma unify_ok (Sg : sig) a b c : ty_ok Sg a = true -> ty_ok Sg b = true -> unify a b = Some c -> ty_ok Sg c = true.
Proof.
  unfold ty_ok. rewrite !andb_true_iff. intros [Wa Na] [Wb Nb] E. split.
  - eapply (unify_wf_size Sg (ty_size a)); eauto.
  - eapply (unify_no_err_size (ty_size a)); eauto.
Qed.

(* ---- C15: unify_all ---------------------------------------------------------------------- *)
Lemma unify_all_from_upper (Sg : sig) : forall ts acc c,
  ty_ok Sg acc = true -> forallb (ty_ok Sg) ts = true -> unify_all_from acc ts = Some c ->
  is_subtype acc c = true /\ Forall (fun t => is_subtype t c = true) ts /\ ty_ok Sg c = true.
Proof.
  induction ts as [|t ts IH]; intros acc c Oa Ot E; cbn in E.
  - injection E as <-. split; [apply sub_refl_lemma|]. split; [constructor|assumption].
  - destruct (unify acc t) as [u|] eqn:Eu; [|discriminate].
    cbn in Ot. apply andb_true_iff in Ot as [Ot Ots].
    pose proof (unify_ok Sg acc t u Oa Ot Eu) as Ou.
    destruct (unify_upper_lemma acc t u Eu) as [Hau Htu].
    destruct (IH u c Ou Ots E) as (Huc & Hts & Oc).
    unfold ty_ok in Oa, Ot, Ou, Oc. apply andb_true_iff in Oa as [Wa Na], Ot as [Wt Nt], Ou as [Wu Nu], Oc as [Wc Nc].
    split; [eapply (sub_trans_lemma Sg acc u c); eauto|].
    split; [|unfold ty_ok; rewrite Wc, Nc; reflexivity].
    constructor; [eapply (sub_trans_lemma Sg t u c); eauto | assumption].
Qed.

Lemma unify_novalue_l t : unify no_value t = Some (if is_any t then TAny else t).
Proof. rewrite unify_unfold. unfold unify_body. destruct t; reflexivity. Qed.

Lemma unify_all_upper_ok (Sg : sig) ts c :
  forallb (ty_ok Sg) ts = true -> unify_all ts = Some c ->
  Forall (fun t => is_subtype t c = true) ts /\ ty_ok Sg c = true \/ ts = [].
Proof.
  intros Ot E. destruct ts as [|t ts]; [right; reflexivity|left].
  unfold unify_all in E. cbn [unify_all_from] in E. rewrite unify_novalue_l in E.
  cbn in Ot. apply andb_true_iff in Ot as [Ot Ots].
  assert (Ou : ty_ok Sg (if is_any t then TAny else t) = true) by (destruct (is_any t); [reflexivity|assumption]).
  destruct (unify_all_from_upper Sg ts _ c Ou Ots E) as (Huc & Hts & Oc).
  split; [|assumption]. constructor; [|assumption].
  destruct (is_any t) eqn:Ea; [|assumption].
  destruct t; try discriminate. assumption.
Qed.

Lemma unify_all_upper_lemma (Sg : sig) ts c :
  forallb (ty_ok Sg) ts = true -> unify_all ts = Some c -> Forall (fun t => is_subtype t c = true) ts.
Proof.
  intros Ot E. destruct (unify_all_upper_ok Sg ts c Ot E) as [[H _]| ->]; [assumption|constructor].
Qed.

Lemma unify_all_same_any_lemma t n : unify_all (repeat t (S n)) = Some t.
Proof.
  unfold unify_all. cbn [repeat unify_all_from]. rewrite unify_novalue_l.
  replace (if is_any t then TAny else t) with t by (destruct t; reflexivity).
  induction n as [|n IH]; cbn [repeat unify_all_from]; [reflexivity|].
  rewrite unify_idem_lemma. exact IH.
Qed.

(* ---- C15: the call sites -------------------------------------------------------------------- *)
Lemma Forall_true (P : ty -> Prop) l : (forall x, P x) -> Forall P l.
Proof. intros H. induction l; constructor; auto. Qed.

Lemma fallback_upper (Sg : sig) items fb :
  (forall t, is_subtype t fb = true) -> forallb (ty_ok Sg) items = true ->
  Forall (fun t => is_subtype t (match unify_all items with Some t => t | None => fb end) = true) items.
Proof.
  intros Hfb O. destruct (unify_all items) as [c|] eqn:E.
  - eapply unify_all_upper_lemma; eassumption.
  - apply Forall_true. assumption.
Qed.

Lemma infer_list_upper_lemma (Sg : sig) items : forallb (ty_ok Sg) items = true ->
  exists e, site_list items = t_list e /\ Forall (fun t => is_subtype t e = true) items.
Proof. intros O. eexists; split; [reflexivity|]. apply (fallback_upper Sg); [apply sub_any_r|assumption]. Qed.

Lemma infer_dict_upper_lemma (Sg : sig) values : forallb (ty_ok Sg) values = true ->
  exists e, site_dict values = t_dict e /\ Forall (fun t => is_subtype t e = true) values.
Proof. intros O. eexists; split; [reflexivity|]. apply (fallback_upper Sg); [apply sub_any_r|assumption]. Qed.

Lemma check_list_upper_lemma (Sg : sig) items : forallb (ty_ok Sg) items = true ->
  exists e, site_check_list items = t_list e /\ Forall (fun t => is_subtype t e = true) items.
Proof. intros O. eexists; split; [reflexivity|]. apply (fallback_upper Sg); [intros; apply sub_err_r|assumption]. Qed.

Lemma infer_branches_upper_lemma t1 t2 :
  is_subtype t1 (site_branches t1 t2) = true /\ is_subtype t2 (site_branches t1 t2) = true.
Proof.
  unfold site_branches. destruct (unify t1 t2) as [c|] eqn:E.
  - apply unify_upper_lemma; assumption.
  - split; apply sub_err_r.
Qed.

(* The Error fall-back is reported only together with a diagnostic: an error-free result is unify's. *)
Lemma infer_branches_no_err_lemma t1 t2 :
  ty_no_err (site_branches t1 t2) = true -> unify t1 t2 = Some (site_branches t1 t2).
Proof. unfold site_branches. destruct (unify t1 t2); [reflexivity|discriminate]. Qed.

Lemma infer_match_upper_lemma (Sg : sig) expected cases :
  forallb (ty_ok Sg) cases = true ->
  Forall (fun t => is_subtype t expected = true) cases ->     (* no diagnostic from check_block *)
  Forall (fun t => is_subtype t (site_match expected cases) = true) cases.
Proof.
  intros O Hexp. unfold site_match.
  assert (G : Forall (fun t => is_subtype t (match unify_all cases with
              | Some t => if is_no_value t then expected else t | None => expected end) = true) cases).
  { destruct (unify_all cases) as [c|] eqn:E; [|assumption].
    destruct (is_no_value c); [assumption|]. eapply unify_all_upper_lemma; eassumption. }
  destruct expected; try exact G.
  apply (fallback_upper Sg); [intros; apply sub_err_r|assumption].
Qed.

Lemma fallbacks_upper_lemma a g : is_subtype a TAny = true /\ is_subtype a (TErr g) = true.
Proof. split; [apply sub_any_r | apply sub_err_r]. Qed.
