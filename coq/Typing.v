(* C16: a model type checker `tc` and a reference semantics for the first-order
   core of Garden.

   MODEL FILE: definitions only.

   Fragment: Int / Bool / String literals, list literals of Ints (List<Int>),
   Option<T> values (`Some(e)`, `None`), variables, let, assignment, `+=` /
   `-=`, the binary operators, if / if-else, `match` on an Option with exactly
   the arms `Some(x)` and `None`, while, `for x in <List<Int>>`, blocks, pairs
   `(a, b)` with the destructuring `let (x, y) = e`,
   println / string_repr, early `return e`, calls of top-level functions whose
   parameters and return type are all annotated with Int, Bool, String, Unit,
   List<Int>, Option<T> or a pair type (T, U).

   `tc` is written to ACCEPT ONLY programs that garden's checker
   (src/checks/type_checker.rs) accepts without errors in this fragment; it is
   stricter in places (if-else / match branches must have comparable types, no
   function values, a list literal needs an Int item).
   That direction is validated by verdict correspondence (tools/props/C16.py).

   `ev` is a big-step evaluator with fuel.  Every runtime error class of the
   property is the distinguished outcome `TypeErr`: wrong operand / argument /
   condition / iterated / scrutinee type, wrong arity, calling something that is
   not a function, unknown variable, failed parameter or return annotation
   check, a `match` without an arm for the value.  Arithmetic
   failures (division by zero, overflow) are `OtherErr`. *)
From Coq Require Import ZArith NArith Bool List.
Import ListNotations.
Open Scope Z_scope.

Definition ident := N.

(* TNoValue: the type of `return e` and of the payload of a bare `None` (garden's NoValue); no value has it *)
(* TListEmpty: the type of the literal `[]` (garden's List<NoValue>), below List<Int> *)
Inductive ty := TInt | TBool | TStr | TUnit | TListInt | TListEmpty | TNoValue | TOpt (t : ty) | TPair (a b : ty).

Fixpoint ty_eqb (a b : ty) : bool :=
  match a, b with
  | TInt, TInt | TBool, TBool | TStr, TStr | TUnit, TUnit | TListInt, TListInt | TListEmpty, TListEmpty
  | TNoValue, TNoValue => true
  | TOpt x, TOpt y => ty_eqb x y
  | TPair x1 x2, TPair y1 y2 => ty_eqb x1 y1 && ty_eqb x2 y2
  | _, _ => false
  end.

(* garden's is_subtype on these types: NoValue is below everything, Option is covariant *)
Fixpoint sub (a b : ty) : bool :=
  match a, b with
  | TNoValue, _ => true
  | TOpt x, TOpt y => sub x y
  | TPair x1 x2, TPair y1 y2 => sub x1 y1 && sub x2 y2
  | TListEmpty, TListInt => true
  | _, _ => ty_eqb a b
  end.

(* the common type of two branches: the larger one when they are comparable *)
Definition join (a b : ty) : option ty :=
  if sub a b then Some b else if sub b a then Some a else None.

Inductive pat := PSome (x : ident) | PNone.

Inductive bop :=
| OArith (k : N)      (* + - * / % ** & |  : Int x Int -> Int; k = 0..7 *)
| OCmp (k : N)        (* < <= > >=         : Int x Int -> Bool *)
| OEq | ONeq          (* any two values    -> Bool *)
| OAnd | OOr          (* Bool x Bool       -> Bool *)
| OConcat.            (* String x String   -> String *)

Inductive tm :=
| TmInt (z : Z)
| TmBool (b : bool)
| TmStr (s : list N)
| TmList (l : list tm)
| TmVar (x : ident)
| TmBin (o : bop) (a b : tm)
| TmCall (f : ident) (args : list tm)
| TmPrintln (e : tm)
| TmRepr (e : tm)
| TmLet (x : ident) (e : tm)
| TmAssign (x : ident) (e : tm)
| TmUpd (minus : bool) (x : ident) (e : tm)
| TmIf (c : tm) (th : list tm) (el : option (list tm))
| TmWhile (c : tm) (b : list tm)
| TmSome (e : tm)
| TmNone
| TmMatch (sc : tm) (arms : list (pat * list tm))
| TmFor (x : ident) (it : tm) (b : list tm)
| TmReturn (e : tm)
| TmPair (a b : tm)
| TmLetPair (x y : ident) (e : tm).

Record fdef := { fparams : list (ident * ty); fret : ty; fbody : list tm }.
Definition fenv := list (ident * fdef).
Record program := { pfuns : fenv; pmain : list tm }.

Fixpoint assoc {A} (x : ident) (l : list (ident * A)) : option A :=
  match l with
  | [] => None
  | (y, v) :: l' => if N.eqb x y then Some v else assoc x l'
  end.

(* scoped environments: innermost block first (eval.rs block_bindings) *)
Fixpoint lookup {A} (x : ident) (r : list (list (ident * A))) : option A :=
  match r with
  | [] => None
  | s :: r' => match assoc x s with Some v => Some v | None => lookup x r' end
  end.

Definition bind {A} (x : ident) (v : A) (r : list (list (ident * A))) : list (list (ident * A)) :=
  match r with
  | s :: r' => ((x, v) :: s) :: r'
  | [] => [[(x, v)]]
  end.

Fixpoint set_assoc {A} (x : ident) (v : A) (s : list (ident * A)) : list (ident * A) :=
  match s with
  | [] => []
  | (y, w) :: s' => if N.eqb x y then (y, v) :: s' else (y, w) :: set_assoc x v s'
  end.

Fixpoint update {A} (x : ident) (v : A) (r : list (list (ident * A))) : option (list (list (ident * A))) :=
  match r with
  | [] => None
  | s :: r' =>
      match assoc x s with
      | Some _ => Some (set_assoc x v s :: r')
      | None => match update x v r' with Some r'' => Some (s :: r'') | None => None end
      end
  end.

(* ---- the model checker ----------------------------------------------------- *)
Definition ctx := list (list (ident * ty)).

Definition bop_ty (o : bop) (a b : ty) : option ty :=
  match o with
  | OArith _ =>
      (* garden reports "use +." when BOTH operands are below Float, which NoValue is *)
      if sub a TInt && sub b TInt && negb (ty_eqb a TNoValue && ty_eqb b TNoValue) then Some TInt else None
  | OCmp _ => if sub a TInt && sub b TInt then Some TBool else None
  | OEq | ONeq => Some TBool          (* garden only warns when the types differ *)
  | OAnd | OOr => if sub a TBool && sub b TBool then Some TBool else None
  | OConcat => if sub a TStr && sub b TStr then Some TStr else None
  end.

Section WithChecker.
  Variable tcf : ctx -> tm -> option ty.

  Fixpoint tc_list (G : ctx) (l : list tm) : option (list ty) :=
    match l with
    | [] => Some []
    | e :: l' =>
        match tcf G e with
        | Some t => match tc_list G l' with Some ts => Some (t :: ts) | None => None end
        | None => None
        end
    end.

  (* the expressions of a block, in the block's own scope; `let` is a statement *)
  Fixpoint tc_stmts (G : ctx) (l : list tm) : option ty :=
    match l with
    | [] => Some TUnit
    | e :: l' =>
        match e with
        | TmLet x r =>
            match tcf G r with
            | Some t => match l' with [] => Some TUnit | _ => tc_stmts (bind x t G) l' end
            | None => None
            end
        | TmLetPair x y r =>
            match tcf G r with
            | Some (TPair ta tb) =>
                if N.eqb x y then None
                else match l' with [] => Some TUnit | _ => tc_stmts (bind y tb (bind x ta G)) l' end
            | _ => None
            end
        | _ =>
            match tcf G e with
            | Some t => match l' with [] => Some t | _ => tc_stmts G l' end
            | None => None
            end
        end
    end.
End WithChecker.

Definition tys_sub (a b : list ty) : bool :=
  Nat.eqb (length a) (length b) && forallb (fun p => sub (fst p) (snd p)) (combine a b).

(* rt: the declared return type of the enclosing function (None at top level) *)
Fixpoint tc (n : nat) (F : fenv) (rt : option ty) (G : ctx) (e : tm) : option ty :=
  match n with
  | O => None
  | S n' =>
      let rec := tc n' F rt in
      match e with
      | TmInt _ => Some TInt
      | TmBool _ => Some TBool
      | TmStr _ => Some TStr
      | TmList l =>
          match tc_list rec G l with
          | Some [] => Some TListEmpty
          | Some ts =>
              (* every item below Int, at least one of them Int *)
              if forallb (fun t => sub t TInt) ts && existsb (fun t => ty_eqb t TInt) ts then Some TListInt else None
          | None => None
          end
      | TmVar x => lookup x G
      | TmBin o a b =>
          match rec G a, rec G b with
          | Some ta, Some tb => bop_ty o ta tb
          | _, _ => None
          end
      | TmCall f args =>
          match lookup f G with
          | Some _ => None                    (* a local variable shadows the function *)
          | None =>
              match assoc f F with
              | None => None
              | Some d =>
                  match tc_list rec G args with
                  | Some ts => if tys_sub ts (map snd (fparams d)) then Some (fret d) else None
                  | None => None
                  end
              end
          end
      | TmPrintln a => match rec G a with Some t => if sub t TStr then Some TUnit else None | None => None end
      | TmRepr a => match rec G a with Some _ => Some TStr | None => None end
      | TmLet _ _ => None                     (* only as a statement of a block *)
      | TmAssign x r =>
          match lookup x G, rec G r with
          | Some tx, Some tr => if sub tr tx then Some TUnit else None
          | _, _ => None
          end
      | TmUpd _ x r =>
          match lookup x G, rec G r with
          | Some TInt, Some tr => if sub tr TInt then Some TUnit else None
          | _, _ => None
          end
      | TmIf c th None =>
          match rec G c, tc_stmts rec ([] :: G) th with
          | Some tcnd, Some _ => if sub tcnd TBool then Some TUnit else None
          | _, _ => None
          end
      | TmIf c th (Some el) =>
          match rec G c, tc_stmts rec ([] :: G) th, tc_stmts rec ([] :: G) el with
          | Some tcnd, Some t1, Some t2 => if sub tcnd TBool then join t1 t2 else None
          | _, _, _ => None
          end
      | TmWhile c b =>
          match rec G c, tc_stmts rec ([] :: G) b with
          | Some tcnd, Some _ => if sub tcnd TBool then Some TUnit else None
          | _, _ => None
          end
      | TmSome a => match rec G a with Some t => Some (TOpt t) | None => None end
      | TmNone => Some (TOpt TNoValue)
      | TmMatch sc arms =>
          match rec G sc with
          | Some (TOpt t) =>
              (* exhaustive and irredundant: exactly the arms Some(x) and None, in either order *)
              let both (x : ident) (b1 b2 : list tm) :=
                match tc_stmts rec ([(x, t)] :: G) b1, tc_stmts rec ([] :: G) b2 with
                | Some t1, Some t2 => join t1 t2
                | _, _ => None
                end in
              match arms with
              | [(PSome x, b1); (PNone, b2)] => both x b1 b2
              | [(PNone, b2); (PSome x, b1)] => both x b1 b2
              | _ => None
              end
          | _ => None
          end
      | TmFor x it b =>
          match rec G it with
          | Some TListInt => match tc_stmts rec ([(x, TInt)] :: G) b with Some _ => Some TUnit | None => None end
          | Some TListEmpty => match tc_stmts rec ([(x, TNoValue)] :: G) b with Some _ => Some TUnit | None => None end
          | _ => None
          end
      | TmReturn a =>
          match rt, rec G a with
          | Some tr, Some t => if sub t tr then Some TNoValue else None
          | _, _ => None
          end
      | TmPair a b =>
          match rec G a, rec G b with
          | Some ta, Some tb => Some (TPair ta tb)
          | _, _ => None
          end
      | TmLetPair _ _ _ => None               (* only as a statement of a block *)
      end
  end.

(* the body's value has (a subtype of) the declared type; NoValue: the body always leaves by `return` *)
Definition tc_fun (n : nat) (F : fenv) (d : fdef) : bool :=
  match tc_stmts (tc n F (Some (fret d))) [fparams d] (fbody d) with
  | Some t => sub t (fret d)
  | None => false
  end.

(* size bound used as checker fuel *)
Fixpoint tm_size (e : tm) : nat :=
  let fix sz (l : list tm) : nat := match l with [] => 0%nat | x :: l' => (tm_size x + sz l')%nat end in
  let fix asz (l : list (pat * list tm)) : nat := match l with [] => 0%nat | (_, b) :: l' => (sz b + asz l')%nat end in
  S (match e with
     | TmList l => sz l
     | TmBin _ a b | TmPair a b => tm_size a + tm_size b
     | TmCall _ l => sz l
     | TmPrintln a | TmRepr a | TmLet _ a | TmAssign _ a | TmUpd _ _ a | TmSome a | TmReturn a | TmLetPair _ _ a => tm_size a
     | TmMatch sc arms => tm_size sc + asz arms
     | TmFor _ it b => tm_size it + sz b
     | TmIf c th el => tm_size c + sz th + (match el with Some l => sz l | None => 0 end)
     | TmWhile c b => tm_size c + sz b
     | _ => 0
     end)%nat.

Fixpoint tms_size (l : list tm) : nat :=
  match l with [] => 1%nat | x :: l' => (tm_size x + tms_size l')%nat end.

Definition tc_prog (p : program) : bool :=
  forallb (fun fd => tc_fun (S (tms_size (fbody (snd fd)))) (pfuns p) (snd fd)) (pfuns p) &&
  match tc_stmts (tc (S (tms_size (pmain p))) (pfuns p) None) [[]] (pmain p) with Some _ => true | None => false end.

(* ---- the reference semantics ------------------------------------------------- *)
Inductive value :=
| VInt (z : Z)
| VBool (b : bool)
| VStr (s : list N)
| VUnit
| VList (l : list value)
| VSome (v : value)
| VNone
| VPair (a b : value).

Definition env := list (list (ident * value)).

Fixpoint has_type (v : value) (t : ty) {struct v} : bool :=
  match v, t with
  | VInt _, TInt | VBool _, TBool | VStr _, TStr | VUnit, TUnit => true
  | VList l, TListInt => forallb (fun x => match x with VInt _ => true | _ => false end) l
  | VList l, TListEmpty => match l with [] => true | _ => false end
  | VSome w, TOpt t' => has_type w t'
  | VNone, TOpt _ => true
  | VPair a b, TPair ta tb => has_type a ta && has_type b tb
  | _, _ => false
  end.

Inductive res (A : Type) :=
| Ok (a : A)
| TypeErr          (* every type-related runtime error of the property *)
| OtherErr         (* division by zero, overflow, ... *)
| OutOfFuel
| Return (v : value).     (* `return v` travelling to the enclosing call *)
Arguments Ok {A} a.
Arguments TypeErr {A}.
Arguments OtherErr {A}.
Arguments OutOfFuel {A}.
Arguments Return {A} v.

Definition in_i64 (z : Z) : bool := Z.leb (- 2 ^ 63) z && Z.ltb z (2 ^ 63).
Definition ret_int (z : Z) : res value := if in_i64 z then Ok (VInt z) else OtherErr.

Fixpoint veq (a b : value) : bool :=
  let fix all2 (l1 l2 : list value) : bool :=
    match l1, l2 with
    | [], [] => true
    | x :: l1', y :: l2' => veq x y && all2 l1' l2'
    | _, _ => false
    end in
  match a, b with
  | VInt x, VInt y => Z.eqb x y
  | VBool x, VBool y => Bool.eqb x y
  | VStr x, VStr y => if list_eq_dec N.eq_dec x y then true else false
  | VUnit, VUnit => true
  | VList l1, VList l2 => all2 l1 l2
  | VSome x, VSome y => veq x y
  | VNone, VNone => true
  | VPair x1 x2, VPair y1 y2 => veq x1 y1 && veq x2 y2
  | _, _ => false
  end.

Definition arith (k : N) (a b : Z) : res value :=
  if N.eqb k 0 then ret_int (a + b)
  else if N.eqb k 1 then ret_int (a - b)
  else if N.eqb k 2 then ret_int (a * b)
  else if N.eqb k 3 then (if Z.eqb b 0 then OtherErr else ret_int (Z.quot a b))
  else if N.eqb k 4 then (if Z.eqb b 0 then OtherErr else ret_int (Z.modulo a (Z.abs b)))
  else if N.eqb k 5 then (if Z.ltb b 0 then OtherErr else ret_int (Z.pow a b))
  else if N.eqb k 6 then ret_int (Z.land a b)
  else ret_int (Z.lor a b).

Definition cmp (k : N) (a b : Z) : bool :=
  match k with
  | 0%N => Z.ltb a b
  | 1%N => Z.leb a b
  | 2%N => Z.gtb a b
  | _ => Z.geb a b
  end.

Definition eval_bop (o : bop) (a b : value) : res value :=
  match o with
  | OArith k => match a, b with VInt x, VInt y => arith k x y | _, _ => TypeErr end
  | OCmp k => match a, b with VInt x, VInt y => Ok (VBool (cmp k x y)) | _, _ => TypeErr end
  | OEq => Ok (VBool (veq a b))
  | ONeq => Ok (VBool (negb (veq a b)))
  | OAnd => match a, b with VBool x, VBool y => Ok (VBool (x && y)) | _, _ => TypeErr end
  | OOr => match a, b with VBool x, VBool y => Ok (VBool (x || y)) | _, _ => TypeErr end
  | OConcat => match a, b with VStr x, VStr y => Ok (VStr (x ++ y)) | _, _ => TypeErr end
  end.

Section WithEvaluator.
  Variable evf : env -> tm -> res (value * env).

  Fixpoint ev_list (r : env) (l : list tm) : res (list value * env) :=
    match l with
    | [] => Ok ([], r)
    | e :: l' =>
        match evf r e with
        | Ok (v, r1) =>
            match ev_list r1 l' with
            | Ok (vs, r2) => Ok (v :: vs, r2)
            | TypeErr => TypeErr | OtherErr => OtherErr | OutOfFuel => OutOfFuel | Return w => Return w
            end
        | TypeErr => TypeErr | OtherErr => OtherErr | OutOfFuel => OutOfFuel | Return w => Return w
        end
    end.

  Definition ev_one (r : env) (e : tm) : res (value * env) :=
    match e with
    | TmLet x rhs =>
        match evf r rhs with
        | Ok (v, r1) => Ok (VUnit, bind x v r1)
        | other => other
        end
    | TmLetPair x y rhs =>
        match evf r rhs with
        | Ok (VPair a b, r1) => Ok (VUnit, bind y b (bind x a r1))
        | Ok (_, _) => TypeErr                                  (* Expected a tuple *)
        | other => other
        end
    | _ => evf r e
    end.

  Fixpoint ev_stmts (r : env) (l : list tm) : res (value * env) :=
    match l with
    | [] => Ok (VUnit, r)
    | e :: l' =>
        match ev_one r e with
        | Ok (v, r1) => match l' with [] => Ok (v, r1) | _ => ev_stmts r1 l' end
        | other => other
        end
    end.

  (* a block: new scope (with the bindings of a match arm / loop variable), statements, scope dropped *)
  Definition ev_block_in (sc0 : list (ident * value)) (r : env) (l : list tm) : res (value * env) :=
    match ev_stmts (sc0 :: r) l with
    | Ok (v, r') => Ok (v, tl r')
    | other => other
    end.
  Definition ev_block (r : env) (l : list tm) : res (value * env) := ev_block_in [] r l.

  (* for x in vs { body } *)
  Fixpoint ev_for (x : ident) (body : list tm) (vs : list value) (r : env) : res (value * env) :=
    match vs with
    | [] => Ok (VUnit, r)
    | v :: vs' =>
        match ev_block_in [(x, v)] r body with
        | Ok (_, r') => ev_for x body vs' r'
        | other => other
        end
    end.
End WithEvaluator.

(* the first arm that matches the scrutinee: its bindings and body *)
Fixpoint pick (arms : list (pat * list tm)) (v : value) : option (list (ident * value) * list tm) :=
  match arms with
  | [] => None
  | (PSome x, b) :: rest => match v with VSome w => Some ([(x, w)], b) | _ => pick rest v end
  | (PNone, b) :: rest => match v with VNone => Some ([], b) | _ => pick rest v end
  end.

Fixpoint args_ok (vs : list value) (ps : list (ident * ty)) : bool :=
  match vs, ps with
  | [], [] => true
  | v :: vs', (_, t) :: ps' => has_type v t && args_ok vs' ps'
  | _, _ => false
  end.

Fixpoint zip_params (ps : list (ident * ty)) (vs : list value) : list (ident * value) :=
  match ps, vs with
  | (x, _) :: ps', v :: vs' => (x, v) :: zip_params ps' vs'
  | _, _ => []
  end.

Definition show (v : value) : list N := [].     (* the text of string_repr is irrelevant here *)

Fixpoint ev (n : nat) (F : fenv) (r : env) (e : tm) : res (value * env) :=
  match n with
  | O => OutOfFuel
  | S n' =>
      let rec := ev n' F in
      match e with
      | TmInt z => Ok (VInt z, r)
      | TmBool b => Ok (VBool b, r)
      | TmStr s => Ok (VStr s, r)
      | TmList l =>
          match ev_list rec r l with
          | Ok (vs, r1) => Ok (VList vs, r1)
          | TypeErr => TypeErr | OtherErr => OtherErr | OutOfFuel => OutOfFuel | Return w => Return w
          end
      | TmVar x => match lookup x r with Some v => Ok (v, r) | None => TypeErr end       (* No such variable *)
      | TmBin o a b =>
          match rec r a with
          | Ok (va, r1) =>
              match rec r1 b with
              | Ok (vb, r2) =>
                  match eval_bop o va vb with
                  | Ok v => Ok (v, r2)
                  | TypeErr => TypeErr | OtherErr => OtherErr | OutOfFuel => OutOfFuel | Return w => Return w
                  end
              | other => other
              end
          | other => other
          end
      | TmCall f args =>
          match lookup f r with
          | Some _ => TypeErr                                   (* Expected a function *)
          | None =>
              match assoc f F with
              | None => TypeErr                                 (* No such variable *)
              | Some d =>
                  match ev_list rec r args with
                  | Ok (vs, r1) =>
                      if negb (Nat.eqb (length vs) (length (fparams d))) then TypeErr      (* wrong arity *)
                      else if negb (args_ok vs (fparams d)) then TypeErr                   (* parameter annotation *)
                      else
                        match ev_stmts rec [zip_params (fparams d) vs] (fbody d) with
                        | Ok (v, _) | Return v => if has_type v (fret d) then Ok (v, r1) else TypeErr (* return annotation *)
                        | TypeErr => TypeErr | OtherErr => OtherErr | OutOfFuel => OutOfFuel
                        end
                  | TypeErr => TypeErr | OtherErr => OtherErr | OutOfFuel => OutOfFuel | Return w => Return w
                  end
              end
          end
      | TmPrintln a =>
          match rec r a with
          | Ok (VStr _, r1) => Ok (VUnit, r1)
          | Ok (_, _) => TypeErr
          | other => other
          end
      | TmRepr a =>
          match rec r a with
          | Ok (v, r1) => Ok (VStr (show v), r1)
          | other => other
          end
      | TmLet x rhs =>
          match rec r rhs with
          | Ok (v, r1) => Ok (VUnit, bind x v r1)
          | other => other
          end
      | TmAssign x rhs =>
          match rec r rhs with
          | Ok (v, r1) =>
              match update x v r1 with
              | Some r2 => Ok (VUnit, r2)
              | None => TypeErr                                 (* not currently bound *)
              end
          | other => other
          end
      | TmUpd minus x rhs =>
          match rec r rhs with
          | Ok (v, r1) =>
              match lookup x r1, v with
              | Some (VInt a), VInt b =>
                  match ret_int (if minus then a - b else a + b) with
                  | Ok w => match update x w r1 with Some r2 => Ok (VUnit, r2) | None => TypeErr end
                  | TypeErr => TypeErr | OtherErr => OtherErr | OutOfFuel => OutOfFuel | Return w => Return w
                  end
              | _, _ => TypeErr
              end
          | other => other
          end
      | TmIf c th el =>
          match rec r c with
          | Ok (VBool true, r1) =>
              match ev_block rec r1 th with
              | Ok (v, r2) => Ok (match el with Some _ => v | None => VUnit end, r2)
              | other => other
              end
          | Ok (VBool false, r1) =>
              match el with
              | Some eb => ev_block rec r1 eb
              | None => Ok (VUnit, r1)
              end
          | Ok (_, _) => TypeErr
          | other => other
          end
      | TmWhile c b =>
          match rec r c with
          | Ok (VBool true, r1) =>
              match ev_block rec r1 b with
              | Ok (_, r2) => rec r2 (TmWhile c b)
              | other => other
              end
          | Ok (VBool false, r1) => Ok (VUnit, r1)
          | Ok (_, _) => TypeErr
          | other => other
          end
      | TmSome a =>
          match rec r a with
          | Ok (v, r1) => Ok (VSome v, r1)
          | other => other
          end
      | TmNone => Ok (VNone, r)
      | TmMatch sc arms =>
          match rec r sc with
          | Ok (v, r1) =>
              match v with
              | VSome _ | VNone =>
                  match pick arms v with
                  | Some (sc0, body) => ev_block_in rec sc0 r1 body
                  | None => TypeErr                             (* No cases in this `match` *)
                  end
              | _ => TypeErr                                    (* the scrutinee is not an enum value *)
              end
          | other => other
          end
      | TmFor x it b =>
          match rec r it with
          | Ok (VList vs, r1) => ev_for rec x b vs r1
          | Ok (_, _) => TypeErr                                (* Expected a list *)
          | other => other
          end
      | TmReturn a =>
          match rec r a with
          | Ok (v, _) => Return v
          | other => other
          end
      | TmPair a b =>
          match rec r a with
          | Ok (va, r1) =>
              match rec r1 b with
              | Ok (vb, r2) => Ok (VPair va vb, r2)
              | other => other
              end
          | other => other
          end
      | TmLetPair x y rhs =>
          match rec r rhs with
          | Ok (VPair a b, r1) => Ok (VUnit, bind y b (bind x a r1))
          | Ok (_, _) => TypeErr
          | other => other
          end
      end
  end.

Inductive outcome := Finished (v : value) | TypeError | OtherError | Diverged.

Definition run (fuel : nat) (p : program) : outcome :=
  match ev_stmts (ev fuel (pfuns p)) [[]] (pmain p) with
  | Ok (v, _) | Return v => Finished v
  | TypeErr => TypeError
  | OtherErr => OtherError
  | OutOfFuel => Diverged
  end.
