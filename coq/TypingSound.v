(* Soundness of the model checker `tc` (Typing.v) for the reference semantics
   `ev`: accepted programs never end in `TypeErr`.  Big-step progress +
   preservation in one statement (`good`), by induction on the evaluator's fuel. *)
From Coq Require Import ZArith NArith Bool List Lia.
From Garden Require Import Typing.
Import ListNotations.
Open Scope Z_scope.

Lemma ty_eqb_eq a : forall b, ty_eqb a b = true <-> a = b.
Proof.
  induction a as [| | | | | | |a IH|a1 IH1 a2 IH2]; intros b; destruct b; cbn [ty_eqb]; split; intros H; try discriminate; try reflexivity.
  - apply IH in H. now subst.
  - inversion H; subst. now apply IH.
  - apply andb_true_iff in H. destruct H as [H1 H2]. apply IH1 in H1. apply IH2 in H2. now subst.
  - inversion H; subst. apply andb_true_iff. split; [now apply IH1|now apply IH2].
Qed.

Lemma has_type_novalue v : has_type v TNoValue = false.
Proof. destruct v; reflexivity. Qed.

Lemma sub_refl a : sub a a = true.
Proof. induction a; cbn; auto. rewrite IHa1, IHa2. reflexivity. Qed.

Lemma sub_sound : forall v a b, has_type v a = true -> sub a b = true -> has_type v b = true.
Proof.
  induction v as [z|bb|st| |l|w IH| |w1 IH1 w2 IH2]; intros a b HV SB; destruct a; try discriminate;
    try (cbn [sub] in SB; apply ty_eqb_eq in SB; subst b; exact HV).
  - destruct b; try discriminate; [|exact HV]. cbn [has_type] in *. destruct l; [reflexivity|discriminate].
  - destruct b; try discriminate. cbn [sub has_type] in *. eapply IH; eauto.
  - destruct b; try discriminate. reflexivity.
  - destruct b; try discriminate. cbn [sub has_type] in *.
    apply andb_true_iff in HV. destruct HV as [H1 H2]. apply andb_true_iff in SB. destruct SB as [S1 S2].
    rewrite (IH1 _ _ H1 S1), (IH2 _ _ H2 S2). reflexivity.
Qed.

Lemma join_sound a b t : join a b = Some t -> sub a t = true /\ sub b t = true.
Proof.
  unfold join. destruct (sub a b) eqn:E1.
  - intros H; inversion H; subst. split; [exact E1|apply sub_refl].
  - destruct (sub b a) eqn:E2; [|discriminate]. intros H; inversion H; subst. split; [apply sub_refl|exact E2].
Qed.

Definition R (a : ident * ty) (b : ident * value) : Prop :=
  fst a = fst b /\ has_type (snd b) (snd a) = true.

Definition env_ok (G : ctx) (r : env) : Prop := Forall2 (Forall2 R) G r.

Lemma assoc_ok x : forall s s', Forall2 R s s' ->
  match assoc x s with
  | Some t => exists v, assoc x s' = Some v /\ has_type v t = true
  | None => assoc x s' = None
  end.
Proof.
  induction 1 as [|[y t] [y' v] s s' [E HT] _ IH]; cbn [assoc]; [reflexivity|].
  cbn [fst snd] in E, HT. subst y'. destruct (N.eqb x y); [eauto|exact IH].
Qed.

Lemma lookup_ok x : forall G r, env_ok G r ->
  match lookup x G with
  | Some t => exists v, lookup x r = Some v /\ has_type v t = true
  | None => lookup x r = None
  end.
Proof.
  induction 1 as [|s s' G r Hs _ IH]; cbn [lookup]; [reflexivity|].
  pose proof (assoc_ok x s s' Hs) as A. destruct (assoc x s) as [t|].
  - destruct A as (v & -> & HT). eauto.
  - rewrite A. exact IH.
Qed.

Lemma bind_ok x t v G r : env_ok G r -> has_type v t = true -> env_ok (bind x t G) (bind x v r).
Proof.
  intros H HT. destruct H as [|s s' G r Hs H]; cbn [bind].
  - repeat constructor; auto.
  - constructor; [|exact H]. constructor; [split; auto|exact Hs].
Qed.

Lemma set_assoc_ok x t v : forall s s', Forall2 R s s' -> assoc x s = Some t -> has_type v t = true ->
  Forall2 R s (set_assoc x v s').
Proof.
  induction 1 as [|[y ty] [y' w] s s' [E HT] Hs IH]; cbn [assoc set_assoc]; intros A HV; [discriminate|].
  cbn [fst snd] in E, HT. subst y'. destruct (N.eqb x y).
  - inversion A; subst. constructor; [split; auto|exact Hs].
  - constructor; [split; auto|]. now apply IH.
Qed.

Lemma update_ok x t v : forall G r, env_ok G r -> lookup x G = Some t -> has_type v t = true ->
  exists r', update x v r = Some r' /\ env_ok G r'.
Proof.
  induction 1 as [|s s' G r Hs H IH]; cbn [lookup update]; intros L HV; [discriminate|].
  pose proof (assoc_ok x s s' Hs) as A. destruct (assoc x s) as [t'|] eqn:AS.
  - destruct A as (w & -> & _). inversion L; subst. eexists. split; [reflexivity|].
    constructor; [|exact H]. eapply set_assoc_ok; eauto.
  - rewrite A. destruct (IH L HV) as (r' & -> & OK). eexists. split; [reflexivity|]. constructor; assumption.
Qed.

Lemma tl_ok s G r : env_ok (s :: G) r -> env_ok G (tl r).
Proof. intros H. inversion H; subst. exact H4. Qed.

(* a `return v` on its way to the enclosing call carries a value of the declared return type *)
Definition ret_ok (rt : option ty) (v : value) : Prop :=
  match rt with Some t => has_type v t = true | None => False end.

Definition good (rt : option ty) (t : ty) (G : ctx) (x : res (value * env)) : Prop :=
  match x with
  | Ok (v, r') => has_type v t = true /\ env_ok G r'
  | TypeErr => False
  | Return v => ret_ok rt v
  | _ => True
  end.

Definition sound_f (rt : option ty) (tcf : ctx -> tm -> option ty) (evf : env -> tm -> res (value * env)) : Prop :=
  forall G r e t, tcf G e = Some t -> env_ok G r -> good rt t G (evf r e).

Section Parametric.
Variable tcf : ctx -> tm -> option ty.
Variable evf : env -> tm -> res (value * env).
Variable rt : option ty.
Hypothesis SF : sound_f rt tcf evf.

Lemma list_sound : forall l G r ts, tc_list tcf G l = Some ts -> env_ok G r ->
  match ev_list evf r l with
  | Ok (vs, r') => Forall2 (fun v t => has_type v t = true) vs ts /\ env_ok G r'
  | TypeErr => False
  | Return w => ret_ok rt w
  | _ => True
  end.
Proof.
  induction l as [|e l IH]; intros G r ts H OKr; cbn [tc_list ev_list] in *.
  - inversion H; subst. split; [constructor|exact OKr].
  - destruct (tcf G e) as [t|] eqn:T; [|discriminate].
    destruct (tc_list tcf G l) as [ts'|] eqn:TL; [|discriminate]. inversion H; subst.
    pose proof (SF G r e t T OKr) as GE. destruct (evf r e) as [[v r1]| | | |w0]; cbn [good] in GE; auto.
    destruct GE as [HV OK1]. specialize (IH G r1 ts' TL OK1).
    destruct (ev_list evf r1 l) as [[vs r2]| | | |w0]; auto. destruct IH as [F2 OK2]. split; [constructor; assumption|exact OK2].
Qed.

Lemma stmts_sound : forall l s G0 r t, tc_stmts tcf (s :: G0) l = Some t -> env_ok (s :: G0) r ->
  match ev_stmts evf r l with
  | Ok (v, r') => has_type v t = true /\ exists s', env_ok (s' :: G0) r'
  | TypeErr => False
  | Return w => ret_ok rt w
  | _ => True
  end.
Proof.
  induction l as [|e l IH]; intros s G0 r t H OKr.
  - cbn in *. inversion H; subst. split; [reflexivity|eauto].
  - cbn [ev_stmts].
    assert (LET : forall x rhs, e = TmLet x rhs ->
              match ev_stmts evf r (e :: l) with
              | Ok (v, r') => has_type v t = true /\ exists s', env_ok (s' :: G0) r'
              | TypeErr => False | Return w => ret_ok rt w | _ => True end).
    { intros x rhs ->. cbn [tc_stmts ev_stmts ev_one] in *.
      destruct (tcf (s :: G0) rhs) as [t1|] eqn:T; [|discriminate].
      pose proof (SF _ r rhs t1 T OKr) as GE. destruct (evf r rhs) as [[v r1]| | | |w0]; cbn [good] in GE; auto.
      destruct GE as [HV OK1]. pose proof (bind_ok x t1 v _ _ OK1 HV) as OKB. cbn [bind] in OKB.
      destruct l as [|ee ll].
      - inversion H; subst. split; [reflexivity|]. destruct r1; cbn [bind] in *; eauto.
      - assert (OKB' : env_ok (((x, t1) :: s) :: G0) (bind x v r1)) by exact OKB.
        exact (IH _ _ _ _ H OKB'). }
    assert (LETP : forall x y rhs, e = TmLetPair x y rhs ->
              match ev_stmts evf r (e :: l) with
              | Ok (v, r') => has_type v t = true /\ exists s', env_ok (s' :: G0) r'
              | TypeErr => False | Return w => ret_ok rt w | _ => True end).
    { intros x y rhs ->. cbn [tc_stmts ev_stmts ev_one] in *.
      destruct (tcf (s :: G0) rhs) as [t1|] eqn:T; [|discriminate]. destruct t1 as [| | | | | | | |ta tb]; try discriminate.
      destruct (N.eqb x y); [discriminate|].
      pose proof (SF _ r rhs _ T OKr) as GE. destruct (evf r rhs) as [[v r1]| | | |w0]; cbn [good] in GE; auto.
      destruct GE as [HV OK1]. destruct v; try discriminate. cbn [has_type] in HV.
      apply andb_true_iff in HV. destruct HV as [HA HB].
      pose proof (bind_ok y tb v2 _ _ (bind_ok x ta v1 _ _ OK1 HA) HB) as OKB. cbn [bind] in OKB.
      destruct l as [|ee ll].
      - inversion H; subst. split; [reflexivity|]. destruct r1; cbn [bind] in *; eauto.
      - assert (OKB' : env_ok (((y, tb) :: (x, ta) :: s) :: G0) (bind y v2 (bind x v1 r1))) by exact OKB.
        exact (IH _ _ _ _ H OKB'). }
    assert (OTHER : (forall x rhs, e <> TmLet x rhs) -> (forall x y rhs, e <> TmLetPair x y rhs) ->
              tc_stmts tcf (s :: G0) (e :: l) =
                match tcf (s :: G0) e with
                | Some t0 => match l with [] => Some t0 | _ => tc_stmts tcf (s :: G0) l end
                | None => None end /\ ev_one evf r e = evf r e).
    { intros NL NLP. destruct e; try (split; reflexivity); exfalso; [eapply NL|eapply NLP]; reflexivity. }
    destruct e; try (exact (LET _ _ eq_refl)); try (exact (LETP _ _ _ eq_refl));
      (destruct OTHER as [E1 E2]; [intros x0 rhs0 C; discriminate C|intros x0 y0 rhs0 C; discriminate C|];
       rewrite E1 in H; rewrite E2;
       match type of H with context [tcf ?g ?e0] => destruct (tcf g e0) as [t0|] eqn:T; [|discriminate];
         pose proof (SF _ r e0 t0 T OKr) as GE; destruct (evf r e0) as [[v r1]| | | |w0]; cbn [good] in GE; auto;
         destruct GE as [HV OK1]; destruct l as [|ee ll];
         [inversion H; subst; split; [exact HV|eauto]|exact (IH _ _ _ _ H OK1)] end).
Qed.

Lemma block_in_sound l s sc0 G r t :
  tc_stmts tcf (s :: G) l = Some t -> Forall2 R s sc0 -> env_ok G r -> good rt t G (ev_block_in evf sc0 r l).
Proof.
  intros H OKs OKr. unfold ev_block_in.
  assert (OK0 : env_ok (s :: G) (sc0 :: r)) by (constructor; assumption).
  pose proof (stmts_sound l s G (sc0 :: r) t H OK0) as S.
  destruct (ev_stmts evf (sc0 :: r) l) as [[v r']| | | |w]; cbn [good]; auto.
  destruct S as [HV (s' & OK')]. split; [exact HV|]. eapply tl_ok; eauto.
Qed.

Lemma block_sound l G r t : tc_stmts tcf ([] :: G) l = Some t -> env_ok G r -> good rt t G (ev_block evf r l).
Proof. intros H OKr. apply (block_in_sound l [] [] G r t H); [constructor|exact OKr]. Qed.

Lemma for_sound x tx body G t : tc_stmts tcf ([(x, tx)] :: G) body = Some t ->
  forall vs r, forallb (fun v => has_type v tx) vs = true -> env_ok G r ->
  good rt TUnit G (ev_for evf x body vs r).
Proof.
  intros H. induction vs as [|v vs IH]; intros r ALL OKr; cbn [ev_for].
  - split; [reflexivity|exact OKr].
  - cbn [forallb] in ALL. apply andb_true_iff in ALL. destruct ALL as [HV ALL].
    assert (OKs : Forall2 R [(x, tx)] [(x, v)]).
    { constructor; [|constructor]. split; [reflexivity|exact HV]. }
    pose proof (block_in_sound body _ _ G r t H OKs OKr) as B.
    destruct (ev_block_in evf [(x, v)] r body) as [[v2 r2]| | | |w]; cbn [good] in *; auto.
    destruct B as [_ OK2]. now apply IH.
Qed.
End Parametric.

Definition fenv_ok (F : fenv) : Prop :=
  forall f d, assoc f F = Some d ->
    exists n t, tc_stmts (tc n F (Some (fret d))) [fparams d] (fbody d) = Some t /\ sub t (fret d) = true.

Lemma bop_sound o ta tb t va vb :
  bop_ty o ta tb = Some t -> has_type va ta = true -> has_type vb tb = true ->
  match eval_bop o va vb with Ok v => has_type v t = true | TypeErr => False | Return _ => False | _ => True end.
Proof.
  intros H HA HB.
  assert (TWO : forall tt, (if sub ta tt && sub tb tt then Some t else None) = Some t \/ True ->
                 sub ta tt && sub tb tt = true -> has_type va tt = true /\ has_type vb tt = true).
  { intros tt _ E. apply andb_true_iff in E. destruct E as [E1 E2]. split; eapply sub_sound; eauto. }
  destruct o; cbn [bop_ty eval_bop] in *.
  - destruct (sub ta TInt && sub tb TInt) eqn:E; [|discriminate]. cbn [andb] in H.
    destruct (negb (ty_eqb ta TNoValue && ty_eqb tb TNoValue)); [|discriminate]. inversion H; subst.
    destruct (TWO TInt (or_intror I) E) as [A B]. destruct va; try discriminate. destruct vb; try discriminate.
    assert (RI : forall zz, match ret_int zz with Ok v => has_type v TInt = true | TypeErr => False | Return _ => False | _ => True end).
    { intros zz. unfold ret_int. destruct (in_i64 zz); cbn; auto. }
    unfold arith.
    repeat match goal with |- context [if ?c then _ else _] => destruct c end; try exact I; apply RI.
  - destruct (sub ta TInt && sub tb TInt) eqn:E; [|discriminate]. inversion H; subst.
    destruct (TWO TInt (or_intror I) E) as [A B]. destruct va; try discriminate. destruct vb; try discriminate. reflexivity.
  - inversion H; subst. reflexivity.
  - inversion H; subst. reflexivity.
  - destruct (sub ta TBool && sub tb TBool) eqn:E; [|discriminate]. inversion H; subst.
    destruct (TWO TBool (or_intror I) E) as [A B]. destruct va; try discriminate. destruct vb; try discriminate. reflexivity.
  - destruct (sub ta TBool && sub tb TBool) eqn:E; [|discriminate]. inversion H; subst.
    destruct (TWO TBool (or_intror I) E) as [A B]. destruct va; try discriminate. destruct vb; try discriminate. reflexivity.
  - destruct (sub ta TStr && sub tb TStr) eqn:E; [|discriminate]. inversion H; subst.
    destruct (TWO TStr (or_intror I) E) as [A B]. destruct va; try discriminate. destruct vb; try discriminate. reflexivity.
Qed.

Lemma ints_ok : forall vs ts, Forall2 (fun v t => has_type v t = true) vs ts ->
  forallb (fun t => sub t TInt) ts = true ->
  forallb (fun x => match x with VInt _ => true | _ => false end) vs = true.
Proof.
  induction 1 as [|v t vs ts HV _ IH]; intros FB; [reflexivity|].
  cbn [forallb] in *. apply andb_true_iff in FB. destruct FB as [E FB].
  pose proof (sub_sound _ _ _ HV E) as HI.
  rewrite (IH FB). destruct v; try discriminate. reflexivity.
Qed.

Lemma tys_sub_sound : forall vs a b, tys_sub a b = true ->
  Forall2 (fun v t => has_type v t = true) vs a -> Forall2 (fun v t => has_type v t = true) vs b.
Proof.
  unfold tys_sub. intros vs a. revert vs. induction a as [|x a IH]; intros vs [|y b] H F2; cbn in *; try discriminate.
  - exact F2.
  - apply andb_true_iff in H. destruct H as [L H]. apply andb_true_iff in H. destruct H as [E H].
    inversion F2; subst. constructor; [eapply sub_sound; eauto|]. apply IH; [rewrite L; exact H|assumption].
Qed.

Lemma args_sound : forall vs ps, Forall2 (fun v t => has_type v t = true) vs (map snd ps) ->
  length vs = length ps /\ args_ok vs ps = true /\ Forall2 R ps (zip_params ps vs).
Proof.
  induction vs as [|v vs IH]; intros [|[x t] ps] H; inversion H; subst; cbn.
  - repeat split; constructor.
  - destruct (IH ps H5) as (L & A & Z). cbn [snd] in H3. rewrite H3, A. repeat split; auto.
    constructor; [split; auto|exact Z].
Qed.

Theorem ev_sound F : fenv_ok F -> forall k n rt, sound_f rt (tc n F rt) (ev k F).
Proof.
  intros FOK. induction k as [|k IH]; intros n rt G r e t H OKr; [exact I|].
  destruct n as [|n]; [discriminate|].
  pose proof (IH n rt) as SF.
  destruct e; cbn [tc ev] in *.
  - inversion H; subst. split; [reflexivity|exact OKr].
  - inversion H; subst. split; [reflexivity|exact OKr].
  - inversion H; subst. split; [reflexivity|exact OKr].
  - (* list literal *)
    destruct (tc_list (tc n F rt) G l) as [ts|] eqn:TL; [|discriminate].
    pose proof (list_sound _ _ rt SF l G r ts TL OKr) as LS.
    destruct ts as [|t0 ts].
    + inversion H; subst.
      destruct (ev_list (ev k F) r l) as [[vs r1]| | | |w0]; cbn [good]; auto.
      destruct LS as [F2 OK1]. inversion F2; subst. split; [reflexivity|exact OK1].
    + destruct (forallb (fun t1 => sub t1 TInt) (t0 :: ts) && existsb (fun t1 => ty_eqb t1 TInt) (t0 :: ts)) eqn:FB; [|discriminate].
      apply andb_true_iff in FB. destruct FB as [FB _]. inversion H; subst.
      destruct (ev_list (ev k F) r l) as [[vs r1]| | | |w0]; cbn [good]; auto.
      destruct LS as [F2 OK1]. split; [|exact OK1]. cbn [has_type]. eapply ints_ok; eauto.
  - (* variable *)
    pose proof (lookup_ok x G r OKr) as L. rewrite H in L. destruct L as (v & -> & HV). split; assumption.
  - (* binary operator *)
    destruct (tc n F rt G e1) as [ta|] eqn:T1; [|discriminate].
    destruct (tc n F rt G e2) as [tb|] eqn:T2; [|discriminate].
    pose proof (SF G r e1 ta T1 OKr) as G1. destruct (ev k F r e1) as [[va r1]| | | |w0]; cbn [good] in *; auto.
    destruct G1 as [HA OK1].
    pose proof (SF G r1 e2 tb T2 OK1) as G2. destruct (ev k F r1 e2) as [[vb r2]| | | |w0]; cbn [good] in *; auto.
    destruct G2 as [HB OK2].
    pose proof (bop_sound o ta tb t va vb H HA HB) as B. destruct (eval_bop o va vb); cbn [good]; auto; try contradiction.
  - (* call *)
    destruct (lookup f G) eqn:LF; [discriminate|].
    pose proof (lookup_ok f G r OKr) as L. rewrite LF in L. rewrite L.
    destruct (assoc f F) as [d|] eqn:AF; [|discriminate].
    destruct (tc_list (tc n F rt) G args) as [ts|] eqn:TL; [|discriminate].
    destruct (tys_sub ts (map snd (fparams d))) eqn:TE; [|discriminate]. inversion H; subst.
    pose proof (list_sound _ _ rt SF args G r _ TL OKr) as LS.
    destruct (ev_list (ev k F) r args) as [[vs r1]| | | |w0]; cbn [good]; auto.
    destruct LS as [F2 OK1]. apply (tys_sub_sound vs _ _ TE) in F2.
    destruct (args_sound vs (fparams d) F2) as (LEN & AOK & ZOK).
    rewrite LEN, Nat.eqb_refl, AOK. cbn [negb].
    destruct (FOK f d AF) as (n' & tb & TB & TBE).
    assert (OKB : env_ok [fparams d] [zip_params (fparams d) vs]) by (constructor; [exact ZOK|constructor]).
    pose proof (stmts_sound _ _ (Some (fret d)) (IH n' (Some (fret d))) (fbody d) (fparams d) [] _ tb TB OKB) as BS.
    destruct (ev_stmts (ev k F) [zip_params (fparams d) vs] (fbody d)) as [[v rb]| | | |w0]; cbn [good]; auto.
    + destruct BS as [HV _]. pose proof (sub_sound _ _ _ HV TBE) as HV2. rewrite HV2. cbn [good]. split; auto.
    + cbn [ret_ok] in BS. rewrite BS. cbn [good]. split; auto.
  - (* println *)
    destruct (tc n F rt G e) as [ta|] eqn:T1; [|discriminate]. destruct (sub ta TStr) eqn:SB; [|discriminate]. inversion H; subst.
    pose proof (SF G r e ta T1 OKr) as G1. destruct (ev k F r e) as [[va r1]| | | |w0]; cbn [good] in *; auto.
    destruct G1 as [HA OK1]. pose proof (sub_sound _ _ _ HA SB) as HS. destruct va; try discriminate. split; [reflexivity|exact OK1].
  - (* string_repr *)
    destruct (tc n F rt G e) as [ta|] eqn:T1; [|discriminate]. inversion H; subst.
    pose proof (SF G r e ta T1 OKr) as G1. destruct (ev k F r e) as [[va r1]| | | |w0]; cbn [good] in *; auto.
    destruct G1 as [HA OK1]. split; [reflexivity|exact OK1].
  - discriminate.
  - (* assignment *)
    destruct (lookup x G) as [tx|] eqn:LX; [|discriminate].
    destruct (tc n F rt G e) as [tr|] eqn:T1; [|discriminate].
    destruct (sub tr tx) eqn:E; [|discriminate]. inversion H; subst.
    pose proof (SF G r e tr T1 OKr) as G1. destruct (ev k F r e) as [[v r1]| | | |w0]; cbn [good] in *; auto.
    destruct G1 as [HV OK1]. destruct (update_ok x tx v G r1 OK1 LX (sub_sound _ _ _ HV E)) as (r2 & -> & OK2).
    split; [reflexivity|exact OK2].
  - (* += / -= *)
    destruct (lookup x G) as [tx|] eqn:LX; [|discriminate]. destruct tx; try discriminate.
    destruct (tc n F rt G e) as [tr|] eqn:T1; [|discriminate]. destruct (sub tr TInt) eqn:SB; [|discriminate]. inversion H; subst.
    pose proof (SF G r e tr T1 OKr) as G1. destruct (ev k F r e) as [[v r1]| | | |w0]; cbn [good] in *; auto.
    destruct G1 as [HV0 OK1]. pose proof (sub_sound _ _ _ HV0 SB) as HV.
    pose proof (lookup_ok x G r1 OK1) as L. rewrite LX in L. destruct L as (w & -> & HW).
    destruct w; try discriminate. destruct v; try discriminate.
    unfold ret_int. destruct (in_i64 _); cbn [good]; auto.
    match goal with |- context [update x (VInt ?z0) r1] =>
      destruct (update_ok x TInt (VInt z0) G r1 OK1 LX eq_refl) as (r2 & -> & OK2) end.
    split; [reflexivity|exact OK2].
  - (* if *)
    destruct el as [eb|].
    + destruct (tc n F rt G e) as [tcnd|] eqn:T1; [|discriminate].
      destruct (tc_stmts (tc n F rt) ([] :: G) th) as [t1|] eqn:TT; [|discriminate].
      destruct (tc_stmts (tc n F rt) ([] :: G) eb) as [t2|] eqn:TE; [|discriminate].
      destruct (sub tcnd TBool) eqn:SC; [|discriminate].
      apply join_sound in H. destruct H as [S1 S2].
      pose proof (SF G r e tcnd T1 OKr) as G1. destruct (ev k F r e) as [[v r1]| | | |w0]; cbn [good] in *; auto.
      destruct G1 as [HV0 OK1]. pose proof (sub_sound _ _ _ HV0 SC) as HV. destruct v; try discriminate. destruct b.
      * pose proof (block_sound _ _ rt SF th G r1 t1 TT OK1) as B.
        destruct (ev_block (ev k F) r1 th) as [[v2 r2]| | | |w0]; cbn [good] in *; auto.
        destruct B as [HB OK2]. split; [eapply sub_sound; eauto|exact OK2].
      * pose proof (block_sound _ _ rt SF eb G r1 t2 TE OK1) as B.
        destruct (ev_block (ev k F) r1 eb) as [[v2 r2]| | | |w0]; cbn [good] in *; auto.
        destruct B as [HB OK2]. split; [eapply sub_sound; eauto|exact OK2].
    + destruct (tc n F rt G e) as [tcnd|] eqn:T1; [|discriminate].
      destruct (tc_stmts (tc n F rt) ([] :: G) th) as [t1|] eqn:TT; [|discriminate].
      destruct (sub tcnd TBool) eqn:SC; [|discriminate]. inversion H; subst.
      pose proof (SF G r e tcnd T1 OKr) as G1. destruct (ev k F r e) as [[v r1]| | | |w0]; cbn [good] in *; auto.
      destruct G1 as [HV0 OK1]. pose proof (sub_sound _ _ _ HV0 SC) as HV. destruct v; try discriminate. destruct b.
      * pose proof (block_sound _ _ rt SF th G r1 t1 TT OK1) as B.
        destruct (ev_block (ev k F) r1 th) as [[v2 r2]| | | |w0]; cbn [good] in *; auto.
        destruct B as [_ OK2]. split; [reflexivity|exact OK2].
      * split; [reflexivity|exact OK1].
  - (* while *)
    destruct (tc n F rt G e) as [tcnd|] eqn:T1; [|discriminate].
    destruct (tc_stmts (tc n F rt) ([] :: G) b) as [t1|] eqn:TT; [|discriminate].
    destruct (sub tcnd TBool) eqn:SC; [|discriminate]. inversion H; subst.
    pose proof (SF G r e tcnd T1 OKr) as G1. destruct (ev k F r e) as [[v r1]| | | |w0]; cbn [good] in *; auto.
    destruct G1 as [HV0 OK1]. pose proof (sub_sound _ _ _ HV0 SC) as HV. destruct v; try discriminate. destruct b0.
    + pose proof (block_sound _ _ rt SF b G r1 t1 TT OK1) as B.
      destruct (ev_block (ev k F) r1 b) as [[v2 r2]| | | |w0]; cbn [good] in *; auto.
      destruct B as [_ OK2].
      apply (IH (S n) rt G r2 (TmWhile e b) TUnit); [|exact OK2].
      cbn [tc]. rewrite T1, TT, SC. reflexivity.
    + split; [reflexivity|exact OK1].
  - (* Some(e) *)
    destruct (tc n F rt G e) as [ta|] eqn:T1; [|discriminate]. inversion H; subst.
    pose proof (SF G r e ta T1 OKr) as G1. destruct (ev k F r e) as [[va r1]| | | |w0]; cbn [good] in *; auto.
  - (* None *)
    inversion H; subst. split; [reflexivity|exact OKr].
  - (* match *)
    destruct (tc n F rt G e) as [ts|] eqn:T1; [|discriminate]. destruct ts as [| | | | | | |tp|]; try discriminate.
    pose proof (SF G r e (TOpt tp) T1 OKr) as G1. destruct (ev k F r e) as [[v r1]| | | |w0]; cbn [good] in *; auto.
    destruct G1 as [HV OK1].
    assert (BOTH : forall x b1 b2,
              match tc_stmts (tc n F rt) ([(x, tp)] :: G) b1, tc_stmts (tc n F rt) ([] :: G) b2 with
              | Some t1, Some t2 => join t1 t2
              | _, _ => None
              end = Some t ->
              forall arms', (arms' = [(PSome x, b1); (PNone, b2)] \/ arms' = [(PNone, b2); (PSome x, b1)]) ->
              good rt t G match v with
                          | VSome _ | VNone =>
                              match pick arms' v with
                              | Some (sc0, body) => ev_block_in (ev k F) sc0 r1 body
                              | None => TypeErr
                              end
                          | _ => TypeErr
                          end).
    { intros x b1 b2 HB arms' SH.
      destruct (tc_stmts (tc n F rt) ([(x, tp)] :: G) b1) as [t1|] eqn:TB1; [|discriminate].
      destruct (tc_stmts (tc n F rt) ([] :: G) b2) as [t2|] eqn:TB2; [|discriminate].
      apply join_sound in HB. destruct HB as [S1 S2].
      assert (UP : forall tb x0, sub tb t = true -> good rt tb G x0 -> good rt t G x0).
      { intros tb x0 SB GX. destruct x0 as [[v2 r2]| | | |w0]; cbn [good] in *; auto.
        destruct GX as [HB2 OK2]. split; [eapply sub_sound; eauto|exact OK2]. }
      destruct v; try discriminate.
      - (* Some w *)
        assert (PK : pick arms' (VSome v) = Some ([(x, v)], b1)) by (destruct SH as [->| ->]; reflexivity).
        rewrite PK. apply (UP t1 _ S1). apply (block_in_sound _ _ rt SF b1 [(x, tp)] [(x, v)] G r1 t1 TB1); [|exact OK1].
        constructor; [split; [reflexivity|exact HV]|constructor].
      - assert (PK : pick arms' VNone = Some ([], b2)) by (destruct SH as [->| ->]; reflexivity).
        rewrite PK. apply (UP t2 _ S2). apply (block_in_sound _ _ rt SF b2 [] [] G r1 t2 TB2); [constructor|exact OK1]. }
    destruct arms as [|[[x1|] b1] [|[[x2|] b2] [|a3 arms]]]; try discriminate.
    + eapply BOTH; [exact H|now left].
    + eapply BOTH; [exact H|now right].
  - (* for *)
    destruct (tc n F rt G e) as [ti|] eqn:T1; [|discriminate]. destruct ti; try discriminate.
    + destruct (tc_stmts (tc n F rt) ([(x, TInt)] :: G) b) as [t1|] eqn:TT; [|discriminate]. inversion H; subst.
      pose proof (SF G r e TListInt T1 OKr) as G1. destruct (ev k F r e) as [[v r1]| | | |w0]; cbn [good] in *; auto.
      destruct G1 as [HV OK1]. destruct v; try discriminate.
      apply (for_sound _ _ rt SF x TInt b G t1 TT l r1); [|exact OK1].
      cbn [has_type] in HV. rewrite forallb_forall in *. intros v IN. specialize (HV v IN). destruct v; try discriminate. reflexivity.
    + destruct (tc_stmts (tc n F rt) ([(x, TNoValue)] :: G) b) as [t1|] eqn:TT; [|discriminate]. inversion H; subst.
      pose proof (SF G r e TListEmpty T1 OKr) as G1. destruct (ev k F r e) as [[v r1]| | | |w0]; cbn [good] in *; auto.
      destruct G1 as [HV OK1]. destruct v; try discriminate. cbn [has_type] in HV. destruct l; [|discriminate].
      apply (for_sound _ _ rt SF x TNoValue b G t1 TT [] r1); [reflexivity|exact OK1].
  - (* return *)
    destruct rt as [tr|]; [|discriminate].
    destruct (tc n F (Some tr) G e) as [ta|] eqn:T1; [|discriminate].
    destruct (sub ta tr) eqn:E; [|discriminate]. inversion H; subst.
    pose proof (SF G r e ta T1 OKr) as G1. destruct (ev k F r e) as [[v r1]| | | |w0]; cbn [good] in *; auto.
    destruct G1 as [HV _]. eapply sub_sound; eauto.
  - (* pair *)
    destruct (tc n F rt G e1) as [ta|] eqn:T1; [|discriminate].
    destruct (tc n F rt G e2) as [tb|] eqn:T2; [|discriminate]. inversion H; subst.
    pose proof (SF G r e1 ta T1 OKr) as G1. destruct (ev k F r e1) as [[va r1]| | | |w0]; cbn [good] in *; auto.
    destruct G1 as [HA OK1].
    pose proof (SF G r1 e2 tb T2 OK1) as G2. destruct (ev k F r1 e2) as [[vb r2]| | | |w0]; cbn [good] in *; auto.
    destruct G2 as [HB OK2]. split; [|exact OK2]. cbn [has_type]. rewrite HA, HB. reflexivity.
  - discriminate.
Qed.

Lemma assoc_in {A} x : forall (l : list (ident * A)) d, assoc x l = Some d -> In (x, d) l.
Proof.
  induction l as [|[y w] l IH]; intros d H; cbn [assoc] in H; [discriminate|].
  destruct (N.eqb x y) eqn:E.
  - apply N.eqb_eq in E. subst. inversion H; subst. now left.
  - right. now apply IH.
Qed.

Lemma tc_prog_fenv_ok p : tc_prog p = true -> fenv_ok (pfuns p).
Proof.
  unfold tc_prog. intros H. apply andb_true_iff in H. destruct H as [H _].
  rewrite forallb_forall in H. intros f d A. apply assoc_in in A. specialize (H _ A). cbn [snd] in H.
  unfold tc_fun in H. eexists.
  destruct (tc_stmts _ [fparams d] (fbody d)) as [t|] eqn:T; [|discriminate].
  exists t. split; [exact T|exact H].
Qed.

(* accepted programs never raise a type-related runtime error, whatever the fuel *)
Theorem tc_sound : forall p, tc_prog p = true -> forall fuel, run fuel p <> TypeError.
Proof.
  intros p H fuel. pose proof (tc_prog_fenv_ok p H) as FOK.
  unfold tc_prog in H. apply andb_true_iff in H. destruct H as [_ H].
  destruct (tc_stmts _ [[]] (pmain p)) as [t|] eqn:T; [|discriminate].
  assert (OK0 : env_ok [[]] [[]]) by (repeat constructor).
  pose proof (stmts_sound _ _ None (ev_sound _ FOK fuel _ None) (pmain p) [] [] [[]] t T OK0) as S.
  unfold run. destruct (ev_stmts (ev fuel (pfuns p)) [[]] (pmain p)) as [[v r]| | | |w0]; try discriminate. contradiction.
Qed.

(* ---- examples ---- *)
(* fun add(a: Int, b: Int): Int { a + b }
   let x = add(1, 2)  let i = 0  while i < x { i += 1 }  println(string_repr(i))  i == 3 *)
Definition ex_add : fdef :=
  {| fparams := [(2%N, TInt); (3%N, TInt)]; fret := TInt; fbody := [TmBin (OArith 0) (TmVar 2%N) (TmVar 3%N)] |}.
Definition ex_good : program :=
  {| pfuns := [(1%N, ex_add)];
     pmain := [ TmLet 4%N (TmCall 1%N [TmInt 1; TmInt 2]);
                TmLet 5%N (TmInt 0);
                TmWhile (TmBin (OCmp 0) (TmVar 5%N) (TmVar 4%N)) [TmUpd false 5%N (TmInt 1)];
                TmPrintln (TmRepr (TmVar 5%N));
                TmBin OEq (TmVar 5%N) (TmInt 3) ] |}.

Lemma ex_good_accepted : tc_prog ex_good = true /\ run 100 ex_good = Finished (VBool true).
Proof. split; vm_compute; reflexivity. Qed.

(* add(1, True) + "a": rejected, and it does raise a type error *)
Definition ex_bad : program :=
  {| pfuns := [(1%N, ex_add)]; pmain := [TmBin (OArith 0) (TmCall 1%N [TmInt 1; TmBool true]) (TmStr [])] |}.

Lemma ex_bad_rejected : tc_prog ex_bad = false /\ run 100 ex_bad = TypeError.
Proof. split; vm_compute; reflexivity. Qed.

(* fun first_big(l: List<Int>, k: Int): Option<Int> { for x in l { if x > k { return Some(x) } }  None }
   let r = first_big([1, 5, 9], 3)
   match r { Some(m) => { println(string_repr(m)) } None => { println("none") } }
   match first_big([], 0) { Some(m) => m + 1, None => 0 } *)
Definition ex_first_big : fdef :=
  {| fparams := [(2%N, TListInt); (3%N, TInt)]; fret := TOpt TInt;
     fbody := [ TmFor 4%N (TmVar 2%N)
                  [TmIf (TmBin (OCmp 2) (TmVar 4%N) (TmVar 3%N)) [TmReturn (TmSome (TmVar 4%N))] None];
                TmNone ] |}.
Definition ex_wide : program :=
  {| pfuns := [(1%N, ex_first_big)];
     pmain := [ TmLet 5%N (TmCall 1%N [TmList [TmInt 1; TmInt 5; TmInt 9]; TmInt 3]);
                TmMatch (TmVar 5%N) [(PSome 6%N, [TmPrintln (TmRepr (TmVar 6%N))]); (PNone, [TmPrintln (TmStr [])])];
                TmMatch (TmCall 1%N [TmList []; TmInt 0]) [(PSome 6%N, [TmBin (OArith 0) (TmVar 6%N) (TmInt 1)]); (PNone, [TmInt 0])] ] |}.

Lemma ex_wide_accepted : tc_prog ex_wide = true /\ run 200 ex_wide = Finished (VInt 0).
Proof. split; vm_compute; reflexivity. Qed.

(* the value found by the early return really is Some(5) *)
Lemma ex_wide_return :
  run 200 {| pfuns := [(1%N, ex_first_big)]; pmain := [TmCall 1%N [TmList [TmInt 1; TmInt 5; TmInt 9]; TmInt 3]] |}
  = Finished (VSome (VInt 5)).
Proof. vm_compute. reflexivity. Qed.

(* a match without the None arm is rejected, and it does fail at run time *)
Definition ex_nonexh : program :=
  {| pfuns := []; pmain := [TmMatch TmNone [(PSome 6%N, [TmInt 1])]] |}.
Lemma ex_nonexh_rejected : tc_prog ex_nonexh = false /\ run 100 ex_nonexh = TypeError.
Proof. split; vm_compute; reflexivity. Qed.

(* fun swap(p: (Int, String)): (String, Int) { let (a, b) = p  (b, a) }
   let (s, n) = swap((3, "x"))   n + 1 *)
Definition ex_swap : fdef :=
  {| fparams := [(2%N, TPair TInt TStr)]; fret := TPair TStr TInt;
     fbody := [TmLetPair 3%N 4%N (TmVar 2%N); TmPair (TmVar 4%N) (TmVar 3%N)] |}.
Definition ex_pairs : program :=
  {| pfuns := [(1%N, ex_swap)];
     pmain := [TmLetPair 5%N 6%N (TmCall 1%N [TmPair (TmInt 3) (TmStr [120%N])]); TmBin (OArith 0) (TmVar 6%N) (TmInt 1)] |}.
Lemma ex_pairs_accepted : tc_prog ex_pairs = true /\ run 100 ex_pairs = Finished (VInt 4).
Proof. split; vm_compute; reflexivity. Qed.

(* destructuring something that is not a pair is rejected, and fails at run time *)
Definition ex_badpair : program := {| pfuns := []; pmain := [TmLetPair 5%N 6%N (TmInt 1); TmVar 5%N] |}.
Lemma ex_badpair_rejected : tc_prog ex_badpair = false /\ run 100 ex_badpair = TypeError.
Proof. split; vm_compute; reflexivity. Qed.
