(* Soundness of the model checker `tc` (Typing.v) for the reference semantics
   `ev`: accepted programs never end in `TypeErr`.  Big-step progress +
   preservation in one statement (`good`), by induction on the evaluator's fuel. *)
From Coq Require Import ZArith NArith Bool List Lia.
From Garden Require Import Typing.
Import ListNotations.
Open Scope Z_scope.

Lemma ty_eqb_eq a b : ty_eqb a b = true <-> a = b.
Proof. destruct a, b; cbn; split; intros H; try discriminate; reflexivity. Qed.

Definition R (a : ident * ty) (b : ident * value) : Prop :=
  fst a = fst b /\ has_type (snd b) (snd a) = true.

Definition env_ok (G : ctx) (r : env) : Prop := Forall2 (Forall2 R) G r.

Lemma assoc_ok x : forall s s', Forall2 R s s' ->
  match assoc x s with
  | Some t => exists v, assoc x s' = Some v /\ has_type v t = true
  | None => assoc x s' = None
  end.
Proof.
  induction 1 as [|[y t] [y' v] s s' [E HT] _ IH]; cbn [assoc]; [reflexivity|].
  cbn [fst snd] in E, HT. subst y'. destruct (N.eqb x y); [eauto|exact IH].
Qed.

Lemma lookup_ok x : forall G r, env_ok G r ->
  match lookup x G with
  | Some t => exists v, lookup x r = Some v /\ has_type v t = true
  | None => lookup x r = None
  end.
Proof.
  induction 1 as [|s s' G r Hs _ IH]; cbn [lookup]; [reflexivity|].
  pose proof (assoc_ok x s s' Hs) as A. destruct (assoc x s) as [t|].
  - destruct A as (v & -> & HT). eauto.
  - rewrite A. exact IH.
Qed.

Lemma bind_ok x t v G r : env_ok G r -> has_type v t = true -> env_ok (bind x t G) (bind x v r).
Proof.
  intros H HT. destruct H as [|s s' G r Hs H]; cbn [bind].
  - repeat constructor; auto.
  - constructor; [|exact H]. constructor; [split; auto|exact Hs].
Qed.

Lemma set_assoc_ok x t v : forall s s', Forall2 R s s' -> assoc x s = Some t -> has_type v t = true ->
  Forall2 R s (set_assoc x v s').
Proof.
  induction 1 as [|[y ty] [y' w] s s' [E HT] Hs IH]; cbn [assoc set_assoc]; intros A HV; [discriminate|].
  cbn [fst snd] in E, HT. subst y'. destruct (N.eqb x y).
  - inversion A; subst. constructor; [split; auto|exact Hs].
  - constructor; [split; auto|]. now apply IH.
Qed.

Lemma update_ok x t v : forall G r, env_ok G r -> lookup x G = Some t -> has_type v t = true ->
  exists r', update x v r = Some r' /\ env_ok G r'.
Proof.
  induction 1 as [|s s' G r Hs H IH]; cbn [lookup update]; intros L HV; [discriminate|].
  pose proof (assoc_ok x s s' Hs) as A. destruct (assoc x s) as [t'|] eqn:AS.
  - destruct A as (w & -> & _). inversion L; subst. eexists. split; [reflexivity|].
    constructor; [|exact H]. eapply set_assoc_ok; eauto.
  - rewrite A. destruct (IH L HV) as (r' & -> & OK). eexists. split; [reflexivity|]. constructor; assumption.
Qed.

Lemma tl_ok s G r : env_ok (s :: G) r -> env_ok G (tl r).
Proof. intros H. inversion H; subst. exact H4. Qed.

Definition good (t : ty) (G : ctx) (x : res (value * env)) : Prop :=
  match x with
  | Ok (v, r') => has_type v t = true /\ env_ok G r'
  | TypeErr => False
  | _ => True
  end.

Definition sound_f (tcf : ctx -> tm -> option ty) (evf : env -> tm -> res (value * env)) : Prop :=
  forall G r e t, tcf G e = Some t -> env_ok G r -> good t G (evf r e).

Section Parametric.
Variable tcf : ctx -> tm -> option ty.
Variable evf : env -> tm -> res (value * env).
Hypothesis SF : sound_f tcf evf.

Lemma list_sound : forall l G r ts, tc_list tcf G l = Some ts -> env_ok G r ->
  match ev_list evf r l with
  | Ok (vs, r') => Forall2 (fun v t => has_type v t = true) vs ts /\ env_ok G r'
  | TypeErr => False
  | _ => True
  end.
Proof.
  induction l as [|e l IH]; intros G r ts H OKr; cbn [tc_list ev_list] in *.
  - inversion H; subst. split; [constructor|exact OKr].
  - destruct (tcf G e) as [t|] eqn:T; [|discriminate].
    destruct (tc_list tcf G l) as [ts'|] eqn:TL; [|discriminate]. inversion H; subst.
    pose proof (SF G r e t T OKr) as GE. destruct (evf r e) as [[v r1]| | |]; cbn [good] in GE; auto.
    destruct GE as [HV OK1]. specialize (IH G r1 ts' TL OK1).
    destruct (ev_list evf r1 l) as [[vs r2]| | |]; auto. destruct IH as [F2 OK2]. split; [constructor; assumption|exact OK2].
Qed.

Lemma stmts_sound : forall l s G0 r t, tc_stmts tcf (s :: G0) l = Some t -> env_ok (s :: G0) r ->
  match ev_stmts evf r l with
  | Ok (v, r') => has_type v t = true /\ exists s', env_ok (s' :: G0) r'
  | TypeErr => False
  | _ => True
  end.
Proof.
  induction l as [|e l IH]; intros s G0 r t H OKr.
  - cbn in *. inversion H; subst. split; [reflexivity|eauto].
  - cbn [ev_stmts].
    assert (LET : forall x rhs, e = TmLet x rhs ->
              match ev_stmts evf r (e :: l) with
              | Ok (v, r') => has_type v t = true /\ exists s', env_ok (s' :: G0) r'
              | TypeErr => False | _ => True end).
    { intros x rhs ->. cbn [tc_stmts ev_stmts ev_one] in *.
      destruct (tcf (s :: G0) rhs) as [t1|] eqn:T; [|discriminate].
      pose proof (SF _ r rhs t1 T OKr) as GE. destruct (evf r rhs) as [[v r1]| | |]; cbn [good] in GE; auto.
      destruct GE as [HV OK1]. pose proof (bind_ok x t1 v _ _ OK1 HV) as OKB. cbn [bind] in OKB.
      destruct l as [|ee ll].
      - inversion H; subst. split; [reflexivity|]. destruct r1; cbn [bind] in *; eauto.
      - assert (OKB' : env_ok (((x, t1) :: s) :: G0) (bind x v r1)) by exact OKB.
        exact (IH _ _ _ _ H OKB'). }
    assert (OTHER : (forall x rhs, e <> TmLet x rhs) ->
              tc_stmts tcf (s :: G0) (e :: l) =
                match tcf (s :: G0) e with
                | Some t0 => match l with [] => Some t0 | _ => tc_stmts tcf (s :: G0) l end
                | None => None end /\ ev_one evf r e = evf r e).
    { intros NL. destruct e; try (split; reflexivity). exfalso. eapply NL. reflexivity. }
    destruct e; try (exact (LET _ _ eq_refl));
      (destruct OTHER as [E1 E2]; [intros x0 rhs0 C; discriminate C|];
       rewrite E1 in H; rewrite E2;
       match type of H with context [tcf ?g ?e0] => destruct (tcf g e0) as [t0|] eqn:T; [|discriminate];
         pose proof (SF _ r e0 t0 T OKr) as GE; destruct (evf r e0) as [[v r1]| | |]; cbn [good] in GE; auto;
         destruct GE as [HV OK1]; destruct l as [|ee ll];
         [inversion H; subst; split; [exact HV|eauto]|exact (IH _ _ _ _ H OK1)] end).
Qed.

Lemma block_sound l G r t : tc_stmts tcf ([] :: G) l = Some t -> env_ok G r -> good t G (ev_block evf r l).
Proof.
  intros H OKr. unfold ev_block.
  assert (OK0 : env_ok ([] :: G) ([] :: r)) by (constructor; [constructor|exact OKr]).
  pose proof (stmts_sound l [] G ([] :: r) t H OK0) as S.
  destruct (ev_stmts evf ([] :: r) l) as [[v r']| | |]; cbn [good]; auto.
  destruct S as [HV (s' & OK')]. split; [exact HV|]. eapply tl_ok; eauto.
Qed.
End Parametric.

Definition fenv_ok (F : fenv) : Prop :=
  forall f d, assoc f F = Some d -> exists n, tc_stmts (tc n F) [fparams d] (fbody d) = Some (fret d).

Lemma bop_sound o ta tb t va vb :
  bop_ty o ta tb = Some t -> has_type va ta = true -> has_type vb tb = true ->
  match eval_bop o va vb with Ok v => has_type v t = true | TypeErr => False | _ => True end.
Proof.
  intros H HA HB. destruct o; cbn [bop_ty eval_bop] in *.
  - destruct (ty_eqb ta TInt) eqn:E1; [|discriminate]. destruct (ty_eqb tb TInt) eqn:E2; [|discriminate].
    apply ty_eqb_eq in E1, E2. subst. inversion H; subst.
    destruct va; try discriminate. destruct vb; try discriminate.
    assert (RI : forall zz, match ret_int zz with Ok v => has_type v TInt = true | TypeErr => False | _ => True end).
    { intros zz. unfold ret_int. destruct (in_i64 zz); cbn; auto. }
    unfold arith.
    repeat match goal with |- context [if ?c then _ else _] => destruct c end; try exact I; apply RI.
  - destruct (ty_eqb ta TInt) eqn:E1; [|discriminate]. destruct (ty_eqb tb TInt) eqn:E2; [|discriminate].
    apply ty_eqb_eq in E1, E2. subst. inversion H; subst.
    destruct va; try discriminate. destruct vb; try discriminate. reflexivity.
  - destruct (ty_eqb ta tb); [|discriminate]. inversion H; subst. reflexivity.
  - destruct (ty_eqb ta tb); [|discriminate]. inversion H; subst. reflexivity.
  - destruct (ty_eqb ta TBool) eqn:E1; [|discriminate]. destruct (ty_eqb tb TBool) eqn:E2; [|discriminate].
    apply ty_eqb_eq in E1, E2. subst. inversion H; subst.
    destruct va; try discriminate. destruct vb; try discriminate. reflexivity.
  - destruct (ty_eqb ta TBool) eqn:E1; [|discriminate]. destruct (ty_eqb tb TBool) eqn:E2; [|discriminate].
    apply ty_eqb_eq in E1, E2. subst. inversion H; subst.
    destruct va; try discriminate. destruct vb; try discriminate. reflexivity.
  - destruct (ty_eqb ta TStr) eqn:E1; [|discriminate]. destruct (ty_eqb tb TStr) eqn:E2; [|discriminate].
    apply ty_eqb_eq in E1, E2. subst. inversion H; subst.
    destruct va; try discriminate. destruct vb; try discriminate. reflexivity.
Qed.

Lemma ints_ok : forall vs ts, Forall2 (fun v t => has_type v t = true) vs ts ->
  forallb (fun t => ty_eqb t TInt) ts = true ->
  forallb (fun x => match x with VInt _ => true | _ => false end) vs = true.
Proof.
  induction 1 as [|v t vs ts HV _ IH]; intros FB; [reflexivity|].
  cbn [forallb] in *. apply andb_true_iff in FB. destruct FB as [E FB]. apply ty_eqb_eq in E. subst t.
  rewrite (IH FB). destruct v; try discriminate. reflexivity.
Qed.

Lemma tys_eqb_eq a b : tys_eqb a b = true -> a = b.
Proof.
  unfold tys_eqb. revert b. induction a as [|x a IH]; intros [|y b] H; cbn in *; try discriminate; [reflexivity|].
  apply andb_true_iff in H. destruct H as [L H]. apply andb_true_iff in H. destruct H as [E H].
  apply ty_eqb_eq in E. subst y. f_equal. apply IH. rewrite L. exact H.
Qed.

Lemma args_sound : forall vs ps, Forall2 (fun v t => has_type v t = true) vs (map snd ps) ->
  length vs = length ps /\ args_ok vs ps = true /\ Forall2 R ps (zip_params ps vs).
Proof.
  induction vs as [|v vs IH]; intros [|[x t] ps] H; inversion H; subst; cbn.
  - repeat split; constructor.
  - destruct (IH ps H5) as (L & A & Z). cbn [snd] in H3. rewrite H3, A. repeat split; auto.
    constructor; [split; auto|exact Z].
Qed.

Theorem ev_sound F : fenv_ok F -> forall k n, sound_f (tc n F) (ev k F).
Proof.
  intros FOK. induction k as [|k IH]; intros n G r e t H OKr; [exact I|].
  destruct n as [|n]; [discriminate|].
  pose proof (IH n) as SF.
  destruct e; cbn [tc ev] in *.
  - inversion H; subst. split; [reflexivity|exact OKr].
  - inversion H; subst. split; [reflexivity|exact OKr].
  - inversion H; subst. split; [reflexivity|exact OKr].
  - (* list literal *)
    destruct (tc_list (tc n F) G l) as [ts|] eqn:TL; [|discriminate].
    destruct (forallb (fun t0 => ty_eqb t0 TInt) ts) eqn:FB; [|discriminate]. inversion H; subst.
    pose proof (list_sound _ _ SF l G r ts TL OKr) as LS.
    destruct (ev_list (ev k F) r l) as [[vs r1]| | |]; cbn [good]; auto.
    destruct LS as [F2 OK1]. split; [|exact OK1]. cbn [has_type]. eapply ints_ok; eauto.
  - (* variable *)
    pose proof (lookup_ok x G r OKr) as L. rewrite H in L. destruct L as (v & -> & HV). split; assumption.
  - (* binary operator *)
    destruct (tc n F G e1) as [ta|] eqn:T1; [|discriminate].
    destruct (tc n F G e2) as [tb|] eqn:T2; [|discriminate].
    pose proof (SF G r e1 ta T1 OKr) as G1. destruct (ev k F r e1) as [[va r1]| | |]; cbn [good] in *; auto.
    destruct G1 as [HA OK1].
    pose proof (SF G r1 e2 tb T2 OK1) as G2. destruct (ev k F r1 e2) as [[vb r2]| | |]; cbn [good] in *; auto.
    destruct G2 as [HB OK2].
    pose proof (bop_sound o ta tb t va vb H HA HB) as B. destruct (eval_bop o va vb); cbn [good]; auto.
  - (* call *)
    destruct (lookup f G) eqn:LF; [discriminate|].
    pose proof (lookup_ok f G r OKr) as L. rewrite LF in L. rewrite L.
    destruct (assoc f F) as [d|] eqn:AF; [|discriminate].
    destruct (tc_list (tc n F) G args) as [ts|] eqn:TL; [|discriminate].
    destruct (tys_eqb ts (map snd (fparams d))) eqn:TE; [|discriminate]. inversion H; subst.
    apply tys_eqb_eq in TE. subst ts.
    pose proof (list_sound _ _ SF args G r _ TL OKr) as LS.
    destruct (ev_list (ev k F) r args) as [[vs r1]| | |]; cbn [good]; auto.
    destruct LS as [F2 OK1]. destruct (args_sound vs (fparams d) F2) as (LEN & AOK & ZOK).
    rewrite LEN, Nat.eqb_refl, AOK. cbn [negb].
    destruct (FOK f d AF) as (n' & TB).
    assert (OKB : env_ok [fparams d] [zip_params (fparams d) vs]) by (constructor; [exact ZOK|constructor]).
    pose proof (stmts_sound _ _ (IH n') (fbody d) (fparams d) [] _ (fret d) TB OKB) as BS.
    destruct (ev_stmts (ev k F) [zip_params (fparams d) vs] (fbody d)) as [[v rb]| | |]; cbn [good]; auto.
    destruct BS as [HV _]. rewrite HV. split; assumption.
  - (* println *)
    destruct (tc n F G e) as [ta|] eqn:T1; [|discriminate]. destruct ta; try discriminate. inversion H; subst.
    pose proof (SF G r e TStr T1 OKr) as G1. destruct (ev k F r e) as [[va r1]| | |]; cbn [good] in *; auto.
    destruct G1 as [HA OK1]. destruct va; try discriminate. split; [reflexivity|exact OK1].
  - (* string_repr *)
    destruct (tc n F G e) as [ta|] eqn:T1; [|discriminate]. inversion H; subst.
    pose proof (SF G r e ta T1 OKr) as G1. destruct (ev k F r e) as [[va r1]| | |]; cbn [good] in *; auto.
    destruct G1 as [HA OK1]. split; [reflexivity|exact OK1].
  - discriminate.
  - (* assignment *)
    destruct (lookup x G) as [tx|] eqn:LX; [|discriminate].
    destruct (tc n F G e) as [tr|] eqn:T1; [|discriminate].
    destruct (ty_eqb tx tr) eqn:E; [|discriminate]. apply ty_eqb_eq in E. subst tr. inversion H; subst.
    pose proof (SF G r e tx T1 OKr) as G1. destruct (ev k F r e) as [[v r1]| | |]; cbn [good] in *; auto.
    destruct G1 as [HV OK1]. destruct (update_ok x tx v G r1 OK1 LX HV) as (r2 & -> & OK2).
    split; [reflexivity|exact OK2].
  - (* += / -= *)
    destruct (lookup x G) as [tx|] eqn:LX; [|discriminate]. destruct tx; try discriminate.
    destruct (tc n F G e) as [tr|] eqn:T1; [|discriminate]. destruct tr; try discriminate. inversion H; subst.
    pose proof (SF G r e TInt T1 OKr) as G1. destruct (ev k F r e) as [[v r1]| | |]; cbn [good] in *; auto.
    destruct G1 as [HV OK1].
    pose proof (lookup_ok x G r1 OK1) as L. rewrite LX in L. destruct L as (w & -> & HW).
    destruct w; try discriminate. destruct v; try discriminate.
    unfold ret_int. destruct (in_i64 _); cbn [good]; auto.
    match goal with |- context [update x (VInt ?z0) r1] =>
      destruct (update_ok x TInt (VInt z0) G r1 OK1 LX eq_refl) as (r2 & -> & OK2) end.
    split; [reflexivity|exact OK2].
  - (* if *)
    destruct el as [eb|].
    + destruct (tc n F G e) as [tcnd|] eqn:T1; [|discriminate]. destruct tcnd; try discriminate.
      destruct (tc_stmts (tc n F) ([] :: G) th) as [t1|] eqn:TT; [|discriminate].
      destruct (tc_stmts (tc n F) ([] :: G) eb) as [t2|] eqn:TE; [|discriminate].
      destruct (ty_eqb t1 t2) eqn:E; [|discriminate]. apply ty_eqb_eq in E. subst t2. inversion H; subst.
      pose proof (SF G r e TBool T1 OKr) as G1. destruct (ev k F r e) as [[v r1]| | |]; cbn [good] in *; auto.
      destruct G1 as [HV OK1]. destruct v; try discriminate. destruct b.
      * pose proof (block_sound _ _ SF th G r1 t TT OK1) as B.
        destruct (ev_block (ev k F) r1 th) as [[v2 r2]| | |]; cbn [good] in *; auto.
      * exact (block_sound _ _ SF eb G r1 t TE OK1).
    + destruct (tc n F G e) as [tcnd|] eqn:T1; [|discriminate]. destruct tcnd; try discriminate.
      destruct (tc_stmts (tc n F) ([] :: G) th) as [t1|] eqn:TT; [|discriminate]. inversion H; subst.
      pose proof (SF G r e TBool T1 OKr) as G1. destruct (ev k F r e) as [[v r1]| | |]; cbn [good] in *; auto.
      destruct G1 as [HV OK1]. destruct v; try discriminate. destruct b.
      * pose proof (block_sound _ _ SF th G r1 t1 TT OK1) as B.
        destruct (ev_block (ev k F) r1 th) as [[v2 r2]| | |]; cbn [good] in *; auto.
        destruct B as [_ OK2]. split; [reflexivity|exact OK2].
      * split; [reflexivity|exact OK1].
  - (* while *)
    destruct (tc n F G e) as [tcnd|] eqn:T1; [|discriminate]. destruct tcnd; try discriminate.
    destruct (tc_stmts (tc n F) ([] :: G) b) as [t1|] eqn:TT; [|discriminate]. inversion H; subst.
    pose proof (SF G r e TBool T1 OKr) as G1. destruct (ev k F r e) as [[v r1]| | |]; cbn [good] in *; auto.
    destruct G1 as [HV OK1]. destruct v; try discriminate. destruct b0.
    + pose proof (block_sound _ _ SF b G r1 t1 TT OK1) as B.
      destruct (ev_block (ev k F) r1 b) as [[v2 r2]| | |]; cbn [good] in *; auto.
      destruct B as [_ OK2].
      apply (IH (S n) G r2 (TmWhile e b) TUnit); [|exact OK2].
      cbn [tc]. rewrite T1, TT. reflexivity.
    + split; [reflexivity|exact OK1].
Qed.

Lemma assoc_in {A} x : forall (l : list (ident * A)) d, assoc x l = Some d -> In (x, d) l.
Proof.
  induction l as [|[y w] l IH]; intros d H; cbn [assoc] in H; [discriminate|].
  destruct (N.eqb x y) eqn:E.
  - apply N.eqb_eq in E. subst. inversion H; subst. now left.
  - right. now apply IH.
Qed.

Lemma tc_prog_fenv_ok p : tc_prog p = true -> fenv_ok (pfuns p).
Proof.
  unfold tc_prog. intros H. apply andb_true_iff in H. destruct H as [H _].
  rewrite forallb_forall in H. intros f d A. apply assoc_in in A. specialize (H _ A). cbn [snd] in H.
  unfold tc_fun in H. eexists.
  destruct (tc_stmts _ [fparams d] (fbody d)) as [t|] eqn:T; [|discriminate].
  apply ty_eqb_eq in H. subst t. exact T.
Qed.

(* accepted programs never raise a type-related runtime error, whatever the fuel *)
Theorem tc_sound : forall p, tc_prog p = true -> forall fuel, run fuel p <> TypeError.
Proof.
  intros p H fuel. pose proof (tc_prog_fenv_ok p H) as FOK.
  unfold tc_prog in H. apply andb_true_iff in H. destruct H as [_ H].
  destruct (tc_stmts _ [[]] (pmain p)) as [t|] eqn:T; [|discriminate].
  assert (OK0 : env_ok [[]] [[]]) by (repeat constructor).
  pose proof (stmts_sound _ _ (ev_sound _ FOK fuel _) (pmain p) [] [] [[]] t T OK0) as S.
  unfold run. destruct (ev_stmts (ev fuel (pfuns p)) [[]] (pmain p)) as [[v r]| | |]; try discriminate. contradiction.
Qed.

(* ---- examples ---- *)
(* fun add(a: Int, b: Int): Int { a + b }
   let x = add(1, 2)  let i = 0  while i < x { i += 1 }  println(string_repr(i))  i == 3 *)
Definition ex_add : fdef :=
  {| fparams := [(2%N, TInt); (3%N, TInt)]; fret := TInt; fbody := [TmBin (OArith 0) (TmVar 2%N) (TmVar 3%N)] |}.
Definition ex_good : program :=
  {| pfuns := [(1%N, ex_add)];
     pmain := [ TmLet 4%N (TmCall 1%N [TmInt 1; TmInt 2]);
                TmLet 5%N (TmInt 0);
                TmWhile (TmBin (OCmp 0) (TmVar 5%N) (TmVar 4%N)) [TmUpd false 5%N (TmInt 1)];
                TmPrintln (TmRepr (TmVar 5%N));
                TmBin OEq (TmVar 5%N) (TmInt 3) ] |}.

Lemma ex_good_accepted : tc_prog ex_good = true /\ run 100 ex_good = Finished (VBool true).
Proof. split; vm_compute; reflexivity. Qed.

(* add(1, True) + "a": rejected, and it does raise a type error *)
Definition ex_bad : program :=
  {| pfuns := [(1%N, ex_add)]; pmain := [TmBin (OArith 0) (TmCall 1%N [TmInt 1; TmBool true]) (TmStr [])] |}.

Lemma ex_bad_rejected : tc_prog ex_bad = false /\ run 100 ex_bad = TypeError.
Proof. split; vm_compute; reflexivity. Qed.
