(* MODEL (definitions only; proofs are in ValueEqProps.v).

   Values of garden that have literal syntax, and `==` on them.
   Mirrors /repo/src/values.rs:
     `enum Value_`                      -> `value`   (only the constructors with literal syntax: no
                                                      Fun / Closure / BuiltInFunction / EnumConstructor / Namespace)
     `struct Value(Rc<Value_>)`         -> the `same` argument of `veq_sh` (pointer identity of two `Rc`s)
     `impl PartialEq for Value_`        -> `inner_eq` arm by arm (the code AFTER fix-1 and fix-2, see below)
     `impl PartialEq for Value_` before -> `orig_inner_eq` (the code as it was at 4e1e23d: no Float arm, no Dict arm,
                                           EnumVariant / Struct compare `runtime_type`)
     `Type::from_value`, the literal arms of `eval_expr` (ListLiteral, TupleLiteral, DictLiteral, enum constructor
     call, `eval_struct_value`)         -> `type_of`, `mk_list`, `mk_tuple`, `mk_dict`, `mk_enum`, `mk_struct`
     `Value::display`, `escape_string_literal`, `display_unless_unit`, `type_representation` -> `display` etc.

   Representation choices
   * `Float(f64)` is its 64-bit pattern (`f64::to_bits`).  garden prints 0.0 as `0.0` and -0.0 as `-0.0` (checked on
     the binary), so "same printed form" of finite floats is equality of bit patterns (injectivity of Rust's shortest
     round-trip `Display for f64` is Rust std: modelled, not verified; the C13 driver checks it on every run).
   * `String` is the list of its UTF-8 bytes (equality of byte strings = equality of code-point strings).
   * `Dict` (`rpds::HashTrieMap<String, Value>`) is an association list.  A real map has each key once: that is the
     `literal` well-formedness predicate below.  Iteration order of the hash trie is not observable through `==` or
     `display` (display sorts by key), so the list order is arbitrary; nothing below depends on it.
   * `runtime_type` / `elem_type` / `item_types` / `value_type` annotations are kept explicitly (type `ty`) so that it
     is visible which of them `==` looks at: after the fixes, none. *)
From Coq Require Import ZArith NArith Bool List.
Import ListNotations.

Definition str := list N.

Fixpoint str_eqb (a b : str) : bool :=
  match a, b with
  | [], [] => true
  | x :: a', y :: b' => N.eqb x y && str_eqb a' b'
  | _, _ => false
  end.

(* Runtime types (src/garden_type.rs `Type`), as far as literal-syntax values can carry them. *)
Inductive ty :=
| TyNoValue | TyInt | TyFloat | TyString
| TyList (t : ty)
| TyDict (t : ty)
| TyTuple (ts : list ty)
| TyUser (is_enum : bool) (name : str) (args : list ty).

Inductive value :=
| VInt (z : Z)
| VFloat (bits : N)
| VString (s : str)
| VList (elem_type : ty) (items : list value)
| VTuple (item_types : list ty) (items : list value)
| VDict (value_type : ty) (items : list (str * value))
| VEnum (type_name : str) (runtime_type : ty) (variant_idx : N) (payload : option value)
| VStruct (type_name : str) (runtime_type : ty) (fields : list (str * value)).

(* `Vec<T> == Vec<T>` / `rpds::Vector == rpds::Vector`: same length and equal element by element. *)
Section Forallb2.
  Context {A B : Type} (f : A -> B -> bool).
  Fixpoint forallb2 (xs : list A) (ys : list B) {struct xs} : bool :=
    match xs, ys with
    | [], [] => true
    | x :: xs', y :: ys' => f x y && forallb2 xs' ys'
    | _, _ => false
    end.
End Forallb2.

(* `HashTrieMap::get` *)
Fixpoint lookup {A : Type} (k : str) (m : list (str * A)) : option A :=
  match m with
  | [] => None
  | (k', v) :: m' => if str_eqb k k' then Some v else lookup k m'
  end.

Definition keys {A : Type} (m : list (str * A)) : list str := map fst m.

(* ------------------------------------------------------------------------- *)
(* `==` after the fixes.

   `same x y` stands for `Rc::ptr_eq(x, y)`.  `impl PartialEq for Rc<T: Eq>` is
   `Rc::ptr_eq(a, b) || **a == **b` (std's `RcEqIdent` specialisation; `impl Eq for Value_ {}` enables it), and
   every nested `Value` is again an `Rc`, so the shortcut applies at every level.

   inner_eq = `impl PartialEq for Value_ { fn eq }`:
     (Int, Int)                 i1 == i2
     (Float, Float)             f1.to_bits() == f2.to_bits()                       [fix-1]
     (String, String)           s1 == s2
     (List, List)               self_items == other_items        (elem_type ignored)
     (Tuple, Tuple)             self_items == other_items        (item_types ignored)
     (Dict, Dict)               self_items == other_items        (value_type ignored) [fix-1]
                                rpds: size() equal && all (k, v) of self: other.get(k) == Some(v)
     (EnumVariant, EnumVariant) type_name, variant_idx, payload  (runtime_type ignored) [fix-2]
     (Struct, Struct)           type_name, fields                (runtime_type ignored) [fix-2]
     _                          false *)
Fixpoint inner_eq (same : value -> value -> bool) (a b : value) {struct a} : bool :=
  match a, b with
  | VInt x, VInt y => Z.eqb x y
  | VFloat x, VFloat y => N.eqb x y
  | VString x, VString y => str_eqb x y
  | VList _ xs, VList _ ys => forallb2 (fun x y => same x y || inner_eq same x y) xs ys
  | VTuple _ xs, VTuple _ ys => forallb2 (fun x y => same x y || inner_eq same x y) xs ys
  | VDict _ xs, VDict _ ys =>
      Nat.eqb (length xs) (length ys) &&
      forallb (fun kv => match kv with
                         | (k, v) => match lookup k ys with
                                     | Some w => same v w || inner_eq same v w
                                     | None => false
                                     end
                         end) xs
  | VEnum n1 _ i1 p1, VEnum n2 _ i2 p2 =>
      str_eqb n1 n2 && N.eqb i1 i2 &&
      match p1, p2 with
      | Some x, Some y => same x y || inner_eq same x y
      | None, None => true
      | _, _ => false
      end
  | VStruct n1 _ f1, VStruct n2 _ f2 =>
      str_eqb n1 n2 &&
      forallb2 (fun f g => match f, g with
                           | (k1, v1), (k2, v2) => str_eqb k1 k2 && (same v1 v2 || inner_eq same v1 v2)
                           end) f1 f2
  | _, _ => false
  end.

(* `lhs_value == rhs_value` on `Value` (eval_equality_binop, BinaryOperatorKind::Equal) *)
Definition veq_sh (same : value -> value -> bool) (a b : value) : bool := same a b || inner_eq same a b.

(* `lhs_value != rhs_value`: `#[derive(PartialEq)]` defines only `eq`; `ne` is the default `!self.eq(other)`. *)
Definition vne_sh (same : value -> value -> bool) (a b : value) : bool := negb (veq_sh same a b).

(* Two values built independently share no `Rc`. *)
Definition no_sharing : value -> value -> bool := fun _ _ => false.
Definition veq (a b : value) : bool := veq_sh no_sharing a b.
Definition vne (a b : value) : bool := vne_sh no_sharing a b.

(* ------------------------------------------------------------------------- *)
(* `==` as it was before the fixes (values.rs at 4e1e23d): `fix1 = false`: there is no (Float, Float) and no
   (Dict, Dict) arm, so both fall to `_ => false`; EnumVariant and Struct compare `runtime_type` (and not
   `type_name`).  `fix1 = true` is the code after fix-1 only (Float and Dict arms added, runtime types still
   compared). *)
Fixpoint ty_eqb (a b : ty) {struct a} : bool :=
  match a, b with
  | TyNoValue, TyNoValue | TyInt, TyInt | TyFloat, TyFloat | TyString, TyString => true
  | TyList x, TyList y => ty_eqb x y
  | TyDict x, TyDict y => ty_eqb x y
  | TyTuple xs, TyTuple ys => forallb2 (fun x y => ty_eqb x y) xs ys
  | TyUser e1 n1 xs, TyUser e2 n2 ys => Bool.eqb e1 e2 && str_eqb n1 n2 && forallb2 (fun x y => ty_eqb x y) xs ys
  | _, _ => false
  end.

Fixpoint orig_inner_eq (fix1 : bool) (same : value -> value -> bool) (a b : value) {struct a} : bool :=
  match a, b with
  | VInt x, VInt y => Z.eqb x y
  | VFloat x, VFloat y => fix1 && N.eqb x y
  | VDict _ xs, VDict _ ys =>
      fix1 && Nat.eqb (length xs) (length ys) &&
      forallb (fun kv => match kv with
                         | (k, v) => match lookup k ys with
                                     | Some w => same v w || orig_inner_eq fix1 same v w
                                     | None => false
                                     end
                         end) xs
  | VString x, VString y => str_eqb x y
  | VList _ xs, VList _ ys => forallb2 (fun x y => same x y || orig_inner_eq fix1 same x y) xs ys
  | VTuple _ xs, VTuple _ ys => forallb2 (fun x y => same x y || orig_inner_eq fix1 same x y) xs ys
  | VEnum _ t1 i1 p1, VEnum _ t2 i2 p2 =>
      ty_eqb t1 t2 && N.eqb i1 i2 &&
      match p1, p2 with
      | Some x, Some y => same x y || orig_inner_eq fix1 same x y
      | None, None => true
      | _, _ => false
      end
  | VStruct _ t1 f1, VStruct _ t2 f2 =>
      ty_eqb t1 t2 &&
      forallb2 (fun f g => match f, g with
                           | (k1, v1), (k2, v2) => str_eqb k1 k2 && (same v1 v2 || orig_inner_eq fix1 same v1 v2)
                           end) f1 f2
  | _, _ => false
  end.

Definition orig_veq_sh (fix1 : bool) (same : value -> value -> bool) (a b : value) : bool :=
  same a b || orig_inner_eq fix1 same a b.

(* ------------------------------------------------------------------------- *)
(* How literal expressions annotate the values they build. *)

(* `Type::from_value` *)
Definition type_of (v : value) : ty :=
  match v with
  | VInt _ => TyInt
  | VFloat _ => TyFloat
  | VString _ => TyString
  | VList t _ => TyList t
  | VTuple ts _ => TyTuple ts
  | VDict t _ => TyDict t
  | VEnum _ rt _ _ => rt
  | VStruct _ rt _ => rt
  end.

(* Expression_::ListLiteral: `element_type = Type::from_value(&element)` is overwritten per element,
   so the element type is that of the LAST element (NoValue for `[]`). *)
Definition mk_list (items : list value) : value :=
  VList (last (map type_of items) TyNoValue) items.

(* Expression_::TupleLiteral *)
Definition mk_tuple (items : list value) : value :=
  VTuple (map type_of items) items.

(* `HashTrieMap::insert_mut`: a later pair with the same key replaces the earlier one. *)
Fixpoint insert {A : Type} (k : str) (v : A) (m : list (str * A)) : list (str * A) :=
  match m with
  | [] => [(k, v)]
  | (k', v') :: m' => if str_eqb k k' then (k, v) :: m' else (k', v') :: insert k v m'
  end.

(* Expression_::DictLiteral: pairs are inserted in source order; `value_type` is the type of the value
   written LAST (NoValue for `Dict[]`). *)
Definition mk_dict (pairs : list (str * value)) : value :=
  VDict (last (map (fun kv => type_of (snd kv)) pairs) TyNoValue)
        (fold_left (fun m kv => insert (fst kv) (snd kv) m) pairs []).

(* `enum_value_runtime_type`: an enum with `nparams` type parameters; `hint` is the index of the type
   parameter that the variant's payload hint names (None: no payload, or the hint is not a parameter). *)
Definition enum_type (name : str) (nparams : nat) (hint : option nat) (payload_type : ty) : ty :=
  TyUser true name
         (map (fun i => match hint with
                        | Some h => if Nat.eqb i h then payload_type else TyNoValue
                        | None => TyNoValue
                        end) (seq 0 nparams)).

Definition mk_enum (name : str) (nparams : nat) (hint : option nat) (variant_idx : N) (payload : option value) : value :=
  VEnum name
        (enum_type name nparams
                   (match payload with Some _ => hint | None => None end)
                   (match payload with Some p => type_of p | None => TyNoValue end))
        variant_idx payload.

(* `eval_struct_value`.  `def` lists the fields of the struct definition in definition order, each with the
   index of the type parameter its hint names (if any).  `lit` are the fields in the order they are written
   in the literal (the evaluator has already rejected unknown, repeated and missing fields).
   Type arguments: for each type parameter the type of the LAST written field whose hint names it.
   Field order of the value: definition order [fix-3]; before fix-3: the order of the literal. *)
Fixpoint index_of (k : str) (l : list str) : nat :=
  match l with
  | [] => 0
  | k' :: l' => if str_eqb k k' then 0 else S (index_of k l')
  end.

Fixpoint insert_by {A : Type} (key : A -> nat) (x : A) (l : list A) : list A :=
  match l with
  | [] => [x]
  | y :: l' => if Nat.ltb (key x) (key y) then x :: y :: l' else y :: insert_by key x l'
  end.

(* `sort_by_key` is a stable sort; so is insertion sort when inserting from the right. *)
Definition sort_by {A : Type} (key : A -> nat) (l : list A) : list A :=
  fold_right (insert_by key) [] l.

Definition struct_type (name : str) (nparams : nat) (def : list (str * option nat)) (lit : list (str * value)) : ty :=
  TyUser false name
         (map (fun i =>
                 last (flat_map (fun kv => match lookup (fst kv) def with
                                           | Some (Some j) => if Nat.eqb i j then [type_of (snd kv)] else []
                                           | _ => []
                                           end) lit) TyNoValue)
              (seq 0 nparams)).

Definition mk_struct (name : str) (nparams : nat) (def : list (str * option nat)) (lit : list (str * value)) : value :=
  VStruct name (struct_type name nparams def lit)
          (sort_by (fun kv => index_of (fst kv) (keys def)) lit).

Definition orig_mk_struct (name : str) (nparams : nat) (def : list (str * option nat)) (lit : list (str * value)) : value :=
  VStruct name (struct_type name nparams def lit) lit.

(* ------------------------------------------------------------------------- *)
(* Well-formed literal-syntax values: every dict holds each key once (it is a map). *)
Fixpoint nodup_keys {A : Type} (l : list (str * A)) : bool :=
  match l with
  | [] => true
  | (k, _) :: l' => match lookup k l' with None => nodup_keys l' | Some _ => false end
  end.

Fixpoint literalb (v : value) : bool :=
  match v with
  | VInt _ | VFloat _ | VString _ => true
  | VList _ xs | VTuple _ xs => forallb literalb xs
  | VDict _ m =>
      nodup_keys m
      && forallb (fun kv => match kv with (_, x) => literalb x end) m
  | VEnum _ _ _ p => match p with Some x => literalb x | None => true end
  | VStruct _ _ fs => forallb (fun kv => match kv with (_, x) => literalb x end) fs
  end.

Definition literal (v : value) : Prop := literalb v = true.

(* ------------------------------------------------------------------------- *)
(* Structural equality: what the property means by "structurally the same value".
   Syntactic equality of the two values, except that
     - the runtime-type annotations are not looked at, and
     - dicts are compared as maps (same keys, related values), whatever the order of the pairs. *)
Inductive opt_rel {A : Type} (R : A -> A -> Prop) : option A -> option A -> Prop :=
| OR_None : opt_rel R None None
| OR_Some : forall x y, R x y -> opt_rel R (Some x) (Some y).

Inductive struct_eq : value -> value -> Prop :=
| SE_Int : forall z, struct_eq (VInt z) (VInt z)
| SE_Float : forall bits, struct_eq (VFloat bits) (VFloat bits)
| SE_String : forall s, struct_eq (VString s) (VString s)
| SE_List : forall t1 t2 xs ys, Forall2 struct_eq xs ys -> struct_eq (VList t1 xs) (VList t2 ys)
| SE_Tuple : forall t1 t2 xs ys, Forall2 struct_eq xs ys -> struct_eq (VTuple t1 xs) (VTuple t2 ys)
| SE_Dict : forall t1 t2 xs ys,
    (forall k, opt_rel struct_eq (lookup k xs) (lookup k ys)) -> struct_eq (VDict t1 xs) (VDict t2 ys)
| SE_Enum : forall n t1 t2 i p q, opt_rel struct_eq p q -> struct_eq (VEnum n t1 i p) (VEnum n t2 i q)
| SE_Struct : forall n t1 t2 fs gs,
    Forall2 (fun f g => fst f = fst g /\ struct_eq (snd f) (snd g)) fs gs ->
    struct_eq (VStruct n t1 fs) (VStruct n t2 gs).

(* ------------------------------------------------------------------------- *)
(* Induction principle for the nested inductive `value`. *)
Fixpoint value_ind'
         (P : value -> Prop)
         (HInt : forall z, P (VInt z))
         (HFloat : forall b, P (VFloat b))
         (HString : forall s, P (VString s))
         (HList : forall t xs, Forall P xs -> P (VList t xs))
         (HTuple : forall ts xs, Forall P xs -> P (VTuple ts xs))
         (HDict : forall t m, Forall (fun kv => P (snd kv)) m -> P (VDict t m))
         (HEnum : forall n t i p, (match p with Some x => P x | None => True end) -> P (VEnum n t i p))
         (HStruct : forall n t fs, Forall (fun kv => P (snd kv)) fs -> P (VStruct n t fs))
         (v : value) {struct v} : P v :=
  let rec := value_ind' P HInt HFloat HString HList HTuple HDict HEnum HStruct in
  match v with
  | VInt z => HInt z
  | VFloat b => HFloat b
  | VString s => HString s
  | VList t xs =>
      HList t xs ((fix go (l : list value) : Forall P l :=
                     match l with
                     | [] => Forall_nil P
                     | x :: l' => Forall_cons x (rec x) (go l')
                     end) xs)
  | VTuple ts xs =>
      HTuple ts xs ((fix go (l : list value) : Forall P l :=
                       match l with
                       | [] => Forall_nil P
                       | x :: l' => Forall_cons x (rec x) (go l')
                       end) xs)
  | VDict t m =>
      HDict t m ((fix go (l : list (str * value)) : Forall (fun kv => P (snd kv)) l :=
                    match l with
                    | [] => Forall_nil _
                    | kv :: l' => Forall_cons kv (rec (snd kv)) (go l')
                    end) m)
  | VEnum n t i p =>
      HEnum n t i p (match p with Some x => rec x | None => I end)
  | VStruct n t fs =>
      HStruct n t fs ((fix go (l : list (str * value)) : Forall (fun kv => P (snd kv)) l :=
                         match l with
                         | [] => Forall_nil _
                         | kv :: l' => Forall_cons kv (rec (snd kv)) (go l')
                         end) fs)
  end.

(* ------------------------------------------------------------------------- *)
(* Value::display (values.rs), for literal-syntax values.

   Parameters (Rust std / the environment: modelled, not verified here):
     fmt_float bits      = `format!("{f}")` of the f64 with these bits, as UTF-8 bytes
     variant_name ty idx = name of variant `idx` of enum `ty` in `env` (None: type or variant no longer defined;
                           garden then prints an `__OLD_...` marker which is not literal syntax) *)
Definition ch (c : nat) : N := N.of_nat c.
Definition s_of (l : list nat) : str := map N.of_nat l.

(* escape_string_literal: `"` -> `\"`, newline -> `\n`, `\` -> `\\`, everything else (also TAB) unchanged *)
Definition escape_string_literal (s : str) : str :=
  (34 :: flat_map (fun c => if N.eqb c 34 then [92; 34]
                            else if N.eqb c 10 then [92; 110]
                            else if N.eqb c 92 then [92; 92]
                            else [c]) s ++ [34])%N.

Fixpoint sep_concat (sep : str) (l : list str) : str :=
  match l with
  | [] => []
  | [x] => x
  | x :: l' => x ++ sep ++ sep_concat sep l'
  end.

Definition contains_dot (s : str) : bool := existsb (N.eqb 46) s.

(* `keys_and_values.sort_by_key(|(k, _v)| *k)`: `String` order = lexicographic order of UTF-8 bytes *)
Fixpoint str_ltb (a b : str) : bool :=
  match a, b with
  | [], [] => false
  | [], _ :: _ => true
  | _ :: _, [] => false
  | x :: a', y :: b' => if N.ltb x y then true else if N.ltb y x then false else str_ltb a' b'
  end.

Fixpoint insert_sorted {A : Type} (kv : str * A) (l : list (str * A)) : list (str * A) :=
  match l with
  | [] => [kv]
  | kv' :: l' => if str_ltb (fst kv) (fst kv') then kv :: kv' :: l' else kv' :: insert_sorted kv l'
  end.

Definition sort_by_key {A : Type} (l : list (str * A)) : list (str * A) := fold_right insert_sorted [] l.

Definition comma_space : str := [44; 32]%N.

(* format!("{i}") of an i64 *)
Fixpoint digits (fuel : nat) (n : N) (acc : str) : str :=
  match fuel with
  | O => acc
  | S fuel' => let acc' := (48 + N.modulo n 10)%N :: acc in
               if N.eqb (N.div n 10) 0 then acc' else digits fuel' (N.div n 10) acc'
  end.

Definition display_int (z : Z) : str :=
  let d := digits 20 (Z.abs_N z) [] in if Z.ltb z 0 then 45%N :: d else d.

Fixpoint display (fmt_float : N -> str) (variant_name : str -> N -> option str) (v : value) {struct v} : str :=
  let disp := display fmt_float variant_name in
  match v with
  | VInt z => display_int z
  | VFloat bits =>
      let s := fmt_float bits in if contains_dot s then s else (s ++ [46; 48])%N
  | VString s => escape_string_literal s
  | VList _ xs => ([91] ++ sep_concat comma_space (map disp xs) ++ [93])%N
  | VTuple _ xs =>
      ([40] ++ sep_concat comma_space (map disp xs) ++ (match xs with [_] => [44] | _ => [] end) ++ [41])%N
  | VDict _ m =>
      ([68; 105; 99; 116; 91]                                     (* Dict[ *)
       ++ sep_concat comma_space
            (map (fun kv => escape_string_literal (fst kv) ++ [32; 61; 62; 32] ++ snd kv)
                 (sort_by_key (map (fun kv => match kv with (k, x) => (k, disp x) end) m)))
       ++ [93])%N
  | VEnum n _ i p =>
      match variant_name n i with
      | None => (n ++ [95; 95; 79; 76; 68])%N                      (* an __OLD marker; not literal syntax *)
      | Some name =>
          match p with
          | Some x => (name ++ [40] ++ disp x ++ [41])%N
          | None => name
          end
      end
  | VStruct n _ fs =>
      (n ++ [123; 32]
         ++ sep_concat comma_space (map (fun kv => match kv with (k, x) => k ++ [58; 32] ++ disp x end) fs)
         ++ [32; 125])%N
  end.

(* display_unless_unit: None for the Unit value *)
Definition display_unless_unit (fmt_float : N -> str) (variant_name : str -> N -> option str) (v : value) : option str :=
  match v with
  | VEnum n _ i _ =>
      if str_eqb n (s_of [85; 110; 105; 116]) && N.eqb i 0 then None else Some (display fmt_float variant_name v)
  | _ => Some (display fmt_float variant_name v)
  end.

(* type_representation: the type name used for method lookup *)
Definition type_representation (v : value) : str :=
  match v with
  | VInt _ => s_of [73; 110; 116]
  | VFloat _ => s_of [70; 108; 111; 97; 116]
  | VString _ => s_of [83; 116; 114; 105; 110; 103]
  | VList _ _ => s_of [76; 105; 115; 116]
  | VTuple _ _ => s_of [84; 117; 112; 108; 101]
  | VDict _ _ => s_of [68; 105; 99; 116]
  | VEnum n _ _ _ => n
  | VStruct n _ _ => n
  end.
