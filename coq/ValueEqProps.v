(* Proofs about the `==` model of Value.v (C13). *)
From Coq Require Import ZArith NArith Bool List Lia.
From Garden Require Import Value.
Import ListNotations.

Notation "a ≈ b" := (struct_eq a b) (at level 70, no associativity).

(* ------------------------------------------------------------------------- *)
(* Strings, lists *)

Lemma str_eqb_eq : forall a b, str_eqb a b = true <-> a = b.
Proof.
  induction a as [|x a IH]; destruct b as [|y b]; cbn [str_eqb]; split; intro H; try congruence; try reflexivity.
  - apply andb_true_iff in H as [H1 H2]. apply N.eqb_eq in H1. apply IH in H2. congruence.
  - injection H as -> ->. apply andb_true_iff; split; [apply N.eqb_refl | now apply IH].
Qed.

Lemma str_eqb_refl : forall a, str_eqb a a = true.
Proof. intro a; now apply str_eqb_eq. Qed.

Lemma str_eqb_neq : forall a b, str_eqb a b = false <-> a <> b.
Proof.
  intros a b; split; intro H.
  - intro E; apply str_eqb_eq in E; congruence.
  - destruct (str_eqb a b) eqn:E; [apply str_eqb_eq in E; contradiction | reflexivity].
Qed.

Lemma forallb2_Forall2 : forall {A B} (f : A -> B -> bool) xs ys,
  forallb2 f xs ys = true <-> Forall2 (fun x y => f x y = true) xs ys.
Proof.
  intros A B f; induction xs as [|x xs IH]; destruct ys as [|y ys]; cbn [forallb2]; split; intro H;
    try discriminate; try constructor; try (now inversion H).
  - now apply andb_true_iff in H as [H1 _].
  - apply andb_true_iff in H as [_ H2]. now apply IH.
  - inversion H; subst. apply andb_true_iff; split; [assumption | now apply IH].
Qed.

(* ------------------------------------------------------------------------- *)
(* Association lists as maps *)

Lemma lookup_In : forall {A} k (m : list (str * A)) v, lookup k m = Some v -> In (k, v) m.
Proof.
  induction m as [|[k' v'] m IH]; cbn [lookup]; intros v H; [discriminate|].
  destruct (str_eqb k k') eqn:E.
  - apply str_eqb_eq in E; subst. injection H as ->. now left.
  - right; now apply IH.
Qed.

Lemma lookup_None : forall {A} k (m : list (str * A)), lookup k m = None <-> ~ In k (keys m).
Proof.
  induction m as [|[k' v'] m IH]; cbn [lookup keys map fst In]; [tauto|].
  destruct (str_eqb k k') eqn:E.
  - apply str_eqb_eq in E; subst. split; [discriminate | intro H; exfalso; apply H; now left].
  - apply str_eqb_neq in E. unfold keys in IH. rewrite IH. split; intro H; [intros [H1|H1]; [congruence | tauto] | tauto].
Qed.

Lemma lookup_Some_key : forall {A} k (m : list (str * A)) v, lookup k m = Some v -> In k (keys m).
Proof. intros A k m v H. apply lookup_In in H. unfold keys. now apply (in_map fst) in H. Qed.

Lemma In_key_lookup : forall {A} k (m : list (str * A)), In k (keys m) -> exists v, lookup k m = Some v.
Proof.
  intros A k m H. destruct (lookup k m) eqn:E; [eauto|]. apply lookup_None in E. contradiction.
Qed.

Lemma nodup_keys_NoDup : forall {A} (m : list (str * A)), nodup_keys m = true <-> NoDup (keys m).
Proof.
  induction m as [|[k v] m IH]; cbn [nodup_keys keys map fst]; [split; [constructor | reflexivity]|].
  destruct (lookup k m) eqn:E.
  - split; [discriminate|]. intro H; inversion H; subst. apply lookup_Some_key in E. contradiction.
  - apply lookup_None in E. unfold keys in *. rewrite IH. split; intro H; [now constructor | now inversion H].
Qed.

Lemma NoDup_lookup : forall {A} (m : list (str * A)) k v, NoDup (keys m) -> In (k, v) m -> lookup k m = Some v.
Proof.
  induction m as [|[k' v'] m IH]; cbn [keys map fst lookup In]; intros k v ND H; [contradiction|].
  inversion ND as [|? ? Hnot ND']; subst.
  destruct H as [H|H].
  - injection H as -> ->. now rewrite str_eqb_refl.
  - destruct (str_eqb k k') eqn:E.
    + apply str_eqb_eq in E; subst. exfalso; apply Hnot. now apply (in_map fst) in H.
    + now apply IH.
Qed.

(* Two duplicate-free key lists of the same length, one included in the other, have the same elements. *)
Lemma same_domain : forall {A B} (xs : list (str * A)) (ys : list (str * B)),
  NoDup (keys xs) -> length xs = length ys -> incl (keys xs) (keys ys) -> incl (keys ys) (keys xs).
Proof.
  intros A B xs ys ND L I. apply NoDup_length_incl; [assumption | | assumption].
  unfold keys. rewrite !map_length. lia.
Qed.

Lemma same_domain_length : forall {A B} (xs : list (str * A)) (ys : list (str * B)),
  NoDup (keys xs) -> NoDup (keys ys) -> incl (keys xs) (keys ys) -> incl (keys ys) (keys xs) -> length xs = length ys.
Proof.
  intros A B xs ys N1 N2 I1 I2.
  pose proof (NoDup_incl_length N1 I1) as L1. pose proof (NoDup_incl_length N2 I2) as L2.
  unfold keys in L1, L2. rewrite !map_length in L1, L2. lia.
Qed.

(* ------------------------------------------------------------------------- *)
(* `literal` unfolded *)

Lemma literal_list : forall t xs, literal (VList t xs) <-> Forall literal xs.
Proof. intros; unfold literal; cbn [literalb]. rewrite forallb_forall, Forall_forall. reflexivity. Qed.

Lemma literal_tuple : forall t xs, literal (VTuple t xs) <-> Forall literal xs.
Proof. intros; unfold literal; cbn [literalb]. rewrite forallb_forall, Forall_forall. reflexivity. Qed.

Lemma forallb_snd : forall (m : list (str * value)),
  forallb (fun kv => match kv with (_, x) => literalb x end) m = true <-> Forall (fun kv => literal (snd kv)) m.
Proof.
  intro m. rewrite forallb_forall, Forall_forall. unfold literal.
  split; intros H [k v] Hin; apply (H (k, v) Hin).
Qed.

Lemma literal_dict : forall t m,
  literal (VDict t m) <-> NoDup (keys m) /\ Forall (fun kv => literal (snd kv)) m.
Proof.
  intros; unfold literal at 1; cbn [literalb]. rewrite andb_true_iff, nodup_keys_NoDup, forallb_snd. reflexivity.
Qed.

Lemma literal_struct : forall n t fs, literal (VStruct n t fs) <-> Forall (fun kv => literal (snd kv)) fs.
Proof. intros; unfold literal at 1; cbn [literalb]. apply forallb_snd. Qed.

Lemma literal_enum : forall n t i p,
  literal (VEnum n t i p) <-> match p with Some x => literal x | None => True end.
Proof. intros; unfold literal; cbn [literalb]. destruct p; [reflexivity | tauto]. Qed.

(* ------------------------------------------------------------------------- *)
(* Structural equality is an equivalence relation *)

Lemma Forall_Forall2_refl : forall {A} (R : A -> A -> Prop) l, Forall (fun x => R x x) l -> Forall2 R l l.
Proof. induction 1; constructor; assumption. Qed.

Lemma struct_eq_refl : forall a, a ≈ a.
Proof.
  induction a using value_ind'; try constructor.
  - now apply Forall_Forall2_refl.
  - now apply Forall_Forall2_refl.
  - intro k. destruct (lookup k m) eqn:E; constructor.
    apply lookup_In in E. rewrite Forall_forall in H. apply (H _ E).
  - destruct p; constructor; assumption.
  - apply Forall_Forall2_refl. eapply Forall_impl; [|exact H]. cbn; intros; split; [reflexivity | assumption].
Qed.

Lemma Forall2_sym_IH : forall {A} (R : A -> A -> Prop) xs ys,
  Forall (fun a => forall b, R a b -> R b a) xs -> Forall2 R xs ys -> Forall2 R ys xs.
Proof.
  intros A R xs ys IH H; induction H; constructor; inversion IH; subst; auto.
Qed.

Lemma Forall2_trans_IH : forall {A} (R : A -> A -> Prop) xs ys zs,
  Forall (fun a => forall b c, R a b -> R b c -> R a c) xs -> Forall2 R xs ys -> Forall2 R ys zs -> Forall2 R xs zs.
Proof.
  intros A R xs ys zs IH H; revert zs; induction H; intros zs H2; inversion H2; subst; constructor; inversion IH; subst; eauto.
Qed.

Definition field_rel (f g : str * value) : Prop := fst f = fst g /\ snd f ≈ snd g.

Lemma fields_sym_IH : forall (fs gs : list (str * value)),
  Forall (fun kv => forall b, snd kv ≈ b -> b ≈ snd kv) fs -> Forall2 field_rel fs gs -> Forall2 field_rel gs fs.
Proof.
  intros fs gs IH H; induction H as [|f g fs gs [Hk Hv] _ IH2]; constructor; inversion IH; subst; auto.
  split; [now symmetry | auto].
Qed.

Lemma fields_trans_IH : forall (fs gs hs : list (str * value)),
  Forall (fun kv => forall b c, snd kv ≈ b -> b ≈ c -> snd kv ≈ c) fs ->
  Forall2 field_rel fs gs -> Forall2 field_rel gs hs -> Forall2 field_rel fs hs.
Proof.
  intros fs gs hs IH H; revert hs; induction H as [|f g fs gs [Hk Hv] _ IH2]; intros hs H2;
    inversion H2 as [|? h ? ? [Hk2 Hv2]]; subst; constructor; inversion IH; subst; eauto.
  split; [congruence | eauto].
Qed.

Lemma struct_eq_sym : forall a b, a ≈ b -> b ≈ a.
Proof.
  induction a as [z|bits|s|t xs IH|t xs IH|t m IH|n t i p IH|n t fs IH] using value_ind';
    intros b E; inversion E; subst; try constructor.
  - now apply Forall2_sym_IH.
  - now apply Forall2_sym_IH.
  - intro k. match goal with H : forall k, opt_rel _ _ _ |- _ => specialize (H k); inversion H as [Hx Hy | x y Hxy Hx Hy] end;
      constructor.
    symmetry in Hx. apply lookup_In in Hx. rewrite Forall_forall in IH. apply (IH _ Hx). exact Hxy.
  - match goal with H : opt_rel _ _ _ |- _ => inversion H; subst end; constructor. now apply IH.
  - now apply fields_sym_IH.
Qed.

Lemma struct_eq_trans : forall a b c, a ≈ b -> b ≈ c -> a ≈ c.
Proof.
  induction a as [z|bits|s|t xs IH|t xs IH|t m IH|n t i p IH|n t fs IH] using value_ind';
    intros b c E1 E2; inversion E1; subst; inversion E2; subst; try constructor.
  - eapply Forall2_trans_IH; eassumption.
  - eapply Forall2_trans_IH; eassumption.
  - intro k.
    match goal with H1 : forall k, opt_rel _ (lookup k m) _, H2 : forall k, opt_rel _ _ _ |- _ =>
      specialize (H1 k); specialize (H2 k);
      inversion H1 as [Hx Hy | x y Hxy Hx Hy]; rewrite <- Hy in H2; inversion H2 as [Hy' Hz | y' z Hyz Hy' Hz] end;
      constructor.
    subst. symmetry in Hx. apply lookup_In in Hx. rewrite Forall_forall in IH. eapply (IH _ Hx); eassumption.
  - match goal with H1 : opt_rel _ p _, H2 : opt_rel _ _ _ |- _ => inversion H1; subst; inversion H2; subst end; constructor.
    eapply IH; eassumption.
  - eapply fields_trans_IH; eassumption.
Qed.

(* ------------------------------------------------------------------------- *)
(* `==` decides structural equality, whatever is shared *)

(* `Rc::ptr_eq(x, y)` can only hold when x and y are the same object, hence the same value. *)
Definition same_ok (same : value -> value -> bool) : Prop := forall x y, same x y = true -> x = y.

Lemma no_sharing_ok : same_ok no_sharing.
Proof. intros x y H; discriminate. Qed.

Definition decides (same : value -> value -> bool) (x : value) : Prop :=
  forall y, literal x -> literal y -> (inner_eq same x y = true <-> x ≈ y).

Lemma child_iff : forall same x y, same_ok same -> decides same x -> literal x -> literal y ->
  ((same x y || inner_eq same x y) = true <-> x ≈ y).
Proof.
  intros same x y OK D Lx Ly. rewrite orb_true_iff. split.
  - intros [H|H]; [apply OK in H; subst; apply struct_eq_refl | now apply D].
  - intro H; right; now apply D.
Qed.

Lemma items_iff : forall same xs ys, same_ok same -> Forall (decides same) xs -> Forall literal xs -> Forall literal ys ->
  (forallb2 (fun x y => same x y || inner_eq same x y) xs ys = true <-> Forall2 struct_eq xs ys).
Proof.
  intros same xs ys OK D. rewrite forallb2_Forall2. revert ys.
  induction D as [|x xs Dx D IH]; intros ys Lx Ly; split; intro H; inversion H; subst; constructor;
    inversion Lx; subst; inversion Ly; subst.
  - now apply (child_iff same x y).
  - now apply IH.
  - now apply (child_iff same x y).
  - now apply IH.
Qed.

Lemma fields_iff : forall same (fs gs : list (str * value)), same_ok same ->
  Forall (fun kv => decides same (snd kv)) fs ->
  Forall (fun kv => literal (snd kv)) fs -> Forall (fun kv => literal (snd kv)) gs ->
  (forallb2 (fun f g => match f, g with
                        | (k1, v1), (k2, v2) => str_eqb k1 k2 && (same v1 v2 || inner_eq same v1 v2)
                        end) fs gs = true
   <-> Forall2 (fun f g => fst f = fst g /\ snd f ≈ snd g) fs gs).
Proof.
  intros same fs gs OK D. rewrite forallb2_Forall2. revert gs.
  induction D as [|[k1 v1] fs Dx D IH]; intros gs Lx Ly; split; intro H; inversion H as [|? [k2 v2] ? ? Hh Ht]; subst; constructor;
    inversion Lx; subst; inversion Ly; subst; cbn [fst snd] in *.
  - apply andb_true_iff in Hh as [Hka Hva]. apply str_eqb_eq in Hka. split; [assumption|]. now apply (child_iff same v1 v2).
  - now apply IH.
  - destruct Hh as [Hka Hva]. apply andb_true_iff; split; [now apply str_eqb_eq | now apply (child_iff same v1 v2)].
  - now apply IH.
Qed.

Lemma opt_rel_Some_l : forall {A} (R : A -> A -> Prop) x o, opt_rel R (Some x) o -> exists y, o = Some y /\ R x y.
Proof. intros A R x o H; inversion H; subst; eauto. Qed.

Lemma opt_rel_Some_r : forall {A} (R : A -> A -> Prop) o y, opt_rel R o (Some y) -> exists x, o = Some x /\ R x y.
Proof. intros A R o y H; inversion H; subst; eauto. Qed.

Lemma dict_iff : forall same (xs ys : list (str * value)), same_ok same ->
  Forall (fun kv => decides same (snd kv)) xs ->
  NoDup (keys xs) -> NoDup (keys ys) ->
  Forall (fun kv => literal (snd kv)) xs -> Forall (fun kv => literal (snd kv)) ys ->
  (Nat.eqb (length xs) (length ys) &&
   forallb (fun kv => match kv with
                      | (k, v) => match lookup k ys with
                                  | Some w => same v w || inner_eq same v w
                                  | None => false
                                  end
                      end) xs = true
   <-> forall k, opt_rel struct_eq (lookup k xs) (lookup k ys)).
Proof.
  intros same xs ys OK D N1 N2 L1 L2.
  rewrite andb_true_iff, Nat.eqb_eq, forallb_forall. rewrite Forall_forall in D, L1, L2.
  split.
  - intros [Len All] k.
    assert (I : incl (keys xs) (keys ys)).
    { intros k' Hk'. apply In_key_lookup in Hk' as [v Hv]. apply lookup_In in Hv. specialize (All _ Hv). cbn in All.
      destruct (lookup k' ys) eqn:E; [now apply lookup_Some_key in E | discriminate]. }
    destruct (lookup k xs) as [v|] eqn:Ex.
    + apply lookup_In in Ex. pose proof (All _ Ex) as Hk. cbn in Hk.
      destruct (lookup k ys) as [w|] eqn:Ey; [|discriminate]. constructor.
      apply (child_iff same v w OK (D _ Ex) (L1 _ Ex)); [|assumption].
      apply lookup_In in Ey. apply (L2 _ Ey).
    + destruct (lookup k ys) as [w|] eqn:Ey; [|constructor]. exfalso.
      apply lookup_Some_key in Ey. apply (same_domain xs ys N1 Len I) in Ey. apply lookup_None in Ex. contradiction.
  - intro H.
    assert (I1 : incl (keys xs) (keys ys)).
    { intros k Hk. apply In_key_lookup in Hk as [v Hv]. specialize (H k). rewrite Hv in H.
      apply opt_rel_Some_l in H as [w [Hw _]]. now apply lookup_Some_key in Hw. }
    assert (I2 : incl (keys ys) (keys xs)).
    { intros k Hk. apply In_key_lookup in Hk as [v Hv]. specialize (H k). rewrite Hv in H.
      apply opt_rel_Some_r in H as [w [Hw _]]. now apply lookup_Some_key in Hw. }
    split; [now apply same_domain_length|].
    intros [k v] Hin. pose proof (NoDup_lookup xs k v N1 Hin) as Ex. specialize (H k). rewrite Ex in H.
    apply opt_rel_Some_l in H as [w [Hw Hvw]]. rewrite Hw. pose proof Hw as Hw'. apply lookup_In in Hw'.
    apply (child_iff same v w OK (D _ Hin) (L1 _ Hin) (L2 _ Hw')). assumption.
Qed.

Lemma inner_eq_decides : forall same, same_ok same -> forall a, decides same a.
Proof.
  intros same OK.
  induction a as [z|bits|s|t xs IH|t xs IH|t m IH|n t i p IH|n t fs IH] using value_ind';
    intros b La Lb; destruct b as [z'|bits'|s'|t' ys|t' ys|t' m'|n' t' i' q|n' t' gs]; cbn [inner_eq];
    try (split; intro H; [discriminate | inversion H]).
  - rewrite Z.eqb_eq. split; intro H; [subst; constructor | now inversion H].
  - rewrite N.eqb_eq. split; intro H; [subst; constructor | now inversion H].
  - rewrite str_eqb_eq. split; intro H; [subst; constructor | now inversion H].
  - apply literal_list in La, Lb. rewrite (items_iff same xs ys OK IH La Lb).
    split; intro H; [now constructor | now inversion H].
  - apply literal_tuple in La, Lb. rewrite (items_iff same xs ys OK IH La Lb).
    split; intro H; [now constructor | now inversion H].
  - apply literal_dict in La as [N1 L1], Lb as [N2 L2]. rewrite (dict_iff same m m' OK IH N1 N2 L1 L2).
    split; intro H; [now constructor | now inversion H].
  - apply literal_enum in La, Lb. rewrite !andb_true_iff, str_eqb_eq, N.eqb_eq.
    destruct p as [x|], q as [y|].
    + rewrite (child_iff same x y OK IH La Lb). split.
      * intros [[-> ->] H]. constructor. now constructor.
      * intro H; inversion H as [| | | | | |? ? ? ? ? ? Hp|]; subst. inversion Hp; subst. auto.
    + split; [intros [_ H]; discriminate | intro H; inversion H as [| | | | | |? ? ? ? ? ? Hp|]; inversion Hp].
    + split; [intros [_ H]; discriminate | intro H; inversion H as [| | | | | |? ? ? ? ? ? Hp|]; inversion Hp].
    + split; [intros [[-> ->] _]; constructor; constructor | intro H; inversion H; subst; auto].
  - apply literal_struct in La, Lb. rewrite andb_true_iff, str_eqb_eq, (fields_iff same fs gs OK IH La Lb).
    split; [intros [-> H]; now constructor | intro H; inversion H; subst; auto].
Qed.

Lemma veq_sh_structural_lemma : forall same a b, same_ok same -> literal a -> literal b ->
  (veq_sh same a b = true <-> a ≈ b).
Proof.
  intros same a b OK La Lb. unfold veq_sh. apply child_iff; try assumption. now apply inner_eq_decides.
Qed.

Lemma veq_structural_lemma : forall a b, literal a -> literal b -> (veq a b = true <-> a ≈ b).
Proof. intros a b; apply veq_sh_structural_lemma, no_sharing_ok. Qed.

Lemma veq_refl_lemma : forall a, literal a -> veq a a = true.
Proof. intros a La. apply veq_structural_lemma; try assumption. apply struct_eq_refl. Qed.

Lemma bool_eq_iff : forall x y : bool, (x = true <-> y = true) -> x = y.
Proof. intros x y [H1 H2]; destruct x, y; try reflexivity; [symmetry; now apply H1 | now apply H2]. Qed.

Lemma veq_sym_lemma : forall a b, literal a -> literal b -> veq a b = veq b a.
Proof.
  intros a b La Lb. apply bool_eq_iff. rewrite !veq_structural_lemma by assumption.
  split; apply struct_eq_sym.
Qed.

Lemma veq_trans_lemma : forall a b c, literal a -> literal b -> literal c ->
  veq a b = true -> veq b c = true -> veq a c = true.
Proof.
  intros a b c La Lb Lc H1 H2. apply veq_structural_lemma in H1; try assumption. apply veq_structural_lemma in H2; try assumption.
  apply veq_structural_lemma; try assumption. eapply struct_eq_trans; eassumption.
Qed.

Lemma neq_is_negb_lemma : forall same a b, vne_sh same a b = negb (veq_sh same a b).
Proof. reflexivity. Qed.

Lemma veq_independent_of_sharing_lemma : forall same a b, same_ok same -> literal a -> literal b ->
  veq_sh same a b = veq a b.
Proof.
  intros same a b OK La Lb. apply bool_eq_iff.
  rewrite veq_sh_structural_lemma, veq_structural_lemma by assumption. reflexivity.
Qed.

(* Runtime-type annotations never matter: replacing every annotation gives a ≈-related value. *)
Lemma veq_ignores_list_type : forall t1 t2 xs, VList t1 xs ≈ VList t2 xs.
Proof. intros; constructor. apply Forall_Forall2_refl, Forall_forall. intros; apply struct_eq_refl. Qed.

Lemma veq_ignores_enum_type : forall n t1 t2 i p, VEnum n t1 i p ≈ VEnum n t2 i p.
Proof. intros; constructor. destruct p; constructor; apply struct_eq_refl. Qed.

(* Dict order does not matter: swapping two adjacent pairs with different keys. *)
Lemma dict_swap : forall t1 t2 k1 v1 k2 v2 m, k1 <> k2 ->
  VDict t1 ((k1, v1) :: (k2, v2) :: m) ≈ VDict t2 ((k2, v2) :: (k1, v1) :: m).
Proof.
  intros t1 t2 k1 v1 k2 v2 m Hne. constructor. intro k. cbn [lookup].
  destruct (str_eqb k k1) eqn:E1, (str_eqb k k2) eqn:E2.
  - apply str_eqb_eq in E1, E2; congruence.
  - constructor; apply struct_eq_refl.
  - constructor; apply struct_eq_refl.
  - destruct (lookup k m); constructor; apply struct_eq_refl.
Qed.

(* ------------------------------------------------------------------------- *)
(* The code as it was refutes the property. *)

Lemma orig_float_never_equal : forall bits, orig_veq_sh false no_sharing (VFloat bits) (VFloat bits) = false.
Proof. reflexivity. Qed.

Lemma orig_float_equal_when_shared : forall bits, orig_veq_sh false (fun _ _ => true) (VFloat bits) (VFloat bits) = true.
Proof. reflexivity. Qed.

Lemma orig_dict_never_equal : forall t m, orig_veq_sh false no_sharing (VDict t m) (VDict t m) = false.
Proof. reflexivity. Qed.

(* ------------------------------------------------------------------------- *)
(* Concrete values for the examples of Properties/C13.v *)

Definition s_a : str := [97%N].
Definition s_b : str := [98%N].
Definition s_c : str := [99%N].
Definition s_x : str := [120%N].
Definition s_y : str := [121%N].
Definition s_Option : str := s_of [79; 112; 116; 105; 111; 110]%nat.
Definition s_Pt : str := s_of [80; 116]%nat.

(* Some(Dict["a" => [], "b" => [1]])  and  Some(Dict["b" => [1], "a" => []]) *)
Definition ex_d1 : value := mk_dict [(s_a, mk_list []); (s_b, mk_list [VInt 1])].
Definition ex_d2 : value := mk_dict [(s_b, mk_list [VInt 1]); (s_a, mk_list [])].
Definition ex_some1 : value := mk_enum s_Option 1 (Some 0%nat) 0 (Some ex_d1).
Definition ex_some2 : value := mk_enum s_Option 1 (Some 0%nat) 0 (Some ex_d2).

(* Dict["a" => 1.5, "b" => (1, "x"), "c" => None] written in three different orders *)
Definition f_1_5 : value := VFloat 4609434218613702656.       (* 0x3FF8000000000000 *)
Definition ex_none : value := mk_enum s_Option 1 (Some 0%nat) 1 None.
Definition ex_tup : value := mk_tuple [VInt 1; VString s_x].
Definition ex_m1 : value := mk_dict [(s_a, f_1_5); (s_b, ex_tup); (s_c, ex_none)].
Definition ex_m2 : value := mk_dict [(s_c, ex_none); (s_a, f_1_5); (s_b, ex_tup)].
Definition ex_m3 : value := mk_dict [(s_b, ex_tup); (s_c, ex_none); (s_a, VInt 7); (s_a, f_1_5)].

(* 0.1 +. 0.2 = 0.30000000000000004 (0x3FD3333333333334); 0.3 = 0x3FD3333333333333; -0.0 = 0x8000000000000000 *)
Definition f_01_plus_02 : value := VFloat 4599075939470750516.
Definition f_03 : value := VFloat 4599075939470750515.
Definition f_zero : value := VFloat 0.
Definition f_neg_zero : value := VFloat 9223372036854775808.

(* struct Pt { x: Int, y: Int }:  Pt{ x: 1, y: 2 }  and  Pt{ y: 2, x: 1 } *)
Definition pt_def : list (str * option nat) := [(s_x, None); (s_y, None)].
Definition ex_pt1 : value := mk_struct s_Pt 0 pt_def [(s_x, VInt 1); (s_y, VInt 2)].
Definition ex_pt2 : value := mk_struct s_Pt 0 pt_def [(s_y, VInt 2); (s_x, VInt 1)].
Definition ex_pt1_orig : value := orig_mk_struct s_Pt 0 pt_def [(s_x, VInt 1); (s_y, VInt 2)].
Definition ex_pt2_orig : value := orig_mk_struct s_Pt 0 pt_def [(s_y, VInt 2); (s_x, VInt 1)].

Lemma ex_structural_lemma :
  literal ex_m1 /\ literal ex_m2 /\ ex_m1 <> ex_m2 /\ veq ex_m1 ex_m2 = true /\ ex_m1 ≈ ex_m2.
Proof.
  assert (L1 : literal ex_m1) by (vm_compute; reflexivity).
  assert (L2 : literal ex_m2) by (vm_compute; reflexivity).
  assert (E : veq ex_m1 ex_m2 = true) by (vm_compute; reflexivity).
  refine (conj L1 (conj L2 (conj _ (conj E _)))); [vm_compute; discriminate | now apply veq_structural_lemma].
Qed.

Lemma ex_trans_lemma :
  literal ex_m1 /\ literal ex_m2 /\ literal ex_m3 /\ veq ex_m1 ex_m2 = true /\ veq ex_m2 ex_m3 = true /\ veq ex_m1 ex_m3 = true.
Proof. vm_compute. repeat split; reflexivity. Qed.

Lemma ex_floats_lemma :
  veq f_01_plus_02 f_01_plus_02 = true /\ veq f_01_plus_02 f_03 = false /\
  veq f_zero f_neg_zero = false /\ veq f_neg_zero f_neg_zero = true /\
  veq (mk_list [f_1_5]) (mk_list [f_1_5]) = true /\ veq (VInt 1) (VFloat 4607182418800017408) = false.
Proof. vm_compute. repeat split; reflexivity. Qed.

(* The code after fix-1 only (runtime types still compared) answers False for two structurally equal,
   well-typed values; the code after fix-2 answers True. *)
Lemma ex_fix2_needed_lemma :
  literal ex_some1 /\ literal ex_some2 /\ ex_some1 ≈ ex_some2 /\
  orig_veq_sh true no_sharing ex_some1 ex_some2 = false /\ veq ex_some1 ex_some2 = true.
Proof.
  assert (L1 : literal ex_some1) by (vm_compute; reflexivity).
  assert (L2 : literal ex_some2) by (vm_compute; reflexivity).
  assert (E : veq ex_some1 ex_some2 = true) by (vm_compute; reflexivity).
  refine (conj L1 (conj L2 (conj _ (conj _ E)))); [now apply veq_structural_lemma | vm_compute; reflexivity].
Qed.

(* Struct literals: after fix-3 the value does not depend on the order the fields are written in. *)
Lemma ex_struct_order_lemma :
  ex_pt1 = ex_pt2 /\ veq ex_pt1 ex_pt2 = true /\ veq ex_pt1_orig ex_pt2_orig = false.
Proof. vm_compute. repeat split; reflexivity. Qed.

Lemma ex_sharing_lemma : forall same, same_ok same ->
  veq_sh same ex_m1 ex_m2 = true /\ veq_sh same f_zero f_neg_zero = false.
Proof.
  intros same OK. split.
  - rewrite veq_independent_of_sharing_lemma; [| assumption | vm_compute; reflexivity | vm_compute; reflexivity].
    vm_compute; reflexivity.
  - rewrite veq_independent_of_sharing_lemma; [| assumption | vm_compute; reflexivity | vm_compute; reflexivity].
    vm_compute; reflexivity.
Qed.
