(* Number conversions for ONE extracted module; the build prepends `open Mdl_<family>`. *)
(* ---- conversions between OCaml and the extracted inductive numbers ---- *)

let rec pos_of_int (n : int) : positive =
  if n = 1 then XH else if n land 1 = 0 then XO (pos_of_int (n lsr 1)) else XI (pos_of_int (n lsr 1))

let n_of_int (n : int) : n = if n = 0 then N0 else Npos (pos_of_int n)
let z_of_int (n : int) : z = if n = 0 then Z0 else if n > 0 then Zpos (pos_of_int n) else Zneg (pos_of_int (-n))

let rec int_of_pos = function XH -> 1 | XO p -> 2 * int_of_pos p | XI p -> 2 * int_of_pos p + 1
let int_of_n = function N0 -> 0 | Npos p -> int_of_pos p
let int_of_z = function Z0 -> 0 | Zpos p -> int_of_pos p | Zneg p -> - (int_of_pos p)


(* arbitrary precision through decimal strings (no zarith dependency in the
   trusted glue: schoolbook on int lists, base 10^9 not needed at this size) *)
let z_of_string (s : string) : z =
  let neg = String.length s > 0 && s.[0] = '-' in
  let digits = if neg then String.sub s 1 (String.length s - 1) else s in
  let ten = z_of_int 10 in
  let acc = ref Z0 in
  String.iter (fun c -> acc := Z.add (Z.mul !acc ten) (z_of_int (Char.code c - 48))) digits;
  if neg then Z.opp !acc else !acc

let string_of_pos (p : positive) : string =
  (* repeated division by 10 on the extracted Z *)
  let ten = z_of_int 10 in
  let rec go z acc =
    match z with
    | Z0 -> acc
    | _ ->
      let q = Z.div z ten and r = Z.modulo z ten in
      go q (string_of_int (int_of_z r) ^ acc)
  in
  go (Zpos p) ""

let string_of_z = function
  | Z0 -> "0"
  | Zpos p -> string_of_pos p
  | Zneg p -> "-" ^ string_of_pos p

let bytes_of_string (s : string) : n list = List.map (fun c -> n_of_int (Char.code c)) (List.of_seq (String.to_seq s))
let string_of_bytes (l : n list) : string = String.concat "" (List.map (fun b -> String.make 1 (Char.chr (int_of_n b))) l)

let rec nat_of_int n = if n <= 0 then O else S (nat_of_int (n - 1))
let rec int_of_nat = function O -> 0 | S n -> 1 + int_of_nat n
