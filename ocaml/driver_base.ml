(* Line protocol: one request per line, TAB-separated fields, first field the
   op name; one response line per request.  Strings travel hex-encoded. *)
let handlers : (string, string list -> string) Hashtbl.t = Hashtbl.create 32
let register name f = Hashtbl.replace handlers name f


let unhex (h : string) : string =
  if h = "-" then "" else
    String.init (String.length h / 2) (fun i -> Char.chr (int_of_string ("0x" ^ String.sub h (2 * i) 2)))

let hex (s : string) : string =
  if s = "" then "-" else String.concat "" (List.map (fun c -> Printf.sprintf "%02x" (Char.code c)) (List.of_seq (String.to_seq s)))

