let () =
  try
    while true do
      let line = input_line stdin in
      let fields = String.split_on_char '\t' line in
      let resp =
        match fields with
        | [] -> "error\tempty"
        | op :: args ->
          (match Hashtbl.find_opt Driver_core.handlers op with
           | None -> "unsupported\t" ^ op
           | Some f -> (try f args with
               | Stack_overflow -> "error\tstack_overflow"
               | e -> "error\t" ^ Printexc.to_string e))
      in
      print_string resp; print_char '\n'
    done
  with End_of_file -> flush stdout
