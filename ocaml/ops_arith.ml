open Mdl
open Driver_core

let op_of_string = function
  | "+" -> OAdd | "-" -> OSub | "*" -> OMul | "/" -> ODiv | "%" -> OMod | "**" -> OPow
  | "&" -> OBitAnd | "|" -> OBitOr | "<" -> OLt | ">" -> OGt | "<=" -> OLe | ">=" -> OGe
  | s -> failwith ("bad op " ^ s)

let show = function
  | Val z -> "val " ^ string_of_z z
  | ValB b -> if b then "bool True" else "bool False"
  | Exn -> "exn"
  | Panic -> "panic"

(* int_binop <oc:0|1> <op> <a> <b>  ->  <model of code> TAB <specification> *)
let () = register "int_binop" (fun args ->
    match args with
    | [oc; op; a; b] ->
      let o = op_of_string op and a = z_of_string a and b = z_of_string b in
      show (arm_sem (oc = "1") (int_arm o) a b) ^ "\t" ^ show (spec_exec o a b)
    | _ -> "error\targs")

(* upd <oc> <+=|-=> <a> <b> -> model of `x op= b` at x=a  TAB  spec of x = x op b *)
let () = register "upd" (fun args ->
    match args with
    | [oc; op; a; b] ->
      let u = if op = "+=" then UAdd else USub in
      let a = z_of_string a and b = z_of_string b in
      show (arm_sem (oc = "1") (upd_arm u) a b) ^ "\t" ^ show (spec_exec (upd_as_binop u) a b)
    | _ -> "error\targs")
