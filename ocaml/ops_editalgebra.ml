(* C17 / C18: line-protocol handlers over the extracted edit algebra
   (coq/EditAlgebra.v).  Sources and replacements travel hex-encoded UTF-8 and
   are decoded here to the list of scalar values the model works on (trusted
   glue).

   gapcheck <hexsrc> <edits>      edits = s,e,hexrep;s,e,hexrep;...  (byte offsets, in
                                  the order they are applied; "-" or empty = no edit)
     -> ok=<0|1> sorted=<0|1> applied=<hex | !> same=<0|1|?> bad=<i:reason,...>
        ok      every edit satisfies gap_edit_ok on the text it is applied to (edits_ok)
        sorted  desc_sorted: descending offsets, non-overlapping
        applied apply_edits of the model ("!" = a splice is off a char boundary / out of range)
        same    lex_items of the applied text = lex_items of the source (model lexer)
        bad     first failing condition of every rejected edit:
                offsets | removed-non-whitespace | inserted-non-whitespace | shebang |
                inside-token-or-comment | glue
   finalnl <hexsrc> -> hex of final_newline (phase 9 model)
   phase <6|7|8|8orig|9> <hexsrc> [<toplevel line numbers, comma separated>]
     -> hex of the output of the modelled phase of format.rs (coq/FormatPhases.v) on that text
        (8 = current code, 8orig = before fix-5)
   nounclosed <hexsrc> -> 1 when the model lexer meets no unclosed string literal in the text
        (the hypothesis of the text-level idempotence theorems), else 0 *)
open Mdl
open Driver_core

let ea_decode (s : string) : n list =
  let n = String.length s in
  let rec go i acc =
    if i >= n then List.rev acc else
      let b0 = Char.code s.[i] in
      let cont k = if i + k < n then Char.code s.[i + k] land 0x3f else 0 in
      if b0 < 0x80 then go (i + 1) (n_of_int b0 :: acc)
      else if b0 < 0xe0 then go (i + 2) (n_of_int (((b0 land 0x1f) lsl 6) lor cont 1) :: acc)
      else if b0 < 0xf0 then go (i + 3) (n_of_int (((b0 land 0x0f) lsl 12) lor (cont 1 lsl 6) lor cont 2) :: acc)
      else go (i + 4) (n_of_int (((b0 land 0x07) lsl 18) lor (cont 1 lsl 12) lor (cont 2 lsl 6) lor cont 3) :: acc)
  in
  go 0 []

let ea_encode (l : n list) : string =
  let b = Buffer.create 16 in
  List.iter (fun c ->
      let c = int_of_n c in
      if c < 0x80 then Buffer.add_char b (Char.chr c)
      else if c < 0x800 then (Buffer.add_char b (Char.chr (0xc0 lor (c lsr 6)));
                              Buffer.add_char b (Char.chr (0x80 lor (c land 0x3f))))
      else if c < 0x10000 then (Buffer.add_char b (Char.chr (0xe0 lor (c lsr 12)));
                                Buffer.add_char b (Char.chr (0x80 lor ((c lsr 6) land 0x3f)));
                                Buffer.add_char b (Char.chr (0x80 lor (c land 0x3f))))
      else (Buffer.add_char b (Char.chr (0xf0 lor (c lsr 18)));
            Buffer.add_char b (Char.chr (0x80 lor ((c lsr 12) land 0x3f)));
            Buffer.add_char b (Char.chr (0x80 lor ((c lsr 6) land 0x3f)));
            Buffer.add_char b (Char.chr (0x80 lor (c land 0x3f))))) l;
  Buffer.contents b

let ea_src h = ea_decode (unhex h)
let ea_hex l = hex (ea_encode l)

let ea_edits (s : string) : edit list =
  if s = "" || s = "-" then [] else
    List.map (fun e ->
        match String.split_on_char ',' e with
        | [a; b; r] -> { e_start = n_of_int (int_of_string a); e_end = n_of_int (int_of_string b); e_rep = ea_src r }
        | _ -> failwith "edit") (String.split_on_char ';' s)

(* why does gap_edit_ok reject e on src? *)
let ea_reason (src : n list) (e : edit) : string =
  if int_of_n e.e_end < int_of_n e.e_start then "offsets" else
    match split_bytes src e.e_start with
    | None -> "offsets"
    | Some (pre, q) ->
      (match split_bytes q (n_of_int (int_of_n e.e_end - int_of_n e.e_start)) with
       | None -> "offsets"
       | Some (w, post) ->
         if not (all_ws w) then "removed-non-whitespace"
         else if not (all_ws e.e_rep) then "inserted-non-whitespace"
         else if not (sheb_ok pre post) then "shebang"
         else
           let rec nat_of_int i = if i <= 0 then O else S (nat_of_int (i - 1)) in
           match krun (nat_of_int (List.length pre + 1)) pre (List.append w post) with
           | None -> "inside-token-or-comment"
           | Some _ -> "glue")

let () = register "gapcheck" (fun args ->
    match args with
    | [h; es] | [h; es; _] ->
      let src = ea_src h in
      let edits = ea_edits es in
      let rec go s i es bad =
        match es with
        | [] -> (Some s, bad)
        | e :: r ->
          let bad = if gap_edit_ok s e then bad else (string_of_int i ^ ":" ^ ea_reason s e) :: bad in
          (match splice s e with
           | None -> (None, bad)
           | Some s' -> go s' (i + 1) r bad)
      in
      let (res, bad) = go src 0 edits [] in
      let bad = List.rev bad in
      let applied, same = match res with
        | None -> "!", "?"
        | Some s' -> ea_hex s', (if lex_items s' = lex_items src then "1" else "0") in
      Printf.sprintf "ok=%s sorted=%s applied=%s same=%s bad=%s"
        (if bad = [] && res <> None then "1" else "0")
        (if desc_sorted edits then "1" else "0")
        applied same (String.concat "," bad)
    | [h] -> "ok=1 sorted=1 applied=" ^ h ^ " same=1 bad="
    | _ -> "error\targs")

let () = register "finalnl" (fun args ->
    match args with
    | [h] -> ea_hex (final_newline (ea_src h))
    | _ -> "error\targs")

let () = register "phase" (fun args ->
    let tops a = if a = "" || a = "-" then [] else List.map (fun x -> n_of_int (int_of_string x)) (String.split_on_char ',' a) in
    match args with
    | "6" :: h :: rest -> ea_hex (phase6 (tops (match rest with a :: _ -> a | [] -> "")) (ea_src h))
    | "7" :: h :: _ -> ea_hex (phase7 (ea_src h))
    | "8" :: h :: _ -> ea_hex (phase8 true (ea_src h))
    | "8orig" :: h :: _ -> ea_hex (phase8 false (ea_src h))
    | "9" :: h :: _ -> ea_hex (phase9 (ea_src h))
    | _ -> "error\targs")

let () = register "nounclosed" (fun args ->
    match args with
    | [h] -> if no_unclosed (ea_src h) then "1" else "0"
    | _ -> "error\targs")
