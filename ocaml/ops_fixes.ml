(* C22: line-protocol handlers over the extracted Fixes model.
   Sources and replacement texts travel hex-encoded UTF-8 ("-" = empty); they are decoded here to the list of
   scalar values the model works on (trusted glue). *)
open Mdl
open Driver_core

let decode_utf8 (s : string) : n list =
  let n = String.length s in
  let rec go i acc =
    if i >= n then List.rev acc else
      let b0 = Char.code s.[i] in
      let cont k = Char.code s.[i + k] land 0x3f in
      if b0 < 0x80 then go (i + 1) (n_of_int b0 :: acc)
      else if b0 < 0xe0 then go (i + 2) (n_of_int (((b0 land 0x1f) lsl 6) lor cont 1) :: acc)
      else if b0 < 0xf0 then go (i + 3) (n_of_int (((b0 land 0x0f) lsl 12) lor (cont 1 lsl 6) lor cont 2) :: acc)
      else go (i + 4) (n_of_int (((b0 land 0x07) lsl 18) lor (cont 1 lsl 12) lor (cont 2 lsl 6) lor cont 3) :: acc)
  in
  go 0 []

let encode_utf8 (l : n list) : string =
  let b = Buffer.create 16 in
  List.iter (fun c ->
      let c = int_of_n c in
      if c < 0x80 then Buffer.add_char b (Char.chr c)
      else if c < 0x800 then (Buffer.add_char b (Char.chr (0xc0 lor (c lsr 6)));
                              Buffer.add_char b (Char.chr (0x80 lor (c land 0x3f))))
      else if c < 0x10000 then (Buffer.add_char b (Char.chr (0xe0 lor (c lsr 12)));
                                Buffer.add_char b (Char.chr (0x80 lor ((c lsr 6) land 0x3f)));
                                Buffer.add_char b (Char.chr (0x80 lor (c land 0x3f))))
      else (Buffer.add_char b (Char.chr (0xf0 lor (c lsr 18)));
            Buffer.add_char b (Char.chr (0x80 lor ((c lsr 12) land 0x3f)));
            Buffer.add_char b (Char.chr (0x80 lor ((c lsr 6) land 0x3f)));
            Buffer.add_char b (Char.chr (0x80 lor (c land 0x3f))))) l;
  Buffer.contents b

let doc_of_hex h = decode_utf8 (if h = "-" then "" else unhex h)
let n_of_string s = Z.to_N (z_of_string s)
let string_of_n x = string_of_z (Z.of_N x)
let hex_of_doc d = let s = encode_utf8 d in if s = "" then "-" else hex s

(* "start:end:hex" *)
let fix_of_string (s : string) =
  match String.split_on_char ':' s with
  | [a; b; h] -> { f_start = n_of_string a; f_end = n_of_string b; f_new = doc_of_hex h }
  | _ -> failwith "bad fix"

(* groups separated by ';', fixes inside a group by ','; "-" = no groups *)
let groups_of_string (s : string) =
  if s = "-" then [] else
    List.map (fun g -> List.map fix_of_string (String.split_on_char ',' g)) (String.split_on_char ';' s)

let show_opt = function None -> "panic" | Some d -> "ok:" ^ hex_of_doc d

(* apply_fixes <hexsrc> <groups>  ->  ok:<hex> | panic      (the repaired code) *)
let () = register "apply_fixes" (fun args ->
    match args with
    | [h; g] -> show_opt (apply_fixes (doc_of_hex h) (groups_of_string g))
    | _ -> "error\targs")

(* apply_fixes_orig <hexsrc> <groups>  ->  ok:<hex> | panic  (the code before the repair: one flat list) *)
let () = register "apply_fixes_orig" (fun args ->
    match args with
    | [h; g] -> show_opt (apply_fixes_orig (doc_of_hex h) (List.concat (groups_of_string g)))
    | _ -> "error\targs")

(* fixes_chain <hexsrc> <groups> -> 1 | 0 : do the selected fixes satisfy the hypothesis of apply_fixes_splice,
   with every offset on a character boundary? *)
let () = register "fixes_chain" (fun args ->
    match args with
    | [h; g] ->
      let s = doc_of_hex h in
      let sel = select (groups_of_string g) in
      let ok = chainb (blen s) sel
               && List.for_all (fun f -> is_boundary s f.f_start && is_boundary s f.f_end) sel in
      if ok then "1" else "0"
    | _ -> "error\targs")

(* line_removal <hexsrc> <a> <b> -> s,e | panic ; line_removal_orig likewise *)
let show_span = function None -> "panic" | Some (s, e) -> string_of_n s ^ "," ^ string_of_n e
let () = register "line_removal" (fun args ->
    match args with
    | [h; a; b] -> show_span (line_removal (doc_of_hex h) (n_of_string a) (n_of_string b))
    | _ -> "error\targs")
let () = register "line_removal_orig" (fun args ->
    match args with
    | [h; a; b] -> show_span (line_removal_orig (doc_of_hex h) (n_of_string a) (n_of_string b))
    | _ -> "error\targs")
