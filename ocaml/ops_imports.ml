(* C34: line-protocol handler over the extracted model of import loading (Imports.v).
   imports <files|edges|imports_first> <file> <kind> <target> <public 1|0> <alias|->  ->  <check> TAB <run>
   The project layout mirrors tools/props/C34.py (defs_of / render_project); this mapping is trusted glue. *)
open Mdl
open Driver_core

let rec nat_of_int (n : int) : nat = if n <= 0 then O else S (nat_of_int (n - 1))
let fid = function 'm' -> 0 | 'b' -> 1 | 'c' -> 2 | _ -> failwith "bad file letter"
let nm fi code = n_of_int (100 * (fi + 1) + code)
let alias_n (s : string) : n =
  (* "n<letter>" graph aliases, "z<letter>" the extra aliases of main *)
  n_of_int ((if s.[0] = 'z' then 2000 else 1000) + fid s.[1])
let int_type = n_of_int 50

let defs fi : item list =
  [ IFun (nm fi 1, Public); IFun (nm fi 2, Private);
    IStruct (nm fi 7, Public); IStruct (nm fi 8, Private);
    IEnum (nm fi 9, Public, [nm fi 3; nm fi 4]); IEnum (nm fi 10, Private, [nm fi 5; nm fi 6]);
    IMethod (int_type, nm fi 11, Public); IMethod (int_type, nm fi 12, Private);
    IFun (nm fi 13, Public); IFun (nm fi 14, Public); IFun (nm fi 15, Public) ]

let project (enc : string) : item list list =
  match String.split_on_char '|' enc with
  | [files; edges; first] ->
    let nfiles = String.length files in
    let edges = if edges = "" then [] else
        List.map (fun e ->
            (* s>d or s>d:alias *)
            let s = fid e.[0] and d = fid e.[2] in
            let alias = if String.length e > 3 then Some (alias_n (String.sub e 4 (String.length e - 4))) else None in
            (s, d, alias)) (String.split_on_char ',' edges) in
    List.init nfiles (fun fi ->
        let imps = List.filter_map (fun (s, d, a) -> if s = fi then Some (IImport (nat_of_int d, a)) else None) edges in
        let imps = if fi = 0 then imps @ List.init (nfiles - 1) (fun k -> IImport (nat_of_int (k + 1), Some (n_of_int (2000 + k + 1)))) else imps in
        if first = "1" then imps @ defs fi else defs fi @ imps)
  | _ -> failwith "bad project"

let show = function Resolved -> "ok" | Rejected -> "error"

let () = register "imports" (fun args ->
    match args with
    | [enc; file; kind; target; pub; alias] ->
      let proj = project enc in
      let f = fid file.[0] and t = fid target.[0] in
      let public = pub = "1" in
      let name = match kind with
        | "fun" -> nm t (if public then 1 else 2)
        | "enum-variant-value" -> nm t (if public then 3 else 5)
        | "enum-constructor" -> nm t (if public then 4 else 6)
        | "fun-through-reexport" -> nm t 1
        | "prelude-through-namespace" -> n_of_int 0
        | "missing-item" -> n_of_int 9999
        | "struct-literal" -> nm t (if public then 7 else 8)
        | "method-call" -> nm t (if public then 11 else 12)
        | k -> failwith ("bad kind " ^ k) in
      let fuel = nat_of_int (List.length proj + 1) in
      let verdict root checking =
        match load_root loader_shape proj fuel (nat_of_int root) with
        | Panic -> "crash"
        | OutOfFuel -> "timeout"
        | Ok e ->
          let fn = nat_of_int f in
          (match kind with
           | "struct-literal" -> show (type_usable e fn name)
           | "method-call" -> show (method_usable e fn int_type name)
           | _ ->
             if alias = "-" then show ((if checking then check_unqualified else run_unqualified) e fn name)
             else show ((if checking then check_qualified else run_qualified) e fn (alias_n alias) name)) in
      verdict f true ^ "\t" ^ verdict 0 false
    | _ -> "error\targs")
