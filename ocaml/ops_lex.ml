(* C01 / C12 / C23: line-protocol handlers over the extracted lexer model
   (coq/Lex.v).  Sources travel hex-encoded UTF-8; they are decoded here to the
   list of scalar values the model works on (trusted glue).

   Canonical one-line form of a lexer result (tools/props/lexlib derives the
   same text from the JSON of the hook op `lex`):
     ok|T=<tok>;<tok>...|C=<comment>;...|E=<err>;...      panic      fuel
     <pos>     = start,end,line,end_line,column,end_column
     <tok>     = <pos>:<hex text>:<comment>+<comment>...
     <comment> = <pos>~<hex text>
     <err>     = <pos>:unclosed:-   |   <pos>:unrec:<hex text>
   (hex of the empty string is "-").
 *)
open Mdl
open Driver_core

let lx_decode (s : string) : n list =
  let n = String.length s in
  let rec go i acc =
    if i >= n then List.rev acc else
      let b0 = Char.code s.[i] in
      let cont k = Char.code s.[i + k] land 0x3f in
      if b0 < 0x80 then go (i + 1) (n_of_int b0 :: acc)
      else if b0 < 0xe0 then go (i + 2) (n_of_int (((b0 land 0x1f) lsl 6) lor cont 1) :: acc)
      else if b0 < 0xf0 then go (i + 3) (n_of_int (((b0 land 0x0f) lsl 12) lor (cont 1 lsl 6) lor cont 2) :: acc)
      else go (i + 4) (n_of_int (((b0 land 0x07) lsl 18) lor (cont 1 lsl 12) lor (cont 2 lsl 6) lor cont 3) :: acc)
  in
  go 0 []

let lx_encode (l : n list) : string =
  let b = Buffer.create 16 in
  List.iter (fun c ->
      let c = int_of_n c in
      if c < 0x80 then Buffer.add_char b (Char.chr c)
      else if c < 0x800 then (Buffer.add_char b (Char.chr (0xc0 lor (c lsr 6)));
                              Buffer.add_char b (Char.chr (0x80 lor (c land 0x3f))))
      else if c < 0x10000 then (Buffer.add_char b (Char.chr (0xe0 lor (c lsr 12)));
                                Buffer.add_char b (Char.chr (0x80 lor ((c lsr 6) land 0x3f)));
                                Buffer.add_char b (Char.chr (0x80 lor (c land 0x3f))))
      else (Buffer.add_char b (Char.chr (0xf0 lor (c lsr 18)));
            Buffer.add_char b (Char.chr (0x80 lor ((c lsr 12) land 0x3f)));
            Buffer.add_char b (Char.chr (0x80 lor ((c lsr 6) land 0x3f)));
            Buffer.add_char b (Char.chr (0x80 lor (c land 0x3f))))) l;
  Buffer.contents b

let lx_src h = lx_decode (unhex h)
let lx_hex l = hex (lx_encode l)
let lx_n x = string_of_int (int_of_n x)

let lx_pos (p : pos) : string =
  String.concat "," (List.map lx_n (pos_fields p))

let lx_comment ((p, t) : pos * n list) : string = lx_pos p ^ "~" ^ lx_hex t

let lx_tok (t : token) : string =
  lx_pos t.tpos ^ ":" ^ lx_hex t.ttext ^ ":" ^ String.concat "+" (List.map lx_comment t.tcomments)

let lx_err (e : lex_error) : string =
  match e.emsg with
  | UnclosedString -> lx_pos e.epos ^ ":unclosed:-"
  | Unrecognized t -> lx_pos e.epos ^ ":unrec:" ^ lx_hex t

let lx_result = function
  | LexPanic -> "panic"
  | LexOutOfFuel -> "fuel"
  | LexOk (ts, tr, es) ->
    "ok|T=" ^ String.concat ";" (List.map lx_tok ts)
    ^ "|C=" ^ String.concat ";" (List.map lx_comment tr)
    ^ "|E=" ^ String.concat ";" (List.map lx_err es)

(* lex <hexsrc>  ->  canonical result of the model of the (fixed) lexer *)
let () = register "lex" (fun args ->
    match args with
    | [h] -> lx_result (lex (lx_src h))
    | _ -> "error\targs")

(* lex_cfg <a> <b> <c> <hexsrc>  ->  same for a chosen version (1 = fix applied) *)
let () = register "lex_cfg" (fun args ->
    match args with
    | [a; b; c; h] -> lx_result (lex_with { fix_a = (a = "1"); fix_b = (b = "1"); fix_c = (c = "1") } (lx_src h))
    | _ -> "error\targs")

(* escape <hex string value>  ->  hex of the printed literal *)
let () = register "escape" (fun args ->
    match args with
    | [h] -> lx_hex (escape (lx_src h))
    | _ -> "error\targs")

(* unescape <hex string token>  ->  <hex value>,<number of invalid escapes> | panic *)
let () = register "unescape" (fun args ->
    match args with
    | [h] -> (match unescape (lx_src h) with
        | None -> "panic"
        | Some (v, e) -> lx_hex v ^ "," ^ lx_n e)
    | _ -> "error\targs")

(* merge <s,e,l,el,c,ec> <s,e,l,el,c,ec>  ->  pos   (Position::merge) *)
let () = register "merge" (fun args ->
    let p s = match List.map (fun x -> n_of_int (int_of_string x)) (String.split_on_char ',' s) with
      | [a; b; c; d; e; f] -> pos_of_fields a b c d e f
      | _ -> failwith "pos" in
    match args with
    | [a; b] -> lx_pos (merge (p a) (p b))
    | _ -> "error\targs")

(* ---- C12: literal reader (coq/ReadLit.v) ------------------------------------
   readlit <hexsrc>  ->  none | <tree>\t<hex of show v>
   <tree> is written exactly as the hook op `sexp` writes the parser's tree of the
   same literal: (int N) (str "..") (var True) (call (var Some) (args X))
   (list X Y) (tuple X Y). *)
let rec lx_tree (v : lit) : string =
  match v with
  | LInt z -> "(int " ^ string_of_z z ^ ")"
  | LStr s -> "(str " ^ lx_encode (escape s) ^ ")"
  | LBool true -> "(var True)"
  | LBool false -> "(var False)"
  | LUnit -> "(var Unit)"
  | LNone -> "(var None)"
  | LSome x -> "(call (var Some) (args " ^ lx_tree x ^ "))"
  | LOk x -> "(call (var Ok) (args " ^ lx_tree x ^ "))"
  | LErr x -> "(call (var Err) (args " ^ lx_tree x ^ "))"
  | LList vs -> "(" ^ String.concat " " ("list" :: List.map lx_tree vs) ^ ")"
  | LTuple vs -> "(" ^ String.concat " " ("tuple" :: List.map lx_tree vs) ^ ")"

let () = register "readlit" (fun args ->
    match args with
    | [h] -> (match read_source (lx_src h) with
        | None -> "none"
        | Some v -> hex (lx_tree v) ^ "\t" ^ lx_hex (show v))
    | _ -> "error\targs")
