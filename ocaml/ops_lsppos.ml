(* C29: line-protocol handlers over the extracted LspPos model.
   Documents travel hex-encoded UTF-8; they are decoded here to the list of
   scalar values the model works on (trusted glue). *)
open Mdl
open Driver_core

let decode_utf8 (s : string) : n list =
  let n = String.length s in
  let rec go i acc =
    if i >= n then List.rev acc else
      let b0 = Char.code s.[i] in
      let cont k = Char.code s.[i + k] land 0x3f in
      if b0 < 0x80 then go (i + 1) (n_of_int b0 :: acc)
      else if b0 < 0xe0 then go (i + 2) (n_of_int (((b0 land 0x1f) lsl 6) lor cont 1) :: acc)
      else if b0 < 0xf0 then go (i + 3) (n_of_int (((b0 land 0x0f) lsl 12) lor (cont 1 lsl 6) lor cont 2) :: acc)
      else go (i + 4) (n_of_int (((b0 land 0x07) lsl 18) lor (cont 1 lsl 12) lor (cont 2 lsl 6) lor cont 3) :: acc)
  in
  go 0 []

let encode_utf8 (l : n list) : string =
  let b = Buffer.create 16 in
  List.iter (fun c ->
      let c = int_of_n c in
      if c < 0x80 then Buffer.add_char b (Char.chr c)
      else if c < 0x800 then (Buffer.add_char b (Char.chr (0xc0 lor (c lsr 6)));
                              Buffer.add_char b (Char.chr (0x80 lor (c land 0x3f))))
      else if c < 0x10000 then (Buffer.add_char b (Char.chr (0xe0 lor (c lsr 12)));
                                Buffer.add_char b (Char.chr (0x80 lor ((c lsr 6) land 0x3f)));
                                Buffer.add_char b (Char.chr (0x80 lor (c land 0x3f))))
      else (Buffer.add_char b (Char.chr (0xf0 lor (c lsr 18)));
            Buffer.add_char b (Char.chr (0x80 lor ((c lsr 12) land 0x3f)));
            Buffer.add_char b (Char.chr (0x80 lor ((c lsr 6) land 0x3f)));
            Buffer.add_char b (Char.chr (0x80 lor (c land 0x3f))))) l;
  Buffer.contents b

let doc_of_hex h = decode_utf8 (unhex h)
let n_of_string s = Z.to_N (z_of_string s)
let string_of_n x = string_of_z (Z.of_N x)

let show_pos = function
  | PPanic -> "P"
  | POk (l, c) -> string_of_n l ^ "," ^ string_of_n c

let show_range = function
  | None -> "P"
  | Some ((l1, c1), (l2, c2)) -> String.concat "," (List.map string_of_n [l1; c1; l2; c2])

let show_optdoc = function None -> "none" | Some d -> "some:" ^ hex (encode_utf8 d)
let show_optn = function None -> "none" | Some x -> string_of_n x

(* lsp_o2p <hexsrc> <offset>  ->  P | line,character *)
let () = register "lsp_o2p" (fun args ->
    match args with
    | [h; o] -> show_pos (offset_to_lsp_position (doc_of_hex h) (n_of_string o))
    | _ -> "error\targs")

(* lsp_lc2o <hexsrc> <line> <character> -> offset *)
let () = register "lsp_lc2o" (fun args ->
    match args with
    | [h; l; c] -> string_of_n (line_char_to_offset (doc_of_hex h) (n_of_string l) (n_of_string c))
    | _ -> "error\targs")

(* lsp_doc <hexsrc> <maxline> <maxchar>: everything about one document on one line:
   o2p=<for o in 0..len+2: position@line_of(b|n = boundary or not)>;..|lc2o=<for l in 0..maxline, c in 0..maxchar>,..|whole=l,c *)
let () = register "lsp_doc" (fun args ->
    match args with
    | [h; ml; mc] ->
      let s = doc_of_hex h in
      let len = int_of_n (blen s) in
      let ml = int_of_string ml and mc = int_of_string mc in
      let o2p = List.init (len + 3) (fun o ->
          let o = n_of_int o in
          show_pos (offset_to_lsp_position s o) ^ "@" ^ string_of_n (line_of s o)
          ^ (if is_boundary s o then "b" else "n")) in
      let lc = List.concat (List.init (ml + 1) (fun l -> List.init (mc + 1) (fun c ->
          string_of_n (line_char_to_offset s (n_of_int l) (n_of_int c))))) in
      let (el, ec) = whole_document_end s in
      "o2p=" ^ String.concat ";" o2p ^ "|lc2o=" ^ String.concat "," lc ^ "|whole=" ^ string_of_n el ^ "," ^ string_of_n ec
    | _ -> "error\targs")

(* lsp_range <hexsrc> <a> <b> -> l1,c1,l2,c2 | P   (garden's range for the byte span, lexer line numbers) *)
let () = register "lsp_range" (fun args ->
    match args with
    | [h; a; b] -> show_range (range_of (doc_of_hex h) (n_of_string a) (n_of_string b))
    | _ -> "error\targs")

(* lsp_spec_off <hexsrc> <line> <character> -> offset | none   (LSP specification reading of a position) *)
let () = register "lsp_spec_off" (fun args ->
    match args with
    | [h; l; c] -> show_optn (spec_offset (doc_of_hex h) (n_of_string l) (n_of_string c))
    | _ -> "error\targs")

(* lsp_apply <hexsrc> <l1> <c1> <l2> <c2> <hexnew> -> none | some:<hex>   (LSP specification applier) *)
let () = register "lsp_apply" (fun args ->
    match args with
    | [h; l1; c1; l2; c2; t] ->
      show_optdoc (apply_lsp_edit (doc_of_hex h)
                     ((n_of_string l1, n_of_string c1), (n_of_string l2, n_of_string c2)) (doc_of_hex t))
    | _ -> "error\targs")

(* lsp_splice <hexsrc> <a> <b> <hexnew> -> none | some:<hex> *)
let () = register "lsp_splice" (fun args ->
    match args with
    | [h; a; b; t] -> show_optdoc (splice (doc_of_hex h) (n_of_string a) (n_of_string b) (doc_of_hex t))
    | _ -> "error\targs")

(* lsp_nlc <hexsrc> -> 1 | 0   (no lone CR) *)
let () = register "lsp_nlc" (fun args ->
    match args with
    | [h] -> if no_lone_cr_b (doc_of_hex h) then "1" else "0"
    | _ -> "error\targs")

(* lsp_spec_doc <hexsrc> <maxline> <maxchar> -> spec_offset for l in 0..maxline, c in 0..maxchar ("none" inside a pair) *)
let () = register "lsp_spec_doc" (fun args ->
    match args with
    | [h; ml; mc] ->
      let s = doc_of_hex h in
      let ml = int_of_string ml and mc = int_of_string mc in
      String.concat "," (List.concat (List.init (ml + 1) (fun l -> List.init (mc + 1) (fun c ->
          show_optn (spec_offset s (n_of_int l) (n_of_int c))))))
    | _ -> "error\targs")
