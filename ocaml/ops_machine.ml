(* Glue for the evaluator model: parses the S-expression syntax trees printed
   by the implementation's own parser (verif-batch op `sexp`, positions on),
   builds Mdl.prog / Mdl.expr, runs Mdl.step. *)
open Mdl
open Driver_core

type sx = A of string | S of string | L of sx list

let parse_sexps (src : string) : sx list =
  let n = String.length src in
  let pos = ref 0 in
  let rec skip () = if !pos < n && (src.[!pos] = ' ' || src.[!pos] = '\n') then (incr pos; skip ()) in
  let rec one () : sx =
    skip ();
    if src.[!pos] = '(' then begin
      incr pos;
      let items = ref [] in
      let rec loop () =
        skip ();
        if src.[!pos] = ')' then incr pos
        else (items := one () :: !items; loop ()) in
      loop ();
      L (List.rev !items)
    end else if src.[!pos] = '"' then begin
      incr pos;
      let b = Buffer.create 16 in
      let rec loop () =
        let c = src.[!pos] in
        if c = '"' then incr pos
        else if c = '\\' then begin
          let d = src.[!pos + 1] in
          Buffer.add_char b (if d = 'n' then '\n' else d);
          pos := !pos + 2; loop ()
        end else (Buffer.add_char b c; incr pos; loop ()) in
      loop ();
      S (Buffer.contents b)
    end else begin
      let st = !pos in
      while !pos < n && src.[!pos] <> ' ' && src.[!pos] <> ')' && src.[!pos] <> '(' && src.[!pos] <> '\n' do incr pos done;
      A (String.sub src st (!pos - st))
    end in
  let res = ref [] in
  let rec all () = skip (); if !pos < n then (res := one () :: !res; all ()) in
  all ();
  List.rev !res

(* UTF-8 -> scalar values *)
let chars_of_utf8 (s : string) : n list =
  let n = String.length s in
  let rec go i acc =
    if i >= n then List.rev acc else
      let c = Char.code s.[i] in
      if c < 0x80 then go (i + 1) (n_of_int c :: acc)
      else if c < 0xE0 then go (i + 2) (n_of_int (((c land 0x1F) lsl 6) lor (Char.code s.[i+1] land 0x3F)) :: acc)
      else if c < 0xF0 then go (i + 3) (n_of_int (((c land 0x0F) lsl 12) lor ((Char.code s.[i+1] land 0x3F) lsl 6) lor (Char.code s.[i+2] land 0x3F)) :: acc)
      else go (i + 4) (n_of_int (((c land 0x07) lsl 18) lor ((Char.code s.[i+1] land 0x3F) lsl 12) lor ((Char.code s.[i+2] land 0x3F) lsl 6) lor (Char.code s.[i+3] land 0x3F)) :: acc) in
  go 0 []

let utf8_of_chars (l : n list) : string =
  let b = Buffer.create 16 in
  List.iter (fun c -> Buffer.add_utf_8_uchar b (Uchar.of_int (int_of_n c))) l;
  Buffer.contents b

exception Unsup of string

let syms : (string, int) Hashtbl.t = Hashtbl.create 64
let reset_syms () =
  Hashtbl.reset syms;
  Hashtbl.replace syms "_" 0; Hashtbl.replace syms "Bool" 1; Hashtbl.replace syms "Unit" 2
let sym (s : string) : n =
  match Hashtbl.find_opt syms s with
  | Some i -> n_of_int i
  | None -> let i = Hashtbl.length syms + 10 in Hashtbl.replace syms s i; n_of_int i

let parse_pos (a : string) : n * n =
  (* "@start:end:line:endline:col:endcol" *)
  match String.split_on_char ':' (String.sub a 1 (String.length a - 1)) with
  | s :: e :: _ -> (n_of_int (int_of_string s), n_of_int (int_of_string e))
  | _ -> raise (Unsup "bad position")

let is_pos = function A a -> String.length a > 0 && a.[0] = '@' | _ -> false

(* strip a leading position atom and a trailing #unused marker *)
let split_node (items : sx list) : (n * n) * bool * sx list =
  let p, rest = match items with
    | A a :: rest when String.length a > 0 && a.[0] = '@' -> parse_pos a, rest
    | _ -> raise (Unsup "node without position") in
  let rec strip = function
    | [] -> ([], true)
    | [A "#unused"] -> ([], false)
    | x :: r -> let (r', u) = strip r in (x :: r', u) in
  let rest, used_ = strip rest in
  (p, used_, rest)

let binop_of = function
  | "Add" -> BInt OAdd | "Subtract" -> BInt OSub | "Multiply" -> BInt OMul | "Divide" -> BInt ODiv
  | "Modulo" -> BInt OMod | "Exponent" -> BInt OPow | "BitwiseAnd" -> BInt OBitAnd | "BitwiseOr" -> BInt OBitOr
  | "LessThan" -> BInt OLt | "GreaterThan" -> BInt OGt | "LessThanOrEqual" -> BInt OLe | "GreaterThanOrEqual" -> BInt OGe
  | "Equal" -> BEq | "NotEqual" -> BNeq | "And" -> BAnd | "Or" -> BOr | "StringConcat" -> BConcat
  | s -> raise (Unsup ("operator " ^ s))

(* `@pos (sym x)` pairs *)
let sym_at = function
  | A p :: L [A "sym"; A name] :: rest when is_pos (A p) -> (sym name, parse_pos p, rest)
  | L [A "sym"; A name] :: rest -> (sym name, (N0, N0), rest)
  | _ -> raise (Unsup "expected symbol")

let rec conv (x : sx) : expr =
  match x with
  | L items ->
    let (ps, pe), u, body = split_node items in
    let m = { used = u; pstart = ps; pend = pe } in
    (try conv_body m body with Unsup _ -> EUnsupported m)
  | _ -> raise (Unsup "expected list")

and conv_block = function
  | L (A "block" :: es) -> List.map conv es
  | _ -> raise (Unsup "expected block")

and conv_body (m : meta) (body : sx list) : expr =
  match body with
  | [A "int"; A i] -> EInt (m, z_of_string i)
  | [A "str"; S s] -> EStr (m, chars_of_utf8 s)
  | [A "var"; A x] -> EVar (m, sym x)
  | [A "bin"; A op; l; r] -> let o = binop_of op in EBin (m, o, conv l, conv r)
  | A "let" :: rest ->
    (match rest with
     | A p :: L [A "sym"; A x] :: L [A "nohint"] :: [e] when is_pos (A p) -> ELet (m, sym x, conv e)
     | L [A "sym"; A x] :: L [A "nohint"] :: [e] -> ELet (m, sym x, conv e)
     | _ -> raise (Unsup "let form"))
  | A "assign" :: rest ->
    let (x, xp, rest) = sym_at rest in
    (match rest with [e] -> EAssign (m, x, xp, conv e) | _ -> raise (Unsup "assign"))
  | A "assignupdate" :: A op :: rest ->
    let (x, xp, rest) = sym_at rest in
    (match rest with [e] -> EUpd (m, (if op = "+=" then UAdd else USub), x, xp, conv e) | _ -> raise (Unsup "upd"))
  | [A "if"; c; t] -> EIf (m, conv c, conv_block t, None)
  | [A "if"; c; t; e] -> EIf (m, conv c, conv_block t, Some (conv_block e))
  | [A "while"; c; b] -> EWhile (m, conv c, conv_block b)
  | A "for" :: rest ->
    let (x, _, rest) = sym_at rest in
    (match rest with [it; b] -> EFor (m, x, conv it, conv_block b) | _ -> raise (Unsup "for"))
  | [A "break"] -> EBreak m
  | [A "continue"] -> EContinue m
  | [A "return"] -> EReturn (m, None)
  | [A "return"; e] -> EReturn (m, Some (conv e))
  | A "list" :: items -> EList (m, List.map conv items)
  | A "tuple" :: items -> ETuple (m, List.map conv items)
  | [A "call"; f; L (A "args" :: args)] -> ECall (m, conv f, List.map conv args)
  | [A "funlit"; fi] -> let (ps, b) = conv_funinfo fi in EFun (m, ps, b)
  | [A "paren"; e] -> EParen (m, conv e)
  | A "match" :: s :: cases ->
    let conv_case = function
      | L (A "case" :: rest) ->
        let (v, vp, rest) = sym_at rest in
        (match rest with
         | [b] -> (((v, vp), None), conv_block b)
         | [A p; L [A "sym"; A x]; b] when is_pos (A p) -> (((v, vp), Some (sym x)), conv_block b)
         | [L [A "sym"; A x]; b] -> (((v, vp), Some (sym x)), conv_block b)
         | _ -> raise (Unsup "case"))
      | _ -> raise (Unsup "case") in
    EMatch (m, conv s, List.map conv_case cases)
  | _ -> raise (Unsup "expression kind")

and conv_funinfo (fi : sx) : n list * expr list =
  match fi with
  | L (A "funinfo" :: rest) ->
    let rest = match rest with
      | L [A "anon"] :: r -> r
      | A p :: L [A "sym"; _] :: r when is_pos (A p) -> r
      | L [A "sym"; _] :: r -> r
      | _ -> raise (Unsup "funinfo name") in
    let rest = match rest with L [A "doc"; _] :: r -> r | r -> r in
    (match rest with
     | [L [A "tparams"]; L (A "params" :: ps); L [A "ret"; L [A "nohint"]]; b] ->
       let conv_p = function
         | L (A "p" :: r) ->
           let (x, _, r) = sym_at r in
           (match r with [L [A "nohint"]] -> x | _ -> raise (Unsup "param hint"))
         | _ -> raise (Unsup "param") in
       (List.map conv_p ps, conv_block b)
     | _ -> raise (Unsup "funinfo shape"))
  | _ -> raise (Unsup "funinfo")

let txt (s : string) : n list = chars_of_utf8 s

let prelude_globals () : (n * value) list =
  let ty_option = sym "Option" and ty_result = sym "Result" in
  [ (sym "True", vtrue); (sym "False", vfalse); (sym "Unit", vunit);
    (sym "Some", VCtor (ty_option, n_of_int 0, txt "Some"));
    (sym "None", VEnum (ty_option, n_of_int 1, txt "None", None));
    (sym "Ok", VCtor (ty_result, n_of_int 0, txt "Ok"));
    (sym "Err", VCtor (ty_result, n_of_int 1, txt "Err"));
    (sym "println", VBuiltin BiPrintln); (sym "print", VBuiltin BiPrint);
    (sym "string_repr", VBuiltin BiStringRepr) ]

(* names of the prelude / built-in namespace that the model does not define:
   a program that mentions one of them is outside the modelled fragment *)
let unmodelled_names = ["not"; "dbg"; "todo"; "range"; "sort_nums"; "throw"; "eprint"; "eprintln"; "read_line";
                        "shell_arguments"; "max"; "min"; "NoValue"; "assert"]

let rec mentions_unmodelled (x : sx) : bool =
  match x with
  | L [A "var"; A v] -> List.mem v unmodelled_names
  | L l -> List.exists mentions_unmodelled l
  | _ -> false

(* top-level items -> program + expressions *)
let conv_items (items : sx list) : prog * expr list =
  let globals = ref (prelude_globals ()) and funs = ref [] and exprs = ref [] in
  List.iter (fun it ->
      if mentions_unmodelled it then raise (Unsup "prelude name outside the model");
      match it with
      | L (A "fun" :: rest) ->
        let rest = List.filter (fun x -> not (is_pos x) && x <> A "public") rest in
        (match rest with
         | [fi] ->
           let name = (match fi with
               | L (A "funinfo" :: A p :: L [A "sym"; A nm] :: _) when is_pos (A p) -> nm
               | L (A "funinfo" :: L [A "sym"; A nm] :: _) -> nm
               | _ -> raise (Unsup "fun name")) in
           let (ps, b) = conv_funinfo fi in
           funs := (sym name, { fparams = ps; fbody = b }) :: !funs;
           globals := (sym name, VFun (sym name, txt "<fun>")) :: !globals
         | _ -> raise (Unsup "fun item"))
      | L (A "enum" :: rest) ->
        let rest = List.filter (fun x -> not (is_pos x) && x <> A "public") rest in
        (match rest with
         | A name :: rest ->
           let rest = match rest with L [A "doc"; _] :: r -> r | r -> r in
           (match rest with
            | L (A "tparams" :: _) :: variants ->
              List.iteri (fun i v ->
                  match v with
                  | L (A "variant" :: r) ->
                    let (vs, _, r) = sym_at r in
                    let vname = (match List.filter (fun x -> not (is_pos x)) (List.tl (match v with L l -> l | _ -> [])) with
                        | L [A "sym"; A nm] :: _ -> nm | _ -> "?") in
                    (match r with
                     | [L [A "nohint"]] -> globals := (vs, VEnum (sym name, n_of_int i, txt vname, None)) :: !globals
                     | _ -> globals := (vs, VCtor (sym name, n_of_int i, txt vname)) :: !globals)
                  | _ -> raise (Unsup "variant")) variants
            | _ -> raise (Unsup "enum shape"))
         | _ -> raise (Unsup "enum"))
      | L (A p :: _) when is_pos (A p) -> exprs := conv it :: !exprs
      | L (A "block" :: es) -> List.iter (fun e -> exprs := conv e :: !exprs) es
      | _ -> raise (Unsup "toplevel item")) items;
  ({ globals = !globals; funs = !funs }, List.rev !exprs)

let rec has_unsupported_expr (e : expr) : bool =
  match e with
  | EUnsupported _ -> true
  | EInt _ | EStr _ | EVar _ | EBreak _ | EContinue _ -> false
  | EBin (_, _, l, r) -> has_unsupported_expr l || has_unsupported_expr r
  | ELet (_, _, e) | EAssign (_, _, _, e) | EUpd (_, _, _, _, e) | EParen (_, e) -> has_unsupported_expr e
  | EIf (_, c, t, el) -> has_unsupported_expr c || List.exists has_unsupported_expr t
                         || (match el with Some l -> List.exists has_unsupported_expr l | None -> false)
  | EWhile (_, c, b) -> has_unsupported_expr c || List.exists has_unsupported_expr b
  | EFor (_, _, it, b) -> has_unsupported_expr it || List.exists has_unsupported_expr b
  | EReturn (_, o) -> (match o with Some e -> has_unsupported_expr e | None -> false)
  | EList (_, l) | ETuple (_, l) -> List.exists has_unsupported_expr l
  | ECall (_, f, a) -> has_unsupported_expr f || List.exists has_unsupported_expr a
  | EFun (_, _, b) -> List.exists has_unsupported_expr b
  | EMatch (_, s, cs) -> has_unsupported_expr s || List.exists (fun (_, b) -> List.exists has_unsupported_expr b) cs

let show_pos ((s, e) : n * n) = Printf.sprintf "%d:%d" (int_of_n s) (int_of_n e)

let show_err (e : err) : string =
  match e.ekind_of with
  | KException -> "exception:" ^ show_pos e.epos_of
  | KInterrupted -> "interrupted"
  | KTickLimit -> "tick_limit:" ^ show_pos e.epos_of
  | KStackLimit -> "stack_limit:" ^ show_pos e.epos_of

let frames_summary (st : state) : string =
  String.concat ";" (List.rev_map (fun f ->
      Printf.sprintf "%d,%d,%d,%d" (List.length f.vals) (List.length f.blocks) (List.length f.todo) (List.length f.nextb))
      st.stack)

let opt_n (s : string) : n option = if s = "-" then None else Some (n_of_int (int_of_string s))

(* machine <fuel> <tick_limit|-> <stack_limit|-> <resume> <interrupt_at comma list|-> <hex sexp items, one per line>
   -> outcomes joined by '|'  TAB  hex stdout  TAB  ticks  TAB  frames *)
let () = register "machine" (fun args ->
    match args with
    | fuel :: tl :: sl :: resume :: intr :: hexsrc :: rest ->
      let do_abort = (rest = ["abort"]) in
      (try
         reset_syms ();
         let items = parse_sexps (unhex hexsrc) in
         let (p, exprs) = conv_items items in
         if List.exists has_unsupported_expr exprs
         || List.exists (fun (_, fd) -> List.exists has_unsupported_expr fd.fbody) p.funs
         then "unsupported\t-\t0\t-"
         else begin
           let fuel = int_of_string fuel and resume = int_of_string resume in
           let intr = if intr = "-" then [] else List.map int_of_string (String.split_on_char ',' intr) in
           let st = ref (init_state exprs (opt_n tl) (opt_n sl)) in
           let outcomes = ref [] in
           let left = ref fuel in
           (* one `eval` call: run steps until Done/Failed/...; returns true when it failed resumably *)
           let eval_once () : bool =
             (* `eval` returns Unit at once when there is nothing to do at top level *)
             (match !st.stack with
              | [f] when f.todo = [] && !outcomes <> [] ->
                outcomes := ("ok:" ^ hex (utf8_of_chars (display vunit))) :: !outcomes; false
              | _ ->
                let result = ref None in
                while !result = None do
                  if !left <= 0 then result := Some ("outoffuel", false)
                  else begin
                    decr left;
                    let s0 = !st in
                    let pending = (match s0.stack with f :: _ -> f.todo <> [] | [] -> false) in
                    let s1 = if pending && List.mem (int_of_n s0.ticks + 1) intr
                      then { s0 with interrupted = true } else s0 in
                    match step p s1 with
                    | Next s' -> st := s'
                    | Done (v, s') -> st := s'; result := Some ("ok:" ^ hex (utf8_of_chars (display v)), false)
                    | Failed (e, s') -> st := s'; result := Some (show_err e, true)
                    | Crashed -> result := Some ("crashed", false)
                    | Unsupported -> result := Some ("unsupported", false)
                  end
                done;
                (match !result with Some (o, again) -> outcomes := o :: !outcomes; again | None -> false)) in
           let failed = ref (eval_once ()) in
           let k = ref 0 in
           while !failed && !k < resume do failed := eval_once (); incr k done;
           let frames_before_abort = if do_abort then begin
               let fb = (st := abort !st; frames_summary !st) in
               ignore (eval_once ()); fb ^ "/" end else "" in
           let outs = String.concat "" (List.rev_map utf8_of_chars !st.out) in
           String.concat "|" (List.rev !outcomes) ^ "\t" ^ hex outs ^ "\t" ^ string_of_int (int_of_n !st.ticks)
           ^ "\t" ^ frames_before_abort ^ frames_summary !st
         end
       with Unsup why -> "unsupported:" ^ why ^ "\t-\t0\t-")
    | _ -> "error\targs")


(* ref <fuel> <hex sexp items>  ->  outcome TAB hex stdout      (the independent reference semantics, Ref.v) *)
let show_rerr = function
  | ETypeError -> "type" | EUnbound -> "unbound" | ENotBound -> "notbound" | EArith -> "arith" | EArity -> "arity" | ENoMatch -> "nomatch"

let () = register "ref" (fun args ->
    match args with
    | [fuel; hexsrc] ->
      (try
         reset_syms ();
         let items = parse_sexps (unhex hexsrc) in
         let (p, exprs) = conv_items items in
         if List.exists has_unsupported_expr exprs
         || List.exists (fun (_, fd) -> List.exists has_unsupported_expr fd.fbody) p.funs
         then "unsupported\t-"
         else begin
           let (r, s) = ref_run p (nat_of_int (int_of_string fuel)) exprs in
           let outs = String.concat "" (List.rev_map utf8_of_chars s.printed) in
           (match r with
            | Ok v -> "ok:" ^ hex (utf8_of_chars (display v))
            | Ctl (CErr e) -> "error:" ^ show_rerr e
            | Ctl _ -> "unsupported:control-outside-loop"
            | OutOfFuel -> "outoffuel"
            | Unsupp -> "unsupported") ^ "\t" ^ hex outs
         end
       with Unsup why -> "unsupported:" ^ why ^ "\t-")
    | _ -> "error\targs")


(* wa <hex sexp items> -> "<in_fragment> <well_annotated> <prog_good>" (t/f each): do the proved theorem's hypotheses
   (Refine.v) describe what the REAL parser produced for this program? *)
let () = register "wa" (fun args ->
    match args with
    | [hexsrc] ->
      (try
         reset_syms ();
         let items = parse_sexps (unhex hexsrc) in
         let has_toplevel_block = List.exists (function L (A "block" :: _) -> true | _ -> false) items in
         let (p, exprs) = conv_items items in
         let b x = if x then "t" else "f" in
         if has_toplevel_block then "unsupported:toplevel-block"
         else
           b (List.for_all in_fragment exprs) ^ "\t" ^
           b (well_annotated_toplevel exprs && List.for_all (fun (_, fd) -> body_ok fd.fbody || not (List.for_all in_fragment fd.fbody)) p.funs) ^ "\t" ^
           b (prog_good p)
       with Unsup why -> "unsupported:" ^ why)
    | _ -> "error\targs")
