(* nrepl_replay <code variant 0|1|2 = as found | fix-1 | fix-1+fix-2> <labels separated by spaces>
   Replays an event log (converted to labels by tools/props/C30.py) through the
   extracted Nrepl.step.  Answer:
     accepted TAB <quiescent:0|1> TAB <socket history predicted by the model, oldest first>
     rejected TAB <index of the first label that is not enabled> TAB <label>
   Label syntax:
     R:clone R:plain R:sess:<k>:<e|s> R:int:<k> R:close:<k>           LRecv
     r:enq r:unk r:flag r:ignore r:closed r:drop r:new r:plain r:send   LReader
     w:<k>:deq|exit|reset|ldc|reflag|bsimple|bparse|bwarn|bspawn|check|checkint|
           po:<tok>|pe:<tok>|fok:<n>|ferr|stopfl|join|take|send|done    LWorker
     f:<k>:timeout|stop|take|send                                       LFlusher
     W                                                                  LWriter
     S:<k>                                                              LSigint
   `checkint` = a flag check that the real evaluator saw as `true`: accepted only
   if the model's check also ends the eval with Interrupted. *)
open Mdl
open Driver_core

let nat s = nat_of_int (int_of_string s)

let parse_label (s : string) : label * bool =
  match String.split_on_char ':' s with
  | ["R"; "clone"] -> (LRecv OClone, false)
  | ["R"; "plain"] -> (LRecv OPlain, false)
  | ["R"; "sess"; k; "e"] -> (LRecv (OSess (nat k, KEval)), false)
  | ["R"; "sess"; k; "s"] -> (LRecv (OSess (nat k, KSimple)), false)
  | ["R"; "int"; k] -> (LRecv (OInterrupt (nat k)), false)
  | ["R"; "close"; k] -> (LRecv (OClose (nat k)), false)
  | ["r"; a] ->
    (LReader (match a with
         | "enq" -> RAEnq | "unk" -> RAUnknown | "flag" -> RAFlag | "ignore" -> RAIgnore | "closed" -> RAClosed
         | "drop" -> RADrop | "new" -> RANew | "plain" -> RAPlain | "send" -> RASend
         | _ -> failwith ("bad reader action " ^ a)), false)
  | "w" :: k :: rest ->
    let a, chk = match rest with
      | ["deq"] -> (WADequeue, false) | ["exit"] -> (WAExit, false) | ["reset"] -> (WAReset, false)
      | ["ldc"] -> (WALoadClosed, false) | ["reflag"] -> (WAReflag, false)
      | ["bsimple"] -> (WABegin BSimple, false) | ["bparse"] -> (WABegin BParseErr, false)
      | ["bwarn"] -> (WABegin BWarn, false) | ["bspawn"] -> (WABegin BSpawn, false)
      | ["check"] -> (WACheck, false) | ["checkint"] -> (WACheck, true)
      | ["po"; t] -> (WAPrint (SOut, nat t), false) | ["pe"; t] -> (WAPrint (SErr, nat t), false)
      | ["fok"; n] -> (WAFinish (ROk (nat n)), false) | ["ferr"] -> (WAFinish RErr, false)
      | ["stopfl"] -> (WAStopFl, false) | ["join"] -> (WAJoin, false)
      | ["take"] -> (WATake, false) | ["send"] -> (WASend, false) | ["done"] -> (WADone, false)
      | _ -> failwith ("bad worker action " ^ s) in
    (LWorker (nat k, a), chk)
  | ["f"; k; a] ->
    (LFlusher (nat k, (match a with
         | "timeout" -> FATimeout | "stop" -> FAStop | "take" -> FATake | "send" -> FASend
         | _ -> failwith ("bad flusher action " ^ a))), false)
  | ["W"] -> (LWriter, false)
  | ["S"; k] -> (LSigint (nat k), false)
  | _ -> failwith ("bad label " ^ s)

let show_status = function
  | StDone -> "done" | StEvalError -> "eval-error" | StInterrupted -> "interrupted"
  | StUnknownSession -> "unknown-session" | StSessionClosed -> "session-closed"

let show_msg = function
  | MOut (k, r, x, t) ->
    Printf.sprintf "o:%d:%d:%s:%s" (int_of_nat k) (int_of_nat r) (match x with SOut -> "out" | SErr -> "err")
      (String.concat "," (List.map (fun n -> string_of_int (int_of_nat n)) t))
  | MText (k, r) -> Printf.sprintf "t:%d:%d" (int_of_nat k) (int_of_nat r)
  | MDone (r, s) -> Printf.sprintf "d:%d:%s" (int_of_nat r) (show_status s)

let interrupted_after (st : state) (k : int) : bool =
  match List.nth_opt st.st_sess k with
  | Some s -> (match s.s_w with WStop (_, RInterrupted) -> true | _ -> false)
  | None -> false

let () = register "nrepl_replay" (fun args ->
    match args with
    | fx :: rest ->
      let fx = (match fx with "0" -> VAsFound | "1" -> VFix1 | _ -> VFix2) in
      let toks = List.filter (fun s -> s <> "") (String.split_on_char ' ' (String.concat " " rest)) in
      let rec go st i = function
        | [] -> Printf.sprintf "accepted\t%d\t%s" (if quiescent st then 1 else 0)
                  (String.concat ";" (List.rev_map show_msg st.st_wire))
        | t :: tl ->
          let (l, chk) = parse_label t in
          (match step fx st l with
           | None -> Printf.sprintf "rejected\t%d\t%s" i t
           | Some st' ->
             if chk && not (match l with LWorker (k, _) -> interrupted_after st' (int_of_nat k) | _ -> true)
             then Printf.sprintf "rejected\t%d\t%s(flag is false in the model)" i t
             else go st' (i + 1) tl)
      in
      go init 0 toks
    | _ -> "error\targs")
