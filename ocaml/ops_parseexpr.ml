open Mdl
open Driver_core

let kind_name = function
  | KAdd -> "Add" | KAddFloat -> "AddFloat" | KSubtract -> "Subtract" | KSubtractFloat -> "SubtractFloat"
  | KMultiply -> "Multiply" | KMultiplyFloat -> "MultiplyFloat" | KDivide -> "Divide" | KDivideFloat -> "DivideFloat"
  | KModulo -> "Modulo" | KExponent -> "Exponent" | KEqual -> "Equal" | KNotEqual -> "NotEqual"
  | KLessThan -> "LessThan" | KLessThanOrEqual -> "LessThanOrEqual" | KGreaterThan -> "GreaterThan"
  | KGreaterThanOrEqual -> "GreaterThanOrEqual" | KAnd -> "And" | KOr -> "Or" | KBitwiseAnd -> "BitwiseAnd"
  | KBitwiseOr -> "BitwiseOr" | KStringConcat -> "StringConcat"

let rec show = function
  | PInt z -> "(int " ^ string_of_z z ^ ")"
  | PVar x -> "(var v" ^ string_of_int (int_of_n x) ^ ")"
  | PBin (o, l, r) -> "(bin " ^ kind_name o ^ " " ^ show l ^ " " ^ show r ^ ")"
  | PParen e -> "(paren " ^ show e ^ ")"

let string_of_codes (l : n list) = String.concat "" (List.map (fun c -> String.make 1 (Char.chr (int_of_n c))) l)

(* the operator token -> kind, through the table generated from parser.rs *)
let kind_of_text (t : string) : opk option =
  List.fold_left (fun acc (txt, k) -> if string_of_codes txt = t then Some k else acc) None op_table

(* parsechain <old|cur> <space separated tokens: i<int> v<n> ( ) or an operator text>  ->  sexp or none *)
let () = register "parsechain" (fun args ->
    match args with
    | [which; toks] ->
      let words = List.filter (fun w -> w <> "") (String.split_on_char ' ' toks) in
      let conv w =
        if w = "(" then TLP else if w = ")" then TRP
        else if String.length w > 1 && w.[0] = 'i' then TInt (z_of_string (String.sub w 1 (String.length w - 1)))
        else if String.length w > 1 && w.[0] = 'v' && (match w.[1] with '0'..'9' -> true | _ -> false)
        then TVar (n_of_int (int_of_string (String.sub w 1 (String.length w - 1))))
        else match kind_of_text w with Some k -> TOp k | None -> TOther in
      let ts = List.map conv words in
      (match parse_top (if which = "old" then old_shape else current_shape) ts with
       | Some e -> show e
       | None -> "none")
    | _ -> "error\targs")

let () = register "optable" (fun _ ->
    String.concat " " (List.map (fun (txt, k) -> string_of_codes txt ^ "=" ^ kind_name k) op_table))
