open Mdl
open Driver_core

(* Glue for ParseFull.v: tokens in, S-expression (the format of the hook op `sexp`) out.
   A token is  <sp><code>[payload]  with sp in g/s/n (Glued/Spaced/NewLine) and code:
     i<decimal>  integer literal          f<hex> float literal (text)      q<hex> string literal (its sexp display form)
     y<hex>      symbol (text)            D      the symbol Dict           o<hex> operator text (looked up in op_table)
     LP RP LB RB LC RC CM DT CC EQ PE ME AR CL  punctuation                k<keyword>      X  anything else *)

let kind_name = function
  | KAdd -> "Add" | KAddFloat -> "AddFloat" | KSubtract -> "Subtract" | KSubtractFloat -> "SubtractFloat"
  | KMultiply -> "Multiply" | KMultiplyFloat -> "MultiplyFloat" | KDivide -> "Divide" | KDivideFloat -> "DivideFloat"
  | KModulo -> "Modulo" | KExponent -> "Exponent" | KEqual -> "Equal" | KNotEqual -> "NotEqual"
  | KLessThan -> "LessThan" | KLessThanOrEqual -> "LessThanOrEqual" | KGreaterThan -> "GreaterThan"
  | KGreaterThanOrEqual -> "GreaterThanOrEqual" | KAnd -> "And" | KOr -> "Or" | KBitwiseAnd -> "BitwiseAnd"
  | KBitwiseOr -> "BitwiseOr" | KStringConcat -> "StringConcat"

let string_of_codes (l : n list) = String.concat "" (List.map (fun c -> String.make 1 (Char.chr (int_of_n c))) l)
let kind_of_text (t : string) : opk option =
  List.fold_left (fun acc (txt, k) -> if string_of_codes txt = t then Some k else acc) None op_table

let keywords = [ "let", Wlet; "fun", Wfun; "enum", Wenum; "struct", Wstruct; "import", Wimport; "if", Wif; "else", Welse;
                 "while", Wwhile; "return", Wreturn; "test", Wtest; "match", Wmatch; "break", Wbreak; "continue", Wcontinue;
                 "for", Wfor; "in", Win; "assert", Wassert; "as", Was; "method", Wmethod; "public", Wpublic;
                 "shared", Wshared; "try", Wtry; "catch", Wcatch ]

(* names <-> numbers; `_` is number 0 *)
let tbl : (string, int) Hashtbl.t = Hashtbl.create 64
let rev : (int, string) Hashtbl.t = Hashtbl.create 64
let reset () = Hashtbl.reset tbl; Hashtbl.reset rev; Hashtbl.replace tbl "y_" 0; Hashtbl.replace rev 0 "_"
let intern (cls : string) (s : string) : n =
  let key = cls ^ s in
  match Hashtbl.find_opt tbl key with
  | Some i -> n_of_int i
  | None -> let i = Hashtbl.length rev in Hashtbl.replace tbl key i; Hashtbl.replace rev i s; n_of_int i
let name (x : n) : string = match Hashtbl.find_opt rev (int_of_n x) with Some s -> s | None -> "?" ^ string_of_int (int_of_n x)

let tok_of_word (w : string) : tok =
  let s = match w.[0] with 'g' -> Glued | 'n' -> NewLine | _ -> Spaced in
  let body = String.sub w 1 (String.length w - 1) in
  let pay () = unhex (String.sub body 1 (String.length body - 1)) in
  let k =
    match body with
    | "LP" -> KLP | "RP" -> KRP | "LB" -> KLB | "RB" -> KRB | "LC" -> KLC | "RC" -> KRC | "CM" -> KComma | "DT" -> KDot
    | "CC" -> KColonColon | "EQ" -> KEq | "PE" -> KPlusEq | "ME" -> KMinusEq | "AR" -> KArrow | "CL" -> KColon
    | "D" -> KDictSym | "X" -> KOther
    | _ ->
      (match body.[0] with
       | 'i' -> KInt (z_of_string (String.sub body 1 (String.length body - 1)))
       | 'f' -> KFloat (intern "f" (pay ()))
       | 'q' -> KStr (intern "q" (pay ()))
       | 'y' -> KSym (intern "y" (pay ()))
       | 'o' -> (match kind_of_text (pay ()) with Some o -> KOp o | None -> KOther)
       | 'k' -> (match List.assoc_opt (String.sub body 1 (String.length body - 1)) keywords with
           | Some kw -> KKw kw | None -> KOther)
       | _ -> KOther)
  in
  T (k, s)

let rec show_hint = function
  | HName (x, args) -> "(hint " ^ name x ^ String.concat "" (List.map (fun a -> " " ^ show_hint a) args) ^ ")"
  | HTuple items -> "(hint Tuple" ^ String.concat "" (List.map (fun a -> " " ^ show_hint a) items) ^ ")"
let show_opt_hint = function Some h -> show_hint h | None -> "(nohint)"
let sym x = "(sym " ^ name x ^ ")"
let show_dest = function
  | DSym x -> sym x
  | DDestructure xs -> "(destructure" ^ String.concat "" (List.map (fun x -> " " ^ sym x) xs) ^ ")"
let sp_list f l = String.concat "" (List.map (fun a -> " " ^ f a) l)

let rec show = function
  | EInt z -> "(int " ^ string_of_z z ^ ")"
  | EFloat x -> "(float " ^ name x ^ ")"
  | EStr x -> "(str " ^ name x ^ ")"
  | EVar x -> "(var " ^ name x ^ ")"
  | EBin (o, l, r) -> "(bin " ^ kind_name o ^ " " ^ show l ^ " " ^ show r ^ ")"
  | EParen e -> "(paren " ^ show e ^ ")"
  | ETuple l -> "(tuple" ^ sp_list show l ^ ")"
  | EList l -> "(list" ^ sp_list show l ^ ")"
  | ECall (f, args) -> "(call " ^ show f ^ " (args" ^ sp_list show args ^ "))"
  | EMethod (r, m, args) -> "(methodcall " ^ show r ^ " " ^ sym m ^ " (args" ^ sp_list show args ^ "))"
  | EDot (r, x) -> "(dot " ^ show r ^ " " ^ sym x ^ ")"
  | EFunLit (ps, ret, body) -> "(funlit " ^ funinfo "(anon)" [] ps ret body ^ ")"
  | EAssert e -> "(assert " ^ show e ^ ")"
  | ELet (d, h, e) -> "(let " ^ show_dest d ^ " " ^ show_opt_hint h ^ " " ^ show e ^ ")"
  | EAssign (x, e) -> "(assign " ^ sym x ^ " " ^ show e ^ ")"
  | EAssignUpdate (plus, x, e) -> "(assignupdate " ^ (if plus then "+=" else "-=") ^ " " ^ sym x ^ " " ^ show e ^ ")"
  | EIf (c, t, None) -> "(if " ^ show c ^ " " ^ show_block t ^ ")"
  | EIf (c, t, Some el) -> "(if " ^ show c ^ " " ^ show_block t ^ " " ^ show_block el ^ ")"
  | EWhile (c, b) -> "(while " ^ show c ^ " " ^ show_block b ^ ")"
  | EFor (d, e, b) -> "(for " ^ show_dest d ^ " " ^ show e ^ " " ^ show_block b ^ ")"
  | EBreak -> "(break)"
  | EContinue -> "(continue)"
  | EReturn None -> "(return)"
  | EReturn (Some e) -> "(return " ^ show e ^ ")"
  | EMatch (e, cases) ->
    "(match " ^ show e ^
    sp_list (fun ((v, pay), b) ->
        "(case " ^ sym v ^ (match pay with Some d -> " " ^ show_dest d | None -> "") ^ " " ^ show_block b ^ ")") cases ^ ")"
and show_block b = "(block" ^ sp_list show b ^ ")"
and funinfo nm tps ps ret body =
  "(funinfo " ^ nm ^ " (tparams" ^ sp_list name tps ^ ") (params" ^
  sp_list (fun (x, h) -> "(p " ^ sym x ^ " " ^ show_opt_hint h ^ ")") ps ^ ") (ret " ^ show_opt_hint ret ^ ") " ^
  show_block body ^ ")"

let pubs pub = if pub then "public " else ""
let show_item = function
  | IFun (pub, nm, tps, ps, ret, b) -> "(fun " ^ pubs pub ^ funinfo (sym nm) tps ps ret b ^ ")"
  | IMethod (pub, nm, tps, this, h, ps, ret, b) ->
    "(method " ^ pubs pub ^ (match h with Some h -> show_hint h | None -> "(hint __placeholder)") ^ " " ^ sym this ^ " " ^ sym nm ^ " " ^ funinfo (sym nm) tps ps ret b ^ ")"
  | ITest (nm, b) -> "(test " ^ sym nm ^ " " ^ show_block b ^ ")"
  | IEnum (pub, nm, tps, vs) ->
    "(enum " ^ pubs pub ^ name nm ^ " (tparams" ^ sp_list name tps ^ ")" ^
    sp_list (fun (v, h) -> "(variant " ^ sym v ^ " " ^ show_opt_hint h ^ ")") vs ^ ")"
  | IStruct (pub, nm, tps, fs) ->
    "(structdef " ^ pubs pub ^ name nm ^ " (tparams" ^ sp_list name tps ^ ")" ^
    sp_list (fun (f, h) -> "(fielddef " ^ sym f ^ " " ^ show_hint h ^ ")") fs ^ ")"
  | IImport (p, None) -> "(import " ^ name p ^ ")"
  | IImport (p, Some ns) -> "(import " ^ name p ^ " " ^ sym ns ^ ")"
  | IExpr e -> show e
  | IBlock b -> show_block b

(* parsefull <tokens>  ->  ok TAB <item sexps joined by \x1f> TAB <wf: 1 iff every item is in the proved domain>
                            TAB <rt: 1 iff the model's print of every parsed item is exactly its slice of the input>
                        |  none *)
let () = register "parsefull" (fun args ->
    match args with
    | [toks] ->
      reset ();
      let words = List.filter (fun w -> w <> "") (String.split_on_char ' ' toks) in
      let ts = List.map tok_of_word words in
      (match parse_program current_shape method_paren_touches ts with
       | None -> "none"
       | Some items ->
         let wf = List.for_all wf_item items in
         (* the model printer reproduces the input tokens (kinds and spacing), item by item; the first token of an
            item is printed Spaced, in the input it is whatever the lexer saw *)
         let printed = List.concat_map print_item items in
         let same_tok (T (k1, s1)) (T (k2, s2)) first = k1 = k2 && (first || s1 = s2) in
         let starts = Hashtbl.create 8 in
         let _ = List.fold_left (fun pos it -> Hashtbl.replace starts pos (); pos + List.length (print_item it)) 0 items in
         let rt = List.length printed = List.length ts &&
                  (let i = ref (-1) in
                   List.for_all2 (fun a b -> incr i; same_tok a b (Hashtbl.mem starts !i)) printed ts) in
         "ok\t" ^ String.concat "\x1f" (List.map show_item items) ^ "\t" ^ (if wf then "1" else "0") ^ "\t" ^ (if rt then "1" else "0"))
    | _ -> "error\targs")
