open Mdl
open Driver_core

(* prelude <fn> <arg>...  ->  <model of the code> TAB <specification>
   args:  s:<hex utf-8>  i:<decimal>  l:<d>,<d>,..  m:<hex>,<hex>,..  f:<closure code>
   results:  "ok <json>" | exn | outoffuel | badargs
   json: ints as numbers, strings as "x<hex utf-8>", lists [..], tuples {"t":[a,b]},
         Some v as {"some":v}, None as null, booleans true/false. *)

let fn_of_string = function
  | "starts_with" -> PF_starts_with | "ends_with" -> PF_ends_with | "replace" -> PF_replace
  | "split_once" -> PF_split_once | "join" -> PF_join | "contains" -> PF_contains
  | "trim_left" -> PF_trim_left | "trim_right" -> PF_trim_right | "trim" -> PF_trim
  | "strip_suffix" -> PF_strip_suffix | "strip_prefix" -> PF_strip_prefix | "split" -> PF_split
  | "chars" -> PF_chars | "len" -> PF_len | "lines" -> PF_lines | "substring" -> PF_substring
  | "index_of" -> PF_index_of | "range" -> PF_range | "concat" -> PF_concat
  | "list_contains" -> PF_list_contains | "get" -> PF_get | "list_len" -> PF_list_len
  | "first" -> PF_first | "last" -> PF_last | "filter" -> PF_filter | "map" -> PF_map
  | "list_index_of" -> PF_list_index_of | "slice" -> PF_slice | "enumerate" -> PF_enumerate
  | "sort_nums" -> PF_sort_nums | "max" -> PF_max | "min" -> PF_min
  | s -> failwith ("bad fn " ^ s)

(* UTF-8 <-> scalar values *)
let decode_utf8 (s : string) : n list =
  let n = String.length s in
  let rec go i acc =
    if i >= n then List.rev acc
    else
      let c = Char.code s.[i] in
      let cont k = Char.code s.[i + k] land 0x3f in
      if c < 0x80 then go (i + 1) (n_of_int c :: acc)
      else if c < 0xe0 then go (i + 2) (n_of_int (((c land 0x1f) lsl 6) lor cont 1) :: acc)
      else if c < 0xf0 then go (i + 3) (n_of_int (((c land 0x0f) lsl 12) lor (cont 1 lsl 6) lor cont 2) :: acc)
      else go (i + 4) (n_of_int (((c land 0x07) lsl 18) lor (cont 1 lsl 12) lor (cont 2 lsl 6) lor cont 3) :: acc)
  in
  go 0 []

let encode_utf8 (l : n list) : string =
  let b = Buffer.create 16 in
  List.iter (fun c ->
      let c = int_of_n c in
      if c < 0x80 then Buffer.add_char b (Char.chr c)
      else if c < 0x800 then (Buffer.add_char b (Char.chr (0xc0 lor (c lsr 6))); Buffer.add_char b (Char.chr (0x80 lor (c land 0x3f))))
      else if c < 0x10000 then (Buffer.add_char b (Char.chr (0xe0 lor (c lsr 12)));
                                Buffer.add_char b (Char.chr (0x80 lor ((c lsr 6) land 0x3f)));
                                Buffer.add_char b (Char.chr (0x80 lor (c land 0x3f))))
      else (Buffer.add_char b (Char.chr (0xf0 lor (c lsr 18)));
            Buffer.add_char b (Char.chr (0x80 lor ((c lsr 12) land 0x3f)));
            Buffer.add_char b (Char.chr (0x80 lor ((c lsr 6) land 0x3f)));
            Buffer.add_char b (Char.chr (0x80 lor (c land 0x3f))))) l;
  Buffer.contents b

let split_commas s = if s = "" then [] else String.split_on_char ',' s

let arg_of_string (a : string) : pval =
  let body = String.sub a 2 (String.length a - 2) in
  match a.[0] with
  | 's' -> PStr (decode_utf8 (unhex body))
  | 'i' | 'f' -> PInt (z_of_string body)
  | 'l' -> PList (List.map (fun d -> PInt (z_of_string d)) (split_commas body))
  | 'm' -> PList (List.map (fun h -> PStr (decode_utf8 (unhex h))) (split_commas body))
  | _ -> failwith ("bad arg " ^ a)

let rec json (v : pval) : string =
  match v with
  | PInt z -> string_of_z z
  | PStr s -> let h = hex (encode_utf8 s) in "\"x" ^ (if h = "-" then "" else h) ^ "\""
  | PBool b -> if b then "true" else "false"
  | PList l -> "[" ^ String.concat "," (List.map json l) ^ "]"
  | PTup (a, b) -> "{\"t\":[" ^ json a ^ "," ^ json b ^ "]}"
  | PSome v -> "{\"some\":" ^ json v ^ "}"
  | PNone -> "null"

let show = function
  | POk v -> "ok " ^ json v
  | PExn -> "exn"
  | POutOfFuel -> "outoffuel"
  | PBadArgs -> "badargs"

let () = register "prelude" (fun args ->
    match args with
    | fn :: rest ->
      let f = fn_of_string fn and a = List.map arg_of_string rest in
      show (prelude_code f a) ^ "\t" ^ show (prelude_spec f a)
    | _ -> "error\targs")
