(* Line-protocol handlers for the extracted refactoring model (coq/Scope.v, coq/Refactor.v).

   Program encoding: prefix notation, tokens separated by one space (names and occurrence ids are decimal numbers).
     expr : I <z> | B <0|1> | V <id> <name> | O <op> <l> <r> | C <n> <callee> <arg>*n | F <n> (<id> <name>)*n <block>
          | IF <c> <block> <block> | D <e> | P <e>
     block: <n> <stmt>*n
     stmt : L <id> <name> <e> | A <id> <name> <e> | E <e> | W <c> <block>
     prog : <nfuns> (<name> <id> <np> (<id> <name>)*np <block>)*nfuns <block>
     op   : + - * < <= > >= == != && ||
   ops:
     rf_rename <b> <new> <prog>   -> occurrences of the renamed program  "id:name id:name ..."
     rf_resolve <prog>            -> resolution table "id:binder id:- ..."
     rf_run <fuel> <prog>         -> "oom" | "<events> | ok <pval>" | "<events> | err <kind>", events = o<pval> / d<pval> *)
open Mdl
open Driver_core

exception Bad of string

let parse_prog (s : string) : program =
  let toks = ref (List.filter (fun t -> t <> "") (String.split_on_char ' ' s)) in
  let next () = match !toks with [] -> raise (Bad "truncated") | t :: r -> toks := r; t in
  let num () = nat_of_int (int_of_string (next ())) in
  let rec many n f = if n <= 0 then [] else (let x = f () in x :: many (n - 1) f) in
  let op_of = function
    | "+" -> OAdd | "-" -> OSub | "*" -> OMul | "<" -> OLt | "<=" -> OLe | ">" -> OGt | ">=" -> OGe
    | "==" -> OEq | "!=" -> ONe | "&&" -> OAnd | "||" -> OOr | t -> raise (Bad ("op " ^ t)) in
  let param () = let d = num () in let x = num () in (d, x) in
  let rec expr () =
    match next () with
    | "I" -> EInt (z_of_string (next ()))
    | "B" -> EBool (next () = "1")
    | "V" -> let u = num () in let x = num () in EVar (u, x)
    | "O" -> let op = op_of (next ()) in let l = expr () in let r = expr () in EBin (op, l, r)
    | "C" -> let n = int_of_string (next ()) in let f = expr () in let args = many n expr in
      ECall (f, List.fold_right (fun a acc -> ECons (a, acc)) args ENil)
    | "F" -> let n = int_of_string (next ()) in let ps = many n param in let b = block () in EFun (ps, b)
    | "IF" -> let c = expr () in let t = block () in let e = block () in EIf (c, t, e)
    | "D" -> EDbg (expr ())
    | "P" -> EPrint (expr ())
    | t -> raise (Bad ("expr " ^ t))
  and block () =
    let n = int_of_string (next ()) in
    let ss = many n stmt in
    List.fold_right (fun s acc -> BCons (s, acc)) ss BNil
  and stmt () =
    match next () with
    | "L" -> let d = num () in let x = num () in let e = expr () in SLet (d, x, e)
    | "A" -> let u = num () in let x = num () in let e = expr () in SAssign (u, x, e)
    | "E" -> SExpr (expr ())
    | "W" -> let c = expr () in let b = block () in SWhile (c, b)
    | t -> raise (Bad ("stmt " ^ t)) in
  let fundef () =
    let name = num () in let id = num () in
    let np = int_of_string (next ()) in let ps = many np param in
    let b = block () in
    { fd_name = name; fd_id = id; fd_params = ps; fd_body = b } in
  let nf = int_of_string (next ()) in
  let funs = many nf fundef in
  let main = block () in
  if !toks <> [] then raise (Bad "trailing tokens");
  (funs, main)

let show_pval = function
  | PInt z -> string_of_z z
  | PBool true -> "True"
  | PBool false -> "False"
  | PUnit -> "Unit"
  | PFun f -> "fun" ^ string_of_int (int_of_nat f)
  | PClosure -> "closure"

let show_err = function ErrUnbound -> "unbound" | ErrType -> "type" | ErrArity -> "arity" | ErrNotFun -> "notfun"

let guard f = fun args -> try f args with Bad m -> "bad-input " ^ m | Failure m -> "bad-input " ^ m

let () = register "rf_rename" (guard (fun args ->
  match args with
  | [b; nw; p] ->
    let p' = rename (nat_of_int (int_of_string b)) (nat_of_int (int_of_string nw)) (parse_prog p) in
    String.concat " " (List.map (fun (o, x) -> string_of_int (int_of_nat o) ^ ":" ^ string_of_int (int_of_nat x)) (occ_prog p'))
  | _ -> "bad-input arity"))

let () = register "rf_resolve" (guard (fun args ->
  match args with
  | [p] ->
    String.concat " " (List.map (fun (o, d) ->
        string_of_int (int_of_nat o) ^ ":" ^ (match d with Some d -> string_of_int (int_of_nat d) | None -> "-"))
        (res_prog (parse_prog p)))
  | _ -> "bad-input arity"))

let () = register "rf_run" (guard (fun args ->
  match args with
  | [fuel; p] ->
    (match run (nat_of_int (int_of_string fuel)) (parse_prog p) with
     | None -> "oom"
     | Some (evs, r) ->
       let e = String.concat " " (List.map (function EvOut s -> "o" ^ show_pval s | EvDbg s -> "d" ^ show_pval s) evs) in
       e ^ " | " ^ (match r with ROk v -> "ok " ^ show_pval v | RErr k -> "err " ^ show_err k))
  | _ -> "bad-input arity"))
