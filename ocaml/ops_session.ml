(* Glue for the session model (Session.v): a history of requests -> one line of
   responses.  The S-expression reader and the conversion to Mdl.expr are copied
   from ops_machine.ml (each ops file sees only its own family's module): syntax
   trees come from the implementation's own parser (verif-batch op `sexp`,
   positions on). *)
open Mdl
open Driver_core

type sx = A of string | S of string | L of sx list

let parse_sexps (src : string) : sx list =
  let n = String.length src in
  let pos = ref 0 in
  let rec skip () = if !pos < n && (src.[!pos] = ' ' || src.[!pos] = '\n') then (incr pos; skip ()) in
  let rec one () : sx =
    skip ();
    if src.[!pos] = '(' then begin
      incr pos;
      let items = ref [] in
      let rec loop () =
        skip ();
        if src.[!pos] = ')' then incr pos
        else (items := one () :: !items; loop ()) in
      loop ();
      L (List.rev !items)
    end else if src.[!pos] = '"' then begin
      incr pos;
      let b = Buffer.create 16 in
      let rec loop () =
        let c = src.[!pos] in
        if c = '"' then incr pos
        else if c = '\\' then begin
          let d = src.[!pos + 1] in
          Buffer.add_char b (if d = 'n' then '\n' else d);
          pos := !pos + 2; loop ()
        end else (Buffer.add_char b c; incr pos; loop ()) in
      loop ();
      S (Buffer.contents b)
    end else begin
      let st = !pos in
      while !pos < n && src.[!pos] <> ' ' && src.[!pos] <> ')' && src.[!pos] <> '(' && src.[!pos] <> '\n' do incr pos done;
      A (String.sub src st (!pos - st))
    end in
  let res = ref [] in
  let rec all () = skip (); if !pos < n then (res := one () :: !res; all ()) in
  all ();
  List.rev !res

(* UTF-8 -> scalar values *)
let chars_of_utf8 (s : string) : n list =
  let n = String.length s in
  let rec go i acc =
    if i >= n then List.rev acc else
      let c = Char.code s.[i] in
      if c < 0x80 then go (i + 1) (n_of_int c :: acc)
      else if c < 0xE0 then go (i + 2) (n_of_int (((c land 0x1F) lsl 6) lor (Char.code s.[i+1] land 0x3F)) :: acc)
      else if c < 0xF0 then go (i + 3) (n_of_int (((c land 0x0F) lsl 12) lor ((Char.code s.[i+1] land 0x3F) lsl 6) lor (Char.code s.[i+2] land 0x3F)) :: acc)
      else go (i + 4) (n_of_int (((c land 0x07) lsl 18) lor ((Char.code s.[i+1] land 0x3F) lsl 12) lor ((Char.code s.[i+2] land 0x3F) lsl 6) lor (Char.code s.[i+3] land 0x3F)) :: acc) in
  go 0 []

let utf8_of_chars (l : n list) : string =
  let b = Buffer.create 16 in
  List.iter (fun c -> Buffer.add_utf_8_uchar b (Uchar.of_int (int_of_n c))) l;
  Buffer.contents b

exception Unsup of string

let syms : (string, int) Hashtbl.t = Hashtbl.create 64
let reset_syms () =
  Hashtbl.reset syms;
  Hashtbl.replace syms "_" 0; Hashtbl.replace syms "Bool" 1; Hashtbl.replace syms "Unit" 2
let sym (s : string) : n =
  match Hashtbl.find_opt syms s with
  | Some i -> n_of_int i
  | None -> let i = Hashtbl.length syms + 10 in Hashtbl.replace syms s i; n_of_int i

let parse_pos (a : string) : n * n =
  (* "@start:end:line:endline:col:endcol" *)
  match String.split_on_char ':' (String.sub a 1 (String.length a - 1)) with
  | s :: e :: _ -> (n_of_int (int_of_string s), n_of_int (int_of_string e))
  | _ -> raise (Unsup "bad position")

let is_pos = function A a -> String.length a > 0 && a.[0] = '@' | _ -> false

(* strip a leading position atom and a trailing #unused marker *)
let split_node (items : sx list) : (n * n) * bool * sx list =
  let p, rest = match items with
    | A a :: rest when String.length a > 0 && a.[0] = '@' -> parse_pos a, rest
    | _ -> raise (Unsup "node without position") in
  let rec strip = function
    | [] -> ([], true)
    | [A "#unused"] -> ([], false)
    | x :: r -> let (r', u) = strip r in (x :: r', u) in
  let rest, used_ = strip rest in
  (p, used_, rest)

let binop_of = function
  | "Add" -> BInt OAdd | "Subtract" -> BInt OSub | "Multiply" -> BInt OMul | "Divide" -> BInt ODiv
  | "Modulo" -> BInt OMod | "Exponent" -> BInt OPow | "BitwiseAnd" -> BInt OBitAnd | "BitwiseOr" -> BInt OBitOr
  | "LessThan" -> BInt OLt | "GreaterThan" -> BInt OGt | "LessThanOrEqual" -> BInt OLe | "GreaterThanOrEqual" -> BInt OGe
  | "Equal" -> BEq | "NotEqual" -> BNeq | "And" -> BAnd | "Or" -> BOr | "StringConcat" -> BConcat
  | s -> raise (Unsup ("operator " ^ s))

(* `@pos (sym x)` pairs *)
let sym_at = function
  | A p :: L [A "sym"; A name] :: rest when is_pos (A p) -> (sym name, parse_pos p, rest)
  | L [A "sym"; A name] :: rest -> (sym name, (N0, N0), rest)
  | _ -> raise (Unsup "expected symbol")

let rec conv (x : sx) : expr =
  match x with
  | L items ->
    let (ps, pe), u, body = split_node items in
    let m = { used = u; pstart = ps; pend = pe } in
    (try conv_body m body with Unsup _ -> EUnsupported m)
  | _ -> raise (Unsup "expected list")

and conv_block = function
  | L (A "block" :: es) -> List.map conv es
  | _ -> raise (Unsup "expected block")

and conv_body (m : meta) (body : sx list) : expr =
  match body with
  | [A "int"; A i] -> EInt (m, z_of_string i)
  | [A "str"; S s] -> EStr (m, chars_of_utf8 s)
  | [A "var"; A x] -> EVar (m, sym x)
  | [A "bin"; A op; l; r] -> let o = binop_of op in EBin (m, o, conv l, conv r)
  | A "let" :: rest ->
    (match rest with
     | A p :: L [A "sym"; A x] :: L [A "nohint"] :: [e] when is_pos (A p) -> ELet (m, sym x, conv e)
     | L [A "sym"; A x] :: L [A "nohint"] :: [e] -> ELet (m, sym x, conv e)
     | _ -> raise (Unsup "let form"))
  | A "assign" :: rest ->
    let (x, xp, rest) = sym_at rest in
    (match rest with [e] -> EAssign (m, x, xp, conv e) | _ -> raise (Unsup "assign"))
  | A "assignupdate" :: A op :: rest ->
    let (x, xp, rest) = sym_at rest in
    (match rest with [e] -> EUpd (m, (if op = "+=" then UAdd else USub), x, xp, conv e) | _ -> raise (Unsup "upd"))
  | [A "if"; c; t] -> EIf (m, conv c, conv_block t, None)
  | [A "if"; c; t; e] -> EIf (m, conv c, conv_block t, Some (conv_block e))
  | [A "while"; c; b] -> EWhile (m, conv c, conv_block b)
  | A "for" :: rest ->
    let (x, _, rest) = sym_at rest in
    (match rest with [it; b] -> EFor (m, x, conv it, conv_block b) | _ -> raise (Unsup "for"))
  | [A "break"] -> EBreak m
  | [A "continue"] -> EContinue m
  | [A "return"] -> EReturn (m, None)
  | [A "return"; e] -> EReturn (m, Some (conv e))
  | A "list" :: items -> EList (m, List.map conv items)
  | A "tuple" :: items -> ETuple (m, List.map conv items)
  | [A "call"; f; L (A "args" :: args)] -> ECall (m, conv f, List.map conv args)
  | [A "funlit"; fi] -> let (ps, b) = conv_funinfo fi in EFun (m, ps, b)
  | [A "paren"; e] -> EParen (m, conv e)
  | A "match" :: s :: cases ->
    let conv_case = function
      | L (A "case" :: rest) ->
        let (v, vp, rest) = sym_at rest in
        (match rest with
         | [b] -> (((v, vp), None), conv_block b)
         | [A p; L [A "sym"; A x]; b] when is_pos (A p) -> (((v, vp), Some (sym x)), conv_block b)
         | [L [A "sym"; A x]; b] -> (((v, vp), Some (sym x)), conv_block b)
         | _ -> raise (Unsup "case"))
      | _ -> raise (Unsup "case") in
    EMatch (m, conv s, List.map conv_case cases)
  | _ -> raise (Unsup "expression kind")

and conv_funinfo (fi : sx) : n list * expr list =
  match fi with
  | L (A "funinfo" :: rest) ->
    let rest = match rest with
      | L [A "anon"] :: r -> r
      | A p :: L [A "sym"; _] :: r when is_pos (A p) -> r
      | L [A "sym"; _] :: r -> r
      | _ -> raise (Unsup "funinfo name") in
    let rest = match rest with L [A "doc"; _] :: r -> r | r -> r in
    (match rest with
     | [L [A "tparams"]; L (A "params" :: ps); L [A "ret"; L [A "nohint"]]; b] ->
       let conv_p = function
         | L (A "p" :: r) ->
           let (x, _, r) = sym_at r in
           (match r with [L [A "nohint"]] -> x | _ -> raise (Unsup "param hint"))
         | _ -> raise (Unsup "param") in
       (List.map conv_p ps, conv_block b)
     | _ -> raise (Unsup "funinfo shape"))
  | _ -> raise (Unsup "funinfo")

let txt (s : string) : n list = chars_of_utf8 s

let prelude_globals () : (n * value) list =
  let ty_option = sym "Option" and ty_result = sym "Result" in
  [ (sym "True", vtrue); (sym "False", vfalse); (sym "Unit", vunit);
    (sym "Some", VCtor (ty_option, n_of_int 0, txt "Some"));
    (sym "None", VEnum (ty_option, n_of_int 1, txt "None", None));
    (sym "Ok", VCtor (ty_result, n_of_int 0, txt "Ok"));
    (sym "Err", VCtor (ty_result, n_of_int 1, txt "Err"));
    (sym "println", VBuiltin BiPrintln); (sym "print", VBuiltin BiPrint);
    (sym "string_repr", VBuiltin BiStringRepr) ]

(* names of the prelude / built-in namespace that the model does not define:
   a program that mentions one of them is outside the modelled fragment *)
let unmodelled_names = ["not"; "dbg"; "todo"; "range"; "sort_nums"; "throw"; "eprint"; "eprintln"; "read_line";
                        "shell_arguments"; "max"; "min"; "NoValue"; "assert"]

let rec mentions_unmodelled (x : sx) : bool =
  match x with
  | L [A "var"; A v] -> List.mem v unmodelled_names
  | L l -> List.exists mentions_unmodelled l
  | _ -> false

(* top-level items -> program + expressions *)
let conv_items (items : sx list) : prog * expr list =
  let globals = ref (prelude_globals ()) and funs = ref [] and exprs = ref [] in
  List.iter (fun it ->
      if mentions_unmodelled it then raise (Unsup "prelude name outside the model");
      match it with
      | L (A "fun" :: rest) ->
        let rest = List.filter (fun x -> not (is_pos x) && x <> A "public") rest in
        (match rest with
         | [fi] ->
           let name = (match fi with
               | L (A "funinfo" :: A p :: L [A "sym"; A nm] :: _) when is_pos (A p) -> nm
               | L (A "funinfo" :: L [A "sym"; A nm] :: _) -> nm
               | _ -> raise (Unsup "fun name")) in
           let (ps, b) = conv_funinfo fi in
           funs := (sym name, { fparams = ps; fbody = b }) :: !funs;
           globals := (sym name, VFun (sym name, txt "<fun>")) :: !globals
         | _ -> raise (Unsup "fun item"))
      | L (A "enum" :: rest) ->
        let rest = List.filter (fun x -> not (is_pos x) && x <> A "public") rest in
        (match rest with
         | A name :: rest ->
           let rest = match rest with L [A "doc"; _] :: r -> r | r -> r in
           (match rest with
            | L (A "tparams" :: _) :: variants ->
              List.iteri (fun i v ->
                  match v with
                  | L (A "variant" :: r) ->
                    let (vs, _, r) = sym_at r in
                    let vname = (match List.filter (fun x -> not (is_pos x)) (List.tl (match v with L l -> l | _ -> [])) with
                        | L [A "sym"; A nm] :: _ -> nm | _ -> "?") in
                    (match r with
                     | [L [A "nohint"]] -> globals := (vs, VEnum (sym name, n_of_int i, txt vname, None)) :: !globals
                     | _ -> globals := (vs, VCtor (sym name, n_of_int i, txt vname)) :: !globals)
                  | _ -> raise (Unsup "variant")) variants
            | _ -> raise (Unsup "enum shape"))
         | _ -> raise (Unsup "enum"))
      | L (A p :: _) when is_pos (A p) -> exprs := conv it :: !exprs
      | L (A "block" :: es) -> List.iter (fun e -> exprs := conv e :: !exprs) es
      | _ -> raise (Unsup "toplevel item")) items;
  ({ globals = !globals; funs = !funs }, List.rev !exprs)

let rec has_unsupported_expr (e : expr) : bool =
  match e with
  | EUnsupported _ -> true
  | EInt _ | EStr _ | EVar _ | EBreak _ | EContinue _ -> false
  | EBin (_, _, l, r) -> has_unsupported_expr l || has_unsupported_expr r
  | ELet (_, _, e) | EAssign (_, _, _, e) | EUpd (_, _, _, _, e) | EParen (_, e) -> has_unsupported_expr e
  | EIf (_, c, t, el) -> has_unsupported_expr c || List.exists has_unsupported_expr t
                         || (match el with Some l -> List.exists has_unsupported_expr l | None -> false)
  | EWhile (_, c, b) -> has_unsupported_expr c || List.exists has_unsupported_expr b
  | EFor (_, _, it, b) -> has_unsupported_expr it || List.exists has_unsupported_expr b
  | EReturn (_, o) -> (match o with Some e -> has_unsupported_expr e | None -> false)
  | EList (_, l) | ETuple (_, l) -> List.exists has_unsupported_expr l
  | ECall (_, f, a) -> has_unsupported_expr f || List.exists has_unsupported_expr a
  | EFun (_, _, b) -> List.exists has_unsupported_expr b
  | EMatch (_, s, cs) -> has_unsupported_expr s || List.exists (fun (_, b) -> List.exists has_unsupported_expr b) cs


let show_pos ((s, e) : n * n) = Printf.sprintf "%d:%d" (int_of_n s) (int_of_n e)

let show_err (e : err) : string =
  match e.ekind_of with
  | KException -> "exception:" ^ show_pos e.epos_of
  | KInterrupted -> "error:interrupted"
  | KTickLimit -> "error:tick_limit"
  | KStackLimit -> "error:stack_limit"

let show_response (r : response) : string =
  match r with
  | RespValue v -> "ok:" ^ hex (utf8_of_chars (display v))
  | RespNoValue -> "ok:"
  | RespError e -> show_err e
  | RespCommand -> "command"
  | RespUnsupported -> "unsupported"
  | RespOutOfFuel -> "outoffuel"
  | SessionPanic -> "DIED"

let rec nat_of_int (i : int) = if i <= 0 then O else S (nat_of_int (i - 1))

(* all sub-expressions *)
let rec subexprs (e : expr) : expr list =
  e :: (match e with
      | EInt _ | EStr _ | EVar _ | EBreak _ | EContinue _ | EUnsupported _ -> []
      | EBin (_, _, l, r) -> subexprs l @ subexprs r
      | ELet (_, _, e) | EAssign (_, _, _, e) | EUpd (_, _, _, _, e) | EParen (_, e) -> subexprs e
      | EIf (_, c, t, el) -> subexprs c @ List.concat_map subexprs t @ (match el with Some l -> List.concat_map subexprs l | None -> [])
      | EWhile (_, c, b) -> subexprs c @ List.concat_map subexprs b
      | EFor (_, _, it, b) -> subexprs it @ List.concat_map subexprs b
      | EReturn (_, o) -> (match o with Some e -> subexprs e | None -> [])
      | EList (_, l) | ETuple (_, l) -> List.concat_map subexprs l
      | ECall (_, f, a) -> subexprs f @ List.concat_map subexprs a
      | EFun (_, _, b) -> List.concat_map subexprs b
      | EMatch (_, s, cs) -> subexprs s @ List.concat_map (fun (_, b) -> List.concat_map subexprs b) cs)

let meta_of (e : expr) : meta = emeta e

(* The model identifies the expression to stop at by (used, start, end); the implementation by a unique id.
   A run request whose last expression shares these with any other expression that can be evaluated is outside
   the model. *)
let ambiguous_stop (p : prog) (es : expr list) : bool =
  match List.rev es with
  | [] -> false
  | last :: _ ->
    let m = meta_of last in
    let all = List.concat_map subexprs es @ List.concat_map (fun (_, fd) -> List.concat_map subexprs fd.fbody) p.funs in
    List.length (List.filter (fun e -> meta_of e = m) all) > 1

(* expressions of one `run` input: toplevel expressions and toplevel blocks; definitions are not allowed here *)
let conv_run_items (items : sx list) : expr list =
  let exprs = ref [] in
  List.iter (fun it ->
      if mentions_unmodelled it then raise (Unsup "prelude name outside the model");
      match it with
      | L (A p :: _) when is_pos (A p) -> exprs := conv it :: !exprs
      | L (A "block" :: es) -> List.iter (fun e -> exprs := conv e :: !exprs) es
      | _ -> raise (Unsup "definition inside a run request")) items;
  List.rev !exprs

let frames_summary (st : state) : string =
  String.concat ";" (List.rev_map (fun f ->
      Printf.sprintf "%d,%d,%d" (List.length f.vals) (List.length f.blocks) (List.length f.todo))
      st.stack)

(* session <fuel> <fixes: two chars 0/1 = fx_skip fx_call> <hex definitions (sexp items)> <request>...
   request = run:<hex sexp items> | replace:<hex sexp item> | forget_local:<hex name> | skip | resume | abort | inspect
   -> responses joined by '|'  TAB  wf<0|1> (static well-formedness of the program and of every request)  TAB  frames at the end *)
let () = register "session" (fun args ->
    match args with
    | fuel :: fx :: hexdefs :: reqs ->
      (try
         reset_syms ();
         let (p, _) = conv_items (parse_sexps (unhex hexdefs)) in
         if List.exists (fun (_, fd) -> List.exists has_unsupported_expr fd.fbody) p.funs then "unsupported:definitions"
         else begin
           let fixes = { fx_skip = (fx.[0] = '1'); fx_call = (fx.[1] = '1') } in
           let fuel = nat_of_int (int_of_string fuel) in
           let conv_req (r : string) : request =
             match String.index_opt r ':' with
             | None ->
               (match r with
                | "skip" -> RSkip | "resume" -> RResume | "abort" -> RAbort | "inspect" -> RInspect
                | _ -> raise (Unsup ("request " ^ r)))
             | Some i ->
               let k = String.sub r 0 i and payload = unhex (String.sub r (i + 1) (String.length r - i - 1)) in
               (match k with
                | "run" ->
                  let es = conv_run_items (parse_sexps payload) in
                  if List.exists has_unsupported_expr es then raise (Unsup "expression outside the model");
                  if ambiguous_stop p es then raise (Unsup "ambiguous stop id");
                  RRun es
                | "replace" ->
                  (match conv_run_items (parse_sexps payload) with
                   | [e] -> if has_unsupported_expr e then raise (Unsup "expression outside the model"); RReplace e
                   | _ -> raise (Unsup "replace needs one expression"))
                | "forget_local" -> RForgetLocal (sym payload)
                | _ -> raise (Unsup ("request kind " ^ k))) in
           let rs = List.map conv_req reqs in
           let wfl = wf_prog p && globals_ok p && globals_noint p && List.for_all wf_request rs in
           let (st, resps) = run_history fixes fuel p fresh rs in
           String.concat "|" (List.map show_response resps) ^ "\t" ^ (if wfl then "wf1" else "wf0") ^ "\t" ^ frames_summary st
         end
       with Unsup why -> "unsupported:" ^ why)
    | _ -> "error\targs")
