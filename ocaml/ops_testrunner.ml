(* C26: line-protocol handler over the extracted model of the test loop (TestRunner.v).
   testrun <test|sandboxed> <name:op.arg,op.arg;name:...|->
     -> <name=verdict;...> TAB <total/passed/failed> TAB <exit status>
   The test-body language is the one of tools/props/C26.py; the mapping to TestRunner.Op is trusted glue. *)
open Mdl
open Driver_core

let rec nat_of_int (n : int) : nat = if n <= 0 then O else S (nat_of_int (n - 1))
let rec int_of_nat = function O -> 0 | S n -> 1 + int_of_nat n
let name_of_string (s : string) : n list = List.init (String.length s) (fun i -> n_of_int (Char.code s.[i]))
let string_of_name (l : n list) : string = String.concat "" (List.map (fun c -> String.make 1 (Char.chr (int_of_n c))) l)

let op_of (kind : string) (a : int) : op =
  match kind with
  | "pass" -> OPass (n_of_int a)
  | "fail" -> OFail
  | "throw" -> OThrow (O, O, O)
  | "deep" -> OThrow (nat_of_int (a + 1), O, O)
  | "vals" -> OThrow (nat_of_int (match a mod 4 with 0 -> 1 | 1 -> 3 | 2 -> 1 | _ -> 2), nat_of_int 2, O)
  | "blocks" -> OThrow (nat_of_int (a + 1), O, nat_of_int 5)
  | "rterr" -> if a mod 6 = 3 then ONop (* [1].get(7) is None, not an error *) else OThrow (O, O, O)
  | "setwd" -> OSetWd (n_of_int a)
  | "assertwd" -> OAssertWd (n_of_int a)
  | "spin" -> OSpin (n_of_int a)
  | "forever" -> OForever
  | "struct" | "closure" -> OPass (n_of_int a)
  | "shadow" | "println" -> ONop
  | k -> failwith ("bad op " ^ k)

let parse_tests (s : string) : test list =
  if s = "-" || s = "" then [] else
    List.map (fun t ->
        match String.split_on_char ':' t with
        | [name; ops] ->
          let ops = if ops = "" then [] else
              List.map (fun o -> match String.split_on_char '.' o with
                  | [k; a] -> op_of k (int_of_string a)
                  | _ -> failwith "bad op syntax") (String.split_on_char ',' ops) in
          test_of_ops (name_of_string name) ops
        | _ -> failwith "bad test syntax") (String.split_on_char ';' s)

let show_err = function
  | None -> "pass"
  | Some AssertionFailed -> "assert"
  | Some Exception -> "exn"
  | Some ReachedTickLimit | Some ReachedStackLimit -> "limit"
  | Some Interrupted -> "interrupted"
  | Some ForbiddenInSandbox -> "sandboxed"

let () = register "testrun" (fun args ->
    match args with
    | [mode; tests] ->
      let limit = if mode = "sandboxed" then Some (n_of_int 100000) else None in
      let env = initial_env (n_of_int 0) (n_of_int 0) limit in
      let ((vs, (_, summary)), code) = run_tests_in_files loop_shape exit_if_failed_positive env (parse_tests tests) [] in
      let v = String.concat ";" (List.map (fun ((name, err), _) -> string_of_name name ^ "=" ^ show_err err) vs) in
      let (t, p, f) = match summary with
        | NoTestsFound -> (0, 0, 0)
        | RanOneItPassed -> (1, 1, 0)
        | RanAllPassed n -> (int_of_nat n, int_of_nat n, 0)
        | RanMixed (n, p, f) -> (int_of_nat n, int_of_nat p, int_of_nat f) in
      Printf.sprintf "%s\t%d/%d/%d\t%d" v t p f (int_of_nat code)
    | _ -> "error\targs")
