(* Line-protocol handlers for the extracted model of garden's types (coq/Types.v).

   Compact text encoding of a type: prefix notation, tokens separated by one space.
     A                 Any
     T<n> t1 .. tn     tuple of n items
     F<tag>.<n> p1 .. pn r   function with n parameters and return type r; <tag> stands for
                       (name_sym, type_params), 0 = (None, [])
     E.<name>.<n> a1 .. an   user-defined enum  <name> applied to n arguments
     S.<name>.<n> a1 .. an   user-defined struct
     P.<name>          type parameter
     X<tag>            checker error (tag stands for reason/inferred type, 0 = what the hook builds)
   Names are ASCII identifiers.

   ops:  subtype a b -> true|false          unify a b -> none | <type>
         unify_all t1 .. tn -> none | <type>
         site_list / site_dict / site_check_list t1 .. tn -> <type>
         site_branches a b -> <type>       site_match expected t1 .. tn -> <type>
         ty_info a -> <ty_size> <ty_wf under the prelude signature> <ty_no_err> *)
open Mdl
open Driver_core

exception Bad_type of string

let split_on c s = String.split_on_char c s

let parse_ty (s : string) : ty =
  let toks = ref (List.filter (fun t -> t <> "") (split_on ' ' s)) in
  let next () = match !toks with
    | [] -> raise (Bad_type ("truncated: " ^ s))
    | t :: r -> toks := r; t in
  let rec many n = if n <= 0 then [] else (let x = one () in x :: many (n - 1))
  and one () =
    let t = next () in
    match t.[0] with
    | 'A' when t = "A" -> TAny
    | 'T' -> TTuple (many (int_of_string (String.sub t 1 (String.length t - 1))))
    | 'F' ->
      (match split_on '.' (String.sub t 1 (String.length t - 1)) with
       | [tag; n] ->
         let ps = many (int_of_string n) in
         let r = one () in
         TFun (n_of_int (int_of_string tag), ps, r)
       | _ -> raise (Bad_type t))
    | 'E' | 'S' ->
      (match split_on '.' t with
       | [k; name; n] ->
         let args = many (int_of_string n) in
         TUser ((if k = "E" then KEnum else KStruct), bytes_of_string name, args)
       | _ -> raise (Bad_type t))
    | 'P' -> (match split_on '.' t with [_; name] -> TParam (bytes_of_string name) | _ -> raise (Bad_type t))
    | 'X' -> TErr (n_of_int (int_of_string (String.sub t 1 (String.length t - 1))))
    | _ -> raise (Bad_type t)
  in
  let r = one () in
  if !toks <> [] then raise (Bad_type ("trailing tokens: " ^ s));
  r

let rec show_ty (t : ty) : string =
  match t with
  | TAny -> "A"
  | TTuple l -> String.concat " " (("T" ^ string_of_int (List.length l)) :: List.map show_ty l)
  | TFun (tag, ps, r) ->
    String.concat " " ((Printf.sprintf "F%d.%d" (int_of_n tag) (List.length ps)) :: List.map show_ty ps @ [show_ty r])
  | TUser (k, name, args) ->
    String.concat " " ((Printf.sprintf "%s.%s.%d" (match k with KEnum -> "E" | KStruct -> "S")
                          (string_of_bytes name) (List.length args)) :: List.map show_ty args)
  | TParam name -> "P." ^ string_of_bytes name
  | TErr tag -> "X" ^ string_of_int (int_of_n tag)

let show_opt = function None -> "none" | Some t -> show_ty t
let show_bool b = if b then "true" else "false"

let () = register "subtype" (fun args ->
    match args with
    | [a; b] -> show_bool (is_subtype (parse_ty a) (parse_ty b))
    | _ -> "error\targs")

let () = register "unify" (fun args ->
    match args with
    | [a; b] -> show_opt (unify (parse_ty a) (parse_ty b))
    | _ -> "error\targs")

let () = register "unify_all" (fun args -> show_opt (unify_all (List.map parse_ty args)))
let () = register "site_list" (fun args -> show_ty (site_list (List.map parse_ty args)))
let () = register "site_dict" (fun args -> show_ty (site_dict (List.map parse_ty args)))
let () = register "site_check_list" (fun args -> show_ty (site_check_list (List.map parse_ty args)))
let () = register "site_branches" (fun args ->
    match args with
    | [a; b] -> show_ty (site_branches (parse_ty a) (parse_ty b))
    | _ -> "error\targs")
let () = register "site_match" (fun args ->
    match args with
    | e :: cases -> show_ty (site_match (parse_ty e) (List.map parse_ty cases))
    | _ -> "error\targs")
let () = register "ty_info" (fun args ->
    match args with
    | [a] -> let t = parse_ty a in
      Printf.sprintf "%d\t%s\t%s" (int_of_nat (ty_size t)) (show_bool (ty_wf prelude_sig t)) (show_bool (ty_no_err t))
    | _ -> "error\targs")
