open Mdl
open Driver_core

type sx = A of string | S of string | L of sx list

let parse_sexps (src : string) : sx list =
  let n = String.length src in
  let pos = ref 0 in
  let rec skip () = if !pos < n && (src.[!pos] = ' ' || src.[!pos] = '\n') then (incr pos; skip ()) in
  let rec one () : sx =
    skip ();
    if src.[!pos] = '(' then begin
      incr pos;
      let items = ref [] in
      let rec loop () =
        skip ();
        if src.[!pos] = ')' then incr pos
        else (items := one () :: !items; loop ()) in
      loop ();
      L (List.rev !items)
    end else if src.[!pos] = '"' then begin
      incr pos;
      let b = Buffer.create 16 in
      let rec loop () =
        let c = src.[!pos] in
        if c = '"' then incr pos
        else if c = '\\' then begin
          let d = src.[!pos + 1] in
          Buffer.add_char b (if d = 'n' then '\n' else d);
          pos := !pos + 2; loop ()
        end else (Buffer.add_char b c; incr pos; loop ()) in
      loop ();
      S (Buffer.contents b)
    end else begin
      let st = !pos in
      while !pos < n && src.[!pos] <> ' ' && src.[!pos] <> ')' && src.[!pos] <> '(' && src.[!pos] <> '\n' do incr pos done;
      A (String.sub src st (!pos - st))
    end in
  let res = ref [] in
  let rec all () = skip (); if !pos < n then (res := one () :: !res; all ()) in
  all ();
  List.rev !res


(* Glue for the C16 model checker (Typing.v): S-expressions printed by the
   implementation's parser (verif-batch op `sexp`, positions OFF) -> Mdl.program;
   op `tc`. *)
exception Outside of string

let syms : (string, int) Hashtbl.t = Hashtbl.create 64
let sym (s : string) : n =
  match Hashtbl.find_opt syms s with
  | Some i -> n_of_int i
  | None -> let i = Hashtbl.length syms + 1 in Hashtbl.replace syms s i; n_of_int i

let chars (s : string) : n list = List.map (fun c -> n_of_int (Char.code c)) (List.of_seq (String.to_seq s))

let bop_of = function
  | "Add" -> OArith (n_of_int 0) | "Subtract" -> OArith (n_of_int 1) | "Multiply" -> OArith (n_of_int 2)
  | "Divide" -> OArith (n_of_int 3) | "Modulo" -> OArith (n_of_int 4) | "Exponent" -> OArith (n_of_int 5)
  | "BitwiseAnd" -> OArith (n_of_int 6) | "BitwiseOr" -> OArith (n_of_int 7)
  | "LessThan" -> OCmp (n_of_int 0) | "LessThanOrEqual" -> OCmp (n_of_int 1)
  | "GreaterThan" -> OCmp (n_of_int 2) | "GreaterThanOrEqual" -> OCmp (n_of_int 3)
  | "Equal" -> OEq | "NotEqual" -> ONeq | "And" -> OAnd | "Or" -> OOr | "StringConcat" -> OConcat
  | s -> raise (Outside ("operator " ^ s))

let rec strip_unused = function
  | [] -> []
  | [A "#unused"] -> []
  | x :: r -> x :: strip_unused r

let rec ty_of = function
  | L [A "hint"; A "Int"] -> TInt
  | L [A "hint"; A "Bool"] -> TBool
  | L [A "hint"; A "String"] -> TStr
  | L [A "hint"; A "Unit"] -> TUnit
  | L [A "hint"; A "List"; L [A "hint"; A "Int"]] -> TListInt
  | L [A "hint"; A "Option"; h] -> TOpt (ty_of h)
  | L [A "hint"; A "Tuple"; h1; h2] -> TPair (ty_of h1, ty_of h2)
  | L [A "nohint"] -> raise (Outside "missing annotation")
  | _ -> raise (Outside "annotation outside the fragment")

let rec conv (funs : string list) (x : sx) : tm =
  match x with
  | L items ->
    (match strip_unused items with
     | [A "int"; A i] -> TmInt (z_of_string i)
     | [A "str"; S s] -> TmStr (chars s)
     | [A "var"; A "True"] -> TmBool true
     | [A "var"; A "False"] -> TmBool false
     | [A "var"; A "None"] -> TmNone
     | [A "call"; L [A "var"; A "Some"]; L [A "args"; a]] -> TmSome (conv funs a)
     | A "match" :: sc :: cases -> TmMatch (conv funs sc, List.map (conv_case funs) cases)
     | [A "for"; L [A "sym"; A x]; it; b] ->
       if x = "_" then raise (Outside "for with _") else TmFor (sym x, conv funs it, conv_block funs b)
     | [A "return"; e] -> TmReturn (conv funs e)
     | [A "tuple"; a; b] -> TmPair (conv funs a, conv funs b)
     | [A "let"; L [A "destructure"; L [A "sym"; A x]; L [A "sym"; A y]]; L [A "nohint"]; e] ->
       if x = "_" || y = "_" then raise (Outside "destructuring with _") else TmLetPair (sym x, sym y, conv funs e)
     | [A "var"; A v] -> if List.mem v funs then raise (Outside "function used as a value") else TmVar (sym v)
     | A "list" :: its -> TmList (List.map (conv funs) its)
     | [A "bin"; A op; l; r] -> TmBin (bop_of op, conv funs l, conv funs r)
     | [A "paren"; e] -> conv funs e
     | [A "call"; L [A "var"; A "println"]; L [A "args"; a]] -> TmPrintln (conv funs a)
     | [A "call"; L [A "var"; A "string_repr"]; L [A "args"; a]] -> TmRepr (conv funs a)
     | [A "call"; L [A "var"; A f]; L (A "args" :: args)] ->
       if List.mem f funs then TmCall (sym f, List.map (conv funs) args) else raise (Outside ("call of " ^ f))
     | [A "let"; L [A "sym"; A v]; L [A "nohint"]; e] -> TmLet (sym v, conv funs e)
     | [A "assign"; L [A "sym"; A v]; e] -> TmAssign (sym v, conv funs e)
     | [A "assignupdate"; A op; L [A "sym"; A v]; e] ->
       if op = "+=" then TmUpd (false, sym v, conv funs e)
       else if op = "-=" then TmUpd (true, sym v, conv funs e) else raise (Outside "update operator")
     | [A "if"; c; t] -> TmIf (conv funs c, conv_block funs t, None)
     | [A "if"; c; t; e] -> TmIf (conv funs c, conv_block funs t, Some (conv_block funs e))
     | [A "while"; c; b] -> TmWhile (conv funs c, conv_block funs b)
     | A k :: _ -> raise (Outside ("expression kind " ^ k))
     | _ -> raise (Outside "expression shape"))
  | _ -> raise (Outside "expected list")

and conv_case funs = function
  | L [A "case"; L [A "sym"; A "Some"]; L [A "sym"; A x]; b] ->
    if x = "_" then raise (Outside "Some(_) pattern") else (PSome (sym x), conv_block funs b)
  | L [A "case"; L [A "sym"; A "None"]; b] -> (PNone, conv_block funs b)
  | _ -> raise (Outside "match pattern outside the fragment")

and conv_block funs = function
  | L (A "block" :: es) -> List.map (conv funs) es
  | _ -> raise (Outside "expected block")

let fun_name = function
  | L [A "fun"; L (A "funinfo" :: L [A "sym"; A nm] :: _)] -> Some nm
  | _ -> None

let conv_program (items : sx list) : program =
  let funs = List.filter_map fun_name items in
  let fds = ref [] and main = ref [] in
  List.iter (fun it ->
      match it with
      | L [A "fun"; L (A "funinfo" :: L [A "sym"; A nm] :: rest)] ->
        let rest = (match rest with L [A "doc"; _] :: r -> r | r -> r) in
        (match rest with
         | [L [A "tparams"]; L (A "params" :: ps); L [A "ret"; rt]; b] ->
           let conv_p = function
             | L [A "p"; L [A "sym"; A x]; h] -> (sym x, ty_of h)
             | _ -> raise (Outside "parameter shape") in
           fds := (sym nm, { fparams = List.map conv_p ps; fret = ty_of rt; fbody = conv_block funs b }) :: !fds
         | _ -> raise (Outside "function shape (type parameters?)"))
      | L (A "block" :: es) -> main := !main @ List.map (conv funs) es
      | L (A ("fun" | "enum" | "struct" | "test" | "import" | "method" | "public") :: _) -> raise (Outside "toplevel item kind")
      | e -> main := !main @ [conv funs e]) items;
  { pfuns = List.rev !fds; pmain = !main }

(* tc <hex sexp items, one per line>  ->  accept | reject | outside:<why> *)
let () = register "tc" (fun args ->
    match args with
    | [hexsrc] ->
      (try
         Hashtbl.reset syms;
         let items = parse_sexps (unhex hexsrc) in
         let p = conv_program items in
         if tc_prog p then "accept" else "reject"
       with Outside why -> "outside:" ^ why)
    | _ -> "error\targs")
